(** Bytes, little-endian fixed-width integers, two's-complement wrap-around.
    A byte is an [N] below 256; byte strings are lists.  Shared by the
    encoding, bloom, CRC and file-layout models. *)
From Coq Require Import List NArith ZArith Lia Bool Arith.
From Coq Require Import ZifyN ZifyNat ZifyBool.
Import ListNotations.
Open Scope N_scope.

Definition bytes := list N.
Definition wf_bytes (l : bytes) : Prop := Forall (fun b => b < 256) l.

(** [to_le n x]: the [n] low bytes of [x], least significant first. *)
Fixpoint to_le (n : nat) (x : N) : bytes :=
  match n with
  | O => []
  | S m => (x mod 256) :: to_le m (x / 256)
  end.

Fixpoint of_le (l : bytes) : N :=
  match l with
  | [] => 0
  | b :: r => b + 256 * of_le r
  end.

Lemma to_le_length n : forall x, length (to_le n x) = n.
Proof. induction n as [|n IH]; intros x; cbn [to_le length]; [reflexivity|]. now rewrite IH. Qed.

Lemma to_le_wf n : forall x, wf_bytes (to_le n x).
Proof.
  induction n as [|n IH]; intros x; cbn [to_le]; constructor.
  - apply N.mod_lt. discriminate.
  - apply IH.
Qed.

Lemma of_le_to_le n : forall x, x < 256 ^ N.of_nat n -> of_le (to_le n x) = x.
Proof.
  induction n as [|n IH]; intros x Hx; cbn [to_le of_le].
  - cbn in Hx. lia.
  - rewrite IH.
    + pose proof (N.div_mod x 256 ltac:(discriminate)). lia.
    + rewrite Nat2N.inj_succ, N.pow_succ_r' in Hx.
      apply N.div_lt_upper_bound; [discriminate|exact Hx].
Qed.

Lemma of_le_bound l : wf_bytes l -> of_le l < 256 ^ N.of_nat (length l).
Proof.
  induction 1 as [|b r Hb Hr IH]; cbn [of_le length].
  - cbn. lia.
  - rewrite Nat2N.inj_succ, N.pow_succ_r'. nia.
Qed.

Lemma to_le_of_le l : wf_bytes l -> to_le (length l) (of_le l) = l.
Proof.
  induction 1 as [|b r Hb Hr IH]; cbn [of_le length to_le]; [reflexivity|].
  assert (E1 : (b + 256 * of_le r) mod 256 = b).
  { rewrite (N.mul_comm 256 (of_le r)), N.mod_add by discriminate. now apply N.mod_small. }
  assert (E2 : (b + 256 * of_le r) / 256 = of_le r).
  { rewrite (N.mul_comm 256 (of_le r)), N.div_add by discriminate.
    rewrite (N.div_small b 256) by exact Hb. lia. }
  now rewrite E1, E2, IH.
Qed.

Lemma of_le_app a b : of_le (a ++ b) = of_le a + 256 ^ N.of_nat (length a) * of_le b.
Proof.
  induction a as [|x a IH]; cbn [app of_le length].
  - change (N.of_nat 0) with 0. rewrite N.pow_0_r. lia.
  - rewrite IH, Nat2N.inj_succ, N.pow_succ_r'. lia.
Qed.

Lemma wf_bytes_app a b : wf_bytes (a ++ b) <-> wf_bytes a /\ wf_bytes b.
Proof. unfold wf_bytes. apply Forall_app. Qed.

(** Two's complement: [wrapZ k z] is the [k]-bit pattern of [z]; [sintZ k n]
    the signed value of a [k]-bit pattern. *)
Definition wrapZ (k : N) (z : Z) : N := Z.to_N (z mod 2 ^ Z.of_N k)%Z.

Definition sintZ (k : N) (n : N) : Z :=
  if n <? 2 ^ (k - 1) then Z.of_N n else (Z.of_N n - 2 ^ Z.of_N k)%Z.

Definition in_sint (k : N) (z : Z) : Prop :=
  (- 2 ^ (Z.of_N k - 1) <= z < 2 ^ (Z.of_N k - 1))%Z.

Lemma wrapZ_lt k z : wrapZ k z < 2 ^ k.
Proof.
  unfold wrapZ.
  assert (H : (0 < 2 ^ Z.of_N k)%Z) by (apply Z.pow_pos_nonneg; lia).
  pose proof (Z.mod_pos_bound z _ H) as Hb.
  apply N2Z.inj_lt. rewrite Z2N.id by lia. rewrite N2Z.inj_pow. cbn. lia.
Qed.

Lemma pow2_split (k : Z) : (0 < k)%Z -> (2 ^ k = 2 * 2 ^ (k - 1))%Z.
Proof. intros H. rewrite <- Z.pow_succ_r by lia. f_equal. lia. Qed.

Lemma sintZ_wrapZ k z : 0 < k -> in_sint k z -> sintZ k (wrapZ k z) = z.
Proof.
  intros Hk [Hlo Hhi]. unfold sintZ, wrapZ.
  assert (Hp : (2 ^ Z.of_N k = 2 * 2 ^ (Z.of_N k - 1))%Z) by (apply pow2_split; lia).
  assert (Hpos : (0 < 2 ^ (Z.of_N k - 1))%Z) by (apply Z.pow_pos_nonneg; lia).
  assert (Hk1 : Z.of_N (2 ^ (k - 1)) = (2 ^ (Z.of_N k - 1))%Z).
  { rewrite N2Z.inj_pow, N2Z.inj_sub by lia. reflexivity. }
  destruct (Z.neg_nonneg_cases z) as [Hneg|Hnn].
  - (* negative: pattern is z + 2^k *)
    assert (E : (z mod 2 ^ Z.of_N k = z + 2 ^ Z.of_N k)%Z).
    { symmetry. apply Z.mod_unique with (q := (-1)%Z); lia. }
    rewrite E. rewrite Z2N.id by lia.
    destruct (N.ltb_spec (Z.to_N (z + 2 ^ Z.of_N k)) (2 ^ (k - 1))) as [H|H].
    + exfalso. apply N2Z.inj_lt in H. rewrite Z2N.id in H by lia. lia.
    + lia.
  - assert (E : (z mod 2 ^ Z.of_N k = z)%Z) by (apply Z.mod_small; lia).
    rewrite E. rewrite Z2N.id by lia.
    destruct (N.ltb_spec (Z.to_N z) (2 ^ (k - 1))) as [H|H].
    + reflexivity.
    + exfalso. apply N2Z.inj_le in H. rewrite Z2N.id in H by lia. lia.
Qed.

Lemma wrapZ_add_mod k a b :
  wrapZ k (Z.of_N (wrapZ k a) + b) = wrapZ k (a + b).
Proof.
  unfold wrapZ. f_equal.
  assert (H : (0 < 2 ^ Z.of_N k)%Z) by (apply Z.pow_pos_nonneg; lia).
  rewrite Z2N.id by (apply Z.mod_pos_bound; exact H).
  rewrite Zplus_mod_idemp_l. reflexivity.
Qed.

Lemma wrapZ_sintZ k n : 0 < k -> n < 2 ^ k -> wrapZ k (sintZ k n) = n.
Proof.
  intros Hk Hn. unfold sintZ, wrapZ.
  assert (Hpz : Z.of_N (2 ^ k) = (2 ^ Z.of_N k)%Z) by (rewrite N2Z.inj_pow; reflexivity).
  assert (Hnz : (0 <= Z.of_N n < 2 ^ Z.of_N k)%Z) by lia.
  destruct (N.ltb_spec n (2 ^ (k - 1))) as [H|H].
  - rewrite Z.mod_small by lia. lia.
  - assert (E : ((Z.of_N n - 2 ^ Z.of_N k) mod 2 ^ Z.of_N k = Z.of_N n)%Z).
    { symmetry. apply Z.mod_unique with (q := (-1)%Z); lia. }
    rewrite E. lia.
Qed.

Lemma sintZ_in_range k n : 0 < k -> n < 2 ^ k -> in_sint k (sintZ k n).
Proof.
  intros Hk Hn. unfold sintZ, in_sint.
  assert (Hp : (2 ^ Z.of_N k = 2 * 2 ^ (Z.of_N k - 1))%Z) by (apply pow2_split; lia).
  assert (Hk1 : Z.of_N (2 ^ (k - 1)) = (2 ^ (Z.of_N k - 1))%Z).
  { rewrite N2Z.inj_pow, N2Z.inj_sub by lia. reflexivity. }
  assert (Hpz : Z.of_N (2 ^ k) = (2 ^ Z.of_N k)%Z) by (rewrite N2Z.inj_pow; reflexivity).
  destruct (N.ltb_spec n (2 ^ (k - 1))) as [H|H]; lia.
Qed.

(** xor of byte strings of equal length (used by CRC / corruption models) *)
Fixpoint xor_bytes (a b : bytes) : bytes :=
  match a, b with
  | x :: a', y :: b' => N.lxor x y :: xor_bytes a' b'
  | _, _ => []
  end.
