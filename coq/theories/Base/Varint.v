(** ULEB128 varints and zig-zag (encoding/binary PutUvarint / PutVarint and the
    decoders used by the DELTA and RLE encodings and by thrift compact). *)
From Coq Require Import List NArith ZArith Lia Bool Arith.
From Coq Require Import ZifyN ZifyNat ZifyBool.
From PQ Require Import Base.Bytes.
Import ListNotations.
Open Scope N_scope.

(** binary.PutUvarint: 7 bits per byte, least significant group first,
    continuation bit 0x80.  [fuel] bounds the number of bytes (10 for uint64). *)
Fixpoint uvarint_enc (fuel : nat) (x : N) : bytes :=
  match fuel with
  | O => [x mod 128]
  | S f => if x <? 128 then [x] else (x mod 128 + 128) :: uvarint_enc f (x / 128)
  end.

Definition uvarint64 (x : N) : bytes := uvarint_enc 9 x.

(** Decoder written from the format: accumulate 7-bit groups until a byte
    below 0x80.  Returns the value and the remaining bytes. *)
Fixpoint uvarint_dec_aux (l : bytes) (shift acc : N) : option (N * bytes) :=
  match l with
  | [] => None
  | b :: r =>
      if b <? 128 then Some (acc + b * 2 ^ shift, r)
      else uvarint_dec_aux r (shift + 7) (acc + (b - 128) * 2 ^ shift)
  end.

Definition uvarint_dec (l : bytes) : option (N * bytes) := uvarint_dec_aux l 0 0.

(** zig-zag (binary.PutVarint): (z << 1) ^ (z >> 63) *)
Definition zigzag (z : Z) : N :=
  if (0 <=? z)%Z then Z.to_N (2 * z) else Z.to_N (- 2 * z - 1).

Definition unzigzag (n : N) : Z :=
  if N.even n then Z.of_N (n / 2) else (- Z.of_N (n / 2) - 1)%Z.

Definition varint64 (z : Z) : bytes := uvarint64 (zigzag z).

Definition varint_dec (l : bytes) : option (Z * bytes) :=
  match uvarint_dec l with
  | Some (n, r) => Some (unzigzag n, r)
  | None => None
  end.

(** * Proofs *)

Lemma uvarint_dec_aux_enc fuel : forall x rest shift acc,
  x < 2 ^ (7 * N.of_nat (S fuel)) ->
  uvarint_dec_aux (uvarint_enc fuel x ++ rest) shift acc = Some (acc + x * 2 ^ shift, rest).
Proof.
  induction fuel as [|f IH]; intros x rest shift acc Hx.
  - cbn [uvarint_enc app uvarint_dec_aux].
    change (7 * N.of_nat 1) with 7 in Hx. change (2 ^ 7) with 128 in Hx.
    rewrite N.mod_small by exact Hx.
    destruct (N.ltb_spec x 128); [reflexivity|lia].
  - cbn [uvarint_enc].
    destruct (N.ltb_spec x 128) as [Hs|Hb].
    + cbn [app uvarint_dec_aux]. destruct (N.ltb_spec x 128); [reflexivity|lia].
    + cbn [app uvarint_dec_aux].
      assert (Hm : x mod 128 < 128) by (apply N.mod_lt; discriminate).
      destruct (N.ltb_spec (x mod 128 + 128) 128) as [H|_]; [lia|].
      rewrite IH.
      * f_equal. f_equal.
        replace (x mod 128 + 128 - 128) with (x mod 128) by lia.
        rewrite N.pow_add_r. change (2 ^ 7) with 128.
        pose proof (N.div_mod x 128 ltac:(discriminate)). nia.
      * apply N.div_lt_upper_bound; [discriminate|].
        replace (7 * N.of_nat (S (S f))) with (7 + 7 * N.of_nat (S f)) in Hx by lia.
        rewrite N.pow_add_r in Hx. change (2 ^ 7) with 128 in Hx. exact Hx.
Qed.

Lemma uvarint_dec_enc fuel x rest :
  x < 2 ^ (7 * N.of_nat (S fuel)) ->
  uvarint_dec (uvarint_enc fuel x ++ rest) = Some (x, rest).
Proof.
  intros Hx. unfold uvarint_dec. rewrite uvarint_dec_aux_enc by exact Hx.
  f_equal. f_equal. rewrite N.pow_0_r. lia.
Qed.

Lemma uvarint64_roundtrip x rest :
  x < 2 ^ 64 -> uvarint_dec (uvarint64 x ++ rest) = Some (x, rest).
Proof.
  intros Hx. apply uvarint_dec_enc.
  eapply N.lt_trans; [exact Hx|]. change (7 * N.of_nat 10) with 70.
  apply N.pow_lt_mono_r; lia.
Qed.

Lemma uvarint_enc_wf fuel : forall x, wf_bytes (uvarint_enc fuel x).
Proof.
  induction fuel as [|f IH]; intros x; cbn [uvarint_enc].
  - constructor; [|constructor]. pose proof (N.mod_lt x 128 ltac:(discriminate)). lia.
  - destruct (N.ltb_spec x 128).
    + constructor; [lia|constructor].
    + constructor; [|apply IH]. pose proof (N.mod_lt x 128 ltac:(discriminate)). lia.
Qed.

Lemma unzigzag_zigzag z : unzigzag (zigzag z) = z.
Proof.
  unfold zigzag, unzigzag.
  destruct (Z.leb_spec 0 z) as [Hz|Hz].
  - assert (E : Z.to_N (2 * z) = 2 * Z.to_N z) by lia.
    rewrite E. rewrite N.even_mul. cbn [N.even orb].
    rewrite N.mul_comm, N.div_mul by discriminate. lia.
  - assert (E : Z.to_N (-2 * z - 1) = 1 + 2 * Z.to_N (- z - 1)) by lia.
    rewrite E. rewrite N.even_add_mul_2. cbn [N.even].
    rewrite (N.mul_comm 2), N.div_add by discriminate. cbn. lia.
Qed.

Lemma zigzag_lt (k : N) z : 0 < k -> in_sint k z -> zigzag z < 2 ^ k.
Proof.
  intros Hk [Hlo Hhi]. unfold zigzag.
  assert (Hp : (2 ^ Z.of_N k = 2 * 2 ^ (Z.of_N k - 1))%Z) by (apply pow2_split; lia).
  assert (Hpz : Z.of_N (2 ^ k) = (2 ^ Z.of_N k)%Z) by (rewrite N2Z.inj_pow; reflexivity).
  destruct (Z.leb_spec 0 z); lia.
Qed.

Lemma varint64_roundtrip z rest :
  in_sint 64 z -> varint_dec (varint64 z ++ rest) = Some (z, rest).
Proof.
  intros Hz. unfold varint_dec, varint64.
  rewrite uvarint64_roundtrip by (apply zigzag_lt; [lia|exact Hz]).
  now rewrite unzigzag_zigzag.
Qed.
