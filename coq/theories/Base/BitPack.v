(** Bit packing, LSB first (the parquet "RLE/bit-packed hybrid" order, also
    used by the DELTA mini-blocks): value [i] of width [w] occupies bits
    [i*w .. i*w+w-1] of the little-endian bit stream.  Packing is phrased
    arithmetically: [pack w vs = sum v_i * 2^(i*w)]. *)
From Coq Require Import List NArith ZArith Lia Bool Arith.
From Coq Require Import ZifyN ZifyNat ZifyBool.
From PQ Require Import Base.Bytes.
Import ListNotations.
Open Scope N_scope.

Fixpoint pack (w : N) (vs : list N) : N :=
  match vs with
  | [] => 0
  | v :: r => v + 2 ^ w * pack w r
  end.

Fixpoint unpack (w : N) (n : nat) (x : N) : list N :=
  match n with
  | O => []
  | S m => (x mod 2 ^ w) :: unpack w m (x / 2 ^ w)
  end.

(** bytes of [n] values of width [w] when [n*w] is a multiple of 8 *)
Definition pack_bytes (w : N) (vs : list N) : bytes :=
  to_le (N.to_nat (w * N.of_nat (length vs) / 8)) (pack w vs).

Definition unpack_bytes (w : N) (n : nat) (b : bytes) : list N :=
  unpack w n (of_le b).

Definition fits (w : N) (vs : list N) : Prop := Forall (fun v => v < 2 ^ w) vs.

Lemma pow2_pos w : 0 < 2 ^ w.
Proof. apply N.neq_0_lt_0, N.pow_nonzero. discriminate. Qed.

Lemma unpack_length w n : forall x, length (unpack w n x) = n.
Proof. induction n as [|n IH]; intros x; cbn [unpack length]; [reflexivity|]. now rewrite IH. Qed.

Lemma unpack_pack w vs : fits w vs -> unpack w (length vs) (pack w vs) = vs.
Proof.
  induction 1 as [|v r Hv Hr IH]; cbn [pack length unpack]; [reflexivity|].
  pose proof (pow2_pos w) as Hp.
  assert (E1 : (v + 2 ^ w * pack w r) mod 2 ^ w = v).
  { rewrite (N.mul_comm (2 ^ w)), N.mod_add by lia. now apply N.mod_small. }
  assert (E2 : (v + 2 ^ w * pack w r) / 2 ^ w = pack w r).
  { rewrite (N.mul_comm (2 ^ w)), N.div_add by lia. rewrite N.div_small by exact Hv. lia. }
  now rewrite E1, E2, IH.
Qed.

Lemma pack_bound w vs : fits w vs -> pack w vs < 2 ^ (w * N.of_nat (length vs)).
Proof.
  induction 1 as [|v r Hv Hr IH]; cbn [pack length].
  - rewrite N.mul_0_r. cbn. lia.
  - rewrite Nat2N.inj_succ, N.mul_succ_r, N.pow_add_r.
    pose proof (pow2_pos w). nia.
Qed.

Lemma unpack_fits w n : forall x, fits w (unpack w n x).
Proof.
  induction n as [|n IH]; intros x; cbn [unpack]; constructor.
  - apply N.mod_lt. pose proof (pow2_pos w). lia.
  - apply IH.
Qed.

Lemma pack_unpack w n : forall x, x < 2 ^ (w * N.of_nat n) -> pack w (unpack w n x) = x.
Proof.
  induction n as [|n IH]; intros x Hx; cbn [unpack pack].
  - rewrite N.mul_0_r in Hx. cbn in Hx. lia.
  - pose proof (pow2_pos w) as Hp.
    rewrite IH.
    + pose proof (N.div_mod x (2 ^ w) ltac:(lia)). lia.
    + rewrite Nat2N.inj_succ, N.mul_succ_r, N.pow_add_r in Hx.
      apply N.div_lt_upper_bound; [lia|]. rewrite N.mul_comm. exact Hx.
Qed.

(** the byte-level round trip used by every bit-packed section *)
Lemma unpack_bytes_pack_bytes w vs :
  fits w vs -> (w * N.of_nat (length vs)) mod 8 = 0 ->
  unpack_bytes w (length vs) (pack_bytes w vs) = vs.
Proof.
  intros Hf Hm. unfold unpack_bytes, pack_bytes.
  rewrite of_le_to_le.
  - now apply unpack_pack.
  - eapply N.lt_le_trans; [apply pack_bound; exact Hf|].
    rewrite N2Nat.id.
    replace 256 with (2 ^ 8) by reflexivity. rewrite <- N.pow_mul_r.
    apply N.pow_le_mono_r; [discriminate|].
    pose proof (N.div_mod (w * N.of_nat (length vs)) 8 ltac:(discriminate)). lia.
Qed.

Lemma pack_bytes_length w vs :
  length (pack_bytes w vs) = N.to_nat (w * N.of_nat (length vs) / 8).
Proof. unfold pack_bytes. apply to_le_length. Qed.

(** packing a group after another group: streams concatenate *)
Lemma pack_app w a b : pack w (a ++ b) = pack w a + 2 ^ (w * N.of_nat (length a)) * pack w b.
Proof.
  induction a as [|x a IH]; cbn [app pack length].
  - change (N.of_nat 0) with 0. rewrite N.mul_0_r, N.pow_0_r. lia.
  - rewrite IH, Nat2N.inj_succ, N.mul_succ_r, N.pow_add_r. lia.
Qed.

(** number of significant bits (math/bits.Len) *)
Definition bitlen (x : N) : N := match x with 0 => 0 | _ => N.log2 x + 1 end.

Lemma bitlen_bound x : x < 2 ^ bitlen x.
Proof.
  unfold bitlen. destruct x as [|p]; [cbn; lia|].
  rewrite N.add_1_r. apply N.log2_spec. lia.
Qed.

Lemma bitlen_le_lt x w : bitlen x <= w -> x < 2 ^ w.
Proof.
  intros H. eapply N.lt_le_trans; [apply bitlen_bound|].
  apply N.pow_le_mono_r; [discriminate|exact H].
Qed.

Lemma bitlen_mono_bound x k : x < 2 ^ k -> bitlen x <= k.
Proof.
  intros H. unfold bitlen. destruct x as [|p]; [lia|].
  assert (N.log2 (N.pos p) < k) by (apply N.log2_lt_pow2; lia). lia.
Qed.
