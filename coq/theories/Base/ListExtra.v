(** List lemmas missing from the 8.16 standard library. *)
From Coq Require Import List Arith Lia.
Import ListNotations.

Lemma firstn_app_exact {A} (a b : list A) : firstn (length a) (a ++ b) = a.
Proof.
  rewrite firstn_app, Nat.sub_diag, firstn_all. cbn [firstn]. apply app_nil_r.
Qed.

Lemma skipn_app_exact {A} (a b : list A) : skipn (length a) (a ++ b) = b.
Proof.
  rewrite skipn_app, Nat.sub_diag, skipn_all. reflexivity.
Qed.

Lemma Forall_firstn {A} (P : A -> Prop) n (l : list A) : Forall P l -> Forall P (firstn n l).
Proof.
  intros H. apply Forall_forall. intros x Hx. rewrite Forall_forall in H. apply H.
  rewrite <- (firstn_skipn n l). apply in_or_app. now left.
Qed.

Lemma Forall_skipn {A} (P : A -> Prop) n (l : list A) : Forall P l -> Forall P (skipn n l).
Proof.
  intros H. apply Forall_forall. intros x Hx. rewrite Forall_forall in H. apply H.
  rewrite <- (firstn_skipn n l). apply in_or_app. now right.
Qed.

Lemma last_nonempty_default {A} (l : list A) d1 d2 : l <> [] -> last l d1 = last l d2.
Proof.
  induction l as [|x l IH]; intros H; [contradiction|].
  destruct l as [|y l']; [reflexivity|].
  change (last (x :: y :: l') d1) with (last (y :: l') d1).
  change (last (x :: y :: l') d2) with (last (y :: l') d2).
  apply IH. discriminate.
Qed.

Lemma last_app_default {A} (a b : list A) d : last (a ++ b) d = last b (last a d).
Proof.
  induction a as [|x a IH]; cbn [app]; [reflexivity|].
  destruct a as [|y a'].
  - cbn [app]. destruct b as [|z b']; [reflexivity|].
    change (last (x :: z :: b') d) with (last (z :: b') d).
    apply last_nonempty_default. discriminate.
  - change (last (x :: (y :: a') ++ b) d) with (last ((y :: a') ++ b) d).
    change (last (x :: y :: a') d) with (last (y :: a') d).
    exact IH.
Qed.

Lemma last_cons {A} (v : A) (a : list A) d : last (v :: a) d = last a v.
Proof.
  destruct a as [|n a']; [reflexivity|].
  change (last (v :: n :: a') d) with (last (n :: a') d).
  apply last_nonempty_default. discriminate.
Qed.

Lemma firstn_app_len {A} n (a b : list A) : length a = n -> firstn n (a ++ b) = a.
Proof. intros <-. apply firstn_app_exact. Qed.

Lemma skipn_app_len {A} n (a b : list A) : length a = n -> skipn n (a ++ b) = b.
Proof. intros <-. apply skipn_app_exact. Qed.

Lemma nth_map' {A B} (f : A -> B) l i d d' : i < length l -> nth i (map f l) d = f (nth i l d').
Proof.
  intros H. rewrite (nth_indep _ d (f d')) by (rewrite map_length; exact H). apply map_nth.
Qed.

Lemma nth_map_seq {A} (f : nat -> A) n i d : i < n -> nth i (map f (seq 0 n)) d = f i.
Proof.
  intros H. rewrite (nth_map' f (seq 0 n) i d 0) by (rewrite seq_length; exact H).
  now rewrite seq_nth.
Qed.
