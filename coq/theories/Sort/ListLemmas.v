(** Facts about [upd], [swapl], [mapi_from] and a few list facts used by the
    proofs about the sorting buffers. *)
From Coq Require Import List ZArith NArith Bool Arith Lia Permutation.
From PQ Require Import Sort.Model.
Import ListNotations.

Section ListLemmas.
  Context {A : Type}.

  Lemma upd_length (l : list A) i x : length (upd l i x) = length l.
  Proof. revert i; induction l; intros [|i]; simpl; auto. Qed.

  Lemma nth_error_upd_eq (l : list A) i x :
    i < length l -> nth_error (upd l i x) i = Some x.
  Proof.
    revert i; induction l; intros [|i] H; simpl in *; try lia; auto.
    apply IHl; lia.
  Qed.

  Lemma nth_error_upd_neq (l : list A) i j x :
    i <> j -> nth_error (upd l i x) j = nth_error l j.
  Proof.
    revert i j; induction l; intros [|i] [|j] H; simpl; auto; try lia.
  Qed.

  Lemma nth_error_upd (l : list A) i j x :
    nth_error (upd l i x) j =
    if Nat.eqb i j then (if Nat.ltb i (length l) then Some x else None) else nth_error l j.
  Proof.
    destruct (Nat.eqb_spec i j) as [->|Hn].
    - destruct (Nat.ltb_spec j (length l)).
      + apply nth_error_upd_eq; auto.
      + apply nth_error_None. rewrite upd_length; auto.
    - apply nth_error_upd_neq; auto.
  Qed.

  Lemma upd_oob (l : list A) i x : length l <= i -> upd l i x = l.
  Proof.
    revert i; induction l; intros [|i] H; simpl in *; auto; try lia.
    f_equal; apply IHl; lia.
  Qed.

  Lemma swapl_length (l : list A) i j : length (swapl l i j) = length l.
  Proof.
    unfold swapl. destruct (nth_error l i), (nth_error l j); auto.
    now rewrite !upd_length.
  Qed.

  (** the index map of an exchange *)
  Definition sw (i j k : nat) : nat :=
    if Nat.eqb k i then j else if Nat.eqb k j then i else k.

  Lemma sw_invol i j k : sw i j (sw i j k) = k.
  Proof.
    unfold sw.
    destruct (Nat.eqb_spec k i); subst.
    - rewrite Nat.eqb_refl. destruct (Nat.eqb_spec j i); subst; auto.
    - destruct (Nat.eqb_spec k j); subst.
      + rewrite Nat.eqb_refl; auto.
      + destruct (Nat.eqb_spec k i); try contradiction.
        destruct (Nat.eqb_spec k j); try contradiction. auto.
  Qed.

  Lemma sw_lt i j k n : i < n -> j < n -> k < n -> sw i j k < n.
  Proof.
    unfold sw; intros. destruct (Nat.eqb k i); auto. destruct (Nat.eqb k j); auto.
  Qed.

  (** [swapl] exchanges exactly the elements at [i] and [j] *)
  Lemma nth_error_swapl (l : list A) i j k :
    i < length l -> j < length l ->
    nth_error (swapl l i j) k = nth_error l (sw i j k).
  Proof.
    intros Hi Hj. unfold swapl, sw.
    destruct (nth_error l i) as [a|] eqn:Ea; [|apply nth_error_None in Ea; lia].
    destruct (nth_error l j) as [b|] eqn:Eb; [|apply nth_error_None in Eb; lia].
    rewrite !nth_error_upd, !upd_length.
    destruct (Nat.ltb_spec i (length l)); try lia.
    destruct (Nat.ltb_spec j (length l)); try lia.
    destruct (Nat.eqb_spec j k), (Nat.eqb_spec i k), (Nat.eqb_spec k i), (Nat.eqb_spec k j);
      subst; try congruence; try lia.
  Qed.

  Lemma swapl_oob (l : list A) i j :
    ~ (i < length l /\ j < length l) -> swapl l i j = l.
  Proof.
    intros H. unfold swapl.
    destruct (nth_error l i) eqn:Ea; auto.
    destruct (nth_error l j) eqn:Eb; auto.
    exfalso; apply H; split; apply nth_error_Some; congruence.
  Qed.

  Lemma nth_error_ext (l1 l2 : list A) :
    (forall k, nth_error l1 k = nth_error l2 k) -> l1 = l2.
  Proof.
    revert l2; induction l1; intros [|b l2] H; auto.
    - specialize (H 0); discriminate.
    - specialize (H 0); discriminate.
    - f_equal.
      + specialize (H 0); simpl in H; congruence.
      + apply IHl1; intros k; apply (H (S k)).
  Qed.

  Lemma upd_perm (t : list A) j (h b : A) :
    nth_error t j = Some b -> Permutation (b :: upd t j h) (h :: t).
  Proof.
    revert j; induction t as [|x t IH]; intros [|j] H; simpl in *; try discriminate.
    - inversion H; subst. apply perm_swap.
    - eapply perm_trans; [apply perm_swap|].
      eapply perm_trans; [apply perm_skip, IH; eauto|]. apply perm_swap.
  Qed.

  Lemma swapl_perm (l : list A) : forall i j, Permutation (swapl l i j) l.
  Proof.
    induction l as [|h t IH]; intros i j.
    - unfold swapl. destruct (nth_error [] i); auto. destruct (nth_error [] j); auto.
    - destruct i as [|i], j as [|j]; unfold swapl; simpl.
      + auto.
      + destruct (nth_error t j) eqn:E; auto. simpl. apply upd_perm; auto.
      + destruct (nth_error t i) eqn:E; auto. simpl. apply upd_perm; auto.
      + specialize (IH i j). unfold swapl in IH.
        destruct (nth_error t i); auto. destruct (nth_error t j); auto.
  Qed.

  Lemma filter_perm (f : A -> bool) (l l' : list A) :
    Permutation l l' -> Permutation (filter f l) (filter f l').
  Proof.
    induction 1; simpl; auto.
    - destruct (f x); auto.
    - destruct (f x), (f y); auto. apply perm_swap.
    - eapply perm_trans; eauto.
  Qed.

  Lemma filter_length_lt (f f' : nat -> bool) (l : list nat) x :
    (forall k, In k l -> f' k = true -> f k = true) ->
    In x l -> f x = true -> f' x = false ->
    length (filter f' l) < length (filter f l).
  Proof.
    induction l as [|a l IH]; intros Himp Hin Hf Hf'; [destruct Hin|].
    assert (Hle : forall l0, (forall k, In k l0 -> f' k = true -> f k = true) ->
                  length (filter f' l0) <= length (filter f l0)).
    { induction l0 as [|c l0 IH0]; intros Hi; simpl; auto.
      assert (Hc := Hi c (or_introl eq_refl)).
      assert (Hr : length (filter f' l0) <= length (filter f l0))
        by (apply IH0; intros; apply Hi; auto; right; auto).
      destruct (f' c) eqn:E1.
      - rewrite Hc; auto. simpl; lia.
      - destruct (f c); simpl; lia. }
    simpl. destruct Hin as [->|Hin].
    - rewrite Hf, Hf'. simpl.
      assert (length (filter f' l) <= length (filter f l))
        by (apply Hle; intros; apply Himp; auto; right; auto). lia.
    - assert (Hlt : length (filter f' l) < length (filter f l))
        by (apply IH; auto; intros; apply Himp; auto; right; auto).
      assert (Ha := Himp a (or_introl eq_refl)).
      destruct (f' a) eqn:E1.
      + rewrite Ha; auto. simpl; lia.
      + destruct (f a); simpl; lia.
  Qed.
End ListLemmas.

Lemma map_upd {A B} (f : A -> B) (l : list A) i x :
  map f (upd l i x) = upd (map f l) i (f x).
Proof. revert i; induction l; intros [|i]; simpl; auto. now rewrite IHl. Qed.

Lemma map_swapl {A B} (f : A -> B) (l : list A) i j :
  map f (swapl l i j) = swapl (map f l) i j.
Proof.
  unfold swapl. rewrite !nth_error_map.
  destruct (nth_error l i), (nth_error l j); simpl; auto.
  now rewrite !map_upd.
Qed.

Lemma combine_upd {A B} (l1 : list A) (l2 : list B) i x y :
  combine (upd l1 i x) (upd l2 i y) = upd (combine l1 l2) i (x, y).
Proof.
  revert l2 i; induction l1; intros [|b l2] [|i]; simpl; auto.
  now rewrite IHl1.
Qed.

Lemma nth_error_combine {A B} (l1 : list A) (l2 : list B) k :
  nth_error (combine l1 l2) k =
  match nth_error l1 k, nth_error l2 k with
  | Some a, Some b => Some (a, b)
  | _, _ => None
  end.
Proof.
  revert l2 k; induction l1; intros [|b l2] [|k]; simpl; auto.
  destruct (nth_error l1 k); auto.
Qed.

Lemma combine_swapl {A B} (l1 : list A) (l2 : list B) i j :
  length l1 = length l2 ->
  combine (swapl l1 i j) (swapl l2 i j) = swapl (combine l1 l2) i j.
Proof.
  intros Hl.
  destruct (Nat.ltb_spec i (length l1)) as [Hi|Hi];
    [destruct (Nat.ltb_spec j (length l1)) as [Hj|Hj]|].
  - apply nth_error_ext; intros k.
    rewrite nth_error_combine, !nth_error_swapl, nth_error_combine; auto; try lia.
    rewrite combine_length; lia. rewrite combine_length; lia.
  - rewrite !swapl_oob; auto; try lia. rewrite combine_length; lia.
  - rewrite !swapl_oob; auto; try lia. rewrite combine_length; lia.
Qed.

Lemma nth_mapi_from {A B} (f : nat -> A -> B) (l : list A) s k d d' :
  k < length l -> nth k (mapi_from f s l) d' = f (s + k) (nth k l d).
Proof.
  revert s k; induction l; intros s [|k] H; simpl in *; try lia.
  - f_equal; lia.
  - rewrite IHl by lia. f_equal; lia.
Qed.

Lemma mapi_from_length {A B} (f : nat -> A -> B) (l : list A) s :
  length (mapi_from f s l) = length l.
Proof. revert s; induction l; intros; simpl; auto. Qed.

Lemma nth_swapl {A} (l : list A) i j k d :
  i < length l -> j < length l -> nth k (swapl l i j) d = nth (sw i j k) l d.
Proof.
  intros Hi Hj.
  assert (H := nth_error_swapl l i j k Hi Hj).
  destruct (Nat.ltb_spec k (length l)) as [Hk|Hk].
  - assert (Hs : sw i j k < length l) by (apply sw_lt; auto).
    rewrite (nth_error_nth' (swapl l i j) d) in H by (rewrite swapl_length; auto).
    rewrite (nth_error_nth' l d) in H by auto. congruence.
  - rewrite !nth_overflow; auto.
    + unfold sw. destruct (Nat.eqb_spec k i); try lia. destruct (Nat.eqb_spec k j); try lia.
    + rewrite swapl_length; auto.
Qed.

Lemma combine_app' {A B} (l1 l1' : list A) (l2 l2' : list B) :
  length l1 = length l2 ->
  combine (l1 ++ l1') (l2 ++ l2') = combine l1 l2 ++ combine l1' l2'.
Proof.
  revert l2; induction l1; intros [|b l2] H; simpl in *; try discriminate; auto.
  f_equal. apply IHl1. lia.
Qed.

Lemma filter_len_le {A} (f : A -> bool) (l : list A) : length (filter f l) <= length l.
Proof. induction l; simpl; auto. destruct (f a); simpl; lia. Qed.
