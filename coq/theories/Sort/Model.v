(** Model of the sorting buffers of parquet-go.  Executable; proofs are in
    Sort/ListLemmas.v, Sort/ColProofs.v, Sort/CmpProofs.v so that the model
    still extracts and runs when a proof breaks.

    Go sources mirrored here:
      column_buffer_optional.go   optionalColumnBuffer (WriteValues, writeValues,
                                  Less, Swap, Page with the cyclic reorder)
      column_buffer.go            nullsGoFirst / nullsGoLast, reversedColumnBuffer
      column_buffer_amd64.go      broadcastRangeInt32 (vector kernel for runs >= 8
                                  and the scalar loop compute the same range)
      buffer.go                   Buffer.configure, Buffer.Less, Buffer.Swap,
                                  Buffer.WriteRows
      compare.go                  CompareDescending, CompareNullsFirst/Last,
                                  compareRowsFuncOfColumnValues

    A value written to a column is [WVal v] (definition level = max) or
    [WNull d] (definition level d <> max).  A logical cell is the pair of the
    option value and the definition level of a row of one column. *)
From Coq Require Import List ZArith NArith Bool Arith.
From PQ Require Search.Model.
Import ListNotations.

(** * List helpers: in-place update and exchange of two positions *)
Section ListOps.
  Context {A : Type}.

  Fixpoint upd (l : list A) (i : nat) (x : A) : list A :=
    match l, i with
    | [], _ => []
    | _ :: t, O => x :: t
    | h :: t, S i' => h :: upd t i' x
    end.

  (* l[i], l[j] = l[j], l[i]  (out of range: Go panics; the model leaves l) *)
  Definition swapl (l : list A) (i j : nat) : list A :=
    match nth_error l i, nth_error l j with
    | Some a, Some b => upd (upd l i b) j a
    | _, _ => l
    end.

  Fixpoint mapi_from {B : Type} (f : nat -> A -> B) (k : nat) (l : list A) : list B :=
    match l with
    | [] => []
    | a :: t => f k a :: mapi_from f (S k) t
    end.
End ListOps.

Section Sort.
  Variable V : Type.
  (* Less of the base (non-null) column buffer on two of its values, e.g.
     int64ColumnBuffer.Less = values[i] < values[j] *)
  Variable lt : V -> V -> bool.
  (* Type.Compare of the column type *)
  Variable cmp : V -> V -> Z.

  Inductive wval := WNull (d : N) | WVal (v : V).
  Definition cell := (option V * N)%type.
  Definition dcell : cell := (None, 0%N).

  (** * optionalColumnBuffer *)
  Record ocol := mkOcol {
    base : list V;          (* non-null values, in base order *)
    rows : list Z;          (* row -> index into base, -1 for null *)
    deflevels : list N;     (* definition level of each row *)
    maxdef : N;
    nulls_first : bool;     (* nullOrdering: true = nullsGoFirst, false = nullsGoLast *)
    reordered : bool
  }.

  Definition new_ocol (md : N) (nf : bool) : ocol := mkOcol [] [] [] md nf false.

  (* WriteValues: the Go loop alternates runs of nulls (append -1 and the
     level for each) and runs of non-nulls (base.WriteValues(run), then the
     level max and rowIndex, rowIndex+1, ... for each); per value that is: *)
  Fixpoint write_values_from (b : list V) (r : list Z) (dl : list N) (md : N)
           (rowIndex : Z) (vs : list wval) : list V * list Z * list N :=
    match vs with
    | [] => (b, r, dl)
    | WNull d :: t => write_values_from b (r ++ [(-1)%Z]) (dl ++ [d]) md rowIndex t
    | WVal v :: t => write_values_from (b ++ [v]) (r ++ [rowIndex]) (dl ++ [md]) md (rowIndex + 1)%Z t
    end.

  Definition write_values (c : ocol) (vs : list wval) : ocol :=
    match write_values_from (base c) (rows c) (deflevels c) (maxdef c)
                            (Z.of_nat (length (base c))) vs with
    | (b, r, dl) => mkOcol b r dl (maxdef c) (nulls_first c) (reordered c)
    end.

  (* broadcastRangeInt32(dst, base): dst[i] = base + i (AVX2 kernel when
     len(dst) >= 8, scalar loop otherwise) *)
  Definition broadcast_range (n : nat) (b : Z) : list Z :=
    map (fun i => (b + Z.of_nat i)%Z) (seq 0 n).

  (* writeValues(levels, rows sparse.Array): the typed write path hands the
     column one run of rows that share a definition level *)
  Inductive run := RNull (d : N) (count : nat) | RVals (vs : list V).

  Definition write_run (c : ocol) (r : run) : ocol :=
    match r with
    | RNull d O =>
        (* rows.Len() == 0: one null row *)
        mkOcol (base c) (rows c ++ [(-1)%Z]) (deflevels c ++ [d]) (maxdef c) (nulls_first c) (reordered c)
    | RNull d n =>
        (* broadcastValueInt32(rows[i:], -1) *)
        mkOcol (base c) (rows c ++ repeat (-1)%Z n) (deflevels c ++ repeat d n)
               (maxdef c) (nulls_first c) (reordered c)
    | RVals [] =>
        mkOcol (base c) (rows c ++ [(-1)%Z]) (deflevels c ++ [maxdef c]) (maxdef c) (nulls_first c) (reordered c)
    | RVals vs =>
        mkOcol (base c ++ vs)
               (rows c ++ broadcast_range (length vs) (Z.of_nat (length (base c))))
               (deflevels c ++ repeat (maxdef c) (length vs))
               (maxdef c) (nulls_first c) (reordered c)
    end.

  (* the maximal runs of a batch (writeRowsFuncOfOptional cuts the rows at the
     null / non-null boundaries) *)
  Fixpoint runs_of (vs : list wval) : list run :=
    match vs with
    | [] => []
    | WNull d :: t =>
        match runs_of t with
        | RNull d' n :: rest => if (N.eqb d d' && negb (Nat.eqb n 0))%bool then RNull d (S n) :: rest
                                else RNull d 1 :: RNull d' n :: rest
        | rest => RNull d 1 :: rest
        end
    | WVal v :: t =>
        match runs_of t with
        | RVals vs' :: rest => RVals (v :: vs') :: rest
        | rest => RVals [v] :: rest
        end
    end.

  Definition write_typed (c : ocol) (vs : list wval) : ocol :=
    fold_left write_run (runs_of vs) c.

  (* column_buffer.go *)
  Definition base_less (b : list V) (i j : Z) : bool :=
    match nth_error b (Z.to_nat i), nth_error b (Z.to_nat j) with
    | Some x, Some y => lt x y
    | _, _ => false
    end.

  Definition nulls_go_first (b : list V) (i j : Z) (md d1 d2 : N) : bool :=
    if negb (N.eqb d1 md) then N.eqb d2 md
    else N.eqb d2 md && base_less b i j.

  Definition nulls_go_last (b : list V) (i j : Z) (md d1 d2 : N) : bool :=
    N.eqb d1 md && (negb (N.eqb d2 md) || base_less b i j).

  (* optionalColumnBuffer.Less *)
  Definition ocol_less (c : ocol) (i j : nat) : bool :=
    (if nulls_first c then nulls_go_first else nulls_go_last)
      (base c) (nth i (rows c) (-1)%Z) (nth j (rows c) (-1)%Z) (maxdef c)
      (nth i (deflevels c) 0%N) (nth j (deflevels c) 0%N).

  (* optionalColumnBuffer.Swap *)
  Definition ocol_swap (c : ocol) (i j : nat) : ocol :=
    mkOcol (base c) (swapl (rows c) i j) (swapl (deflevels c) i j) (maxdef c) (nulls_first c) true.

  Definition nonneg (r : Z) : bool := (0 <=? r)%Z.

  (* Page: "for _, j := range rows { if j >= 0 { sortIndex[j] = i; i++ } }" *)
  Fixpoint fill_sort_index (s : list nat) (i : nat) (r : list Z) : list nat :=
    match r with
    | [] => s
    | j :: t => if nonneg j then fill_sort_index (upd s (Z.to_nat j) i) (S i) t
                else fill_sort_index s i t
    end.

  (* Page: the cyclic sort
       for i := range sortIndex {
         for j := int(sortIndex[i]); i != j; j = int(sortIndex[i]) {
           col.base.Swap(i, j); sortIndex[i], sortIndex[j] = sortIndex[j], sortIndex[i] } }
     as one loop: i advances when sortIndex[i] == i *)
  Fixpoint cyclic (fuel : nat) (i : nat) (b : list V) (s : list nat) : list V * list nat :=
    match fuel with
    | O => (b, s)
    | S f =>
        match nth_error s i with
        | None => (b, s)
        | Some j => if Nat.eqb i j then cyclic f (S i) b s
                    else cyclic f i (swapl b i j) (swapl s i j)
        end
    end.

  (* Page: "for k, r := range rows { if r >= 0 { rows[k] = int32(i); i++ } }" *)
  Fixpoint renumber (i : Z) (r : list Z) : list Z :=
    match r with
    | [] => []
    | x :: t => if nonneg x then i :: renumber (i + 1)%Z t else x :: renumber i t
    end.

  Definition count_nulls (md : N) (dl : list N) : nat :=
    length (filter (fun d => negb (N.eqb d md)) dl).

  Definition reorder_base (c : ocol) : list V :=
    let numValues := (length (rows c) - count_nulls (maxdef c) (deflevels c))%nat in
    if (0 <? numValues)%nat then
      let s := fill_sort_index (repeat 0%nat numValues) 0%nat (rows c) in
      fst (cyclic (2 * numValues + 1) 0%nat (base c) s)
    else base c.

  (* the state after Page *)
  Definition ocol_page (c : ocol) : ocol :=
    if reordered c then
      mkOcol (reorder_base c) (renumber 0%Z (rows c)) (deflevels c) (maxdef c) (nulls_first c) false
    else c.

  (* newOptionalPage(base.Page(), maxDefinitionLevel, definitionLevels): the
     page reads the base values sequentially, one for each level == max *)
  Fixpoint page_values (md : N) (dl : list N) (b : list V) : list cell :=
    match dl with
    | [] => []
    | d :: t =>
        if N.eqb d md then
          match b with
          | v :: b' => (Some v, d) :: page_values md t b'
          | [] => (None, d) :: page_values md t []
          end
        else (None, d) :: page_values md t b
    end.

  Definition ocol_page_values (c : ocol) : list cell :=
    let c' := ocol_page c in page_values (maxdef c') (deflevels c') (base c').

  (* the logical content: each row read through rows / base *)
  Definition lookup (b : list V) (r : Z) : option V :=
    if (r <? 0)%Z then None else nth_error b (Z.to_nat r).

  Definition ocol_cells (c : ocol) : list cell :=
    map (fun rd => (lookup (base c) (fst rd), snd rd)) (combine (rows c) (deflevels c)).

  (** The Page of the tree before commit 61e14ff: the renumbering wrote at the
      non-null counter, "for _, r := range rows { if r >= 0 { rows[i] = i; i++ } }" *)
  Fixpoint renumber_pinned (ks : list nat) (r : list Z) (i : nat) : list Z :=
    match ks with
    | [] => r
    | k :: t => if nonneg (nth k r (-1)%Z) then renumber_pinned t (upd r i (Z.of_nat i)) (S i)
                else renumber_pinned t r i
    end.

  Definition ocol_page_pinned (c : ocol) : ocol :=
    if reordered c then
      mkOcol (reorder_base c) (renumber_pinned (seq 0 (length (rows c))) (rows c) 0%nat)
             (deflevels c) (maxdef c) (nulls_first c) false
    else c.

  (** * Columns of a buffer: required (plain base buffer) or optional *)
  Inductive col := CReq (vals : list V) | COpt (c : ocol).

  Definition wvals_values (vs : list wval) : list V :=
    flat_map (fun w => match w with WVal v => [v] | WNull _ => [] end) vs.

  Definition col_write (typed : bool) (c : col) (vs : list wval) : col :=
    match c with
    | CReq vals => CReq (vals ++ wvals_values vs)
    | COpt o => COpt (if typed then write_typed o vs else write_values o vs)
    end.

  Definition col_less (c : col) (i j : nat) : bool :=
    match c with
    | CReq vals => match nth_error vals i, nth_error vals j with
                   | Some x, Some y => lt x y
                   | _, _ => false
                   end
    | COpt o => ocol_less o i j
    end.

  Definition col_swap (c : col) (i j : nat) : col :=
    match c with
    | CReq vals => CReq (swapl vals i j)
    | COpt o => COpt (ocol_swap o i j)
    end.

  Definition col_page (c : col) : col :=
    match c with CReq _ => c | COpt o => COpt (ocol_page o) end.

  Definition col_page_values (c : col) : list cell :=
    match c with
    | CReq vals => map (fun v => (Some v, 0%N)) vals
    | COpt o => ocol_page_values o
    end.

  Definition col_cells (c : col) : list cell :=
    match c with
    | CReq vals => map (fun v => (Some v, 0%N)) vals
    | COpt o => ocol_cells o
    end.

  Definition col_len (c : col) : nat :=
    match c with CReq vals => length vals | COpt o => length (rows o) end.

  (** * Buffer *)
  (* a leaf of the schema: max definition level (0 = required) *)
  (* a leaf of the schema is given by its max definition level (0 = required) *)
  (* a sorting column: leaf index, descending, nulls first *)
  Record sortcol := mkSortcol { sc_col : nat; sc_desc : bool; sc_nf : bool }.

  Record buffer := mkBuffer {
    columns : list col;
    sorted : list (nat * bool)   (* column index, wrapped in reversedColumnBuffer *)
  }.

  (* searchSortingColumn: the first sorting column naming the leaf *)
  Definition search_sorting (sorting : list sortcol) (k : nat) : option sortcol :=
    List.find (fun s => Nat.eqb (sc_col s) k) sorting.

  (* Buffer.configure: the null ordering handed to the column is inverted
     for descending columns (they are wrapped in a reversedColumnBuffer) *)
  Definition null_ordering (sorting : list sortcol) (k : nat) : bool :=
    match search_sorting sorting k with
    | Some s => xorb (sc_nf s) (sc_desc s)
    | None => false
    end.

  Definition configure (schema : list N) (sorting : list sortcol) : buffer :=
    mkBuffer
      (mapi_from (fun k md => if N.eqb md 0 then CReq [] else COpt (new_ocol md (null_ordering sorting k)))
                 0%nat schema)
      (map (fun s => (sc_col s, sc_desc s)) sorting).

  Definition dcol : col := CReq [].

  (* reversedColumnBuffer.Less *)
  Definition sorted_less (cols : list col) (s : nat * bool) (i j : nat) : bool :=
    if snd s then col_less (nth (fst s) cols dcol) j i else col_less (nth (fst s) cols dcol) i j.

  (* Buffer.Less *)
  Fixpoint less_by (cols : list col) (ss : list (nat * bool)) (i j : nat) : bool :=
    match ss with
    | [] => false
    | s :: t => if sorted_less cols s i j then true
                else if sorted_less cols s j i then false
                else less_by cols t i j
    end.

  Definition buffer_less (b : buffer) (i j : nat) : bool := less_by (columns b) (sorted b) i j.

  Definition buffer_swap (b : buffer) (i j : nat) : buffer :=
    mkBuffer (map (fun c => col_swap c i j) (columns b)) (sorted b).

  Definition buffer_len (b : buffer) : nat :=
    match columns b with [] => O | c :: _ => col_len c end.

  (* Buffer.WriteRows: the values of each row are distributed to the columns *)
  Definition column_batch (k : nat) (batch : list (list wval)) : list wval :=
    map (fun row => nth k row (WNull 0)) batch.

  Definition buffer_write (typed : bool) (b : buffer) (batch : list (list wval)) : buffer :=
    mkBuffer (mapi_from (fun k c => col_write typed c (column_batch k batch)) 0%nat (columns b)) (sorted b).

  (* reading the rows (Buffer.Rows) materialises every column's page *)
  Definition buffer_page (b : buffer) : buffer :=
    mkBuffer (map col_page (columns b)) (sorted b).

  (* the column-level API: ColumnBuffers()[k].Page() (and Pages(), ColumnChunks()[k].Pages(),
     ReadValuesAt on a column with a pending reorder) materialises column k alone; the other
     columns keep their row -> value maps.  ColumnBuffers()[k].Clone() copies every field of the
     column (the flag reordered included): a clone is the column itself in this model. *)
  Definition buffer_page_col (b : buffer) (k : nat) : buffer :=
    mkBuffer (mapi_from (fun i c => if Nat.eqb i k then col_page c else c) 0%nat (columns b)) (sorted b).

  (* optionalColumnBuffer.ReadValuesAt(values, offset) with len(values) = n (commits f16d85f, 0e9a630):
       if col.reordered { col.Page() }
       length := len(definitionLevels) - offset; if len(values) < length { length = len(values) }
       numNulls1 := nulls of definitionLevels[:offset]
       numNulls2 := nulls of definitionLevels[offset:offset+length]
       base.ReadValuesAt(values[:length-numNulls2], offset-numNulls1)
     then, from the end of the window, a value moves to each position whose level is the maximum
     and the other positions become nulls of their level: the window of the levels is read like a
     page whose base starts at offset-numNulls1.  The state after the call is the state after Page. *)
  Definition ocol_read_values_at (c : ocol) (off n : nat) : ocol * list cell :=
    let c' := ocol_page c in
    let dl := deflevels c' in
    let len := Nat.min n (length dl - off) in
    let nulls1 := count_nulls (maxdef c') (firstn off dl) in
    (c', page_values (maxdef c') (firstn len (skipn off dl)) (skipn (off - nulls1) (base c'))).

  (** ReadValuesAt of the tree before commit 0e9a630: the base values are read where they
      are, also when the rows were exchanged since the last Page *)
  Definition ocol_read_values_at_pinned (c : ocol) (off n : nat) : list cell :=
    let dl := deflevels c in
    let len := Nat.min n (length dl - off) in
    let nulls1 := count_nulls (maxdef c) (firstn off dl) in
    page_values (maxdef c) (firstn len (skipn off dl)) (skipn (off - nulls1) (base c)).

  Definition col_read_values_at (c : col) (off n : nat) : col * list cell :=
    match c with
    | CReq vals => (c, map (fun v => (Some v, 0%N)) (firstn n (skipn off vals)))
    | COpt o => (COpt (fst (ocol_read_values_at o off n)), snd (ocol_read_values_at o off n))
    end.

  (* what ColumnBuffers()[k].ReadValuesAt(values[:n], off) delivers; the buffer afterwards is
     buffer_page_col b k *)
  Definition buffer_read_values_at (b : buffer) (k off n : nat) : list cell :=
    snd (col_read_values_at (nth k (columns b) dcol) off n).

  Inductive op :=
  | OWrite (typed : bool) (batch : list (list wval))
  | OSwap (i j : nat)
  | OPage
  | OPageCol (k : nat).

  Definition apply_op (b : buffer) (o : op) : buffer :=
    match o with
    | OWrite typed batch => buffer_write typed b batch
    | OSwap i j => buffer_swap b i j
    | OPage => buffer_page b
    | OPageCol k => buffer_page_col b k
    end.

  Definition run_ops (b : buffer) (ops : list op) : buffer := fold_left apply_op ops b.

  Definition row := list cell.

  Definition buffer_row (b : buffer) (i : nat) : row :=
    map (fun c => nth i (col_cells c) dcell) (columns b).

  Definition buffer_rows (b : buffer) : list row :=
    map (buffer_row b) (seq 0 (buffer_len b)).

  (* what a reader of the pages sees *)
  Definition buffer_page_rows (b : buffer) : list row :=
    map (fun i => map (fun c => nth i (col_page_values c) dcell) (columns b))
        (seq 0 (buffer_len b)).

  (** * compare.go: the row comparator *)
  Definition cmp_raw (a b : option V) : Z :=
    match a, b with
    | Some x, Some y => cmp x y
    | _, _ => 0%Z
    end.

  (* CompareDescending *)
  Definition cmp_desc (c : option V -> option V -> Z) (a b : option V) : Z := (- c a b)%Z.

  (* CompareNullsFirst / CompareNullsLast *)
  Definition cmp_nf (c : option V -> option V -> Z) (a b : option V) : Z :=
    match a, b with
    | None, None => 0%Z
    | None, Some _ => (-1)%Z
    | Some _, None => 1%Z
    | Some _, Some _ => c a b
    end.

  Definition cmp_nl (c : option V -> option V -> Z) (a b : option V) : Z :=
    match a, b with
    | None, None => 0%Z
    | None, Some _ => 1%Z
    | Some _, None => (-1)%Z
    | Some _, Some _ => c a b
    end.

  (* compareRowsFuncOfColumnValues, set-up of one sorting column: compare :=
     Type.Compare; if Descending: CompareDescending; if maxDefinitionLevel > 0:
     CompareNullsFirst or CompareNullsLast *)
  Definition cmp_col (optional desc nf : bool) : option V -> option V -> Z :=
    let c0 := cmp_raw in
    let c1 := if desc then cmp_desc c0 else c0 in
    if optional then (if nf then cmp_nf c1 else cmp_nl c1) else c1.

  (* the comparison loop: first sorting column whose values differ *)
  Fixpoint compare_rows (schema : list N) (sorting : list sortcol) (r1 r2 : row) : Z :=
    match sorting with
    | [] => 0%Z
    | s :: t =>
        let k := sc_col s in
        let c := cmp_col (negb (N.eqb (nth k schema 0%N) 0)) (sc_desc s) (sc_nf s)
                         (fst (nth k r1 dcell)) (fst (nth k r2 dcell)) in
        if (c =? 0)%Z then compare_rows schema t r1 r2 else c
    end.

  (** The configure of the tree before commit 6fbdd78: the null ordering was
      taken from the sorting column as declared, also for descending columns. *)
  Definition null_ordering_pinned (sorting : list sortcol) (k : nat) : bool :=
    match search_sorting sorting k with
    | Some s => sc_nf s
    | None => false
    end.

  Definition configure_pinned (schema : list N) (sorting : list sortcol) : buffer :=
    mkBuffer
      (mapi_from (fun k md => if N.eqb md 0 then CReq [] else COpt (new_ocol md (null_ordering_pinned sorting k)))
                 0%nat schema)
      (map (fun s => (sc_col s, sc_desc s)) sorting).

  (* the buffer of the tree before commit 61e14ff *)
  Definition col_page_pinned (c : col) : col :=
    match c with CReq _ => c | COpt o => COpt (ocol_page_pinned o) end.
End Sort.

Arguments WNull {V}.
Arguments WVal {V}.
Arguments RNull {V}.
Arguments RVals {V}.
Arguments CReq {V}.
Arguments COpt {V}.
Arguments OWrite {V}.
Arguments OSwap {V}.
Arguments OPage {V}.
Arguments OPageCol {V}.
Arguments mkOcol {V}.
Arguments base {V}.
Arguments rows {V}.
Arguments deflevels {V}.
Arguments maxdef {V}.
Arguments nulls_first {V}.
Arguments reordered {V}.
Arguments mkBuffer {V}.
Arguments columns {V}.
Arguments sorted {V}.

(** * The value type of the oracle: INT64 and BYTE_ARRAY columns *)
Inductive sval := VI (z : Z) | VB (b : list N).

Definition cmp_sval (a b : sval) : Z :=
  match a, b with
  | VI x, VI y => Search.Model.cmpZ x y
  | VB x, VB y => Search.Model.cmp_bytes x y
  | VI _, VB _ => (-1)%Z
  | VB _, VI _ => 1%Z
  end.

(* int64ColumnBuffer.Less: values[i] < values[j];
   byteArrayColumnBuffer.Less: bytes.Compare(...) < 0 *)
Definition lt_sval (a b : sval) : bool :=
  match a, b with
  | VI x, VI y => (x <? y)%Z
  | VB x, VB y => (Search.Model.cmp_bytes x y <? 0)%Z
  | VI _, VB _ => true
  | VB _, VI _ => false
  end.

(** Entry point of the oracle: configure, run the history, report the logical
    rows, what a reader of the pages sees after Page, and the Less matrix. *)
Definition less_matrix (b : buffer sval) : list (list bool) :=
  let n := buffer_len sval b in
  map (fun i => map (fun j => buffer_less sval lt_sval b i j) (seq 0 n)) (seq 0 n).

Definition cmp_matrix (schema : list N) (sorting : list sortcol) (rs : list (row sval)) : list (list Z) :=
  map (fun r1 => map (fun r2 => compare_rows sval cmp_sval schema sorting r1 r2) rs) rs.

Definition c10_state (pinned_order pinned_page : bool) (schema : list N) (sorting : list sortcol)
           (ops : list (op sval)) : buffer sval :=
  let b0 := if pinned_order then configure_pinned sval schema sorting else configure sval schema sorting in
  let step b o :=
    match o with
    | OPage => if pinned_page then mkBuffer (map (col_page_pinned sval) (columns b)) (sorted b)
               else buffer_page sval b
    | _ => apply_op sval b o
    end in
  fold_left step ops b0.

Definition c10_run (pinned_order pinned_page : bool) (schema : list N) (sorting : list sortcol)
           (ops : list (op sval))
  : list (row sval) * list (row sval) * list (list bool) * list (list Z) :=
  let b := c10_state pinned_order pinned_page schema sorting ops in
  let rs := buffer_rows sval b in
  (rs, buffer_page_rows sval b, less_matrix b, cmp_matrix schema sorting rs).

(** ColumnBuffers()[k].ReadValuesAt(values[:n], off) after the history. *)
Definition c10_read_at (schema : list N) (sorting : list sortcol) (ops : list (op sval))
           (k off n : nat) : list (cell sval) :=
  buffer_read_values_at sval (c10_state false false schema sorting ops) k off n.
