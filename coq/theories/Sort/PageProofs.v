(** Proofs about optionalColumnBuffer.Page: the cyclic sort moves each base
    value to the position of its row, the renumbering keeps the row -> value
    map, and the page (read sequentially) shows the logical content. *)
From Coq Require Import List ZArith NArith Bool Arith Lia Permutation.
From PQ Require Import Sort.Model Sort.ListLemmas Sort.ColProofs.
Import ListNotations.

Section PageProofs.
  Variable V : Type.

  (** ** number of values *)
  Lemma count_nulls_spec md r dl :
    Forall2 (rd_ok md) r dl -> length (nn r) + count_nulls md dl = length r.
  Proof.
    unfold nn, count_nulls. induction 1 as [|x d r dl Hrd H IH]; simpl; auto.
    destruct Hrd as [[-> Hd]|[Hx ->]].
    - simpl. destruct (N.eqb_spec d md); try contradiction. simpl. lia.
    - replace (nonneg x) with true by (symmetry; apply Z.leb_le; auto).
      rewrite N.eqb_refl. simpl. lia.
  Qed.

  (** ** the sort index *)
  Lemma fill_spec r : forall s i,
    NoDup (nn r) -> (forall p, In p (nn r) -> p < length s) ->
    length (fill_sort_index s i r) = length s /\
    (forall t, t < length (nn r) ->
               nth_error (fill_sort_index s i r) (nth t (nn r) 0) = Some (i + t)) /\
    (forall p, ~ In p (nn r) -> nth_error (fill_sort_index s i r) p = nth_error s p).
  Proof.
    induction r as [|x r IH]; intros s i Hnd Hb; simpl.
    - split; auto. split; auto. intros t Ht; simpl in Ht; lia.
    - unfold nn in *. simpl in *. destruct (nonneg x) eqn:Ex; simpl in *.
      + inversion Hnd as [|? ? Hnotin Hnd']; subst.
        destruct (IH (upd s (Z.to_nat x) i) (S i) Hnd') as (Hl & Hv & Ho).
        { intros p Hp. rewrite upd_length. apply Hb; auto. }
        rewrite upd_length in Hl. split; auto. split.
        * intros [|t] Ht.
          -- rewrite Ho by auto. rewrite nth_error_upd_eq; [f_equal; lia|apply Hb; auto].
          -- rewrite Hv by lia. f_equal; lia.
        * intros p Hp. rewrite Ho by (intros Hin; apply Hp; auto).
          apply nth_error_upd_neq. intros E; apply Hp; auto.
      + apply IH; auto.
  Qed.

  (** ** the cyclic sort *)
  Section Cyclic.
    Variable b0 : list V.
    Variable s0 : list nat.
    Let n := length b0.

    Definition inj_on (s : list nat) : Prop :=
      forall a c x, a < n -> c < n -> nth_error s a = Some x -> nth_error s c = Some x -> a = c.
    Definition bounded (s : list nat) : Prop :=
      forall a x, nth_error s a = Some x -> x < n.

    Hypothesis Hlen : length s0 = n.
    Hypothesis Hinj : inj_on s0.
    Hypothesis Hbnd : bounded s0.

    Definition cinv (i : nat) (b : list V) (s : list nat) : Prop :=
      length b = n /\ length s = n /\ i <= n /\ inj_on s /\ bounded s /\
      (forall k, k < n -> exists p, p < n /\ nth_error b k = nth_error b0 p /\
                                    nth_error s k = nth_error s0 p) /\
      (forall k, k < i -> nth_error s k = Some k).

    Definition nfx (s : list nat) (k : nat) : bool :=
      match nth_error s k with Some x => negb (Nat.eqb x k) | None => false end.
    Definition nonfixed (s : list nat) : nat := length (filter (nfx s) (seq 0 n)).

    Lemma cyclic_inv fuel : forall i b s,
      cinv i b s -> (n - i) + nonfixed s < fuel ->
      cinv n (fst (cyclic V fuel i b s)) (snd (cyclic V fuel i b s)).
    Proof.
      induction fuel as [|f IH]; intros i b s Hc Hm; [lia|].
      destruct Hc as (Hlb & Hls & Hi & Hin & Hbd & Hct & Hfx).
      simpl. destruct (nth_error s i) as [j|] eqn:Ej.
      - assert (Hin' : i < n) by (rewrite <- Hls; apply nth_error_Some; congruence).
        assert (Hj : j < n) by (eapply Hbd; eauto).
        destruct (Nat.eqb_spec i j) as [->|Hne].
        + apply IH; [|lia]. repeat split; auto; try lia.
          intros k Hk. destruct (Nat.eq_dec k j) as [->|]; auto. apply Hfx; lia.
        + assert (Hsj : nth_error s j <> Some j).
          { intros E. apply Hne. eapply Hin; eauto. }
          assert (Hnf : forall k, k < i -> sw i j k = k).
          { intros k Hk. unfold sw. destruct (Nat.eqb_spec k i); try lia.
            destruct (Nat.eqb_spec k j); auto. subst. exfalso. apply Hsj. apply Hfx; auto. }
          assert (Hs' : forall k, nth_error (swapl s i j) k = nth_error s (sw i j k))
            by (intros; apply nth_error_swapl; lia).
          assert (Hb' : forall k, nth_error (swapl b i j) k = nth_error b (sw i j k))
            by (intros; apply nth_error_swapl; lia).
          apply IH.
          * split; [rewrite swapl_length; auto|]. split; [rewrite swapl_length; auto|].
            split; auto. split; [|split; [|split]].
            -- intros a c x Ha Hc0 E1 E2. rewrite Hs' in E1, E2.
               assert (sw i j a = sw i j c) by (eapply Hin; eauto; apply sw_lt; auto).
               rewrite <- (sw_invol i j a), <- (sw_invol i j c). congruence.
            -- intros a x E. rewrite Hs' in E. eapply Hbd; eauto.
            -- intros k Hk. rewrite Hs', Hb'. apply Hct. apply sw_lt; auto.
            -- intros k Hk. rewrite Hs', Hnf by auto. apply Hfx; auto.
          * assert (nonfixed (swapl s i j) < nonfixed s); [|lia].
            unfold nonfixed. apply filter_length_lt with (x := j).
            -- intros k Hk. apply in_seq in Hk. unfold nfx. rewrite Hs'.
               destruct (nth_error s k) as [x|] eqn:Ek;
                 [|apply nth_error_None in Ek; lia].
               destruct (Nat.eqb_spec x k) as [->|]; auto. simpl.
               assert (sw i j k = k).
               { unfold sw. destruct (Nat.eqb_spec k i); [subst; congruence|].
                 destruct (Nat.eqb_spec k j); auto. subst. contradiction. }
               rewrite H, Ek, Nat.eqb_refl. auto.
            -- apply in_seq; lia.
            -- unfold nfx. destruct (nth_error s j) as [x|] eqn:Ex;
                 [|apply nth_error_None in Ex; lia].
               destruct (Nat.eqb_spec x j) as [->|]; [contradiction|reflexivity].
            -- unfold nfx. rewrite Hs'. unfold sw.
               destruct (Nat.eqb_spec j i); [subst; contradiction|].
               rewrite Nat.eqb_refl, Ej, Nat.eqb_refl. auto.
      - apply nth_error_None in Ej. assert (i = n) by lia. subst i.
        repeat split; auto.
    Qed.

    Lemma nonfixed_le s : nonfixed s <= n.
    Proof.
      unfold nonfixed. etransitivity; [apply filter_len_le|]. now rewrite seq_length.
    Qed.

    Lemma cyclic_correct fuel :
      2 * n < fuel ->
      let b' := fst (cyclic V fuel 0 b0 s0) in
      length b' = n /\
      forall p k, p < n -> nth_error s0 p = Some k -> nth_error b' k = nth_error b0 p.
    Proof.
      intros Hf.
      assert (H0 : cinv 0 b0 s0).
      { split; [reflexivity|]. split; [exact Hlen|]. split; [lia|]. split; [exact Hinj|].
        split; [exact Hbnd|]. split.
        - intros k Hk. exists k; auto.
        - intros k Hk; lia. }
      assert (H := cyclic_inv fuel 0 b0 s0 H0).
      assert (Hn := nonfixed_le s0).
      destruct H as (Hlb & _ & _ & _ & _ & Hct & Hfx); [lia|].
      split; auto. intros p k Hp Ek.
      assert (Hk : k < n) by (eapply Hbnd; eauto).
      destruct (Hct k Hk) as (p' & Hp' & Eb & Es).
      rewrite Hfx in Es by auto.
      assert (p' = p) by (eapply Hinj; eauto). subst. auto.
    Qed.
  End Cyclic.

  (** ** the base after the cyclic reorder *)
  Lemma reorder_base_spec (c : ocol V) :
    ocol_ok V c ->
    map Some (reorder_base V c) = map (nth_error (base c)) (nn (rows c)).
  Proof.
    intros (Hl & Hp & _).
    set (b := base c) in *. set (r := rows c) in *. set (m := length b).
    assert (Hcnt := count_nulls_spec _ _ _ Hl).
    assert (Hlen : length (nn r) = m)
      by (unfold m; rewrite (Permutation_length Hp); apply seq_length).
    unfold reorder_base. fold b r.
    replace (length r - count_nulls (maxdef c) (deflevels c)) with m by lia.
    destruct (Nat.ltb_spec 0 m) as [Hm|Hm].
    - assert (Hnd : NoDup (nn r))
        by (eapply Permutation_NoDup; [apply Permutation_sym; eauto|apply seq_NoDup]).
      assert (Hrange : forall p, In p (nn r) -> p < m).
      { intros p Hin. eapply Permutation_in in Hin; eauto. apply in_seq in Hin. lia. }
      destruct (fill_spec r (repeat 0 m) 0 Hnd) as (Hsl & Hsv & _).
      { intros p Hin. rewrite repeat_length. auto. }
      rewrite repeat_length in Hsl.
      set (s0 := fill_sort_index (repeat 0 m) 0 r) in *.
      assert (Hsurj : forall a, a < m -> exists t, t < m /\ nth t (nn r) 0 = a).
      { intros a Ha. assert (In a (nn r)).
        { eapply Permutation_in; [apply Permutation_sym; eauto|]. apply in_seq; lia. }
        destruct (In_nth _ _ 0 H) as (t & Ht & E). exists t; split; auto; lia. }
      destruct (cyclic_correct b s0 Hsl) with (fuel := 2 * m + 1) as (Hlb & Hmove).
      + intros a c0 x Ha Hc0 E1 E2.
        destruct (Hsurj a Ha) as (ta & Hta & <-). destruct (Hsurj c0 Hc0) as (tc & Htc & <-).
        rewrite Hsv in E1, E2 by lia. simpl in *. congruence.
      + intros a x E.
        assert (Ha : a < m) by (rewrite <- Hsl; apply nth_error_Some; congruence).
        destruct (Hsurj a Ha) as (ta & Hta & <-). rewrite Hsv in E by lia. simpl in E.
        inversion E; subst; auto.
      + fold m; lia.
      + fold m in Hlb, Hmove.
        set (b' := fst (cyclic V (2 * m + 1) 0 b s0)) in *.
        apply nth_error_ext. intros t.
        rewrite !nth_error_map.
        destruct (Nat.ltb_spec t m) as [Ht|Ht].
        * rewrite (nth_error_nth' (nn r) 0) by lia. cbn [option_map].
          assert (Hx : nth t (nn r) 0 < m) by (apply Hrange, nth_In; lia).
          rewrite <- (Hmove (nth t (nn r) 0) t Hx) by (rewrite Hsv; auto; lia).
          destruct (nth_error b' t) eqn:E; [reflexivity|].
          apply nth_error_None in E. lia.
        * assert (E1 : nth_error b' t = None) by (apply nth_error_None; lia).
          assert (E2 : nth_error (nn r) t = None) by (apply nth_error_None; lia).
          rewrite E1, E2. reflexivity.
    - assert (m = 0) by lia. destruct (nn r); simpl in *; try lia.
      destruct b; simpl in *; auto. unfold m in *; simpl in *; lia.
  Qed.

  (** ** renumbering, and reading the page *)
  Lemma renumber_nn r : forall t, nn (renumber (Z.of_nat t) r) = seq t (length (nn r)).
  Proof.
    unfold nn. induction r as [|x r IH]; intros t; simpl; auto.
    destruct (nonneg x) eqn:Ex; simpl.
    - replace (nonneg (Z.of_nat t)) with true by (symmetry; apply Z.leb_le; lia).
      simpl. rewrite Nat2Z.id. f_equal.
      replace (Z.of_nat t + 1)%Z with (Z.of_nat (S t)) by lia. apply IH.
    - rewrite Ex. apply IH.
  Qed.

  Lemma renumber_levels md r dl : forall t,
    Forall2 (rd_ok md) r dl -> Forall2 (rd_ok md) (renumber (Z.of_nat t) r) dl.
  Proof.
    intros t H; revert t. induction H as [|x d r dl Hrd H IH]; intros t; simpl; auto.
    destruct Hrd as [[-> Hd]|[Hx ->]].
    - simpl. constructor; auto. left; auto.
    - replace (nonneg x) with true by (symmetry; apply Z.leb_le; auto).
      constructor.
      + right; split; auto; lia.
      + replace (Z.of_nat t + 1)%Z with (Z.of_nat (S t)) by lia. apply IH.
  Qed.

  Lemma renumber_cells md (b b' : list V) r dl :
    Forall2 (rd_ok md) r dl -> forall t bs,
    map Some bs = map (nth_error b) (nn r) ->
    (forall k, nth_error b' (t + k) = nth_error bs k) ->
    cells_of V b' (renumber (Z.of_nat t) r) dl = cells_of V b r dl.
  Proof.
    unfold cells_of, nn. induction 1 as [|x d r dl Hrd H IH]; intros t bs Hbs Hsuf; simpl; auto.
    destruct Hrd as [[-> Hd]|[Hx ->]].
    - simpl in *. f_equal. eapply IH; eauto.
    - simpl in *. replace (nonneg x) with true in * by (symmetry; apply Z.leb_le; auto).
      simpl in *. destruct bs as [|v bs]; [discriminate Hbs|]. injection Hbs as Hv Hbs'.
      f_equal.
      + f_equal. unfold lookup.
        destruct (Z.ltb_spec (Z.of_nat t) 0); try lia.
        destruct (Z.ltb_spec x 0); try lia.
        rewrite Nat2Z.id, <- Hv. specialize (Hsuf 0). rewrite Nat.add_0_r in Hsuf. auto.
      + replace (Z.of_nat t + 1)%Z with (Z.of_nat (S t)) by lia.
        eapply IH; eauto. intros k. specialize (Hsuf (S k)).
        rewrite Nat.add_succ_r in Hsuf. auto.
  Qed.

  Lemma page_values_cells md (b : list V) r dl :
    Forall2 (rd_ok md) r dl -> forall bs,
    map Some bs = map (nth_error b) (nn r) ->
    page_values V md dl bs = cells_of V b r dl.
  Proof.
    unfold cells_of, nn. induction 1 as [|x d r dl Hrd H IH]; intros bs Hbs; simpl; auto.
    destruct Hrd as [[-> Hd]|[Hx ->]].
    - simpl in *. destruct (N.eqb_spec d md); try contradiction. f_equal. auto.
    - simpl in *. replace (nonneg x) with true in * by (symmetry; apply Z.leb_le; auto).
      simpl in *. rewrite N.eqb_refl. destruct bs as [|v bs]; [discriminate Hbs|].
      injection Hbs as Hv Hbs'. f_equal.
      + f_equal. unfold lookup. destruct (Z.ltb_spec x 0); try lia. auto.
      + auto.
  Qed.

  Lemma map_nth_error_seq (p b : list V) :
    map (nth_error (p ++ b)) (seq (length p) (length b)) = map Some b.
  Proof.
    revert p; induction b as [|v b IH]; intros p; simpl; auto. f_equal.
    - rewrite nth_error_app2, Nat.sub_diag; auto.
    - specialize (IH (p ++ [v])). rewrite <- app_assoc, app_length in IH. simpl in IH.
      rewrite Nat.add_1_r in IH. auto.
  Qed.

  (** ** Page *)
  Theorem ocol_page_spec (c : ocol V) :
    ocol_ok V c ->
    let c' := ocol_page V c in
    ocol_ok V c' /\
    ocol_cells V c' = ocol_cells V c /\
    ocol_page_values V c = ocol_cells V c /\
    nn (rows c') = seq 0 (length (base c')) /\
    reordered c' = false /\
    maxdef c' = maxdef c /\ nulls_first c' = nulls_first c.
  Proof.
    intros Hok. assert (Hok0 := Hok). destruct Hok as (Hl & Hp & Ho).
    unfold ocol_page_values. unfold ocol_page. destruct (reordered c) eqn:Er; simpl.
    - assert (Hb := reorder_base_spec c Hok0).
      set (b' := reorder_base V c) in *.
      assert (Hlen : length b' = length (nn (rows c))).
      { rewrite <- (map_length Some b'), Hb, map_length. auto. }
      assert (Hnn : nn (renumber 0 (rows c)) = seq 0 (length b')).
      { rewrite Hlen. apply (renumber_nn (rows c) 0). }
      split; [|split; [|split; [|split; [|repeat split]]]]; auto.
      + split; [|split]; simpl.
        * apply (renumber_levels _ _ _ 0); auto.
        * rewrite Hnn. auto.
        * auto.
      + rewrite !ocol_cells_eq. simpl.
        apply (renumber_cells (maxdef c) (base c) b' (rows c) (deflevels c) Hl 0 b'); auto.
      + rewrite ocol_cells_eq. eapply page_values_cells; eauto.
    - split; auto. split; auto. specialize (Ho eq_refl).
      split; [|repeat split; auto].
      rewrite ocol_cells_eq. eapply page_values_cells; eauto.
      rewrite Ho. symmetry. apply (map_nth_error_seq [] (base c)).
  Qed.
End PageProofs.
