(** The value type of the oracle (INT64 and BYTE_ARRAY values) meets the
    hypotheses of the theorems: its comparison is a total preorder and the
    Less of the base column buffers is "Compare < 0". *)
From Coq Require Import List ZArith NArith Bool Arith Lia.
From PQ Require Search.Model Search.Proofs.
From PQ Require Import Sort.Model.
Import ListNotations.
Local Open Scope Z_scope.

Lemma cmp_sval_opp a b : cmp_sval a b < 0 <-> cmp_sval b a > 0.
Proof.
  destruct a, b; simpl; try lia.
  - apply Search.Proofs.cmpZ_opp.
  - apply Search.Proofs.cmp_bytes_opp.
Qed.

Lemma cmp_sval_trans a b d : cmp_sval a b <= 0 -> cmp_sval b d <= 0 -> cmp_sval a d <= 0.
Proof.
  destruct a, b, d; simpl; try lia.
  - apply Search.Proofs.cmpZ_trans.
  - apply Search.Proofs.cmp_bytes_trans.
Qed.

Lemma lt_sval_cmp a b : lt_sval a b = true <-> cmp_sval a b < 0.
Proof.
  destruct a, b; simpl.
  - rewrite Z.ltb_lt. unfold Search.Model.cmpZ. destruct (Z.compare_spec z z0); lia.
  - split; auto; lia.
  - split; [discriminate|lia].
  - apply Z.ltb_lt.
Qed.
