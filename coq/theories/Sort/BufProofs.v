(** The buffer (all columns together) refines a list of whole rows: Write
    appends rows, Swap exchanges two rows in every column, Page changes
    nothing that a reader or the comparison can see. *)
From Coq Require Import List ZArith NArith Bool Arith Lia Permutation.
From PQ Require Import Sort.Model Sort.ListLemmas Sort.ColProofs Sort.PageProofs
     Sort.TypedProofs Sort.CmpProofs.
Import ListNotations.

Section BufProofs.
  Variable V : Type.

  Notation row := (row V).
  Notation dcell := (dcell V).
  Notation dcol := (dcol V).

  (** the logical row a written row stands for *)
  Definition row_of (schema : list N) (wrow : list (wval V)) : row :=
    map (fun mw => cell_of V (fst mw) (snd mw)) (combine schema wrow).

  (* a null may only be written to an optional column, with a level below the maximum *)
  Definition wv_col_ok (md : N) (w : wval V) : Prop :=
    match w with WNull d => md <> 0%N /\ d <> md | WVal _ => True end.

  Definition wrow_ok (schema : list N) (wrow : list (wval V)) : Prop :=
    length wrow = length schema /\
    Forall (fun mw => wv_col_ok (fst mw) (snd mw)) (combine schema wrow).

  Definition op_ok (schema : list N) (o : op V) : Prop :=
    match o with OWrite _ batch => Forall (wrow_ok schema) batch | _ => True end.

  (** the specification: a list of rows *)
  Definition spec_step (schema : list N) (rows : list row) (o : op V) : list row :=
    match o with
    | OWrite _ batch => rows ++ map (row_of schema) batch
    | OSwap i j => swapl rows i j
    | OPage => rows
    | OPageCol _ => rows
    end.

  Definition spec_run (schema : list N) (ops : list (op V)) : list row :=
    fold_left (spec_step schema) ops [].

  Definition written (schema : list N) (ops : list (op V)) : list row :=
    flat_map (fun o => match o with OWrite _ batch => map (row_of schema) batch | _ => [] end) ops.

  (** the invariant tying a buffer to the rows it holds *)
  Definition buf_inv (schema : list N) (sorting : list sortcol) (b : buffer V) (rows : list row) : Prop :=
    sorted b = map (fun s => (sc_col s, sc_desc s)) sorting /\
    length (columns b) = length schema /\
    Forall (fun r => length r = length schema) rows /\
    forall k, k < length schema ->
      col_ok V (nth k schema 0%N) (null_ordering sorting k) (nth k (columns b) dcol) /\
      col_cells V (nth k (columns b) dcol) = map (fun r => nth k r dcell) rows.

  Lemma nth_map_in {A B} (f : A -> B) (l : list A) k d d' :
    k < length l -> nth k (map f l) d' = f (nth k l d).
  Proof. intros H. rewrite (nth_indep _ d' (f d)) by (rewrite map_length; auto). apply map_nth. Qed.

  Lemma nth_row_of schema wrow k :
    length wrow = length schema -> k < length schema ->
    nth k (row_of schema wrow) dcell = cell_of V (nth k schema 0%N) (nth k wrow (WNull 0%N)).
  Proof.
    intros Hl Hk. unfold row_of.
    rewrite (nth_map_in _ _ _ (0%N, WNull 0%N)) by (rewrite combine_length; lia).
    rewrite combine_nth by auto. reflexivity.
  Qed.

  Lemma nth_wv_ok schema wrow k :
    wrow_ok schema wrow -> k < length schema ->
    wv_col_ok (nth k schema 0%N) (nth k wrow (WNull 0%N)).
  Proof.
    intros [Hl Hf] Hk. rewrite Forall_forall in Hf.
    specialize (Hf (nth k schema 0%N, nth k wrow (WNull 0%N))). apply Hf.
    rewrite <- combine_nth by auto. apply nth_In. rewrite combine_length; lia.
  Qed.

  Lemma row_of_length schema wrow : length wrow = length schema -> length (row_of schema wrow) = length schema.
  Proof. intros H. unfold row_of. rewrite map_length, combine_length. lia. Qed.

  (** ** configure *)
  Lemma inv_configure schema sorting : buf_inv schema sorting (configure V schema sorting) [].
  Proof.
    unfold buf_inv, configure; simpl. split; auto. split; [apply mapi_from_length|].
    split; auto. intros k Hk.
    rewrite (nth_mapi_from _ _ _ _ 0%N) by auto. simpl.
    destruct (N.eqb_spec (nth k schema 0%N) 0); simpl; auto.
    split; auto. split; auto. split; auto. split; auto.
    unfold ocol_ok, st_ok; simpl. split; [constructor|]. split; auto.
  Qed.

  (** ** one operation *)
  Lemma col_write_spec schema typed k (c : col V) nfo batch :
    k < length schema -> Forall (wrow_ok schema) batch ->
    col_ok V (nth k schema 0%N) nfo c ->
    col_ok V (nth k schema 0%N) nfo (col_write V typed c (column_batch V k batch)) /\
    col_cells V (col_write V typed c (column_batch V k batch)) =
    col_cells V c ++ map (fun wrow => nth k (row_of schema wrow) dcell) batch.
  Proof.
    intros Hk Hb Hc. destruct c as [vals|o]; simpl in *.
    - split; auto. rewrite map_app. f_equal. subst.
      induction Hb as [|wrow batch Hw Hb IH]; simpl; auto.
      rewrite map_app, IH. rewrite nth_row_of by (auto; apply Hw).
      assert (Hwv := nth_wv_ok _ _ _ Hw Hk). rewrite Hc in *.
      destruct (nth k wrow (WNull 0%N)) as [d|v]; simpl in *; auto.
      destruct Hwv; contradiction.
    - destruct Hc as (Hmd & Emd & Enf & Hok).
      assert (Hvs : Forall (wv_ok V (maxdef o)) (column_batch V k batch)).
      { unfold column_batch. apply Forall_map. eapply Forall_impl; [|exact Hb].
        intros wrow Hw. assert (Hwv := nth_wv_ok _ _ _ Hw Hk).
        destruct (nth k wrow (WNull 0%N)); simpl in *; auto. rewrite Emd. apply Hwv. }
      assert (Heq : (if typed then write_typed V o (column_batch V k batch)
                     else write_values V o (column_batch V k batch))
                    = write_values V o (column_batch V k batch))
        by (destruct typed; auto; apply write_typed_eq).
      rewrite Heq.
      destruct (write_values_spec V o _ Hok Hvs) as (Hok' & Hcells & Emd' & Enf').
      split.
      + split; auto. split; [congruence|]. split; [congruence|auto].
      + rewrite Hcells. f_equal. unfold column_batch. rewrite map_map.
        apply map_ext_in. intros wrow Hin. rewrite Forall_forall in Hb.
        rewrite nth_row_of by (auto; apply (Hb _ Hin)). congruence.
  Qed.

  Lemma col_swap_spec md nfo (c : col V) i j :
    col_ok V md nfo c ->
    col_ok V md nfo (col_swap V c i j) /\
    col_cells V (col_swap V c i j) = swapl (col_cells V c) i j.
  Proof.
    destruct c as [vals|o]; simpl.
    - intros H; split; auto. apply map_swapl.
    - intros (Hmd & Emd & Enf & Hok).
      destruct (ocol_swap_spec V o i j Hok) as (Hok' & Hc & Emd' & Enf').
      split; [|exact Hc]. split; [exact Hmd|]. split; [congruence|]. split; [congruence|exact Hok'].
  Qed.

  Lemma col_page_spec md nfo (c : col V) :
    col_ok V md nfo c ->
    col_ok V md nfo (col_page V c) /\
    col_cells V (col_page V c) = col_cells V c /\
    col_page_values V c = col_cells V c.
  Proof.
    destruct c as [vals|o]; simpl; auto.
    intros (Hmd & Emd & Enf & Hok).
    destruct (ocol_page_spec V o Hok) as (Hok' & Hc & Hp & _ & _ & Emd' & Enf').
    split; [|split; [exact Hc|exact Hp]].
    split; [exact Hmd|]. split; [congruence|]. split; [congruence|exact Hok'].
  Qed.

  Lemma inv_step schema sorting b rows o :
    buf_inv schema sorting b rows -> op_ok schema o ->
    buf_inv schema sorting (apply_op V b o) (spec_step schema rows o).
  Proof.
    intros (Hs & Hl & Hr & Hc) Ho. unfold buf_inv.
    destruct o as [typed batch|i j| |kc]; simpl in *;
      unfold buffer_write, buffer_swap, buffer_page, buffer_page_col; simpl.
    - split; auto. split; [rewrite mapi_from_length; auto|]. split.
      + apply Forall_app; split; auto. apply Forall_map. eapply Forall_impl; [|exact Ho].
        intros wrow [Hw _]. apply row_of_length; auto.
      + intros k Hk. rewrite (nth_mapi_from _ _ _ _ dcol) by lia. simpl.
        destruct (Hc k Hk) as [Hok Hcells].
        destruct (col_write_spec schema typed k _ _ batch Hk Ho Hok) as [Hok' Hcells'].
        split; auto. rewrite Hcells', Hcells, map_app, map_map. reflexivity.
    - split; auto. split; [rewrite map_length; auto|]. split.
      + eapply Permutation_Forall; [apply Permutation_sym, swapl_perm|auto].
      + intros k Hk. rewrite (nth_map_in _ _ _ dcol) by lia.
        destruct (Hc k Hk) as [Hok Hcells].
        destruct (col_swap_spec _ _ _ i j Hok) as [Hok' Hcells'].
        split; auto. rewrite Hcells', Hcells. symmetry. apply map_swapl.
    - split; auto. split; [rewrite map_length; auto|]. split; auto.
      intros k Hk. rewrite (nth_map_in _ _ _ dcol) by lia.
      destruct (Hc k Hk) as [Hok Hcells].
      destruct (col_page_spec _ _ _ Hok) as (Hok' & Hcells' & _).
      split; auto. congruence.
    - split; auto. split; [rewrite mapi_from_length; auto|]. split; auto.
      intros k Hk. rewrite (nth_mapi_from _ _ _ _ dcol) by lia. simpl.
      destruct (Hc k Hk) as [Hok Hcells].
      destruct (Nat.eqb k kc); [|split; auto].
      destruct (col_page_spec _ _ _ Hok) as (Hok' & Hcells' & _).
      split; auto. congruence.
  Qed.

  Lemma inv_run schema sorting ops : forall b rows,
    buf_inv schema sorting b rows -> Forall (op_ok schema) ops ->
    buf_inv schema sorting (run_ops V b ops) (fold_left (spec_step schema) ops rows).
  Proof.
    induction ops as [|o ops IH]; intros b rows Hi Ho; simpl; auto.
    inversion Ho; subst. apply IH; auto. apply inv_step; auto.
  Qed.

  (** ** reading the rows of a buffer that satisfies the invariant *)
  Lemma col_len_cells md nfo (c : col V) :
    col_ok V md nfo c -> col_len V c = length (col_cells V c).
  Proof.
    destruct c as [vals|o]; simpl.
    - now rewrite map_length.
    - intros (_ & _ & _ & (Hl & _)). unfold ocol_cells.
      rewrite map_length, combine_length. apply Forall2_len in Hl. lia.
  Qed.

  Lemma inv_col_len schema sorting b rows k :
    buf_inv schema sorting b rows -> k < length schema ->
    col_len V (nth k (columns b) dcol) = length rows.
  Proof.
    intros (_ & _ & _ & Hc) Hk. destruct (Hc k Hk) as [Hok Hcells].
    rewrite (col_len_cells _ _ _ Hok), Hcells. apply map_length.
  Qed.

  Lemma inv_len schema sorting b rows :
    buf_inv schema sorting b rows -> schema <> [] -> buffer_len V b = length rows.
  Proof.
    intros Hi Hne. assert (H0 : 0 < length schema) by (destruct schema; simpl; [congruence|lia]).
    assert (H := inv_col_len _ _ _ _ 0 Hi H0). destruct Hi as (_ & Hl & _).
    unfold buffer_len. destruct (columns b); simpl in *; auto.
  Qed.

  Lemma inv_row schema sorting b rows i :
    buf_inv schema sorting b rows -> i < length rows ->
    buffer_row V b i = nth i rows [].
  Proof.
    intros (_ & Hl & Hr & Hc) Hi. unfold buffer_row.
    assert (Hri : length (nth i rows []) = length schema).
    { rewrite Forall_forall in Hr. apply Hr, nth_In; auto. }
    apply nth_ext with (d := dcell) (d' := dcell).
    - rewrite map_length. congruence.
    - rewrite map_length. intros k Hk. rewrite (nth_map_in _ _ _ dcol) by auto.
      destruct (Hc k) as [_ Hcells]; [lia|]. rewrite Hcells.
      rewrite (nth_map_in _ _ _ []) by auto. reflexivity.
  Qed.

  Lemma map_nth_seq {A} (l : list A) d : map (fun i => nth i l d) (seq 0 (length l)) = l.
  Proof.
    apply nth_ext with (d := d) (d' := d).
    - now rewrite map_length, seq_length.
    - rewrite map_length, seq_length. intros k Hk.
      rewrite (nth_map_in _ _ _ 0) by (rewrite seq_length; auto). now rewrite seq_nth.
  Qed.

  Theorem inv_rows schema sorting b rows :
    buf_inv schema sorting b rows -> schema <> [] ->
    buffer_rows V b = rows /\ buffer_page_rows V b = rows.
  Proof.
    intros Hi Hne. assert (Hn := inv_len _ _ _ _ Hi Hne).
    unfold buffer_rows, buffer_page_rows. rewrite Hn. split.
    - rewrite <- (map_nth_seq rows []) at 2. apply map_ext_in. intros i Hin.
      apply in_seq in Hin. eapply inv_row; eauto. lia.
    - rewrite <- (map_nth_seq rows []) at 2. apply map_ext_in. intros i Hin.
      apply in_seq in Hin. rewrite <- (inv_row _ _ _ _ i Hi) by lia.
      unfold buffer_row. destruct Hi as (_ & Hl & _ & Hc).
      apply nth_ext with (d := dcell) (d' := dcell); [now rewrite !map_length|].
      rewrite map_length. intros k Hk. rewrite !(nth_map_in _ _ _ dcol) by auto.
      destruct (Hc k) as [Hok _]; [lia|].
      destruct (col_page_spec _ _ _ Hok) as (_ & _ & Hp). now rewrite Hp.
  Qed.

  Lemma spec_perm schema ops : forall rows,
    Permutation (fold_left (spec_step schema) ops rows) (rows ++ written schema ops).
  Proof.
    induction ops as [|o ops IH]; intros rows; simpl.
    - now rewrite app_nil_r.
    - eapply perm_trans; [apply IH|]. destruct o as [typed batch|i j| |kc]; simpl.
      + now rewrite app_assoc.
      + apply Permutation_app_tail, swapl_perm.
      + auto.
      + auto.
  Qed.

  (** ** the theorems about histories *)
  Definition reach (schema : list N) (sorting : list sortcol) (ops : list (op V)) : buffer V :=
    run_ops V (configure V schema sorting) ops.

  Lemma reach_inv schema sorting ops :
    Forall (op_ok schema) ops ->
    buf_inv schema sorting (reach schema sorting ops) (spec_run schema ops).
  Proof. intros H. apply inv_run; auto. apply inv_configure. Qed.

  Lemma reach_app schema sorting ops o :
    reach schema sorting (ops ++ [o]) = apply_op V (reach schema sorting ops) o.
  Proof. unfold reach, run_ops. now rewrite fold_left_app. Qed.

  Lemma spec_run_app schema ops o :
    spec_run schema (ops ++ [o]) = spec_step schema (spec_run schema ops) o.
  Proof. unfold spec_run. now rewrite fold_left_app. Qed.

  Theorem swaps_preserve_rows schema sorting ops :
    schema <> [] -> Forall (op_ok schema) ops ->
    buffer_rows V (reach schema sorting ops) = spec_run schema ops /\
    buffer_page_rows V (reach schema sorting ops) = spec_run schema ops /\
    Permutation (spec_run schema ops) (written schema ops).
  Proof.
    intros Hne Hops. destruct (inv_rows _ _ _ _ (reach_inv schema sorting ops Hops) Hne) as [H1 H2].
    split; auto. split; auto. apply (spec_perm schema ops []).
  Qed.

  Theorem swap_exchanges_rows schema sorting ops i j :
    schema <> [] -> Forall (op_ok schema) ops ->
    buffer_rows V (reach schema sorting (ops ++ [OSwap i j])) =
    swapl (buffer_rows V (reach schema sorting ops)) i j.
  Proof.
    intros Hne Hops.
    assert (Hops' : Forall (op_ok schema) (ops ++ [OSwap i j]))
      by (apply Forall_app; split; auto; repeat constructor).
    destruct (swaps_preserve_rows schema sorting _ Hne Hops') as (H1 & _).
    destruct (swaps_preserve_rows schema sorting _ Hne Hops) as (H2 & _).
    rewrite H1, H2, spec_run_app. reflexivity.
  Qed.

  Theorem page_in_row_order schema sorting ops k o :
    Forall (op_ok schema) ops -> k < length schema ->
    nth k (columns (reach schema sorting (ops ++ [OPage]))) dcol = COpt o ->
    nn (rows o) = seq 0 (length (base o)) /\
    reordered o = false /\
    ocol_ok V o /\
    page_values V (maxdef o) (deflevels o) (base o) = ocol_cells V o /\
    ocol_cells V o = map (fun r => nth k r dcell) (spec_run schema ops).
  Proof.
    intros Hops Hk. rewrite reach_app. simpl.
    destruct (reach_inv schema sorting ops Hops) as (_ & Hl & _ & Hc).
    rewrite (nth_map_in _ _ _ dcol) by lia.
    destruct (Hc k Hk) as [Hok Hcells].
    destruct (nth k (columns (reach schema sorting ops)) dcol) as [vals|o0]; [simpl; discriminate|].
    cbn [col_page]. intros E. injection E as E. subst o.
    destruct Hok as (_ & _ & _ & Hok).
    destruct (ocol_page_spec V o0 Hok) as (Hok' & Hcs & Hpv & Hnn & Hre & _).
    split; [exact Hnn|]. split; [exact Hre|]. split; [exact Hok'|]. split.
    - rewrite Hcs. exact Hpv.
    - rewrite Hcs. exact Hcells.
  Qed.
End BufProofs.
