(** Proofs about the optional column buffer: every operation refines the
    corresponding operation on the list of logical cells, and Page puts the
    base values in row order. *)
From Coq Require Import List ZArith NArith Bool Arith Lia Permutation.
From PQ Require Import Sort.Model Sort.ListLemmas.
Import ListNotations.

Section ColProofs.
  Variable V : Type.

  Notation cell := (cell V).

  (** the base indexes of the non-null rows, in row order *)
  Definition nn (r : list Z) : list nat := map Z.to_nat (filter nonneg r).

  (** a row is null exactly when its definition level is not the maximum *)
  Definition rd_ok (md : N) (r : Z) (d : N) : Prop :=
    (r = (-1)%Z /\ d <> md) \/ ((0 <= r)%Z /\ d = md).

  (** the representation invariant of optionalColumnBuffer *)
  Definition st_ok (md : N) (b : list V) (r : list Z) (dl : list N) (re : bool) : Prop :=
    Forall2 (rd_ok md) r dl /\
    Permutation (nn r) (seq 0 (length b)) /\
    (re = false -> nn r = seq 0 (length b)).

  Definition ocol_ok (c : ocol V) : Prop :=
    st_ok (maxdef c) (base c) (rows c) (deflevels c) (reordered c).

  Definition cells_of (b : list V) (r : list Z) (dl : list N) : list cell :=
    map (fun rd => (lookup V b (fst rd), snd rd)) (combine r dl).

  Lemma ocol_cells_eq c : ocol_cells V c = cells_of (base c) (rows c) (deflevels c).
  Proof. reflexivity. Qed.

  (** ** small facts *)
  Lemma nn_app r1 r2 : nn (r1 ++ r2) = nn r1 ++ nn r2.
  Proof. unfold nn. now rewrite filter_app, map_app. Qed.

  Lemma nn_in_range (b : list V) r x :
    Permutation (nn r) (seq 0 (length b)) -> In x r -> (0 <= x)%Z -> (Z.to_nat x < length b)%nat.
  Proof.
    intros Hp Hin Hx.
    assert (In (Z.to_nat x) (nn r)).
    { unfold nn. apply in_map, filter_In. split; auto. unfold nonneg. now apply Z.leb_le. }
    eapply Permutation_in in H; eauto. apply in_seq in H. lia.
  Qed.

  Lemma lookup_app1 (b x : list V) r :
    ((0 <= r)%Z -> (Z.to_nat r < length b)%nat) -> lookup V (b ++ x) r = lookup V b r.
  Proof.
    intros H. unfold lookup. destruct (Z.ltb_spec r 0); auto.
    apply nth_error_app1. apply H; lia.
  Qed.

  Lemma cells_of_base_app (b x : list V) r dl :
    Permutation (nn r) (seq 0 (length b)) -> cells_of (b ++ x) r dl = cells_of b r dl.
  Proof.
    intros Hp. unfold cells_of. apply map_ext_in. intros [r0 d0] Hin. simpl. f_equal.
    apply lookup_app1. intros. eapply nn_in_range; eauto. eapply in_combine_l; eauto.
  Qed.

  Lemma cells_of_app (b : list V) r1 r2 dl1 dl2 :
    length r1 = length dl1 ->
    cells_of b (r1 ++ r2) (dl1 ++ dl2) = cells_of b r1 dl1 ++ cells_of b r2 dl2.
  Proof. intros H. unfold cells_of. now rewrite combine_app', map_app. Qed.

  Lemma Forall2_combine {A B} (P : A -> B -> Prop) l1 l2 :
    Forall2 P l1 l2 <-> length l1 = length l2 /\ Forall (fun p => P (fst p) (snd p)) (combine l1 l2).
  Proof.
    split.
    - induction 1; simpl; split; auto; destruct IHForall2; auto.
    - revert l2; induction l1; intros [|b l2] [Hl Hf]; simpl in *; try discriminate; auto.
      inversion Hf; subst. constructor; auto.
  Qed.

  Lemma Forall2_len {A B} (P : A -> B -> Prop) l1 l2 : Forall2 P l1 l2 -> length l1 = length l2.
  Proof. induction 1; simpl; auto. Qed.

  (** ** WriteValues *)
  Definition wv_ok (md : N) (w : wval V) : Prop :=
    match w with WNull d => d <> md | WVal _ => True end.

  Definition cell_of (md : N) (w : wval V) : cell :=
    match w with WNull d => (None, d) | WVal v => (Some v, md) end.

  Lemma write_values_from_spec md re vs : forall b r dl,
    st_ok md b r dl re -> Forall (wv_ok md) vs ->
    match write_values_from V b r dl md (Z.of_nat (length b)) vs with
    | (b', r', dl') =>
        st_ok md b' r' dl' re /\
        cells_of b' r' dl' = cells_of b r dl ++ map (cell_of md) vs
    end.
  Proof.
    induction vs as [|w vs IH]; intros b r dl Hok Hvs.
    - simpl. split; auto. now rewrite app_nil_r.
    - inversion Hvs as [|? ? Hw Hvs']; subst. destruct Hok as (Hl & Hp & Ho).
      assert (Hlen : length r = length dl) by (eapply Forall2_len; eauto).
      destruct w as [d|v]; simpl.
      + specialize (IH b (r ++ [(-1)%Z]) (dl ++ [d])).
        destruct (write_values_from V b (r ++ [(-1)%Z]) (dl ++ [d]) md (Z.of_nat (length b)) vs)
          as [[b' r'] dl'].
        destruct IH as [Hok' Hc]; auto.
        { split; [|split].
          - apply Forall2_app; auto. constructor; auto. left; auto.
          - rewrite nn_app. simpl. now rewrite app_nil_r.
          - intros E. rewrite nn_app. simpl. rewrite app_nil_r. auto. }
        split; auto. rewrite Hc, cells_of_app by auto. rewrite <- app_assoc. reflexivity.
      + specialize (IH (b ++ [v]) (r ++ [Z.of_nat (length b)]) (dl ++ [md])).
        replace (Z.of_nat (length b) + 1)%Z with (Z.of_nat (length (b ++ [v]))) by
            (rewrite app_length; simpl; lia).
        destruct (write_values_from V (b ++ [v]) (r ++ [Z.of_nat (length b)]) (dl ++ [md]) md
                                    (Z.of_nat (length (b ++ [v]))) vs) as [[b' r'] dl'].
        assert (Hnn : nn (r ++ [Z.of_nat (length b)]) = nn r ++ [length b]).
        { rewrite nn_app. f_equal. unfold nn. simpl.
          replace (nonneg (Z.of_nat (length b))) with true
            by (symmetry; apply Z.leb_le; lia). simpl. now rewrite Nat2Z.id. }
        destruct IH as [Hok' Hc]; auto.
        { split; [|split].
          - apply Forall2_app; auto. constructor; auto. right; split; auto; lia.
          - rewrite Hnn, app_length. simpl. rewrite Nat.add_1_r, seq_S. simpl.
            apply Permutation_app_tail; auto.
          - intros E. rewrite Hnn, app_length. simpl. rewrite Nat.add_1_r, seq_S. simpl.
            f_equal; auto. }
        split; auto. rewrite Hc, cells_of_app by auto. rewrite <- app_assoc. f_equal.
        * apply cells_of_base_app; auto.
        * simpl. f_equal. unfold cells_of. simpl. f_equal. f_equal.
          unfold lookup. destruct (Z.ltb_spec (Z.of_nat (length b)) 0); try lia.
          rewrite Nat2Z.id, nth_error_app2, Nat.sub_diag; auto.
  Qed.

  Lemma write_values_spec (c : ocol V) vs :
    ocol_ok c -> Forall (wv_ok (maxdef c)) vs ->
    ocol_ok (write_values V c vs) /\
    ocol_cells V (write_values V c vs) = ocol_cells V c ++ map (cell_of (maxdef c)) vs /\
    maxdef (write_values V c vs) = maxdef c /\
    nulls_first (write_values V c vs) = nulls_first c.
  Proof.
    intros Hok Hvs. unfold write_values.
    assert (H := write_values_from_spec (maxdef c) (reordered c) vs _ _ _ Hok Hvs).
    destruct (write_values_from V (base c) (rows c) (deflevels c) (maxdef c)
                                (Z.of_nat (length (base c))) vs) as [[b r] dl].
    destruct H as [H1 H2]. split; [exact H1|]. split; [exact H2|]. split; reflexivity.
  Qed.

  (** ** Swap *)
  Lemma nn_swapl r i j : Permutation (nn (swapl r i j)) (nn r).
  Proof. unfold nn. apply Permutation_map, filter_perm, swapl_perm. Qed.

  Lemma Forall2_swapl {A B} (P : A -> B -> Prop) l1 l2 i j :
    Forall2 P l1 l2 -> Forall2 P (swapl l1 i j) (swapl l2 i j).
  Proof.
    intros H. apply Forall2_combine in H. destruct H as [Hl Hf].
    apply Forall2_combine. rewrite !swapl_length. split; auto.
    rewrite combine_swapl by auto.
    eapply Permutation_Forall; [|exact Hf]. apply Permutation_sym, swapl_perm.
  Qed.

  Lemma ocol_swap_spec (c : ocol V) i j :
    ocol_ok c ->
    ocol_ok (ocol_swap V c i j) /\
    ocol_cells V (ocol_swap V c i j) = swapl (ocol_cells V c) i j /\
    maxdef (ocol_swap V c i j) = maxdef c /\
    nulls_first (ocol_swap V c i j) = nulls_first c.
  Proof.
    intros (Hl & Hp & Ho). split; [|split; [|split; reflexivity]].
    - unfold ocol_ok, ocol_swap; simpl. split; [|split].
      + apply Forall2_swapl; auto.
      + eapply perm_trans; [apply nn_swapl|auto].
      + discriminate.
    - rewrite !ocol_cells_eq. unfold ocol_swap, cells_of; simpl.
      rewrite combine_swapl by (eapply Forall2_len; eauto). apply map_swapl.
  Qed.
End ColProofs.
