(** SortingWriter (Sort/Writer.v): every closed file holds a sorted permutation
    of the rows written to it; with DropDuplicatedRows exactly one row for each
    key written, whatever the size of the sort runs, the batching of the
    writes, the flushes, and whatever files the writer produced before.

    The proofs compose
    - the contract of sort.Sort on a run (a sorted permutation of the run:
      what C10_sorted_after_sort gives for the row buffer),
    - what C09 proves of the merged readers: the rows they deliver are a
      complete run of the abstract merge scheduler (C09_mergeK_refines,
      C09_merge2_refines, C09_refine_plan_any_merge), hence sorted and a
      permutation of the row groups (C09_merge_abstract_correct),
    - the deduplication theorems of Merge/DedupeProofs.v (C09_dedupe_one_per_key). *)
From Coq Require Import List ZArith Bool Arith Lia Sorting.Sorted Permutation.
From PQ Require Import Merge.Model Merge.Instance Merge.AbstractProofs Merge.DedupeProofs
     Merge.InstanceProofs Sort.Writer.
From PQ Require Sort.Model Sort.ListLemmas Merge.TreeProofs Merge.ProgressProofs.
Import ListNotations.
Local Open Scope nat_scope.

Lemma StronglySorted_map {X Y} (f : X -> Y) (R : Y -> Y -> Prop) (l : list X) :
  StronglySorted (fun a b => R (f a) (f b)) l -> StronglySorted R (map f l).
Proof.
  induction 1 as [|x l Hs IH Hf]; simpl; constructor; auto.
  rewrite Forall_forall in *. intros y Hy. apply in_map_iff in Hy. destruct Hy as [z [<- Hz]]. auto.
Qed.

Lemma StronglySorted_impl {X} (R R' : X -> X -> Prop) (l : list X) :
  (forall a b, R a b -> R' a b) -> StronglySorted R l -> StronglySorted R' l.
Proof.
  intros H. induction 1 as [|x l Hs IH Hf]; constructor; auto.
  eapply Forall_impl; [|exact Hf]. auto.
Qed.

Section WriterProofs.
  Variable A : Type.
  Variable cmp : A -> A -> Z.
  Hypothesis cmp_opp : forall a b, (cmp a b < 0 <-> cmp b a > 0)%Z.
  Hypothesis cmp_trans : forall a b d, (cmp a b <= 0 -> cmp b d <= 0 -> cmp a d <= 0)%Z.
  Variable sortf : list A -> list A.
  Variable merge : list (list (row A)) -> list (row A).
  Variable maxrows : nat.
  Hypothesis maxrows_pos : 1 <= maxrows.

  Notation row := (row A).
  Notation sorted := (sorted A cmp).
  Notation tagged := (tagged A).
  Notation sw := (sw A).

  Definition le_sorted (l : list A) : Prop := StronglySorted (fun a b => (cmp a b <= 0)%Z) l.
  Definition lt_sorted (l : list A) : Prop := StronglySorted (fun a b => (cmp a b < 0)%Z) l.

  (** the contract of sort.Sort on the row buffer: a sorted permutation *)
  Definition sort_contract : Prop := forall l, Permutation (sortf l) l /\ le_sorted (sortf l).

  (** what C09 proves of the merged readers (run to io.EOF): the rows they
      deliver are a complete run of the abstract scheduler on the row groups *)
  Definition merge_contract : Prop :=
    forall st, Forall sorted st -> exists st', sched cmp st (merge st) st' /\ all_empty A st'.

  Hypothesis sort_ok : sort_contract.
  Hypothesis merge_ok : merge_contract.

  (** ** tagging *)
  Lemma map_key_tag_from i : forall s (l : list A), map (@key A) (tag_from i s l) = l.
  Proof. intros s l; revert s; induction l as [|x l IH]; intros s; simpl; auto. now rewrite IH. Qed.

  Lemma tag_from_length i : forall s (l : list A), length (tag_from i s l) = length l.
  Proof. intros s l; revert s; induction l as [|x l IH]; intros s; simpl; auto. Qed.

  Lemma sorted_tag_from i : forall s l, le_sorted l -> sorted (tag_from i s l).
  Proof.
    intros s l H. revert s. induction H as [|x l Hs IH Hf]; intros s; simpl; constructor; [apply IH|].
    rewrite Forall_forall in *. intros r Hr.
    assert (Hk : In (key r) l) by (rewrite <- (map_key_tag_from i (S s) l); now apply in_map).
    unfold rle, rcmp. simpl. auto.
  Qed.

  Lemma sorted_keys m : sorted m -> le_sorted (map (@key A) m).
  Proof. intros H. apply StronglySorted_map. exact H. Qed.

  Lemma strict_keys m : StronglySorted (rlt A cmp) m -> lt_sorted (map (@key A) m).
  Proof. intros H. apply StronglySorted_map. exact H. Qed.

  Lemma strict_sorted m : StronglySorted (rlt A cmp) m -> sorted m.
  Proof. apply StronglySorted_impl. unfold rlt, rle. intros; lia. Qed.

  (** ** the temporary file: a run is appended unless it is empty *)
  Definition snoc_run (runs : list (list row)) (kept : list row) : list (list row) :=
    match kept with [] => runs | _ => runs ++ [kept] end.

  Lemma concat_snoc runs kept : concat (snoc_run runs kept) = concat runs ++ kept.
  Proof.
    unfold snoc_run. destruct kept; [now rewrite app_nil_r|].
    rewrite concat_app. simpl. now rewrite app_nil_r.
  Qed.

  Lemma Forall_snoc (Q : list row -> Prop) runs kept :
    Forall Q runs -> Q kept -> Forall Q (snoc_run runs kept).
  Proof.
    intros H1 H2. unfold snoc_run. destruct kept; auto. apply Forall_app. split; auto.
  Qed.

  Lemma tagged_snoc runs kept : tagged runs -> (forall r, In r kept -> input r = length runs) ->
    tagged (snoc_run runs kept).
  Proof.
    intros Ht Hk. unfold snoc_run. destruct kept as [|k0 kept]; auto.
    intros i l r Hi Hr. destruct (Nat.lt_ge_cases i (length runs)) as [Hlt|Hge].
    - rewrite nth_error_app1 in Hi by auto. eapply Ht; eauto.
    - rewrite nth_error_app2 in Hi by auto.
      destruct (i - length runs) as [|d] eqn:Ed; simpl in Hi.
      + inversion Hi; subst l. rewrite (Hk r Hr). lia.
      + destruct d; discriminate.
  Qed.

  (** ** sortAndWriteBufferedRows *)
  Lemma sw_flush_buf dedupe keep_last (s : sw) : sw_buf A (sw_flush A cmp sortf dedupe keep_last s) = [].
  Proof.
    unfold sw_flush. destruct (sw_buf A s) eqn:E; [exact E|].
    destruct (if dedupe then _ else _). reflexivity.
  Qed.

  Lemma sw_flush_eq dedupe keep_last (s : sw) : sw_buf A s <> [] ->
    sw_flush A cmp sortf dedupe keep_last s =
    let run := tag (length (sw_runs A s)) (sortf (sw_buf A s)) in
    let kl := if dedupe then dedupe_batch cmp (sw_last A s) run else (run, sw_last A s) in
    mkSW A [] (snoc_run (sw_runs A s) (fst kl))
         (if dedupe then (if keep_last then snd kl else None) else sw_last A s)
         (sw_num A s + length (fst kl)).
  Proof.
    intros H. unfold sw_flush. destruct (sw_buf A s) eqn:E; [contradiction|].
    cbv zeta. destruct (if dedupe then _ else _) as [kept last']. reflexivity.
  Qed.

  (** ** the loop of writeRows, for any invariant kept by its two steps *)
  Section Generic.
    Variables dedupe keep_last : bool.
    Variable I : sw -> list A -> Prop.     (* state, rows written to the current file *)
    Variable P : list A -> list A -> Prop. (* output file, rows written to it *)

    Notation flush := (sw_flush A cmp sortf dedupe keep_last).
    Notation write := (sw_write A cmp sortf maxrows dedupe keep_last).
    Notation close := (sw_close A cmp sortf merge dedupe keep_last).
    Notation apply := (sw_apply A cmp sortf merge maxrows dedupe keep_last).

    Hypothesis I_flush : forall s p, I s p -> I (flush s) p.
    Hypothesis I_buf : forall s p x, I s p ->
      I (mkSW A (sw_buf A s ++ x) (sw_runs A s) (sw_last A s) (sw_num A s)) (p ++ x).
    Hypothesis I_close : forall s p, I s p -> P (fst (close s)) p /\ I (snd (close s)) [].
    Hypothesis I_reset : forall s p, I s p -> I (sw_reset A s) [].

    Lemma sw_write_inv : forall fuel s b p, length b <= fuel -> I s p -> I (write fuel s b) (p ++ b).
    Proof.
      induction fuel as [|f IH]; intros s b p Hl Hi.
      - destruct b; simpl in *; [now rewrite app_nil_r|lia].
      - destruct b as [|a b]; [simpl; now rewrite app_nil_r|].
        cbn [sw_write].
        set (s1 := if maxrows <=? length (sw_buf A s) then flush s else s).
        assert (H1 : I s1 p) by (unfold s1; destruct (maxrows <=? length (sw_buf A s)); auto).
        set (n := maxrows - length (sw_buf A s1)).
        assert (Hn : 1 <= n).
        { unfold n, s1. destruct (Nat.leb_spec maxrows (length (sw_buf A s))).
          - rewrite sw_flush_buf. simpl. lia.
          - lia. }
        replace (p ++ a :: b) with ((p ++ firstn n (a :: b)) ++ skipn n (a :: b))
          by (now rewrite <- app_assoc, firstn_skipn).
        apply IH; [|now apply I_buf].
        rewrite skipn_length. cbn [length] in *. clearbody n. lia.
    Qed.

    (* the files closed so far satisfy P against the rows written to them *)
    Theorem sw_fold_inv ops : forall s files p spec,
      I s p -> Forall2 P files spec ->
      let st := fold_left apply ops (s, files) in
      Forall2 P (snd st) (spec ++ sw_written A p ops) /\ exists p', I (fst st) p'.
    Proof.
      induction ops as [|o ops IH]; intros s files p spec Hi Hf; cbn [fold_left sw_written].
      - cbv zeta. rewrite app_nil_r. split; [exact Hf|]. exists p. exact Hi.
      - destruct o as [b| | |]; cbn [sw_apply].
        + apply IH; auto. apply sw_write_inv; auto.
        + apply IH; auto.
        + destruct (I_close s p Hi) as [C1 C2]. destruct (close s) as [out s'] eqn:E.
          simpl in C1, C2.
          replace (spec ++ p :: sw_written A [] ops) with ((spec ++ [p]) ++ sw_written A [] ops)
            by (now rewrite <- app_assoc).
          apply IH; auto. apply Forall2_app; auto.
        + apply IH; auto. eapply I_reset; eauto.
    Qed.
  End Generic.

  (** ** without DropDuplicatedRows *)
  Section Plain.
    Variable keep_last : bool.

    Definition inv_plain (s : sw) (p : list A) : Prop :=
      Permutation (sw_buf A s ++ map (@key A) (concat (sw_runs A s))) p /\
      Forall sorted (sw_runs A s) /\ tagged (sw_runs A s) /\
      sw_num A s = length (concat (sw_runs A s)).

    Definition out_plain (out w : list A) : Prop := le_sorted out /\ Permutation out w.

    Lemma plain_flush s p : inv_plain s p -> inv_plain (sw_flush A cmp sortf false keep_last s) p.
    Proof.
      intros (Hp & Hs & Ht & Hn). destruct (sw_buf A s) as [|a l] eqn:Eb.
      - unfold sw_flush. rewrite Eb. unfold inv_plain. rewrite Eb. auto.
      - rewrite sw_flush_eq by (rewrite Eb; discriminate). cbv zeta. cbn [fst snd].
        destruct (sort_ok (sw_buf A s)) as [Sp Ss]. unfold inv_plain. cbn [sw_buf sw_runs sw_num].
        rewrite concat_snoc. split; [|split; [|split]].
        + simpl. rewrite map_app. unfold tag. rewrite map_key_tag_from.
          eapply perm_trans; [|exact Hp]. rewrite Eb.
          eapply perm_trans; [apply Permutation_app_comm|]. apply Permutation_app_tail.
          rewrite <- Eb. exact Sp.
        + apply Forall_snoc; auto. apply sorted_tag_from. exact Ss.
        + apply tagged_snoc; auto. intros r Hr. eapply tag_from_input; eauto.
        + rewrite app_length. lia.
    Qed.

    Lemma plain_buf s p x : inv_plain s p ->
      inv_plain (mkSW A (sw_buf A s ++ x) (sw_runs A s) (sw_last A s) (sw_num A s)) (p ++ x).
    Proof.
      intros (Hp & Hs & Ht & Hn). unfold inv_plain. cbn [sw_buf sw_runs sw_num].
      split; [|auto]. rewrite <- app_assoc.
      eapply perm_trans; [apply Permutation_app_head, Permutation_app_comm|].
      rewrite app_assoc. now apply Permutation_app_tail.
    Qed.

    Lemma plain_close s p : inv_plain s p ->
      out_plain (fst (sw_close A cmp sortf merge false keep_last s)) p /\
      inv_plain (snd (sw_close A cmp sortf merge false keep_last s)) [].
    Proof.
      intros Hi. apply plain_flush in Hi. unfold sw_close. cbn [fst snd].
      set (s1 := sw_flush A cmp sortf false keep_last s) in *.
      assert (Eb : sw_buf A s1 = []) by apply sw_flush_buf.
      destruct Hi as (Hp & Hs & Ht & Hn). rewrite Eb in Hp. simpl in Hp. split.
      - destruct (sw_num A s1) eqn:En.
        + assert (Ec : concat (sw_runs A s1) = []) by (apply length_zero_iff_nil; lia).
          rewrite Ec in Hp. simpl in Hp. split; [constructor|exact Hp].
        + destruct (merge_ok _ Hs) as [st' [Hrun He]].
          destruct (sched_complete_correct A cmp cmp_opp cmp_trans _ _ _ Hrun He Hs Ht) as (M1 & M2 & _).
          split; [now apply sorted_keys|].
          eapply perm_trans; [|exact Hp]. apply Permutation_map. now apply Permutation_sym.
      - unfold inv_plain. cbn [sw_buf sw_runs sw_num]. rewrite Eb. simpl.
        repeat split; auto. intros i l r Hi. destruct i; discriminate.
    Qed.

    Lemma plain_reset s p : inv_plain s p -> inv_plain (sw_reset A s) [].
    Proof.
      intros _. unfold inv_plain, sw_reset. simpl. repeat split; auto.
      intros i l r Hi. destruct i; discriminate.
    Qed.

    Lemma plain_init : inv_plain (sw_init A) [].
    Proof.
      unfold inv_plain, sw_init. simpl. repeat split; auto.
      intros i l r Hi. destruct i; discriminate.
    Qed.

    (** every file closed holds a sorted permutation of the rows written to it *)
    Theorem sorting_writer_sorted_permutation ops :
      Forall2 out_plain (sw_run A cmp sortf merge maxrows false keep_last ops) (sw_written A [] ops).
    Proof.
      unfold sw_run, sw_exec.
      destruct (sw_fold_inv false keep_last inv_plain out_plain plain_flush plain_buf plain_close plain_reset
                            ops (sw_init A) [] [] [] plain_init (Forall2_nil _)) as [H _].
      exact H.
    Qed.

    (** stability, as the code has it: sort.Sort is not stable, the merge is
        stable per row group -- the rows of one sorted run reach the output in
        the order of the run *)
    Theorem sorting_writer_runs_keep_order ops :
      let s1 := sw_flush A cmp sortf false keep_last
                  (fst (sw_exec A cmp sortf merge maxrows false keep_last ops)) in
      let m := merge (sw_runs A s1) in
      sorted m /\ Permutation (concat (sw_runs A s1)) m /\
      forall i, of_input A i m = nth i (sw_runs A s1) [].
    Proof.
      unfold sw_exec.
      destruct (sw_fold_inv false keep_last inv_plain out_plain plain_flush plain_buf plain_close plain_reset
                            ops (sw_init A) [] [] [] plain_init (Forall2_nil _)) as [_ [p Hi]].
      cbv zeta. apply plain_flush in Hi. destruct Hi as (_ & Hs & Ht & _).
      destruct (merge_ok _ Hs) as [st' [Hrun He]].
      exact (sched_complete_correct A cmp cmp_opp cmp_trans _ _ _ Hrun He Hs Ht).
    Qed.
  End Plain.

  (** ** with DropDuplicatedRows (and the dedupe state reset after each run) *)
  Definition eqk (a b : A) : Prop := cmp a b = 0%Z.

  Lemma eqk_refl a : eqk a a.
  Proof. apply (cmp_refl A cmp cmp_opp). Qed.

  Lemma eqk_sym a b : eqk a b -> eqk b a.
  Proof. apply (cmp_eq_sym A cmp cmp_opp). Qed.

  Lemma eqk_trans a b d : eqk a b -> eqk b d -> eqk a d.
  Proof. apply (cmp_eq_trans A cmp cmp_opp cmp_trans). Qed.

  Definition inv_dedupe (s : sw) (p : list A) : Prop :=
    (forall a, In a p -> In a (sw_buf A s) \/ exists r, In r (concat (sw_runs A s)) /\ eqk a (key r)) /\
    (forall a, In a (sw_buf A s) -> In a p) /\
    (forall r, In r (concat (sw_runs A s)) -> In (key r) p) /\
    Forall sorted (sw_runs A s) /\ tagged (sw_runs A s) /\
    sw_num A s = length (concat (sw_runs A s)) /\ sw_last A s = None.

  (* exactly one row for each key written: strictly increasing, every key
     written is represented, every row is one of the rows written *)
  Definition out_dedupe (out w : list A) : Prop :=
    lt_sorted out /\
    (forall a, In a w -> exists b, In b out /\ eqk a b) /\
    (forall b, In b out -> In b w).

  (* the deduplication of one sorted sequence (Merge/DedupeProofs.v) *)
  Lemma dedupe_spec_props m : sorted m ->
    let u := dedupe_spec cmp m in
    StronglySorted (rlt A cmp) u /\
    (forall x, In x m -> exists y, In y u /\ rcmp cmp x y = 0%Z) /\
    (forall y, In y u -> In y m).
  Proof.
    intros Hs u. unfold u. rewrite (dedupe_first_of_runs A cmp cmp_opp cmp_trans).
    split; [now apply (firsts_sorted A cmp cmp_opp cmp_trans)|]. split.
    - intros x Hx. destruct (firsts_from_complete A cmp cmp_opp cmp_trans m None x Hx) as [[q [Eq _]]|H];
        [discriminate|exact H].
    - intros y Hy. eapply subseq_in; [apply firsts_from_subseq|exact Hy].
  Qed.

  Lemma dedupe_flush s p : inv_dedupe s p -> inv_dedupe (sw_flush A cmp sortf true false s) p.
  Proof.
    intros (Hc & Hb & Hr & Hs & Ht & Hn & Hl). destruct (sw_buf A s) as [|a l] eqn:Eb.
    - unfold sw_flush. rewrite Eb. unfold inv_dedupe. rewrite Eb. repeat split; auto.
    - rewrite sw_flush_eq by (rewrite Eb; discriminate). cbv zeta. rewrite Hl.
      set (run := tag (length (sw_runs A s)) (sortf (sw_buf A s))).
      destruct (sort_ok (sw_buf A s)) as [Sp Ss].
      assert (Srun : sorted run) by (apply sorted_tag_from; exact Ss).
      change (fst (dedupe_batch cmp None run)) with (dedupe_spec cmp run).
      destruct (dedupe_spec_props run Srun) as (D1 & D2 & D3). cbv zeta in D1, D2, D3.
      set (kept := dedupe_spec cmp run) in *.
      assert (Krun : forall r, In r run -> In (key r) (sw_buf A s)).
      { intros r Hr0. apply (Permutation_in _ Sp). rewrite <- (map_key_tag_from (length (sw_runs A s)) 0).
        now apply in_map. }
      unfold inv_dedupe. cbn [sw_buf sw_runs sw_num sw_last]. rewrite concat_snoc.
      split; [|split; [|split; [|split; [|split; [|split]]]]].
      + intros x Hx. right. destruct (Hc x Hx) as [Hin|[r [Hin He]]].
        * assert (Hx' : In x (sortf (sw_buf A s))) by (apply (Permutation_in _ (Permutation_sym Sp)); now rewrite Eb).
          assert (exists r0, In r0 run /\ key r0 = x) as [r0 [Hr0 Ek]].
          { rewrite <- (map_key_tag_from (length (sw_runs A s)) 0 (sortf (sw_buf A s))) in Hx'.
            apply in_map_iff in Hx'. destruct Hx' as [r0 [E0 H0]]. eauto. }
          destruct (D2 r0 Hr0) as [y [Hy Ey]]. exists y. split; [apply in_or_app; now right|].
          unfold eqk. rewrite <- Ek. exact Ey.
        * exists r. split; [apply in_or_app; now left|exact He].
      + intros x [].
      + intros r Hin. apply in_app_or in Hin. destruct Hin as [Hin|Hin]; [auto|].
        apply Hb. rewrite <- Eb. apply Krun. now apply D3.
      + apply Forall_snoc; auto. now apply strict_sorted.
      + apply tagged_snoc; auto. intros r Hin. apply D3 in Hin. eapply tag_from_input; eauto.
      + rewrite app_length. lia.
      + reflexivity.
  Qed.

  Lemma dedupe_buf s p x : inv_dedupe s p ->
    inv_dedupe (mkSW A (sw_buf A s ++ x) (sw_runs A s) (sw_last A s) (sw_num A s)) (p ++ x).
  Proof.
    intros (Hc & Hb & Hr & Hs & Ht & Hn & Hl). unfold inv_dedupe. cbn [sw_buf sw_runs sw_num sw_last].
    split; [|split; [|split]]; auto.
    - intros a Ha. apply in_app_or in Ha. destruct Ha as [Ha|Ha].
      + destruct (Hc a Ha) as [H|H]; [left; apply in_or_app; now left|now right].
      + left. apply in_or_app. now right.
    - intros a Ha. apply in_app_or in Ha. apply in_or_app. destruct Ha; [left|right]; auto.
    - intros r Hin. apply in_or_app. left. auto.
  Qed.

  Lemma dedupe_empty_state : inv_dedupe (mkSW A [] [] None 0) [].
  Proof.
    unfold inv_dedupe. simpl.
    split; [intros a []|]. split; [intros a []|]. split; [intros r []|].
    split; [constructor|]. split; [|auto].
    intros i l r Hi. destruct i; discriminate.
  Qed.

  Lemma dedupe_close s p : inv_dedupe s p ->
    out_dedupe (fst (sw_close A cmp sortf merge true false s)) p /\
    inv_dedupe (snd (sw_close A cmp sortf merge true false s)) [].
  Proof.
    intros Hi. apply dedupe_flush in Hi. unfold sw_close. cbn [fst snd].
    set (s1 := sw_flush A cmp sortf true false s) in *.
    assert (Eb : sw_buf A s1 = []) by apply sw_flush_buf.
    destruct Hi as (Hc & Hb & Hr & Hs & Ht & Hn & Hl). split.
    - destruct (sw_num A s1) eqn:En.
      + assert (Ec : concat (sw_runs A s1) = []) by (apply length_zero_iff_nil; lia).
        split; [constructor|]. split; [|intros b []].
        intros a Ha. exfalso. destruct (Hc a Ha) as [H|[r [H _]]].
        * now rewrite Eb in H.
        * now rewrite Ec in H.
      + destruct (merge_ok _ Hs) as [st' [Hrun He]].
        destruct (sched_complete_correct A cmp cmp_opp cmp_trans _ _ _ Hrun He Hs Ht) as (M1 & M2 & _).
        destruct (dedupe_spec_props _ M1) as (D1 & D2 & D3). cbv zeta in D1, D2, D3.
        split; [now apply strict_keys|]. split.
        * intros a Ha. destruct (Hc a Ha) as [H|[r [H E]]]; [now rewrite Eb in H|].
          assert (Hm : In r (merge (sw_runs A s1))) by (apply (Permutation_in _ M2); exact H).
          destruct (D2 r Hm) as [y [Hy Ey]]. exists (key y). split; [now apply in_map|].
          eapply eqk_trans; [exact E|exact Ey].
        * intros b Hb'. apply in_map_iff in Hb'. destruct Hb' as [y [<- Hy]].
          apply Hr. apply (Permutation_in _ (Permutation_sym M2)). now apply D3.
    - rewrite Eb, Hl. apply dedupe_empty_state.
  Qed.

  Lemma dedupe_reset s p : inv_dedupe s p -> inv_dedupe (sw_reset A s) [].
  Proof. intros (_ & _ & _ & _ & _ & _ & Hl). unfold sw_reset. rewrite Hl. apply dedupe_empty_state. Qed.

  (** with DropDuplicatedRows every file closed holds exactly one row for each
      key written to it (and no other row), in order -- whatever the run size,
      the batching, the flushes and the files written before *)
  Theorem sorting_writer_dedupe_one_per_key ops :
    Forall2 out_dedupe (sw_run A cmp sortf merge maxrows true false ops) (sw_written A [] ops).
  Proof.
    unfold sw_run, sw_exec.
    destruct (sw_fold_inv true false inv_dedupe out_dedupe dedupe_flush dedupe_buf dedupe_close dedupe_reset
                          ops (sw_init A) [] [] [] dedupe_empty_state (Forall2_nil _)) as [H _].
    exact H.
  Qed.

  (** the rows of the output are determined up to the choice among rows of
      equal keys: two strictly increasing sequences that represent the same
      keys carry equal keys at equal positions *)
  Lemma lt_le_trans' a b d : (cmp a b < 0)%Z -> (cmp b d <= 0)%Z -> (cmp a d < 0)%Z.
  Proof. apply (cmp_lt_le_trans A cmp cmp_opp cmp_trans). Qed.

  Lemma le_lt_trans' a b d : (cmp a b <= 0)%Z -> (cmp b d < 0)%Z -> (cmp a d < 0)%Z.
  Proof. apply (cmp_le_lt_trans A cmp cmp_opp cmp_trans). Qed.

  Lemma strict_cover_unique l1 : forall l2, lt_sorted l1 -> lt_sorted l2 ->
    (forall a, In a l1 -> exists b, In b l2 /\ eqk a b) ->
    (forall b, In b l2 -> exists a, In a l1 /\ eqk b a) ->
    Forall2 eqk l1 l2.
  Proof.
    clear maxrows_pos sort_ok merge_ok.
    induction l1 as [|x t1 IH]; intros l2 S1 S2 C1 C2.
    - destruct l2 as [|y t2]; [constructor|]. destruct (C2 y (or_introl eq_refl)) as [a [[] _]].
    - destruct l2 as [|y t2]; [destruct (C1 x (or_introl eq_refl)) as [b [[] _]]|].
      inversion S1 as [|? ? S1' F1]; subst. inversion S2 as [|? ? S2' F2]; subst.
      rewrite Forall_forall in F1, F2.
      assert (Exy : eqk x y).
      { destruct (C1 x (or_introl eq_refl)) as [b [[<-|Hb] Eb]]; [exact Eb|].
        assert (Hyb : (cmp y b < 0)%Z) by auto.
        assert (Hyx : (cmp y x < 0)%Z).
        { apply lt_le_trans' with b; auto. apply eqk_sym in Eb. unfold eqk in Eb. lia. }
        destruct (C2 y (or_introl eq_refl)) as [a [[<-|Ha] Ea]].
        - unfold eqk in Ea. lia.
        - assert (Hxa : (cmp x a < 0)%Z) by auto.
          assert (Hxy : (cmp x y < 0)%Z).
          { apply lt_le_trans' with a; auto. apply eqk_sym in Ea. unfold eqk in Ea. lia. }
          assert (O := cmp_opp x y). lia. }
      constructor; [exact Exy|]. apply IH; auto.
      + intros a Ha. destruct (C1 a (or_intror Ha)) as [b [[<-|Hb] Eb]]; [|eauto].
        exfalso. assert (Hxa : (cmp x a < 0)%Z) by auto.
        assert (eqk a x) by (eapply eqk_trans; [exact Eb|apply eqk_sym; exact Exy]).
        apply eqk_sym in H. unfold eqk in H. lia.
      + intros b Hb. destruct (C2 b (or_intror Hb)) as [a [[<-|Ha] Ea]]; [|eauto].
        exfalso. assert (Hyb : (cmp y b < 0)%Z) by auto.
        assert (eqk b y) by (eapply eqk_trans; [exact Ea|exact Exy]).
        apply eqk_sym in H. unfold eqk in H. lia.
  Qed.

  Theorem out_dedupe_unique out1 w1 out2 w2 :
    out_dedupe out1 w1 -> out_dedupe out2 w2 ->
    (forall a, In a w1 -> exists b, In b w2 /\ eqk a b) ->
    (forall b, In b w2 -> exists a, In a w1 /\ eqk b a) ->
    Forall2 eqk out1 out2.
  Proof.
    clear maxrows_pos sort_ok merge_ok.
    intros (S1 & C1 & I1) (S2 & C2 & I2) H12 H21. apply strict_cover_unique; auto.
    - intros a Ha. destruct (H12 a (I1 a Ha)) as [b [Hb E]]. destruct (C2 b Hb) as [d [Hd E']].
      exists d. split; auto. eapply eqk_trans; eauto.
    - intros b Hb. destruct (H21 b (I2 b Hb)) as [a [Ha E]]. destruct (C1 a Ha) as [d [Hd E']].
      exists d. split; auto. eapply eqk_trans; eauto.
  Qed.

  (** ** the executable sort and merge of the oracle meet the contracts *)
  Lemma insert_sorted_perm x l : Permutation (insert_sorted A cmp x l) (x :: l).
  Proof.
    induction l as [|y l IH]; simpl; auto. destruct (cmp x y <=? 0)%Z; auto.
    eapply perm_trans; [apply perm_skip, IH|apply perm_swap].
  Qed.

  Lemma insert_sorted_sorted x l : le_sorted l -> le_sorted (insert_sorted A cmp x l).
  Proof.
    clear maxrows_pos sort_ok merge_ok.
    induction 1 as [|y l Hs IH Hf]; simpl; [repeat constructor|].
    destruct (Z.leb_spec (cmp x y) 0) as [Hle|Hgt].
    - constructor; [constructor; auto|]. constructor; auto.
      eapply Forall_impl; [|exact Hf]. intros z Hz. simpl in Hz. eapply cmp_trans; eauto.
    - constructor; auto. apply (Permutation_Forall (Permutation_sym (insert_sorted_perm x l))).
      constructor; auto. assert (O := cmp_opp y x). assert (O' := cmp_opp x y). lia.
  Qed.
End WriterProofs.

Lemma Forall2_compose {X} (P Q R : X -> X -> Prop) :
  (forall o1 w1 o2 w2, P o1 w1 -> P o2 w2 -> Q w1 w2 -> R o1 o2) ->
  forall o1s w1s, Forall2 P o1s w1s -> forall o2s w2s, Forall2 P o2s w2s ->
  Forall2 Q w1s w2s -> Forall2 R o1s o2s.
Proof.
  intros H o1s w1s H1. induction H1 as [|o1 w1 o1s w1s Hp _ IH]; intros o2s w2s H2 Hq.
  - inversion Hq; subst. inversion H2; subst. constructor.
  - inversion Hq as [|? w2 ? w2s' Hq1 Hq2]; subst. inversion H2 as [|o2 ? o2s' ? Hp2 H2']; subst.
    constructor; eauto.
Qed.

(** With DropDuplicatedRows the keys of a file do not depend on the size of the
    sort runs, on the sort routine, on the merge, on the batching or on what the
    writer wrote before: two writers, two histories -- if the rows written to
    the k-th closed files carry the same keys, the k-th files carry equal keys
    at equal positions. *)
Definition same_keys {A : Type} (cmp : A -> A -> Z) (w1 w2 : list A) : Prop :=
  (forall a, In a w1 -> exists b, In b w2 /\ cmp a b = 0%Z) /\
  (forall b, In b w2 -> exists a, In a w1 /\ cmp b a = 0%Z).

Theorem sorting_writer_dedupe_independent (A : Type) (cmp : A -> A -> Z) :
  (forall a b, (cmp a b < 0 <-> cmp b a > 0)%Z) ->
  (forall a b d, (cmp a b <= 0 -> cmp b d <= 0 -> cmp a d <= 0)%Z) ->
  forall sortf1 merge1 maxrows1 ops1 sortf2 merge2 maxrows2 ops2,
  1 <= maxrows1 -> sort_contract A cmp sortf1 -> merge_contract A cmp merge1 ->
  1 <= maxrows2 -> sort_contract A cmp sortf2 -> merge_contract A cmp merge2 ->
  Forall2 (same_keys cmp) (sw_written A [] ops1) (sw_written A [] ops2) ->
  Forall2 (Forall2 (fun a b => cmp a b = 0%Z))
          (sw_run A cmp sortf1 merge1 maxrows1 true false ops1)
          (sw_run A cmp sortf2 merge2 maxrows2 true false ops2).
Proof.
  intros Ho Ht sortf1 merge1 maxrows1 ops1 sortf2 merge2 maxrows2 ops2 M1 S1 G1 M2 S2 G2 Hw.
  assert (H1 := sorting_writer_dedupe_one_per_key A cmp Ho Ht sortf1 merge1 maxrows1 M1 S1 G1 ops1).
  assert (H2 := sorting_writer_dedupe_one_per_key A cmp Ho Ht sortf2 merge2 maxrows2 M2 S2 G2 ops2).
  refine (Forall2_compose (out_dedupe A cmp) (same_keys cmp) _ _ _ _ H1 _ _ H2 Hw).
  intros o1 w1 o2 w2 P1 P2 [Q1 Q2]. exact (out_dedupe_unique A cmp Ho Ht o1 w1 o2 w2 P1 P2 Q1 Q2).
Qed.

(** ** the contract of sort.Sort on the RowBuffer gives [sort_contract] *)
Section RowBufferSort.
  Variable A : Type.
  Variable cmp : A -> A -> Z.
  Hypothesis cmp_opp : forall a b, (cmp a b < 0 <-> cmp b a > 0)%Z.
  Hypothesis cmp_trans : forall a b d, (cmp a b <= 0 -> cmp b d <= 0 -> cmp a d <= 0)%Z.

  (* RowBuffer.Less is a strict weak order on the rows of the buffer *)
  Definition rb_swo_n (l : list A) (n : nat) : Prop :=
    (forall i, i < n -> rb_less A cmp l i i = false) /\
    (forall i j k, i < n -> j < n -> k < n ->
       rb_less A cmp l i j = true -> rb_less A cmp l j k = true -> rb_less A cmp l i k = true) /\
    (forall i j k, i < n -> j < n -> k < n ->
       rb_less A cmp l i j = false -> rb_less A cmp l j i = false ->
       rb_less A cmp l j k = false -> rb_less A cmp l k j = false ->
       rb_less A cmp l i k = false /\ rb_less A cmp l k i = false).

  Definition rb_swo (l : list A) : Prop := rb_swo_n l (length l).

  Lemma rb_less_swo l : rb_swo l.
  Proof.
    unfold rb_swo, rb_swo_n, rb_less. split; [|split].
    - intros i Hi. destruct (nth_error l i) as [a|]; auto.
      rewrite (cmp_refl A cmp cmp_opp). reflexivity.
    - intros i j k Hi Hj Hk.
      destruct (nth_error l i) as [a|]; [|discriminate].
      destruct (nth_error l j) as [b|]; [|discriminate].
      destruct (nth_error l k) as [d|]; [|discriminate].
      rewrite !Z.ltb_lt. intros H1 H2.
      apply (cmp_lt_le_trans A cmp cmp_opp cmp_trans) with b; auto. lia.
    - intros i j k Hi Hj Hk.
      destruct (nth_error l i) as [a|] eqn:Ei; [|apply nth_error_None in Ei; lia].
      destruct (nth_error l j) as [b|] eqn:Ej; [|apply nth_error_None in Ej; lia].
      destruct (nth_error l k) as [d|] eqn:Ek; [|apply nth_error_None in Ek; lia].
      rewrite !Z.ltb_ge. intros H1 H2 H3 H4.
      assert (T1 := cmp_trans a b d). assert (T2 := cmp_trans d b a).
      assert (O1 := cmp_opp a b). assert (O2 := cmp_opp b a). assert (O3 := cmp_opp b d).
      assert (O4 := cmp_opp d b). assert (O5 := cmp_opp a d). assert (O6 := cmp_opp d a). lia.
  Qed.

  Lemma rb_swaps_perm sws : forall l, Permutation (rb_swaps A l sws) l.
  Proof.
    induction sws as [|p sws IH]; intros l; simpl; auto.
    eapply perm_trans; [apply IH|]. apply Sort.ListLemmas.swapl_perm.
  Qed.

  Lemma adjacent_sorted l :
    (forall i a b, nth_error l i = Some a -> nth_error l (S i) = Some b -> (cmp a b <= 0)%Z) ->
    le_sorted A cmp l.
  Proof.
    induction l as [|x t IH]; intros H; [constructor|].
    assert (Ht : le_sorted A cmp t) by (apply IH; intros i a b Ha Hb; apply (H (S i)); auto).
    constructor; auto.
    destruct t as [|y t']; [constructor|].
    assert (Hxy : (cmp x y <= 0)%Z) by (apply (H 0); reflexivity).
    constructor; auto. inversion Ht as [|? ? _ Hf]; subst.
    eapply Forall_impl; [|exact Hf]. intros z Hz. simpl in Hz. eapply cmp_trans; eauto.
  Qed.

  (* sort.Sort only calls Len, Less and Swap; when Less is a strict weak order
     the exchanges it performs leave no adjacent inversion *)
  Variable sort_swaps : list A -> list (nat * nat).
  Hypothesis sort_sorts : forall l, rb_swo l ->
    forall i, S i < length l -> rb_less A cmp (rb_swaps A l (sort_swaps l)) (S i) i = false.

  Theorem rb_sort_contract : sort_contract A cmp (fun l => rb_swaps A l (sort_swaps l)).
  Proof.
    intros l. split; [apply rb_swaps_perm|]. apply adjacent_sorted. intros i a b Ha Hb.
    assert (Hlen : length (rb_swaps A l (sort_swaps l)) = length l)
      by (apply Permutation_length, rb_swaps_perm).
    assert (Hi : S i < length l).
    { rewrite <- Hlen. apply nth_error_Some. congruence. }
    assert (H := sort_sorts l (rb_less_swo l) i Hi). unfold rb_less in H. rewrite Ha, Hb in H.
    apply Z.ltb_ge in H. assert (O := cmp_opp a b). assert (O' := cmp_opp b a). lia.
  Qed.
End RowBufferSort.

Lemma isort_contract (A : Type) (cmp : A -> A -> Z) :
  (forall a b, (cmp a b < 0 <-> cmp b a > 0)%Z) ->
  (forall a b d, (cmp a b <= 0 -> cmp b d <= 0 -> cmp a d <= 0)%Z) ->
  sort_contract A cmp (isort A cmp).
Proof.
  intros Ho Ht l. induction l as [|x l [IP IS]]; simpl.
  - split; [constructor|constructor].
  - split.
    + eapply perm_trans; [apply insert_sorted_perm|]. now constructor.
    + now apply insert_sorted_sorted.
Qed.

Lemma ref_merge_contract (A : Type) (cmp : A -> A -> Z) :
  (forall a b, (cmp a b < 0 <-> cmp b a > 0)%Z) ->
  (forall a b d, (cmp a b <= 0 -> cmp b d <= 0 -> cmp a d <= 0)%Z) ->
  merge_contract A cmp (ref_merge_all cmp).
Proof.
  intros Ho Ht st _. unfold ref_merge_all. apply (ref_merge_sched A cmp Ho Ht). lia.
Qed.

(** the merged reader of merge.go (any number of row groups, any chunking of
    the sources, slices of [b] rows), read to io.EOF, meets the contract:
    C09_mergeK_refines and C09_mergeK_terminates *)
Definition mergek_all {A : Type} (cmp : A -> A -> Z) (chunks : list (list (row A)) -> list (list nat))
           (b : nat) (st : list (list (row A))) : list (row A) :=
  concat (fst (fst (mergek cmp st (chunks st) (repeat b (length (concat st) + 2))))).

Lemma mergek_all_contract (A : Type) (cmp : A -> A -> Z) chunks b :
  (forall a b, (cmp a b < 0 <-> cmp b a > 0)%Z) ->
  (forall a b d, (cmp a b <= 0 -> cmp b d <= 0 -> cmp a d <= 0)%Z) ->
  1 <= b -> merge_contract A cmp (mergek_all cmp chunks b).
Proof.
  intros Ho Ht Hb st Hs. unfold mergek_all.
  destruct (mergek cmp st (chunks st) (repeat b (length (concat st) + 2))) as [[outs eof] m'] eqn:E.
  assert (Eof : eof = true).
  { eapply (Merge.ProgressProofs.mergek_terminates A cmp Ho Ht); [exact Hs| | |exact E].
    - apply Forall_forall. intros n Hn. apply repeat_spec in Hn. subst n. exact Hb.
    - rewrite repeat_length. lia. }
  destruct (Merge.TreeProofs.mergek_refines A cmp Ho Ht _ _ _ _ _ _ Hs E) as [R1 R2].
  cbn [fst]. eexists. split; [exact R1|exact (R2 Eof)].
Qed.
