(** Model of column_buffer_repeated.go: repeatedColumnBuffer (writeRow /
    WriteValues, Less, Swap, Page).  Executable, no proofs.

    A value written to a repeated column carries its repetition level, its
    definition level and (when the definition level is the maximum) a value.
    The buffer keeps the non-null values in [rbase]; a row is a pair (offset
    into the level arrays, offset into the base column). *)
From Coq Require Import List ZArith NArith Bool Arith.
From PQ Require Import Sort.Model.
Import ListNotations.

Section Repeated.
  Variable V : Type.
  Variable lt : V -> V -> bool.

  Record rval := mkRval { rv_rep : N; rv_def : N; rv_val : option V }.

  Record rcol := mkRcol {
    rbase : list V;
    rrows : list (nat * nat);    (* offset, baseOffset *)
    rreps : list N;
    rdefs : list N;
    rmaxdef : N;
    rnulls_first : bool;         (* nullOrdering: true = nullsGoFirst *)
    rdescending : bool;
    rreordered : bool
  }.

  Definition new_rcol (md : N) (nf desc : bool) : rcol := mkRcol [] [] [] [] md nf desc false.

  (* writeRow *)
  Definition write_row (c : rcol) (row : list rval) : rcol :=
    let vals := flat_map (fun v => if N.eqb (rv_def v) (rmaxdef c)
                                   then match rv_val v with Some x => [x] | None => [] end
                                   else []) row in
    let baseOffset := length (rbase c) in
    let rows' := match row with
                 | v :: _ => if N.eqb (rv_rep v) 0 then rrows c ++ [(length (rreps c), baseOffset)]
                             else rrows c
                 | [] => rrows c
                 end in
    mkRcol (rbase c ++ vals) rows' (rreps c ++ map rv_rep row) (rdefs c ++ map rv_def row)
           (rmaxdef c) (rnulls_first c) (rdescending c) (rreordered c).

  (* the values of the current row that follow its first value: those whose
     repetition level is not zero *)
  Fixpoint row_tail (vs : list rval) : list rval * list rval :=
    match vs with
    | v :: t => if N.eqb (rv_rep v) 0 then ([], vs)
                else let (r, rest) := row_tail t in (v :: r, rest)
    | [] => ([], [])
    end.

  (* WriteValues: "j := i; if values[j].rep == 0 { j++ }; for values[j].rep != 0 { j++ };
     writeRow(values[i:j])" *)
  Fixpoint write_rvalues (fuel : nat) (c : rcol) (vs : list rval) : rcol :=
    match fuel, vs with
    | S f, v :: t =>
        if N.eqb (rv_rep v) 0
        then let (r, rest) := row_tail t in write_rvalues f (write_row c (v :: r)) rest
        else let (r, rest) := row_tail vs in write_rvalues f (write_row c r) rest
    | _, _ => c
    end.

  Definition rcol_write (c : rcol) (vs : list rval) : rcol := write_rvalues (length vs) c vs.

  (* repeatedRowLength(repetitionLevels[offset:]) *)
  Fixpoint until_zero (reps : list N) : nat :=
    match reps with
    | r :: t => if N.eqb r 0 then O else S (until_zero t)
    | [] => O
    end.

  Definition row_length (reps : list N) (offset : nat) : nat :=
    match skipn offset reps with
    | [] => O
    | _ :: t => S (until_zero t)
    end.

  (* the loop of Less over k, x and y index the base column *)
  Fixpoint less_loop (c : rcol) (k n : nat) (off1 off2 : nat) (x y : Z) : option bool :=
    match n with
    | O => None
    | S n' =>
        let d1 := nth (off1 + k) (rdefs c) 0%N in
        let d2 := nth (off2 + k) (rdefs c) 0%N in
        let less := if rnulls_first c then nulls_go_first V lt else nulls_go_last V lt in
        let before0 := less (rbase c) x y (rmaxdef c) d1 d2 in
        let after0 := less (rbase c) y x (rmaxdef c) d2 d1 in
        let before := if rdescending c then after0 else before0 in
        let after := if rdescending c then before0 else after0 in
        if before then Some true
        else if after then Some false
        else less_loop c (S k) n' off1 off2
                       (if N.eqb d1 (rmaxdef c) then x + 1 else x)%Z
                       (if N.eqb d2 (rmaxdef c) then y + 1 else y)%Z
    end.

  Definition rcol_less (c : rcol) (i j : nat) : bool :=
    let r1 := nth i (rrows c) (O, O) in
    let r2 := nth j (rrows c) (O, O) in
    let l1 := row_length (rreps c) (fst r1) in
    let l2 := row_length (rreps c) (fst r2) in
    match less_loop c O (Nat.min l1 l2) (fst r1) (fst r2) (Z.of_nat (snd r1)) (Z.of_nat (snd r2)) with
    | Some b => b
    | None => Nat.ltb l1 l2
    end.

  Definition rcol_swap (c : rcol) (i j : nat) : rcol :=
    mkRcol (rbase c) (swapl (rrows c) i j) (rreps c) (rdefs c) (rmaxdef c)
           (rnulls_first c) (rdescending c) true.

  Definition slice {A} (l : list A) (off len : nat) : list A := firstn len (skipn off l).

  (* Page: the rows are written one after the other into a fresh column *)
  Definition rcol_page (c : rcol) : rcol :=
    if rreordered c then
      fold_left
        (fun (acc : rcol) (r : nat * nat) =>
           let len := row_length (rreps c) (fst r) in
           let defs := slice (rdefs c) (fst r) len in
           let nvals := length (filter (fun d => N.eqb d (rmaxdef c)) defs) in
           mkRcol (rbase acc ++ slice (rbase c) (snd r) nvals)
                  (rrows acc ++ [(length (rreps acc), length (rbase acc))])
                  (rreps acc ++ slice (rreps c) (fst r) len)
                  (rdefs acc ++ defs)
                  (rmaxdef c) (rnulls_first c) (rdescending c) false)
        (rrows c)
        (mkRcol [] [] [] [] (rmaxdef c) (rnulls_first c) (rdescending c) false)
    else c.

  (* the page read sequentially: a base value for each level == max *)
  Fixpoint rpage_values (md : N) (reps defs : list N) (b : list V) : list rval :=
    match reps, defs with
    | r :: reps', d :: defs' =>
        if N.eqb d md then
          match b with
          | v :: b' => mkRval r d (Some v) :: rpage_values md reps' defs' b'
          | [] => mkRval r d None :: rpage_values md reps' defs' []
          end
        else mkRval r d None :: rpage_values md reps' defs' b
    | _, _ => []
    end.

  (* the rows a reader of the page sees: cut at repetition level 0 *)
  Fixpoint cut_rows (fuel : nat) (vs : list rval) : list (list rval) :=
    match fuel, vs with
    | S f, v :: t => let (r, rest) := row_tail t in (v :: r) :: cut_rows f rest
    | _, _ => []
    end.

  Definition rcol_page_rows (c : rcol) : list (list rval) :=
    let c' := rcol_page c in
    let vs := rpage_values (rmaxdef c') (rreps c') (rdefs c') (rbase c') in
    cut_rows (length vs) vs.

  (* the logical content: each row read through rows *)
  Definition rcol_entry_row (c : rcol) (r : nat * nat) : list rval :=
    let len := row_length (rreps c) (fst r) in
    rpage_values (rmaxdef c) (slice (rreps c) (fst r) len) (slice (rdefs c) (fst r) len)
                 (skipn (snd r) (rbase c)).

  Definition rcol_rows (c : rcol) : list (list rval) := map (rcol_entry_row c) (rrows c).

  (* compare.go compareRowsFuncOfColumnValues, the loop over the values of one
     sorting column: first pair that differs, then the shorter sequence first *)
  Fixpoint cmp_values (c : option V -> option V -> Z) (a b : list (option V)) : Z :=
    match a, b with
    | x :: a', y :: b' => let r := c x y in if Z.eqb r 0 then cmp_values c a' b' else r
    | _ :: _, [] => 1%Z
    | [], _ :: _ => (-1)%Z
    | [], [] => 0%Z
    end.

  Inductive rop := RWrite (vs : list rval) | RSwap (i j : nat) | RPage.

  Definition rcol_apply (c : rcol) (o : rop) : rcol :=
    match o with
    | RWrite vs => rcol_write c vs
    | RSwap i j => rcol_swap c i j
    | RPage => rcol_page c
    end.
End Repeated.

Arguments mkRval {V}.
Arguments RWrite {V}.
Arguments RSwap {V}.
Arguments RPage {V}.

(** Entry point of the oracle for one repeated column: Buffer.configure hands
    the column the null ordering [xorb nf desc] and sets [descending]. *)
Definition c10_rep (md : N) (nf desc : bool) (ops : list (rop sval))
  : list (list (rval sval)) * list (list (rval sval)) * list (list bool) * list (list Z) :=
  let c := fold_left (rcol_apply sval) ops (new_rcol sval md (xorb nf desc) desc) in
  let n := length (rrows sval c) in
  let rs := rcol_rows sval c in
  let vals := map (map (rv_val sval)) rs in
  (rs, rcol_page_rows sval c,
   map (fun i => map (fun j => rcol_less sval lt_sval c i j) (seq 0 n)) (seq 0 n),
   map (fun a => map (fun b => cmp_values sval (cmp_col sval cmp_sval true desc nf) a b) vals) vals).
