(** The comparator the SortingWriter model of the oracle runs with
    ([cmp_rows_opt], Sort/Writer.v) is a total preorder on all rows and is the
    row comparator of compare.go ([compare_rows]) on rows whose required sorting
    cells hold values; so the theorems of Sort/WriterProofs.v apply to the model
    the oracle runs ([sw_model]). *)
From Coq Require Import List ZArith NArith Bool Arith Lia Sorting.Sorted Permutation.
From PQ Require Import Sort.Model Sort.ListLemmas Sort.ColProofs Sort.CmpProofs Sort.BufProofs
     Sort.OrderProofs Sort.Instances.
From PQ Require Merge.Model Merge.Instance Merge.AbstractProofs.
From PQ Require Import Sort.Writer Sort.WriterProofs.
Import ListNotations.
Local Open Scope nat_scope.

Lemma nth_repeat_lt {X} (a d : X) : forall m n, n < m -> nth n (repeat a m) d = a.
Proof. induction m as [|m IH]; intros [|n] H; simpl; try lia; auto. apply IH. lia. Qed.

Lemma opt_schema_nth sorting s : In s sorting -> nth (sc_col s) (opt_schema sorting) 0%N = 1%N.
Proof.
  intros Hin. unfold opt_schema. apply nth_repeat_lt.
  assert (H : Forall (fun k => k <= list_max (map sc_col sorting)) (map sc_col sorting))
    by (apply list_max_le; lia).
  rewrite Forall_forall in H. specialize (H (sc_col s) (in_map _ _ _ Hin)). lia.
Qed.

Section Opt.
  Variable V : Type.
  Variable cmp : V -> V -> Z.
  Hypothesis cmp_opp : forall a b, (cmp a b < 0 <-> cmp b a > 0)%Z.
  Hypothesis cmp_trans : forall a b d, (cmp a b <= 0 -> cmp b d <= 0 -> cmp a d <= 0)%Z.

  Lemma opt_row_wf sorting ss (r : row V) : incl ss sorting -> row_wf V (opt_schema sorting) ss r.
  Proof.
    intros Hi. unfold row_wf. apply Forall_forall. intros s Hs.
    rewrite (opt_schema_nth sorting s (Hi s Hs)). left. reflexivity.
  Qed.

  Lemma cmp_rows_opt_opp sorting r1 r2 :
    (cmp_rows_opt V cmp sorting r1 r2 < 0 <-> cmp_rows_opt V cmp sorting r2 r1 > 0)%Z.
  Proof. apply (compare_rows_opp V cmp cmp_opp). Qed.

  Lemma cmp_rows_opt_trans sorting r1 r2 r3 :
    (cmp_rows_opt V cmp sorting r1 r2 <= 0 -> cmp_rows_opt V cmp sorting r2 r3 <= 0 ->
     cmp_rows_opt V cmp sorting r1 r3 <= 0)%Z.
  Proof.
    apply (compare_rows_trans V cmp cmp_opp cmp_trans); apply opt_row_wf, incl_refl.
  Qed.

  (* on rows whose required sorting cells hold values the null wrapper of a
     required column is never consulted *)
  Lemma compare_rows_opt_gen schema sorting r1 r2 : forall ss, incl ss sorting ->
    row_wf V schema ss r1 -> row_wf V schema ss r2 ->
    compare_rows V cmp schema ss r1 r2 = compare_rows V cmp (opt_schema sorting) ss r1 r2.
  Proof.
    induction ss as [|s ss IH]; intros Hi W1 W2; cbn [compare_rows]; auto.
    unfold row_wf in W1, W2. inversion W1 as [|? ? Wa W1']; subst. inversion W2 as [|? ? Wb W2']; subst.
    rewrite (opt_schema_nth sorting s (Hi s (or_introl eq_refl))).
    rewrite IH; auto; [|intros x Hx; apply Hi; now right].
    set (a := fst (nth (sc_col s) r1 (dcell V))) in *. set (b := fst (nth (sc_col s) r2 (dcell V))) in *.
    assert (E : cmp_col V cmp (negb (N.eqb (nth (sc_col s) schema 0%N) 0)) (sc_desc s) (sc_nf s) a b =
                cmp_col V cmp (negb (N.eqb 1 0)) (sc_desc s) (sc_nf s) a b).
    { destruct (negb (N.eqb (nth (sc_col s) schema 0%N) 0)); [reflexivity|].
      unfold cell_wf in Wa, Wb. destruct Wa as [Wa|Wa]; [discriminate|]. destruct Wb as [Wb|Wb]; [discriminate|].
      destruct a as [x|]; [|contradiction]. destruct b as [y|]; [|contradiction].
      unfold cmp_col, cmp_nf, cmp_nl. simpl. destruct (sc_desc s), (sc_nf s); reflexivity. }
    now rewrite E.
  Qed.

  Theorem compare_rows_opt_eq schema sorting r1 r2 :
    row_wf V schema sorting r1 -> row_wf V schema sorting r2 ->
    compare_rows V cmp schema sorting r1 r2 = cmp_rows_opt V cmp sorting r1 r2.
  Proof. intros W1 W2. apply compare_rows_opt_gen; auto. apply incl_refl. Qed.
End Opt.

(** the comparator of the oracle's writer model *)
Lemma cmpW_opp sorting a b : (cmpW sorting a b < 0 <-> cmpW sorting b a > 0)%Z.
Proof. apply (cmp_rows_opt_opp sval cmp_sval cmp_sval_opp). Qed.

Lemma cmpW_trans sorting a b d :
  (cmpW sorting a b <= 0 -> cmpW sorting b d <= 0 -> cmpW sorting a d <= 0)%Z.
Proof. apply (cmp_rows_opt_trans sval cmp_sval cmp_sval_opp cmp_sval_trans). Qed.

Lemma cmpW_is_comparator schema sorting (a b : witem) :
  row_wf sval schema sorting (snd a) -> row_wf sval schema sorting (snd b) ->
  cmpW sorting a b = compare_rows sval cmp_sval schema sorting (snd a) (snd b).
Proof. intros W1 W2. symmetry. now apply (compare_rows_opt_eq sval cmp_sval). Qed.

Theorem sw_model_sorted_permutation sorting maxrows keep_last ops : 1 <= maxrows ->
  Forall2 (out_plain witem (cmpW sorting))
          (sw_model sorting maxrows false keep_last ops) (sw_written witem [] ops).
Proof.
  intros Hm. unfold sw_model.
  apply (sorting_writer_sorted_permutation witem (cmpW sorting) (cmpW_opp sorting) (cmpW_trans sorting)
           _ _ maxrows Hm).
  - apply isort_contract; [apply cmpW_opp|apply cmpW_trans].
  - apply ref_merge_contract; [apply cmpW_opp|apply cmpW_trans].
Qed.

Theorem sw_model_dedupe_one_per_key sorting maxrows ops : 1 <= maxrows ->
  Forall2 (out_dedupe witem (cmpW sorting))
          (sw_model sorting maxrows true false ops) (sw_written witem [] ops).
Proof.
  intros Hm. unfold sw_model.
  apply (sorting_writer_dedupe_one_per_key witem (cmpW sorting) (cmpW_opp sorting) (cmpW_trans sorting)
           _ _ maxrows Hm).
  - apply isort_contract; [apply cmpW_opp|apply cmpW_trans].
  - apply ref_merge_contract; [apply cmpW_opp|apply cmpW_trans].
Qed.
