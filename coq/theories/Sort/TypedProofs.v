(** The typed write path (writeValues with runs of rows sharing a definition
    level, the row indexes of a non-null run filled by broadcastRangeInt32)
    leaves the column in the same state as WriteValues. *)
From Coq Require Import List ZArith NArith Bool Arith Lia.
From PQ Require Import Sort.Model Sort.ListLemmas.
Import ListNotations.

Section TypedProofs.
  Variable V : Type.

  Lemma wvf_nulls md d n : forall (b : list V) r dl ri,
    write_values_from V b r dl md ri (repeat (WNull d) n) =
    (b, r ++ repeat (-1)%Z n, dl ++ repeat d n).
  Proof.
    induction n; intros; simpl.
    - now rewrite !app_nil_r.
    - rewrite IHn, <- !app_assoc. reflexivity.
  Qed.

  Lemma broadcast_range_S n b : broadcast_range (S n) b = b :: broadcast_range n (b + 1)%Z.
  Proof.
    unfold broadcast_range. simpl. f_equal; [lia|].
    rewrite <- seq_shift, map_map. apply map_ext. intros; lia.
  Qed.

  Lemma wvf_vals md vs : forall (b : list V) r dl ri,
    write_values_from V b r dl md ri (map WVal vs) =
    (b ++ vs, r ++ broadcast_range (length vs) ri, dl ++ repeat md (length vs)).
  Proof.
    induction vs as [|v vs IH]; intros; simpl.
    - unfold broadcast_range. simpl. now rewrite !app_nil_r.
    - rewrite IH, broadcast_range_S, <- !app_assoc. reflexivity.
  Qed.

  Lemma wvf_app md a : forall (b : list V) r dl b2,
    write_values_from V b r dl md (Z.of_nat (length b)) (a ++ b2) =
    match write_values_from V b r dl md (Z.of_nat (length b)) a with
    | (b', r', dl') => write_values_from V b' r' dl' md (Z.of_nat (length b')) b2
    end.
  Proof.
    induction a as [|w a IH]; intros; simpl; auto.
    destruct w as [d|v]; auto.
    replace (Z.of_nat (length b) + 1)%Z with (Z.of_nat (length (b ++ [v])))
      by (rewrite app_length; simpl; lia).
    apply IH.
  Qed.

  Lemma write_values_app (c : ocol V) a b2 :
    write_values V c (a ++ b2) = write_values V (write_values V c a) b2.
  Proof.
    unfold write_values. rewrite wvf_app.
    destruct (write_values_from V (base c) (rows c) (deflevels c) (maxdef c)
                                (Z.of_nat (length (base c))) a) as [[b r] dl].
    simpl. reflexivity.
  Qed.

  Definition run_wvals (r : run V) : list (wval V) :=
    match r with RNull d n => repeat (WNull d) n | RVals vs => map WVal vs end.

  Definition run_wf (r : run V) : Prop :=
    match r with RNull _ n => n <> 0 | RVals vs => vs <> [] end.

  Lemma write_run_eq (c : ocol V) r :
    run_wf r -> write_run V c r = write_values V c (run_wvals r).
  Proof.
    destruct r as [d n|vs]; simpl; intros H.
    - destruct n; [contradiction|]. unfold write_values. rewrite wvf_nulls. reflexivity.
    - destruct vs as [|v vs]; [contradiction|]. unfold write_values. rewrite wvf_vals. reflexivity.
  Qed.

  Lemma write_runs_eq rs : forall (c : ocol V),
    Forall run_wf rs ->
    fold_left (write_run V) rs c = write_values V c (flat_map run_wvals rs).
  Proof.
    induction rs as [|r rs IH]; intros c H; simpl.
    - unfold write_values; simpl. destruct c; reflexivity.
    - inversion H; subst. rewrite write_values_app, <- write_run_eq by auto. apply IH; auto.
  Qed.

  Lemma runs_of_spec (vs : list (wval V)) :
    Forall run_wf (runs_of V vs) /\ flat_map run_wvals (runs_of V vs) = vs.
  Proof.
    induction vs as [|w vs [IHw IHf]]; simpl; auto.
    destruct w as [d|v].
    - destruct (runs_of V vs) as [|[d' n|vs'] rest] eqn:E.
      + split; [repeat constructor; simpl; lia|]. simpl in *. now rewrite <- IHf.
      + destruct (N.eqb_spec d d') as [->|]; simpl.
        * destruct (Nat.eqb_spec n 0); simpl.
          -- inversion IHw; subst. simpl in *. contradiction.
          -- split.
             ++ inversion IHw; subst. constructor; simpl; auto.
             ++ simpl in *. now rewrite IHf.
        * split; [constructor; simpl; auto|]. simpl in *. now rewrite IHf.
      + split; [constructor; simpl; auto|]. simpl in *. now rewrite IHf.
    - destruct (runs_of V vs) as [|[d' n|vs'] rest] eqn:E.
      + split; [repeat constructor; simpl; congruence|]. simpl in *. now rewrite <- IHf.
      + split; [constructor; simpl; auto; congruence|]. simpl in *. now rewrite IHf.
      + split.
        * inversion IHw; subst. constructor; simpl; auto; congruence.
        * simpl in *. now rewrite IHf.
  Qed.

  (** the two write paths agree *)
  Theorem write_typed_eq (c : ocol V) vs : write_typed V c vs = write_values V c vs.
  Proof.
    unfold write_typed. destruct (runs_of_spec vs) as [Hw Hf].
    rewrite write_runs_eq by auto. now rewrite Hf.
  Qed.
End TypedProofs.
