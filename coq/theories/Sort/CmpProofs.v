(** Less of the column buffers against the comparator of compare.go, and the
    order properties of the comparator. *)
From Coq Require Import List ZArith NArith Bool Arith Lia Permutation.
From PQ Require Import Sort.Model Sort.ListLemmas Sort.ColProofs.
Import ListNotations.
Local Open Scope Z_scope.

Section CmpProofs.
  Variable V : Type.
  Variable lt : V -> V -> bool.
  Variable cmp : V -> V -> Z.
  Hypothesis lt_cmp : forall a b, lt a b = true <-> cmp a b < 0.
  Hypothesis cmp_opp : forall a b, cmp a b < 0 <-> cmp b a > 0.
  Hypothesis cmp_trans : forall a b d, cmp a b <= 0 -> cmp b d <= 0 -> cmp a d <= 0.

  Notation cell := (cell V).
  Notation cmp_col := (cmp_col V cmp).

  Lemma lt_ltb a b : lt a b = (cmp a b <? 0).
  Proof.
    destruct (Z.ltb_spec (cmp a b) 0) as [H|H].
    - now apply lt_cmp.
    - destruct (lt a b) eqn:E; auto. apply lt_cmp in E. lia.
  Qed.

  Lemma cmp_opp_ltb a b : (cmp b a <? 0) = (- cmp a b <? 0).
  Proof.
    destruct (Z.ltb_spec (cmp b a) 0) as [H|H]; destruct (Z.ltb_spec (- cmp a b) 0) as [H'|H']; auto.
    - apply cmp_opp in H. lia.
    - assert (cmp a b > 0) by lia. apply cmp_opp in H0. lia.
  Qed.

  (** ** order properties of the comparator of one sorting column *)
  (* a cell of a required column is never null *)
  Definition cell_wf (optional : bool) (a : option V) : Prop := optional = true \/ a <> None.

  Lemma cmp_col_opp o d n a b : cmp_col o d n a b < 0 <-> cmp_col o d n b a > 0.
  Proof.
    assert (H := cmp_opp). unfold Model.cmp_col, cmp_nf, cmp_nl, cmp_desc, cmp_raw.
    destruct o, d, n, a as [x|], b as [y|]; try lia;
      specialize (H x y); assert (H' := cmp_opp y x); lia.
  Qed.

  Lemma cmp_col_refl o d n a : cmp_col o d n a a = 0.
  Proof.
    unfold Model.cmp_col, cmp_nf, cmp_nl, cmp_desc, cmp_raw.
    assert (forall x, cmp x x = 0).
    { intros x. assert (H1 := cmp_opp x x). lia. }
    destruct o, d, n, a as [x|]; try rewrite H; lia.
  Qed.

  Lemma cmp_col_trans o d n a b c :
    cell_wf o a -> cell_wf o b -> cell_wf o c ->
    cmp_col o d n a b <= 0 -> cmp_col o d n b c <= 0 -> cmp_col o d n a c <= 0.
  Proof.
    unfold cell_wf, Model.cmp_col, cmp_nf, cmp_nl, cmp_desc, cmp_raw.
    intros [Ha|Ha] [Hb|Hb] [Hc|Hc]; subst;
      destruct d, n, a as [x|], b as [y|], c as [z|]; try congruence; try lia;
      try destruct o; try lia;
      try (assert (T := cmp_trans x y z); lia);
      try (intros; assert (T := cmp_trans z y x);
           assert (O1 := cmp_opp x y); assert (O2 := cmp_opp y x);
           assert (O3 := cmp_opp y z); assert (O4 := cmp_opp z y);
           assert (O5 := cmp_opp x z); assert (O6 := cmp_opp z x); lia).
  Qed.

  (** ** Less of a column against the comparator *)
  Lemma Forall2_nth {A B} (P : A -> B -> Prop) l1 l2 i d1 d2 :
    Forall2 P l1 l2 -> (i < length l1)%nat -> P (nth i l1 d1) (nth i l2 d2).
  Proof.
    intros H; revert i; induction H; intros [|i] Hi; simpl in *; try lia; auto.
    apply IHForall2; lia.
  Qed.

  Lemma nth_cells_of (b : list V) r dl i :
    length r = length dl -> (i < length r)%nat ->
    nth i (cells_of V b r dl) (dcell V) = (lookup V b (nth i r (-1)), nth i dl 0%N).
  Proof.
    intros Hl Hi. unfold cells_of.
    set (f := fun rd : Z * N => (lookup V b (fst rd), snd rd)).
    rewrite (nth_indep _ (dcell V) (f (-1, 0%N)))
      by (rewrite map_length, combine_length; lia).
    rewrite (map_nth f), combine_nth by auto. reflexivity.
  Qed.

  (* the comparison an optional column buffer implements: ascending values,
     nulls where its null ordering puts them *)
  Definition ocol_cmp (nfo : bool) : option V -> option V -> Z :=
    if nfo then cmp_nf V (cmp_raw V cmp) else cmp_nl V (cmp_raw V cmp).

  Lemma ocol_less_spec (c : ocol V) i j :
    ocol_ok V c -> (i < length (rows c))%nat -> (j < length (rows c))%nat ->
    ocol_less V lt c i j =
    (ocol_cmp (nulls_first c) (fst (nth i (ocol_cells V c) (dcell V)))
              (fst (nth j (ocol_cells V c) (dcell V))) <? 0).
  Proof.
    intros (Hl & Hp & _) Hi Hj.
    assert (Hlen : length (rows c) = length (deflevels c)) by (eapply Forall2_len; eauto).
    rewrite ocol_cells_eq, !nth_cells_of by auto. simpl.
    assert (Hri := Forall2_nth _ _ _ i (-1) 0%N Hl Hi).
    assert (Hrj := Forall2_nth _ _ _ j (-1) 0%N Hl Hj).
    set (ri := nth i (rows c) (-1)) in *. set (rj := nth j (rows c) (-1)) in *.
    set (di := nth i (deflevels c) 0%N) in *. set (dj := nth j (deflevels c) 0%N) in *.
    assert (Hlk : forall r, In r (rows c) -> 0 <= r -> exists x, lookup V (base c) r = Some x /\
                    nth_error (base c) (Z.to_nat r) = Some x).
    { intros r Hin Hr. assert (Hlt := nn_in_range V (base c) (rows c) r Hp Hin Hr).
      unfold lookup. destruct (Z.ltb_spec r 0); try lia.
      destruct (nth_error (base c) (Z.to_nat r)) eqn:E; eauto.
      apply nth_error_None in E. lia. }
    assert (Hini : In ri (rows c)) by (apply nth_In; auto).
    assert (Hinj : In rj (rows c)) by (apply nth_In; auto).
    unfold ocol_less, ocol_cmp. fold ri rj di dj.
    destruct Hri as [[Ei Hdi]|[Hri Edi]], Hrj as [[Ej Hdj]|[Hrj Edj]].
    - rewrite Ei, Ej. unfold lookup; simpl.
      destruct (nulls_first c); unfold nulls_go_first, nulls_go_last;
        destruct (N.eqb_spec di (maxdef c)), (N.eqb_spec dj (maxdef c)); try contradiction; auto.
    - destruct (Hlk rj Hinj Hrj) as (y & Ey & Ey'). rewrite Ei, Ey. unfold lookup at 1; simpl.
      destruct (nulls_first c); unfold nulls_go_first, nulls_go_last;
        destruct (N.eqb_spec di (maxdef c)), (N.eqb_spec dj (maxdef c)); try contradiction; auto.
    - destruct (Hlk ri Hini Hri) as (x & Ex & Ex'). rewrite Ej, Ex. unfold lookup at 1; simpl.
      destruct (nulls_first c); unfold nulls_go_first, nulls_go_last;
        destruct (N.eqb_spec di (maxdef c)), (N.eqb_spec dj (maxdef c)); try contradiction; auto.
    - destruct (Hlk ri Hini Hri) as (x & Ex & Ex'). destruct (Hlk rj Hinj Hrj) as (y & Ey & Ey').
      rewrite Ex, Ey.
      destruct (nulls_first c); unfold nulls_go_first, nulls_go_last, base_less;
        destruct (N.eqb_spec di (maxdef c)), (N.eqb_spec dj (maxdef c)); try contradiction;
        rewrite Ex', Ey'; simpl; apply lt_ltb.
  Qed.

  (** a column as Buffer.configure sets it up for the leaf [md] and the null
      ordering [nfo] *)
  Definition col_ok (md : N) (nfo : bool) (c : col V) : Prop :=
    match c with
    | CReq _ => md = 0%N
    | COpt o => md <> 0%N /\ maxdef o = md /\ nulls_first o = nfo /\ ocol_ok V o
    end.

  (* every cell of a required column holds a value *)
  Lemma col_cells_wf md nfo c i :
    col_ok md nfo c -> (i < col_len V c)%nat ->
    cell_wf (negb (N.eqb md 0)) (fst (nth i (col_cells V c) (dcell V))).
  Proof.
    destruct c as [vals|o]; simpl.
    - intros -> Hi. right.
      destruct (nth_error vals i) as [x|] eqn:Ei; [|apply nth_error_None in Ei; lia].
      erewrite nth_error_nth; [|rewrite nth_error_map, Ei; reflexivity]. discriminate.
    - intros (Hmd & _) _. left. destruct (N.eqb_spec md 0); auto; contradiction.
  Qed.

  (** The decision rule.  For the sorting column (descending [d], nulls first
      [n]) the buffer's column is set up with the null ordering [xorb n d] and
      wrapped in reversedColumnBuffer when [d]; its Less is the comparator of
      compare.go for the same (d, n). *)
  Theorem sorted_less_spec (cols : list (col V)) k md d n i j :
    col_ok md (xorb n d) (nth k cols (dcol V)) ->
    (i < col_len V (nth k cols (dcol V)))%nat -> (j < col_len V (nth k cols (dcol V)))%nat ->
    sorted_less V lt cols (k, d) i j =
    (cmp_col (negb (N.eqb md 0)) d n
             (fst (nth i (col_cells V (nth k cols (dcol V))) (dcell V)))
             (fst (nth j (col_cells V (nth k cols (dcol V))) (dcell V))) <? 0).
  Proof.
    unfold sorted_less; simpl. destruct (nth k cols (dcol V)) as [vals|o]; simpl.
    - intros -> Hi Hj. simpl.
      destruct (nth_error vals i) as [x|] eqn:Ei; [|apply nth_error_None in Ei; lia].
      destruct (nth_error vals j) as [y|] eqn:Ej; [|apply nth_error_None in Ej; lia].
      erewrite (nth_error_nth _ i); [|rewrite nth_error_map, Ei; reflexivity].
      erewrite (nth_error_nth _ j); [|rewrite nth_error_map, Ej; reflexivity].
      unfold Model.cmp_col, cmp_desc, cmp_raw. simpl.
      destruct d.
      + rewrite lt_ltb. apply cmp_opp_ltb.
      + apply lt_ltb.
    - intros (Hmd & Emd & Enf & Hok) Hi Hj.
      destruct (N.eqb_spec md 0) as [|_]; [contradiction|]. simpl.
      destruct d.
      + rewrite ocol_less_spec, Enf by auto.
        set (a := fst (nth i (ocol_cells V o) (dcell V))).
        set (b := fst (nth j (ocol_cells V o) (dcell V))).
        unfold ocol_cmp, Model.cmp_col, cmp_nf, cmp_nl, cmp_desc, cmp_raw.
        destruct n, a as [x|], b as [y|]; simpl; auto. apply cmp_opp_ltb. apply cmp_opp_ltb.
      + rewrite ocol_less_spec, Enf by auto.
        unfold ocol_cmp, Model.cmp_col. destruct n; reflexivity.
  Qed.
End CmpProofs.
