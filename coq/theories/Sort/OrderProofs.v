(** Buffer.Less against the row comparator, the order properties of both, and
    the consequence of the contract of sort.Sort. *)
From Coq Require Import List ZArith NArith Bool Arith Lia Permutation.
From PQ Require Import Sort.Model Sort.ListLemmas Sort.ColProofs Sort.CmpProofs Sort.BufProofs.
Import ListNotations.

Section OrderProofs.
  Variable V : Type.
  Variable lt : V -> V -> bool.
  Variable cmp : V -> V -> Z.
  Hypothesis lt_cmp : forall a b, lt a b = true <-> (cmp a b < 0)%Z.
  Hypothesis cmp_opp : forall a b, (cmp a b < 0 <-> cmp b a > 0)%Z.
  Hypothesis cmp_trans : forall a b d, (cmp a b <= 0 -> cmp b d <= 0 -> cmp a d <= 0)%Z.

  Notation row := (row V).
  Notation dcell := (dcell V).
  Notation dcol := (dcol V).
  Notation compare_rows := (compare_rows V cmp).
  Notation cmp_col := (cmp_col V cmp).

  (** the sorting columns name distinct leaves of the schema *)
  Definition sorting_ok (schema : list N) (sorting : list sortcol) : Prop :=
    NoDup (map sc_col sorting) /\ Forall (fun s => sc_col s < length schema) sorting.

  Lemma search_sorting_nodup sorting s :
    NoDup (map sc_col sorting) -> In s sorting ->
    search_sorting sorting (sc_col s) = Some s.
  Proof.
    unfold search_sorting. induction sorting as [|s0 t IH]; intros Hnd Hin; [destruct Hin|].
    simpl in *. inversion Hnd; subst. destruct Hin as [->|Hin].
    - now rewrite Nat.eqb_refl.
    - destruct (Nat.eqb_spec (sc_col s0) (sc_col s)) as [E|]; auto.
      exfalso. apply H1. rewrite E. now apply in_map.
  Qed.

  (** ** Less is the comparator *)
  Lemma lex_step (x y r : Z) :
    (x < 0 <-> y > 0)%Z -> (y < 0 <-> x > 0)%Z ->
    (if (x <? 0)%Z then true else if (y <? 0)%Z then false else (r <? 0)%Z) =
    ((if (x =? 0)%Z then r else x) <? 0)%Z.
  Proof.
    intros Ho Ho'. destruct (Z.eqb_spec x 0) as [->|Hx].
    - simpl. destruct (Z.ltb_spec y 0); [lia|reflexivity].
    - destruct (Z.ltb_spec x 0); auto. destruct (Z.ltb_spec y 0); [reflexivity|lia].
  Qed.

  Lemma less_by_spec schema sorting (b : buffer V) rows i j : forall ss,
    buf_inv V schema sorting b rows -> i < length rows -> j < length rows ->
    (forall s, In s ss -> sc_col s < length schema /\
                          null_ordering sorting (sc_col s) = xorb (sc_nf s) (sc_desc s)) ->
    less_by V lt (columns b) (map (fun s => (sc_col s, sc_desc s)) ss) i j =
    (compare_rows schema ss (nth i rows []) (nth j rows []) <? 0)%Z.
  Proof.
    intros ss Hinv Hi Hj. induction ss as [|s ss IH]; intros Hss; simpl; auto.
    destruct (Hss s (or_introl eq_refl)) as [Hk Hno].
    assert (Hlen := inv_col_len V _ _ _ _ _ Hinv Hk).
    destruct Hinv as (Hsorted & Hl & Hr & Hc). destruct (Hc _ Hk) as [Hok Hcells].
    rewrite Hno in Hok.
    rewrite (sorted_less_spec V lt cmp lt_cmp cmp_opp (columns b) (sc_col s)
                              (nth (sc_col s) schema 0%N) (sc_desc s) (sc_nf s) i j Hok)
      by lia.
    rewrite (sorted_less_spec V lt cmp lt_cmp cmp_opp (columns b) (sc_col s)
                              (nth (sc_col s) schema 0%N) (sc_desc s) (sc_nf s) j i Hok)
      by lia.
    rewrite Hcells, !(nth_map_in _ _ _ []) by auto.
    rewrite IH by (intros; apply Hss; right; auto).
    cbv beta zeta.
    apply lex_step; apply (cmp_col_opp V cmp cmp_opp).
  Qed.

  Theorem buffer_less_spec schema sorting (b : buffer V) rows i j :
    buf_inv V schema sorting b rows -> sorting_ok schema sorting ->
    i < length rows -> j < length rows ->
    buffer_less V lt b i j = (compare_rows schema sorting (nth i rows []) (nth j rows []) <? 0)%Z.
  Proof.
    intros Hinv [Hnd Hrange] Hi Hj. unfold buffer_less.
    assert (Hs := Hinv). destruct Hs as (Hs & _). rewrite Hs.
    apply (less_by_spec schema sorting b rows i j sorting Hinv Hi Hj). intros s Hin. rewrite Forall_forall in Hrange. split; auto.
    unfold null_ordering. now rewrite search_sorting_nodup.
  Qed.

  (** ** order properties of the row comparator *)
  (* a row whose required sorting cells hold values *)
  Definition row_wf (schema : list N) (sorting : list sortcol) (r : row) : Prop :=
    Forall (fun s => cell_wf V (negb (N.eqb (nth (sc_col s) schema 0%N) 0))
                             (fst (nth (sc_col s) r dcell))) sorting.

  Lemma compare_rows_opp schema sorting r1 r2 :
    (compare_rows schema sorting r1 r2 < 0 <-> compare_rows schema sorting r2 r1 > 0)%Z.
  Proof.
    induction sorting as [|s t IH]; simpl; [lia|].
    set (o := negb (nth (sc_col s) schema 0 =? 0)%N).
    set (a := fst (nth (sc_col s) r1 dcell)). set (c := fst (nth (sc_col s) r2 dcell)).
    assert (H1 := cmp_col_opp V cmp cmp_opp o (sc_desc s) (sc_nf s) a c).
    assert (H2 := cmp_col_opp V cmp cmp_opp o (sc_desc s) (sc_nf s) c a).
    destruct (Z.eqb_spec (cmp_col o (sc_desc s) (sc_nf s) a c) 0);
      destruct (Z.eqb_spec (cmp_col o (sc_desc s) (sc_nf s) c a) 0); lia.
  Qed.

  Lemma compare_rows_refl schema sorting r : compare_rows schema sorting r r = 0%Z.
  Proof.
    induction sorting as [|s t IH]; simpl; auto.
    rewrite (cmp_col_refl V cmp cmp_opp). simpl. auto.
  Qed.

  Lemma compare_rows_trans schema sorting r1 r2 r3 :
    row_wf schema sorting r1 -> row_wf schema sorting r2 -> row_wf schema sorting r3 ->
    (compare_rows schema sorting r1 r2 <= 0 -> compare_rows schema sorting r2 r3 <= 0 ->
     compare_rows schema sorting r1 r3 <= 0)%Z.
  Proof.
    unfold row_wf. induction sorting as [|s t IH]; simpl; intros W1 W2 W3; [lia|].
    assert (Wa := Forall_inv W1). assert (Wb := Forall_inv W2). assert (Wc := Forall_inv W3).
    specialize (IH (Forall_inv_tail W1) (Forall_inv_tail W2) (Forall_inv_tail W3)).
    cbv beta in Wa, Wb, Wc. cbv zeta.
    set (o := negb (nth (sc_col s) schema 0 =? 0)%N) in *.
    set (a := fst (nth (sc_col s) r1 dcell)) in *. set (b := fst (nth (sc_col s) r2 dcell)) in *.
    set (c := fst (nth (sc_col s) r3 dcell)) in *.
    set (f := cmp_col o (sc_desc s) (sc_nf s)).
    assert (Hopp : forall x y, (f x y < 0 <-> f y x > 0)%Z)
      by (intros; apply (cmp_col_opp V cmp cmp_opp)).
    assert (Htr : forall x y z, cell_wf V o x -> cell_wf V o y -> cell_wf V o z ->
                                (f x y <= 0 -> f y z <= 0 -> f x z <= 0)%Z)
      by (intros x y z Hx Hy Hz; apply (cmp_col_trans V cmp cmp_opp cmp_trans o _ _ x y z Hx Hy Hz)).
    assert (T1 := Htr a b c Wa Wb Wc). assert (T2 := Htr c a b Wc Wa Wb).
    assert (T3 := Htr b c a Wb Wc Wa). assert (T4 := Htr c b a Wc Wb Wa).
    assert (T5 := Htr b a c Wb Wa Wc). assert (T6 := Htr a c b Wa Wc Wb).
    assert (O1 := Hopp a b). assert (O2 := Hopp b a). assert (O3 := Hopp b c).
    assert (O4 := Hopp c b). assert (O5 := Hopp a c). assert (O6 := Hopp c a).
    clearbody f. clear Hopp Htr.
    destruct (Z.eqb_spec (f a b) 0); destruct (Z.eqb_spec (f b c) 0);
      destruct (Z.eqb_spec (f a c) 0); intros; lia.
  Qed.

  (** ** rows held by a buffer are well formed *)
  Lemma inv_row_wf schema sorting (b : buffer V) rows i :
    buf_inv V schema sorting b rows -> sorting_ok schema sorting -> i < length rows ->
    row_wf schema sorting (nth i rows []).
  Proof.
    intros Hinv [_ Hrange] Hi. unfold row_wf. rewrite Forall_forall in *. intros s Hin.
    assert (Hk := Hrange _ Hin). assert (Hlen := inv_col_len V _ _ _ _ _ Hinv Hk).
    destruct Hinv as (_ & _ & _ & Hc). destruct (Hc _ Hk) as [Hok Hcells].
    assert (H := col_cells_wf V _ _ _ i Hok). rewrite Hlen in H. specialize (H Hi).
    rewrite Hcells, (nth_map_in _ _ _ []) in H by auto. exact H.
  Qed.

  (** ** strict weak order of Buffer.Less *)
  Theorem buffer_less_swo schema sorting (b : buffer V) rows :
    buf_inv V schema sorting b rows -> sorting_ok schema sorting ->
    let n := length rows in
    (forall i, i < n -> buffer_less V lt b i i = false) /\
    (forall i j k, i < n -> j < n -> k < n ->
       buffer_less V lt b i j = true -> buffer_less V lt b j k = true -> buffer_less V lt b i k = true) /\
    (forall i j k, i < n -> j < n -> k < n ->
       buffer_less V lt b i j = false -> buffer_less V lt b j i = false ->
       buffer_less V lt b j k = false -> buffer_less V lt b k j = false ->
       buffer_less V lt b i k = false /\ buffer_less V lt b k i = false).
  Proof.
    intros Hinv Hso n.
    assert (Hspec : forall i j, i < n -> j < n ->
              buffer_less V lt b i j = (compare_rows schema sorting (nth i rows []) (nth j rows []) <? 0)%Z)
      by (intros; apply buffer_less_spec; auto).
    assert (Hwf : forall i, i < n -> row_wf schema sorting (nth i rows []))
      by (intros; eapply inv_row_wf; eauto).
    assert (Hopp := compare_rows_opp schema sorting).
    assert (Htr := compare_rows_trans schema sorting).
    split; [|split].
    - intros i Hi. rewrite Hspec, compare_rows_refl by auto. reflexivity.
    - intros i j k Hi Hj Hk. rewrite !Hspec by auto. rewrite !Z.ltb_lt. intros H1 H2.
      assert (T := Htr _ _ _ (Hwf i Hi) (Hwf j Hj) (Hwf k Hk)).
      assert (T' := Htr _ _ _ (Hwf k Hk) (Hwf i Hi) (Hwf j Hj)).
      assert (O1 := Hopp (nth i rows []) (nth k rows [])).
      assert (O2 := Hopp (nth k rows []) (nth i rows [])).
      assert (O3 := Hopp (nth j rows []) (nth k rows [])).
      assert (O4 := Hopp (nth k rows []) (nth j rows [])). lia.
    - intros i j k Hi Hj Hk. rewrite !Hspec by auto. rewrite !Z.ltb_ge. intros H1 H2 H3 H4.
      assert (T1 := Htr _ _ _ (Hwf i Hi) (Hwf j Hj) (Hwf k Hk)).
      assert (T2 := Htr _ _ _ (Hwf k Hk) (Hwf j Hj) (Hwf i Hi)).
      assert (O1 := Hopp (nth i rows []) (nth j rows [])).
      assert (O2 := Hopp (nth j rows []) (nth i rows [])).
      assert (O3 := Hopp (nth j rows []) (nth k rows [])).
      assert (O4 := Hopp (nth k rows []) (nth j rows [])).
      assert (O5 := Hopp (nth i rows []) (nth k rows [])).
      assert (O6 := Hopp (nth k rows []) (nth i rows [])). lia.
  Qed.

  (** ** the contract of sort.Sort gives rows ordered by the comparator *)
  Definition sorted_by_less (b : buffer V) (n : nat) : Prop :=
    forall i, S i < n -> buffer_less V lt b (S i) i = false.

  Theorem sorted_rows_ordered schema sorting (b : buffer V) rows :
    buf_inv V schema sorting b rows -> sorting_ok schema sorting ->
    sorted_by_less b (length rows) ->
    forall i j, i <= j -> j < length rows ->
      (compare_rows schema sorting (nth i rows []) (nth j rows []) <= 0)%Z.
  Proof.
    intros Hinv Hso Hsorted i j Hij Hj.
    assert (Hwf : forall i, i < length rows -> row_wf schema sorting (nth i rows []))
      by (intros; eapply inv_row_wf; eauto).
    induction Hij as [|j Hij IH].
    - rewrite compare_rows_refl. lia.
    - assert (Hs := Hsorted j Hj).
      rewrite (buffer_less_spec schema sorting b rows (S j) j) in Hs by (auto; lia).
      apply Z.ltb_ge in Hs.
      assert (O := compare_rows_opp schema sorting (nth j rows []) (nth (S j) rows [])).
      assert (O' := compare_rows_opp schema sorting (nth (S j) rows []) (nth j rows [])).
      eapply compare_rows_trans; [| | |apply IH; lia|lia]; apply Hwf; lia.
  Qed.

  (** ** the theorems about histories *)
  Theorem less_is_comparator schema sorting ops i j :
    schema <> [] -> sorting_ok schema sorting -> Forall (op_ok V schema) ops ->
    let b := reach V schema sorting ops in
    i < buffer_len V b -> j < buffer_len V b ->
    (buffer_less V lt b i j = true <->
     (compare_rows schema sorting (buffer_row V b i) (buffer_row V b j) < 0)%Z).
  Proof.
    intros Hne Hso Hops b Hi Hj.
    assert (Hinv := reach_inv V schema sorting ops Hops). fold b in Hinv.
    rewrite (inv_len V _ _ _ _ Hinv Hne) in Hi, Hj.
    rewrite (buffer_less_spec schema sorting b _ i j Hinv Hso Hi Hj).
    rewrite !(inv_row V _ _ _ _ _ Hinv) by auto. apply Z.ltb_lt.
  Qed.

  Definition less_swo (b : buffer V) (n : nat) : Prop :=
    (forall i, i < n -> buffer_less V lt b i i = false) /\
    (forall i j k, i < n -> j < n -> k < n ->
       buffer_less V lt b i j = true -> buffer_less V lt b j k = true -> buffer_less V lt b i k = true) /\
    (forall i j k, i < n -> j < n -> k < n ->
       buffer_less V lt b i j = false -> buffer_less V lt b j i = false ->
       buffer_less V lt b j k = false -> buffer_less V lt b k j = false ->
       buffer_less V lt b i k = false /\ buffer_less V lt b k i = false).

  Theorem less_strict_weak_order schema sorting ops :
    schema <> [] -> sorting_ok schema sorting -> Forall (op_ok V schema) ops ->
    let b := reach V schema sorting ops in less_swo b (buffer_len V b).
  Proof.
    intros Hne Hso Hops b.
    assert (Hinv := reach_inv V schema sorting ops Hops). fold b in Hinv.
    rewrite (inv_len V _ _ _ _ Hinv Hne). apply (buffer_less_swo schema sorting b _ Hinv Hso).
  Qed.

  Definition swap_ops (l : list (nat * nat)) : list (op V) :=
    map (fun p => OSwap (fst p) (snd p)) l.

  Lemma swap_ops_ok schema l : Forall (op_ok V schema) (swap_ops l).
  Proof. unfold swap_ops. apply Forall_map. apply Forall_forall. intros; exact I. Qed.

  Lemma written_swaps schema ops l : written V schema (ops ++ swap_ops l) = written V schema ops.
  Proof.
    unfold written. rewrite flat_map_app.
    assert (flat_map (fun o : op V => match o with
              | OWrite _ batch => map (row_of V schema) batch | _ => [] end) (swap_ops l) = []).
    { induction l; simpl; auto. }
    rewrite H. apply app_nil_r.
  Qed.

  (** whatever exchanges a sort routine performs: if the result has no
      adjacent inversion for Less, the rows are the rows written, ordered by
      the comparator *)
  Theorem sorted_after_swaps schema sorting ops l :
    schema <> [] -> sorting_ok schema sorting -> Forall (op_ok V schema) ops ->
    let b' := reach V schema sorting (ops ++ swap_ops l) in
    sorted_by_less b' (buffer_len V b') ->
    Permutation (buffer_rows V b') (buffer_rows V (reach V schema sorting ops)) /\
    Permutation (buffer_rows V b') (written V schema ops) /\
    forall i j, i <= j -> j < length (buffer_rows V b') ->
      (compare_rows schema sorting (nth i (buffer_rows V b') []) (nth j (buffer_rows V b') []) <= 0)%Z.
  Proof.
    intros Hne Hso Hops b' Hsorted.
    assert (Hops' : Forall (op_ok V schema) (ops ++ swap_ops l))
      by (apply Forall_app; split; auto; apply swap_ops_ok).
    assert (Hinv := reach_inv V schema sorting _ Hops'). fold b' in Hinv.
    destruct (swaps_preserve_rows V schema sorting _ Hne Hops') as (H1 & _ & Hp1).
    destruct (swaps_preserve_rows V schema sorting _ Hne Hops) as (H2 & _ & Hp2).
    fold b' in H1. rewrite written_swaps in Hp1.
    rewrite (inv_len V _ _ _ _ Hinv Hne) in Hsorted.
    rewrite H1, H2. split; [|split]; auto.
    - eapply perm_trans; [exact Hp1|]. apply Permutation_sym; exact Hp2.
    - intros i j Hij Hj. eapply sorted_rows_ordered; eauto.
  Qed.

  (** the contract of sort.Sort: when Less is a strict weak order on the n
      elements, the exchanges it performs leave no adjacent inversion *)
  Definition sort_contract (sort_swaps : buffer V -> list (nat * nat)) : Prop :=
    forall b n, n = buffer_len V b -> less_swo b n ->
                sorted_by_less (run_ops V b (swap_ops (sort_swaps b))) n.

  Theorem sorted_after_sort sort_swaps schema sorting ops :
    sort_contract sort_swaps ->
    schema <> [] -> sorting_ok schema sorting -> Forall (op_ok V schema) ops ->
    let b := reach V schema sorting ops in
    let b' := run_ops V b (swap_ops (sort_swaps b)) in
    Permutation (buffer_rows V b') (buffer_rows V b) /\
    Permutation (buffer_rows V b') (written V schema ops) /\
    forall i j, i <= j -> j < length (buffer_rows V b') ->
      (compare_rows schema sorting (nth i (buffer_rows V b') []) (nth j (buffer_rows V b') []) <= 0)%Z.
  Proof.
    intros Hc Hne Hso Hops b b'.
    assert (Eb' : b' = reach V schema sorting (ops ++ swap_ops (sort_swaps b))).
    { unfold b', b, reach, run_ops. now rewrite fold_left_app. }
    assert (Hs := Hc b (buffer_len V b) eq_refl (less_strict_weak_order schema sorting ops Hne Hso Hops)).
    fold b' in Hs.
    assert (Hlen : buffer_len V b' = buffer_len V b).
    { assert (Hops' : Forall (op_ok V schema) (ops ++ swap_ops (sort_swaps b)))
        by (apply Forall_app; split; auto; apply swap_ops_ok).
      assert (I1 := reach_inv V schema sorting _ Hops'). rewrite <- Eb' in I1.
      assert (I2 := reach_inv V schema sorting _ Hops). fold b in I2.
      rewrite (inv_len V _ _ _ _ I1 Hne), (inv_len V _ _ _ _ I2 Hne).
      destruct (swaps_preserve_rows V schema sorting _ Hne Hops') as (_ & _ & P1).
      destruct (swaps_preserve_rows V schema sorting _ Hne Hops) as (_ & _ & P2).
      rewrite written_swaps in P1.
      rewrite (Permutation_length P1), (Permutation_length P2). reflexivity. }
    rewrite <- Hlen in Hs. rewrite Eb' in *.
    apply sorted_after_swaps; auto.
  Qed.
End OrderProofs.
