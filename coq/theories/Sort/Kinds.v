(** The orders of the kinds of sorting columns.

    The theorems of Properties/C10.v hold of any value type whose Compare is a
    total preorder and whose base column buffer Less is "Compare < 0".  Every
    numeric kind of sorting column the correspondence runs generate
    (harness/c10/types.go) compares two values as the integers they denote:

      BOOLEAN                               false < true
      INT32 / INT64 / INT(8|16|32|64, signed) / DATE / TIME / TIMESTAMP /
      DECIMAL on INT32 / INT64               the two's complement value of the bits
      INT(8|16|32|64, unsigned)              the bits as a natural number
      FLOAT / DOUBLE without NaN             sign and magnitude of the bits, -0 = +0
                                             (the IEEE 754 numeric order on non-NaN values)
      DECIMAL on (FIXED_LEN_)BYTE_ARRAY      the big-endian two's complement value of the bytes

    so its Compare is [cmp_key key] and its Less [lt_key key] for the [key]
    below, and any comparison of that form meets the hypotheses (Section Keyed).
    The byte string kinds (BYTE_ARRAY, STRING, ENUM, FIXED_LEN_BYTE_ARRAY, UUID)
    compare as unsigned bytes, lexicographically: [Search.Model.cmp_bytes], the
    [VB] half of the oracle's value type (Sort/Instances.v).

    That the Go code compares each kind so is not proved here: the
    correspondence runs decide it with the harness's own comparator on the
    decoded values. *)
From Coq Require Import List ZArith NArith Bool Arith Lia.
From PQ Require Search.Model Search.Proofs.
Import ListNotations.
Local Open Scope Z_scope.

Section Keyed.
  Variable V : Type.
  Variable key : V -> Z.

  Definition cmp_key (a b : V) : Z := Search.Model.cmpZ (key a) (key b).
  Definition lt_key (a b : V) : bool := (key a <? key b).

  Lemma lt_key_cmp a b : lt_key a b = true <-> cmp_key a b < 0.
  Proof.
    unfold lt_key, cmp_key, Search.Model.cmpZ. rewrite Z.ltb_lt.
    destruct (Z.compare_spec (key a) (key b)); lia.
  Qed.

  Lemma cmp_key_opp a b : cmp_key a b < 0 <-> cmp_key b a > 0.
  Proof. apply Search.Proofs.cmpZ_opp. Qed.

  Lemma cmp_key_trans a b d : cmp_key a b <= 0 -> cmp_key b d <= 0 -> cmp_key a d <= 0.
  Proof. apply Search.Proofs.cmpZ_trans. Qed.
End Keyed.

(** * The keys *)
Definition key_bool (b : bool) : Z := if b then 1 else 0.

(* the two's complement value of the low [w] bits *)
Definition key_signed (w : Z) (bits : N) : Z :=
  let u := Z.of_N bits mod 2 ^ w in
  if u <? 2 ^ (w - 1) then u else u - 2 ^ w.

Definition key_unsigned (w : Z) (bits : N) : Z := Z.of_N bits mod 2 ^ w.

(* IEEE 754 binary32 / binary64 bit patterns other than NaN: the sign bit and
   the magnitude (exponent and fraction read as a natural number order the
   finite values and the infinities of one sign by magnitude) *)
Definition key_float (w : Z) (bits : N) : Z :=
  let u := Z.of_N bits mod 2 ^ w in
  let m := u mod 2 ^ (w - 1) in
  if u <? 2 ^ (w - 1) then m else - m.

(* big-endian two's complement byte strings (DECIMAL) *)
Definition be_value (b : list N) : Z := fold_left (fun acc x => acc * 256 + Z.of_N x) b 0.

Definition key_decimal (b : list N) : Z :=
  match b with
  | [] => 0
  | h :: _ => if (128 <=? h)%N then be_value b - 2 ^ (8 * Z.of_nat (length b)) else be_value b
  end.
