(** Model of sorting.go: SortingWriter (writeRows, sortAndWriteBufferedRows,
    Flush, Close, Reset).  Executable, no proofs (Sort/WriterProofs.v).

    The writer buffers rows in a RowBuffer; when the buffer holds [maxrows]
    rows (NewSortingWriter's sortRowCount) the next write first sorts it
    (sort.Sort), drops the duplicates of the run when DropDuplicatedRows is set
    (dedupe.deduplicate, whose state is reset after each run by
    "defer w.dedupe.reset()"), and writes the run as one row group of a
    temporary file.  Close flushes the buffer, merges the row groups of the
    temporary file with MergeRowGroups (which applies DropDuplicatedRows to the
    merged rows with a state of its own) and writes the result to the output;
    the temporary file is released.  Reset(output) drops the buffered rows and
    the temporary file and starts a new output.

    A row is any type [A] (in the oracle: the row with the index of its
    arrival), ordered by [cmp] (RowBuffer.compare = the comparator of the
    sorting columns).  [sortf] is sort.Sort on the row buffer, [merge] the rows
    the merged row group delivers (Merge/Model.v: rows tagged with the index of
    their row group).  [keep_last] models the change that removes
    "defer w.dedupe.reset()": the last key kept by the deduplication of a run
    then survives into the next run, also across Close and Reset. *)
From Coq Require Import List ZArith Bool Arith.
From PQ Require Import Merge.Model Merge.Instance.
From PQ Require Sort.Model.
Import ListNotations.
Local Open Scope nat_scope.

Section Writer.
  Variable A : Type.
  Variable cmp : A -> A -> Z.
  Variable sortf : list A -> list A.
  Variable merge : list (list (row A)) -> list (row A).
  Variable maxrows : nat.        (* sortRowCount *)
  Variable dedupe : bool.        (* DropDuplicatedRows *)
  Variable keep_last : bool.     (* false = the code as it is *)

  Record sw := mkSW {
    sw_buf : list A;               (* w.rowbuf, in arrival order *)
    sw_runs : list (list (row A)); (* the row groups of the temporary file w.buffer *)
    sw_last : option (row A);      (* w.dedupe.lastRow *)
    sw_num : nat                   (* w.numRows *)
  }.

  Definition sw_init : sw := mkSW [] [] None 0.

  (* sortAndWriteBufferedRows *)
  Definition sw_flush (s : sw) : sw :=
    match sw_buf s with
    | [] => s
    | _ =>
        let run := tag (length (sw_runs s)) (sortf (sw_buf s)) in
        let '(kept, last') :=
          if dedupe then dedupe_batch cmp (sw_last s) run else (run, sw_last s) in
        mkSW []
             (match kept with [] => sw_runs s | _ => sw_runs s ++ [kept] end)
             (if dedupe then (if keep_last then last' else None) else sw_last s)
             (sw_num s + length kept)
    end.

  (* writeRows: "for wn < numRows { if rowbuf.NumRows() >= maxRows { sortAndWrite }
     n := maxRows - rowbuf.NumRows() + wn; if n > numRows { n = numRows };
     rowbuf.Write(rows[wn:n]); wn = n }" *)
  Fixpoint sw_write (fuel : nat) (s : sw) (batch : list A) : sw :=
    match batch, fuel with
    | [], _ => s
    | _, O => s
    | _, S f =>
        let s1 := if Nat.leb maxrows (length (sw_buf s)) then sw_flush s else s in
        let n := maxrows - length (sw_buf s1) in
        sw_write f (mkSW (sw_buf s1 ++ firstn n batch) (sw_runs s1) (sw_last s1) (sw_num s1))
                 (skipn n batch)
    end.

  (* Close: the rows of the output file, and the state left behind
     ("defer w.resetSortingBuffer()") *)
  Definition sw_close (s : sw) : list A * sw :=
    let s1 := sw_flush s in
    let out :=
      match sw_num s1 with
      | O => []
      | _ => let m := merge (sw_runs s1) in
             map (@key A) (if dedupe then dedupe_spec cmp m else m)
      end in
    (out, mkSW (sw_buf s1) [] (sw_last s1) 0).

  (* Reset(output): w.rowbuf.Reset(); w.resetSortingBuffer() *)
  Definition sw_reset (s : sw) : sw := mkSW [] [] (sw_last s) 0.

  Inductive swop := SWWrite (batch : list A) | SWFlush | SWClose | SWReset.

  (* the state and the output files closed so far *)
  Definition sw_apply (st : sw * list (list A)) (o : swop) : sw * list (list A) :=
    let (s, files) := st in
    match o with
    | SWWrite b => (sw_write (length b) s b, files)
    | SWFlush => (sw_flush s, files)
    | SWClose => let (out, s') := sw_close s in (s', files ++ [out])
    | SWReset => (sw_reset s, files)
    end.

  Definition sw_exec (ops : list swop) : sw * list (list A) := fold_left sw_apply ops (sw_init, []).

  Definition sw_run (ops : list swop) : list (list A) := snd (sw_exec ops).

  (** the specification side: the rows written to each file that was closed
      (Close ends a file, Reset abandons what was written since) *)
  Fixpoint sw_written (pending : list A) (ops : list swop) : list (list A) :=
    match ops with
    | [] => []
    | SWWrite b :: t => sw_written (pending ++ b) t
    | SWFlush :: t => sw_written pending t
    | SWClose :: t => pending :: sw_written [] t
    | SWReset :: t => sw_written [] t
    end.

  (** a stable insertion sort: an executable sort.Sort for the oracle (the
      order sort.Sort gives rows with equal keys is not specified) *)
  Fixpoint insert_sorted (x : A) (l : list A) : list A :=
    match l with
    | [] => [x]
    | y :: t => if (cmp x y <=? 0)%Z then x :: l else y :: insert_sorted x t
    end.

  Definition isort (l : list A) : list A := fold_right insert_sorted [] l.

  (** RowBuffer as a sort.Interface (row_buffer.go): Less(i, j) =
      compare(rows[i], rows[j]) < 0, Swap exchanges two rows; sort.Sort acts on
      the buffer through the exchanges it decides on *)
  Definition rb_less (l : list A) (i j : nat) : bool :=
    match nth_error l i, nth_error l j with
    | Some a, Some b => (cmp a b <? 0)%Z
    | _, _ => false
    end.

  Definition rb_swaps (l : list A) (sws : list (nat * nat)) : list A :=
    fold_left (fun l p => Sort.Model.swapl l (fst p) (snd p)) sws l.
End Writer.

Arguments SWWrite {A}.
Arguments SWFlush {A}.
Arguments SWClose {A}.
Arguments SWReset {A}.

(** * The instance of the oracle: rows of INT64 / BYTE_ARRAY cells with the
    index of their arrival, ordered by the comparator of the sorting columns.

    [compare_rows] consults the schema only to know whether a sorting column is
    optional, that is, whether its comparator is wrapped in CompareNullsFirst /
    CompareNullsLast; on rows whose required cells hold values the wrapper makes
    no difference, so the writer's comparator is taken with the wrapper on every
    column ([cmp_rows_opt]): a total preorder on all rows
    (Sort/WriterInstance.v: [compare_rows_opt_eq], [cmp_rows_opt_trans]). *)
Definition opt_schema (sorting : list Sort.Model.sortcol) : list N :=
  repeat 1%N (S (list_max (map Sort.Model.sc_col sorting))).

Definition cmp_rows_opt (V : Type) (cmp : V -> V -> Z) (sorting : list Sort.Model.sortcol)
  : Sort.Model.row V -> Sort.Model.row V -> Z :=
  Sort.Model.compare_rows V cmp (opt_schema sorting) sorting.

Definition witem : Type := (nat * Sort.Model.row Sort.Model.sval)%type.

Definition cmpW (sorting : list Sort.Model.sortcol) (a b : witem) : Z :=
  cmp_rows_opt Sort.Model.sval Sort.Model.cmp_sval sorting (snd a) (snd b).

(* the model run by the oracle: stable insertion sort for sort.Sort, the
   reference scheduler (first minimal head) for the merge *)
Definition sw_model (sorting : list Sort.Model.sortcol) (maxrows : nat) (dedupe keep_last : bool)
           (ops : list (swop witem)) : list (list witem) :=
  sw_run witem (cmpW sorting) (isort witem (cmpW sorting)) (ref_merge_all (cmpW sorting))
         maxrows dedupe keep_last ops.

(* answer of the oracle: the indexes of the rows of every closed file, in order *)
Definition c10_sw (sorting : list Sort.Model.sortcol) (maxrows : nat) (dedupe keep_last : bool)
           (ops : list (swop witem)) : list (list nat) :=
  map (map fst) (sw_model sorting maxrows dedupe keep_last ops).
