(** The column-level API of a buffer: ReadValuesAt of a column delivers the
    window [off, off+n) of the logical cells of the column (the column of the
    rows of the specification), and leaves the column in the state Page leaves
    it in.  (Page of one column alone is the operation OPageCol of the
    histories of Sort/BufProofs.v; a clone is the column itself.) *)
From Coq Require Import List ZArith NArith Bool Arith Lia Permutation.
From PQ Require Import Sort.Model Sort.ListLemmas Sort.ColProofs Sort.PageProofs
     Sort.TypedProofs Sort.CmpProofs Sort.BufProofs.
Import ListNotations.

Section ViewProofs.
  Variable V : Type.

  Lemma page_values_length md : forall dl b, length (page_values V md dl b) = length dl.
  Proof.
    induction dl as [|d t IH]; intros b; simpl; auto.
    destruct (N.eqb d md); [destruct b|]; simpl; now rewrite IH.
  Qed.

  Lemma page_values_firstn md : forall dl b len,
    page_values V md (firstn len dl) b = firstn len (page_values V md dl b).
  Proof.
    induction dl as [|d t IH]; intros b len; destruct len; simpl; auto.
    destruct (N.eqb d md); [destruct b|]; simpl; now rewrite IH.
  Qed.

  Lemma count_nulls_cons md d t :
    count_nulls md (d :: t) = ((if N.eqb d md then 0 else 1) + count_nulls md t)%nat.
  Proof. unfold count_nulls. simpl. destruct (N.eqb d md); reflexivity. Qed.

  Lemma count_nulls_le md l : (count_nulls md l <= length l)%nat.
  Proof.
    induction l as [|d t IH]; [auto|]. rewrite count_nulls_cons. simpl.
    destruct (N.eqb d md); lia.
  Qed.

  Lemma skipn_nil_any {A} k : skipn k (@nil A) = [].
  Proof. destruct k; reflexivity. Qed.

  (** the window of the levels, read like a page whose base starts after the
      values of the rows before the window, is the window of the page *)
  Lemma page_values_window md : forall dl b off len,
    page_values V md (firstn len (skipn off dl)) (skipn (off - count_nulls md (firstn off dl)) b)
    = firstn len (skipn off (page_values V md dl b)).
  Proof.
    induction dl as [|d t IH]; intros b off len.
    - rewrite skipn_nil_any, firstn_nil. simpl. now rewrite skipn_nil_any, firstn_nil.
    - destruct off as [|o].
      + simpl skipn. simpl firstn at 2. cbn [Nat.sub skipn]. apply page_values_firstn.
      + cbn [firstn skipn]. rewrite count_nulls_cons.
        assert (Hle := count_nulls_le md (firstn o t)).
        assert (Hlf : (length (firstn o t) <= o)%nat) by apply firstn_le_length.
        cbn [page_values]. destruct (N.eqb d md).
        * replace (S o - (0 + count_nulls md (firstn o t)))%nat
            with (S (o - count_nulls md (firstn o t))) by lia.
          destruct b as [|v b'].
          -- cbn [skipn]. specialize (IH [] o len). rewrite skipn_nil_any in IH. exact IH.
          -- cbn [skipn]. apply IH.
        * replace (S o - (1 + count_nulls md (firstn o t)))%nat
            with (o - count_nulls md (firstn o t))%nat by lia.
          cbn [skipn]. apply IH.
  Qed.

  Lemma firstn_min_all {A} (l : list A) n m :
    (length l <= m)%nat -> firstn (Nat.min n m) l = firstn n l.
  Proof.
    intros H. rewrite <- firstn_firstn. now rewrite (firstn_all2 (n:=m)) by exact H.
  Qed.

  (** optionalColumnBuffer.ReadValuesAt *)
  Theorem ocol_read_values_at_spec (c : ocol V) off n :
    ocol_ok V c ->
    fst (ocol_read_values_at V c off n) = ocol_page V c /\
    snd (ocol_read_values_at V c off n) = firstn n (skipn off (ocol_cells V c)).
  Proof.
    intros Hok. split; [reflexivity|].
    destruct (ocol_page_spec V c Hok) as (_ & _ & Hpv & _).
    unfold ocol_read_values_at. cbn [snd]. unfold ocol_page_values in Hpv.
    set (c' := ocol_page V c) in *.
    rewrite page_values_window, Hpv.
    apply firstn_min_all. rewrite skipn_length, <- Hpv, page_values_length. lia.
  Qed.

  Theorem col_read_values_at_spec md nfo (c : col V) off n :
    col_ok V md nfo c ->
    fst (col_read_values_at V c off n) = col_page V c /\
    snd (col_read_values_at V c off n) = firstn n (skipn off (col_cells V c)).
  Proof.
    destruct c as [vals|o].
    - intros _. simpl. split; auto. now rewrite skipn_map, firstn_map.
    - intros (_ & _ & _ & Hok). destruct (ocol_read_values_at_spec o off n Hok) as [H1 H2].
      unfold col_read_values_at. cbn [fst snd col_page col_cells]. rewrite H1, H2. split; reflexivity.
  Qed.

  (** After EVERY history (Write | Swap | Page | Page of one column), reading n
      values of column k at offset off delivers the cells [off, off+n) of
      column k of the rows of the specification, whether or not the values of
      the column had been moved into row order before; the column is left as
      Page leaves it. *)
  Theorem read_values_at_rows schema sorting ops k off n :
    Forall (op_ok V schema) ops -> (k < length schema)%nat ->
    buffer_read_values_at V (reach V schema sorting ops) k off n
      = firstn n (skipn off (map (fun r => nth k r (dcell V)) (spec_run V schema ops))) /\
    fst (col_read_values_at V (nth k (columns (reach V schema sorting ops)) (dcol V)) off n)
      = col_page V (nth k (columns (reach V schema sorting ops)) (dcol V)).
  Proof.
    intros Hops Hk.
    destruct (reach_inv V schema sorting ops Hops) as (_ & _ & _ & Hc).
    destruct (Hc k Hk) as [Hok Hcells].
    destruct (col_read_values_at_spec _ _ _ off n Hok) as [H1 H2].
    split; [|exact H1]. unfold buffer_read_values_at. now rewrite H2, Hcells.
  Qed.
End ViewProofs.
