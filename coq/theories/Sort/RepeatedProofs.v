(** repeatedColumnBuffer.Swap exchanges two whole rows (the levels and the
    base values are untouched, only the row entries move). *)
From Coq Require Import List ZArith NArith Bool Arith Lia Permutation.
From PQ Require Import Sort.Model Sort.ListLemmas Sort.Repeated.
Import ListNotations.

Section RepeatedProofs.
  Variable V : Type.

  Theorem rcol_swap_rows (c : rcol V) i j :
    rcol_rows V (rcol_swap V c i j) = swapl (rcol_rows V c) i j.
  Proof. unfold rcol_rows, rcol_swap; simpl. apply map_swapl. Qed.

  Theorem rcol_swap_perm (c : rcol V) i j :
    Permutation (rcol_rows V (rcol_swap V c i j)) (rcol_rows V c).
  Proof. rewrite rcol_swap_rows. apply swapl_perm. Qed.
End RepeatedProofs.
