(** repeatedColumnBuffer (column_buffer_repeated.go), proofs about the model of
    Sort/Repeated.v:

    - WriteValues / writeRow append the levels, the non-null values and one row
      entry for each value of repetition level 0 ([flat_write]);
    - the representation invariant [rcol_ok] holds after every history of
      writes of whole rows, exchanges and pages;
    - Swap exchanges two whole rows, Page keeps the rows (in buffer order, with
      all their values), the page read sequentially and cut at repetition
      level 0 delivers the same rows;
    - Less i j is the comparator of compare.go on the value sequences of the
      rows i and j (descending flag, null ordering, shorter sequence first);
    - Less is a strict weak order, so the contract of sort.Sort applies. *)
From Coq Require Import List ZArith NArith Bool Arith Lia Permutation.
From PQ Require Import Sort.Model Sort.ListLemmas Sort.ColProofs Sort.CmpProofs Sort.Repeated.
Import ListNotations.

(** * list facts *)
Section SliceLemmas.
  Context {A : Type}.

  Lemma skipn_skipn' (l : list A) : forall a b, skipn a (skipn b l) = skipn (b + a) l.
  Proof.
    induction l as [|x l IH]; intros a b.
    - now rewrite !skipn_nil.
    - destruct b as [|b]; simpl; [reflexivity|apply IH].
  Qed.

  Lemma skipn_nth_cons (l : list A) : forall n d, n < length l ->
    skipn n l = nth n l d :: skipn (S n) l.
  Proof.
    induction l as [|x l IH]; intros [|n] d H; simpl in *; try lia; auto.
    apply IH. lia.
  Qed.

  Lemma slice_length (l : list A) o n : o + n <= length l -> length (slice l o n) = n.
  Proof. intros H. unfold slice. rewrite firstn_length, skipn_length. lia. Qed.

  Lemma slice_app_l (l p : list A) o n : o + n <= length l -> slice (l ++ p) o n = slice l o n.
  Proof.
    intros H. unfold slice. rewrite skipn_app, firstn_app, skipn_length.
    replace (n - (length l - o)) with 0 by lia. rewrite firstn_O. apply app_nil_r.
  Qed.

  Lemma slice_app_r (l p : list A) n : slice (l ++ p) (length l) n = firstn n p.
  Proof.
    unfold slice. rewrite skipn_app, skipn_all2 by lia. rewrite Nat.sub_diag. reflexivity.
  Qed.

  Lemma slice_S (l : list A) o n d : o < length l ->
    slice l o (S n) = nth o l d :: slice l (S o) n.
  Proof. intros H. unfold slice. rewrite (skipn_nth_cons l o d H). reflexivity. Qed.

  Lemma firstn_slice (l : list A) o n m : m <= n -> firstn m (slice l o n) = slice l o m.
  Proof. intros H. unfold slice. rewrite firstn_firstn. f_equal. lia. Qed.

  Lemma skipn_slice_base (l : list A) o n : skipn o l = slice l o n ++ skipn (o + n) l.
  Proof. unfold slice. rewrite <- skipn_skipn'. symmetry. apply firstn_skipn. Qed.
End SliceLemmas.

Section RepeatedSwap.
  Variable V : Type.

  Theorem rcol_swap_rows (c : rcol V) i j :
    rcol_rows V (rcol_swap V c i j) = swapl (rcol_rows V c) i j.
  Proof. unfold rcol_rows, rcol_swap; simpl. apply map_swapl. Qed.

  Theorem rcol_swap_perm (c : rcol V) i j :
    Permutation (rcol_rows V (rcol_swap V c i j)) (rcol_rows V c).
  Proof. rewrite rcol_swap_rows. apply swapl_perm. Qed.
End RepeatedSwap.

Section RepeatedProofs.
  Variable V : Type.
  Variable lt : V -> V -> bool.
  Variable cmp : V -> V -> Z.
  Hypothesis lt_cmp : forall a b, lt a b = true <-> (cmp a b < 0)%Z.
  Hypothesis cmp_opp : forall a b, (cmp a b < 0 <-> cmp b a > 0)%Z.
  Hypothesis cmp_trans : forall a b d, (cmp a b <= 0 -> cmp b d <= 0 -> cmp a d <= 0)%Z.

  Notation rval := (rval V).
  Notation rcol := (rcol V).

  (** ** levels *)
  (* number of levels equal to the maximum: the non-null values *)
  Definition cnt (md : N) (ds : list N) : nat := length (filter (fun d => N.eqb d md) ds).

  Lemma cnt_app md a b : cnt md (a ++ b) = cnt md a + cnt md b.
  Proof. unfold cnt. now rewrite filter_app, app_length. Qed.

  Lemma cnt_cons md d t : cnt md (d :: t) = (if N.eqb d md then 1 else 0) + cnt md t.
  Proof. unfold cnt. simpl. destruct (N.eqb d md); reflexivity. Qed.

  Lemma cnt_split md n l : cnt md l = cnt md (firstn n l) + cnt md (skipn n l).
  Proof. rewrite <- cnt_app, firstn_skipn. reflexivity. Qed.

  Lemma cnt_firstn_le md n l : cnt md (firstn n l) <= cnt md l.
  Proof. rewrite (cnt_split md n l). lia. Qed.

  Lemma cnt_slice_le md l o n : cnt md (firstn o l) + cnt md (slice l o n) <= cnt md l.
  Proof.
    rewrite (cnt_split md o l). unfold slice.
    assert (H := cnt_firstn_le md n (skipn o l)). lia.
  Qed.

  Definition hd_zero (reps : list N) : Prop :=
    match reps with r :: _ => r = 0%N | [] => True end.

  Definition nonzero (r : N) : Prop := r <> 0%N.

  Lemma until_zero_le t : until_zero t <= length t.
  Proof. induction t as [|r t IH]; simpl; auto. destruct (N.eqb r 0); simpl; lia. Qed.

  Lemma until_zero_firstn t : Forall nonzero (firstn (until_zero t) t).
  Proof.
    induction t as [|r t IH]; simpl; [constructor|].
    destruct (N.eqb_spec r 0); simpl; constructor; auto.
  Qed.

  Lemma until_zero_skipn t : hd_zero (skipn (until_zero t) t).
  Proof.
    induction t as [|r t IH]; simpl; auto.
    destruct (N.eqb_spec r 0); simpl; auto.
  Qed.

  Lemma until_zero_app t p : hd_zero p -> until_zero (t ++ p) = until_zero t.
  Proof.
    intros Hp. induction t as [|r t IH]; simpl.
    - destruct p as [|q p]; simpl in *; auto. subst. reflexivity.
    - destruct (N.eqb r 0); auto.
  Qed.

  Lemma until_zero_nonzero t p : Forall nonzero t -> until_zero (t ++ p) = length t + until_zero p.
  Proof.
    induction 1 as [|r t Hr Ht IH]; simpl; auto.
    destruct (N.eqb_spec r 0); [contradiction|]. now rewrite IH.
  Qed.

  Lemma row_length_skipn reps off :
    row_length reps off = match skipn off reps with [] => 0 | _ :: t => S (until_zero t) end.
  Proof. reflexivity. Qed.

  Lemma row_length_bound reps off : off < length reps ->
    1 <= row_length reps off /\ off + row_length reps off <= length reps.
  Proof.
    intros H. unfold row_length. rewrite (skipn_nth_cons reps off 0%N H).
    assert (L := until_zero_le (skipn (S off) reps)). rewrite skipn_length in L. lia.
  Qed.

  Lemma row_length_app reps p off : off < length reps -> hd_zero p ->
    row_length (reps ++ p) off = row_length reps off.
  Proof.
    intros H Hp. unfold row_length. rewrite skipn_app.
    replace (off - length reps) with 0 by lia.
    rewrite (skipn_nth_cons reps off 0%N H). simpl. now rewrite until_zero_app.
  Qed.

  Lemma row_length_app_r reps p : row_length (reps ++ p) (length reps) = row_length p 0.
  Proof.
    unfold row_length. rewrite skipn_app, skipn_all2, Nat.sub_diag by lia. reflexivity.
  Qed.

  (* a row: a value of repetition level 0, then values of other levels *)
  Lemma row_shape reps off : off < length reps ->
    exists nz, slice reps off (row_length reps off) = nth off reps 0%N :: nz /\ Forall nonzero nz /\
               hd_zero (skipn (off + row_length reps off) reps).
  Proof.
    intros H. unfold row_length, slice. rewrite (skipn_nth_cons reps off 0%N H).
    exists (firstn (until_zero (skipn (S off) reps)) (skipn (S off) reps)).
    split; [reflexivity|]. split; [apply until_zero_firstn|].
    replace (off + S (until_zero (skipn (S off) reps))) with (S off + until_zero (skipn (S off) reps)) by lia.
    rewrite <- skipn_skipn'. apply until_zero_skipn.
  Qed.

  Lemma row_length_zero_nonzero nz p : Forall nonzero nz -> hd_zero p ->
    row_length (0%N :: nz ++ p) 0 = S (length nz).
  Proof.
    intros Hn Hp. unfold row_length. simpl. rewrite until_zero_nonzero by auto.
    destruct p as [|q p]; simpl in *; [lia|]. subst. simpl. lia.
  Qed.

  (** ** the page read sequentially *)
  Section WithMd.
  Variable md : N.

  Lemma rpage_values_length rs : forall ds b, length rs = length ds ->
    length (rpage_values V md rs ds b) = length rs.
  Proof.
    induction rs as [|r rs IH]; intros [|d ds] b H; simpl in *; try lia; auto.
    destruct (N.eqb d md); [destruct b|]; simpl; rewrite IH; auto.
  Qed.

  Lemma rpage_values_reps rs : forall ds b, length rs = length ds ->
    map (rv_rep V) (rpage_values V md rs ds b) = rs.
  Proof.
    induction rs as [|r rs IH]; intros [|d ds] b H; simpl in *; try lia; auto.
    destruct (N.eqb d md); [destruct b|]; simpl; rewrite IH; auto.
  Qed.

  (* the values beyond those the levels call for are not read *)
  Lemma rpage_values_enough rs : forall ds x y, cnt md ds <= length x ->
    rpage_values V md rs ds (x ++ y) = rpage_values V md rs ds x.
  Proof.
    induction rs as [|r rs IH]; intros [|d ds] x y H; simpl; auto.
    rewrite cnt_cons in H. destruct (N.eqb d md).
    - destruct x as [|v x]; simpl in *; [lia|]. f_equal. apply IH. lia.
    - f_equal. apply IH. simpl in H. lia.
  Qed.

  Lemma rpage_values_nil rs : forall ds,
    rpage_values V md rs ds [] = map (fun rd => mkRval (fst rd) (snd rd) None) (combine rs ds).
  Proof.
    induction rs as [|r rs IH]; intros [|d ds]; simpl; auto.
    destruct (N.eqb d md); f_equal; apply IH.
  Qed.

  Lemma rpage_values_app r1 : forall d1 r2 d2 b, length r1 = length d1 ->
    rpage_values V md (r1 ++ r2) (d1 ++ d2) b =
    rpage_values V md r1 d1 b ++ rpage_values V md r2 d2 (skipn (cnt md d1) b).
  Proof.
    induction r1 as [|r r1 IH]; intros [|d d1] r2 d2 b H; simpl in *; try lia; auto.
    rewrite cnt_cons. destruct (N.eqb d md).
    - destruct b as [|v b]; simpl.
      + f_equal. rewrite IH by lia. now rewrite skipn_nil.
      + f_equal. apply IH. lia.
    - simpl. f_equal. apply IH. lia.
  Qed.

  (** the option values of a sequence of levels read against the base values *)
  Fixpoint vals_at (ds : list N) (b : list V) : list (option V) :=
    match ds with
    | [] => []
    | d :: t =>
        if N.eqb d md then
          match b with
          | v :: b' => Some v :: vals_at t b'
          | [] => None :: vals_at t []
          end
        else None :: vals_at t b
    end.

  Lemma rpage_values_vals rs : forall ds b, length rs = length ds ->
    map (rv_val V) (rpage_values V md rs ds b) = vals_at ds b.
  Proof.
    induction rs as [|r rs IH]; intros [|d ds] b H; simpl in *; try lia; auto.
    destruct (N.eqb d md); [destruct b|]; simpl; rewrite IH; auto.
  Qed.

  Lemma vals_at_length ds : forall b, length (vals_at ds b) = length ds.
  Proof. induction ds as [|d ds IH]; intros b; simpl; auto. destruct (N.eqb d md); [destruct b|]; simpl; auto. Qed.

  Lemma vals_at_firstn ds : forall m b, firstn m (vals_at ds b) = vals_at (firstn m ds) b.
  Proof.
    induction ds as [|d ds IH]; intros [|m] b; simpl; auto.
    destruct (N.eqb d md); [destruct b|]; simpl; now rewrite IH.
  Qed.

  (** ** what is written *)
  Definition wvals (vs : list rval) : list V :=
    flat_map (fun v => if N.eqb (rv_def V v) md
                       then match rv_val V v with Some x => [x] | None => [] end
                       else []) vs.

  (* a value: present exactly at the maximum definition level *)
  Definition rval_ok (v : rval) : Prop := rv_def V v = md <-> rv_val V v <> None.

  Lemma wvals_app a b : wvals (a ++ b) = wvals a ++ wvals b.
  Proof. apply flat_map_app. Qed.

  Lemma wvals_length vs : Forall rval_ok vs -> length (wvals vs) = cnt md (map (rv_def V) vs).
  Proof.
    induction 1 as [|v vs Hv _ IH]; simpl; auto. rewrite cnt_cons, app_length, IH. f_equal.
    unfold rval_ok in Hv. destruct (N.eqb_spec (rv_def V v) md) as [E|E].
    - destruct (rv_val V v); simpl; auto. exfalso. now apply Hv.
    - reflexivity.
  Qed.

  (* reading back what was written *)
  Lemma rpage_values_written vs : Forall rval_ok vs -> forall rest,
    rpage_values V md (map (rv_rep V) vs) (map (rv_def V) vs) (wvals vs ++ rest) = vs.
  Proof.
    induction 1 as [|v vs Hv _ IH]; intros rest; simpl; auto.
    unfold rval_ok in Hv. destruct v as [r d o]; simpl in *.
    destruct (N.eqb_spec d md) as [E|E].
    - destruct o as [x|]; [|exfalso; now apply Hv]. simpl. now rewrite IH.
    - destruct o as [x|]; [exfalso; apply E, Hv; discriminate|]. now rewrite IH.
  Qed.

  (** the row entries of the values of repetition level 0 *)
  Fixpoint entries (off boff : nat) (vs : list rval) : list (nat * nat) :=
    match vs with
    | [] => []
    | v :: t => (if N.eqb (rv_rep V v) 0 then [(off, boff)] else []) ++
                entries (S off) (boff + length (wvals [v])) t
    end.

  Lemma entries_app a : forall off boff b,
    entries off boff (a ++ b) =
    entries off boff a ++ entries (off + length a) (boff + length (wvals a)) b.
  Proof.
    induction a as [|v a IH]; intros off boff b; simpl.
    - now rewrite !Nat.add_0_r.
    - rewrite IH, <- app_assoc. f_equal.
      rewrite app_nil_r, app_length.
      replace (S off + length a) with (off + S (length a)) by lia.
      now rewrite Nat.add_assoc.
  Qed.

  Lemma entries_nonzero r : Forall (fun v => rv_rep V v <> 0%N) r -> forall off boff, entries off boff r = [].
  Proof.
    induction 1 as [|v r Hv _ IH]; intros off boff; simpl; auto.
    destruct (N.eqb_spec (rv_rep V v) 0); [contradiction|]. apply IH.
  Qed.

  Lemma row_tail_spec t : forall r rest, row_tail V t = (r, rest) ->
    t = r ++ rest /\ Forall (fun v => rv_rep V v <> 0%N) r /\ length rest <= length t.
  Proof.
    induction t as [|v t IH]; intros r rest E; simpl in E.
    - inversion E; subst. repeat split; auto.
    - destruct (N.eqb_spec (rv_rep V v) 0) as [Z|Z].
      + inversion E; subst. repeat split; auto.
      + destruct (row_tail V t) as [r' rest'] eqn:E'. inversion E; subst.
        destruct (IH _ _ eq_refl) as (H1 & H2 & H3). subst t. repeat split; simpl; auto.
  Qed.
  End WithMd.

  (** ** WriteValues appends *)
  Definition flat_write (c : rcol) (vs : list rval) : rcol :=
    mkRcol V (rbase V c ++ wvals (rmaxdef V c) vs)
           (rrows V c ++ entries (rmaxdef V c) (length (rreps V c)) (length (rbase V c)) vs)
           (rreps V c ++ map (rv_rep V) vs) (rdefs V c ++ map (rv_def V) vs)
           (rmaxdef V c) (rnulls_first V c) (rdescending V c) (rreordered V c).

  Lemma flat_write_nil c : flat_write c [] = c.
  Proof. destruct c. unfold flat_write. simpl. now rewrite !app_nil_r. Qed.

  Lemma flat_write_app c a b : flat_write (flat_write c a) b = flat_write c (a ++ b).
  Proof.
    unfold flat_write. simpl. rewrite wvals_app, entries_app, !map_app, !app_length, !map_length, !app_assoc.
    reflexivity.
  Qed.

  (* writeRow on a row in the sense of WriteValues: values of non-zero
     repetition level after the first *)
  Lemma write_row_flat c v r : Forall (fun v => rv_rep V v <> 0%N) r ->
    write_row V c (v :: r) = flat_write c (v :: r).
  Proof.
    intros Hr. unfold write_row, flat_write. f_equal.
    cbn [entries]. rewrite (entries_nonzero (rmaxdef V c) r Hr).
    destruct (N.eqb (rv_rep V v) 0); now rewrite ?app_nil_r.
  Qed.

  Theorem write_rvalues_flat fuel : forall c vs, length vs <= fuel ->
    write_rvalues V fuel c vs = flat_write c vs.
  Proof.
    induction fuel as [|f IH]; intros c vs Hlen.
    - destruct vs; simpl in *; [|lia]. now rewrite flat_write_nil.
    - destruct vs as [|v t]; [simpl; now rewrite flat_write_nil|].
      cbn [write_rvalues]. destruct (N.eqb_spec (rv_rep V v) 0) as [Z|Z].
      + destruct (row_tail V t) as [r rest] eqn:E.
        destruct (row_tail_spec t r rest E) as (Ht & Hr & Hl). simpl in Hlen.
        rewrite IH by lia. rewrite write_row_flat by auto. rewrite flat_write_app. now rewrite Ht.
      + assert (E : row_tail V (v :: t) = let (r, rest) := row_tail V t in (v :: r, rest)).
        { simpl. destruct (N.eqb_spec (rv_rep V v) 0); [contradiction|reflexivity]. }
        rewrite E. destruct (row_tail V t) as [r rest] eqn:E'.
        destruct (row_tail_spec t r rest E') as (Ht & Hr & Hl). simpl in Hlen.
        rewrite IH by lia. rewrite write_row_flat by auto. rewrite flat_write_app. now rewrite Ht.
  Qed.

  Corollary rcol_write_flat c vs : rcol_write V c vs = flat_write c vs.
  Proof. apply write_rvalues_flat. auto. Qed.

  (** ** the row entries in level order *)
  Fixpoint canon_from (md : N) (off boff : nat) (reps defs : list N) : list (nat * nat) :=
    match reps, defs with
    | r :: reps', d :: defs' =>
        (if N.eqb r 0 then [(off, boff)] else []) ++
        canon_from md (S off) (boff + (if N.eqb d md then 1 else 0)) reps' defs'
    | _, _ => []
    end.

  Lemma entries_canon md vs : Forall (rval_ok md) vs -> forall off boff,
    entries md off boff vs = canon_from md off boff (map (rv_rep V) vs) (map (rv_def V) vs).
  Proof.
    induction 1 as [|v vs Hv _ IH]; intros off boff; simpl; auto.
    f_equal. rewrite IH. f_equal. f_equal. rewrite app_nil_r.
    unfold rval_ok in Hv. destruct (N.eqb_spec (rv_def V v) md) as [E|E]; auto.
    destruct (rv_val V v); auto. exfalso. now apply Hv.
  Qed.

  Lemma canon_from_app md r1 : forall d1 r2 d2 off boff, length r1 = length d1 ->
    canon_from md off boff (r1 ++ r2) (d1 ++ d2) =
    canon_from md off boff r1 d1 ++ canon_from md (off + length r1) (boff + cnt md d1) r2 d2.
  Proof.
    induction r1 as [|r r1 IH]; intros [|d d1] r2 d2 off boff H; simpl in *; try lia.
    - now rewrite !Nat.add_0_r.
    - rewrite IH by lia. rewrite <- app_assoc. f_equal. rewrite cnt_cons.
      replace (S off + length r1) with (off + S (length r1)) by lia.
      now rewrite Nat.add_assoc.
  Qed.

  Lemma canon_from_nonzero md r : Forall nonzero r -> forall d off boff, canon_from md off boff r d = [].
  Proof.
    induction 1 as [|x r Hx _ IH]; intros [|d ds] off boff; simpl; auto.
    destruct (N.eqb_spec x 0); [contradiction|]. apply IH.
  Qed.

  (* one row: level 0 then other levels *)
  Lemma canon_from_row md nz ds off boff : Forall nonzero nz -> length ds = S (length nz) ->
    canon_from md off boff (0%N :: nz) ds = [(off, boff)].
  Proof.
    intros Hn Hl. destruct ds as [|d ds]; simpl in *; [lia|].
    now rewrite canon_from_nonzero.
  Qed.

  (** a row read through its entry *)
  Definition entry_row' (md : N) (reps defs : list N) (base : list V) (r : nat * nat) : list rval :=
    let len := row_length reps (fst r) in
    rpage_values V md (slice reps (fst r) len) (slice defs (fst r) len) (skipn (snd r) base).

  Lemma entry_row_eq (c : rcol) r :
    rcol_entry_row V c r = entry_row' (rmaxdef V c) (rreps V c) (rdefs V c) (rbase V c) r.
  Proof. reflexivity. Qed.

  Lemma row_tail_app a b : Forall (fun v => rv_rep V v <> 0%N) a ->
    hd_zero (map (rv_rep V) b) -> row_tail V (a ++ b) = (a, b).
  Proof.
    intros Ha Hb. induction Ha as [|v a Hv _ IH]; simpl.
    - destruct b as [|w b]; simpl in *; auto. rewrite Hb. reflexivity.
    - destruct (N.eqb_spec (rv_rep V v) 0); [contradiction|]. now rewrite IH.
  Qed.

  (** The page read sequentially and cut at the values of repetition level 0
      delivers, row by row, what the entries in level order designate.  [pre],
      [dpre], [bpre] is what precedes in the column. *)
  Lemma cut_canon md fuel : forall pre dpre bpre suf dsuf bsuf,
    length suf <= fuel -> length pre = length dpre -> length suf = length dsuf ->
    length bpre = cnt md dpre -> length bsuf = cnt md dsuf -> hd_zero suf ->
    cut_rows V fuel (rpage_values V md suf dsuf bsuf) =
    map (entry_row' md (pre ++ suf) (dpre ++ dsuf) (bpre ++ bsuf))
        (canon_from md (length pre) (length bpre) suf dsuf).
  Proof.
    induction fuel as [|f IH]; intros pre dpre bpre suf dsuf bsuf Hf Hp Hs Hb Hbs Hz.
    - destruct suf; simpl in *; [|lia]. destruct dsuf; reflexivity.
    - destruct suf as [|r t]; [destruct dsuf; reflexivity|].
      simpl in Hz. subst r. destruct dsuf as [|d dt]; [simpl in Hs; lia|].
      set (suf := 0%N :: t) in *. set (dsuf := d :: dt) in *.
      set (len := row_length suf 0).
      assert (Hlen : 1 <= len /\ 0 + len <= length suf) by (apply row_length_bound; simpl; lia).
      destruct (row_shape suf 0) as (nz & Hsh & Hnz & Hrest); [simpl; lia|]. fold len in Hsh, Hrest.
      simpl in Hrest. unfold slice in Hsh. simpl skipn in Hsh. simpl nth in Hsh.
      set (s1 := firstn len suf) in *. set (s2 := skipn len suf) in *.
      set (e1 := firstn len dsuf). set (e2 := skipn len dsuf).
      assert (Es : suf = s1 ++ s2) by (symmetry; apply firstn_skipn).
      assert (Ee : dsuf = e1 ++ e2) by (symmetry; apply firstn_skipn).
      assert (L1 : length s1 = len) by (apply firstn_length_le; lia).
      assert (L1' : length e1 = len) by (apply firstn_length_le; lia).
      assert (Lnz : len = S (length nz)) by (rewrite <- L1, Hsh; reflexivity).
      set (b1 := firstn (cnt md e1) bsuf). set (b2 := skipn (cnt md e1) bsuf).
      assert (Cs : cnt md dsuf = cnt md e1 + cnt md e2) by (rewrite Ee at 1; apply cnt_app).
      assert (Lb1 : length b1 = cnt md e1) by (apply firstn_length_le; lia).
      assert (Lb2 : length b2 = cnt md e2) by (unfold b2; rewrite skipn_length; lia).
      assert (Eb : bsuf = b1 ++ b2) by (symmetry; apply firstn_skipn).
      (* the page: the first row, then the rest *)
      assert (Epage : rpage_values V md suf dsuf bsuf =
                      rpage_values V md s1 e1 bsuf ++ rpage_values V md s2 e2 b2).
      { rewrite Es at 1. rewrite Ee at 1. apply rpage_values_app. lia. }
      assert (Ecanon : canon_from md (length pre) (length bpre) suf dsuf =
                       (length pre, length bpre) ::
                       canon_from md (length (pre ++ s1)) (length (bpre ++ b1)) s2 e2).
      { rewrite Es at 1. rewrite Ee at 1. rewrite canon_from_app by lia.
        rewrite Hsh at 1. rewrite canon_from_row by (auto; lia).
        rewrite !app_length, L1, Lb1. reflexivity. }
      rewrite Epage, Ecanon. cbn [map].
      (* the first row *)
      assert (R1 : rpage_values V md s1 e1 bsuf =
                   entry_row' md (pre ++ suf) (dpre ++ dsuf) (bpre ++ bsuf) (length pre, length bpre)).
      { unfold entry_row'. cbn [fst snd]. rewrite row_length_app_r. fold len.
        rewrite slice_app_r. rewrite Hp, slice_app_r.
        rewrite skipn_app, skipn_all2, Nat.sub_diag by lia. reflexivity. }
      assert (Rreps : map (rv_rep V) (rpage_values V md s1 e1 bsuf) = s1)
        by (apply rpage_values_reps; lia).
      destruct (rpage_values V md s1 e1 bsuf) as [|v r1] eqn:E1.
      { rewrite Hsh in Rreps. discriminate. }
      rewrite Hsh in Rreps. simpl in Rreps. inversion Rreps as [[Hv Hr1]].
      cbn [app cut_rows].
      rewrite row_tail_app.
      + rewrite <- R1. f_equal.
        rewrite (IH (pre ++ s1) (dpre ++ e1) (bpre ++ b1) s2 e2 b2).
        * rewrite <- !app_assoc, <- Es, <- Ee, <- Eb. reflexivity.
        * assert (length s2 = length suf - len) by apply skipn_length. lia.
        * rewrite !app_length. lia.
        * unfold s2, e2. rewrite !skipn_length. lia.
        * rewrite app_length, cnt_app. lia.
        * exact Lb2.
        * exact Hrest.
      + rewrite <- Hr1 in Hnz. rewrite Forall_map in Hnz. exact Hnz.
      + rewrite rpage_values_reps; [exact Hrest|]. unfold s2, e2. rewrite !skipn_length. lia.
  Qed.

  (** ** the representation invariant *)
  Definition entry_ok (md : N) (reps defs : list N) (r : nat * nat) : Prop :=
    fst r < length reps /\ nth (fst r) reps 0%N = 0%N /\ snd r = cnt md (firstn (fst r) defs).

  Record rcol_ok (c : rcol) : Prop := mkRcolOk {
    ok_len : length (rreps V c) = length (rdefs V c);
    ok_base : length (rbase V c) = cnt (rmaxdef V c) (rdefs V c);
    ok_rows : Forall (entry_ok (rmaxdef V c) (rreps V c) (rdefs V c)) (rrows V c);
    ok_hd : hd_zero (rreps V c);
    ok_canon : rreordered V c = false ->
               rrows V c = canon_from (rmaxdef V c) 0 0 (rreps V c) (rdefs V c) }.

  Lemma canon_entries_ok md reps : forall defs pre dpre,
    length reps = length defs -> length pre = length dpre ->
    Forall (entry_ok md (pre ++ reps) (dpre ++ defs)) (canon_from md (length pre) (cnt md dpre) reps defs).
  Proof.
    induction reps as [|r reps IH]; intros [|d defs] pre dpre Hl Hp; simpl in *; try lia; [constructor|].
    apply Forall_app. split.
    - destruct (N.eqb_spec r 0) as [->|]; constructor; [|constructor].
      unfold entry_ok; cbn [fst snd]. rewrite app_length. simpl. split; [lia|]. split.
      + rewrite app_nth2, Nat.sub_diag by lia. reflexivity.
      + rewrite Hp, firstn_app, Nat.sub_diag, firstn_all2 by lia. simpl. now rewrite app_nil_r.
    - specialize (IH defs (pre ++ [r]) (dpre ++ [d])).
      rewrite <- !app_assoc in IH. simpl in IH.
      rewrite app_length, cnt_app, cnt_cons in IH. simpl in IH.
      replace (length pre + 1) with (S (length pre)) in IH by lia.
      replace (cnt md dpre + ((if N.eqb d md then 1 else 0) + cnt md [])) with
              (cnt md dpre + (if N.eqb d md then 1 else 0)) in IH by (unfold cnt; simpl; lia).
      apply IH; [lia|rewrite !app_length; simpl; lia].
  Qed.

  Lemma entry_ok_app md reps defs r2 d2 e : length reps = length defs ->
    entry_ok md reps defs e -> entry_ok md (reps ++ r2) (defs ++ d2) e.
  Proof.
    intros Hl (H1 & H2 & H3). unfold entry_ok. rewrite app_length. split; [lia|]. split.
    - now rewrite app_nth1.
    - rewrite firstn_app. replace (fst e - length defs) with 0 by lia. now rewrite firstn_O, app_nil_r.
  Qed.

  (* the values the levels of a row call for are in the base column *)
  Lemma entry_base_enough c e : rcol_ok c -> In e (rrows V c) ->
    fst e + row_length (rreps V c) (fst e) <= length (rreps V c) /\
    1 <= row_length (rreps V c) (fst e) /\
    snd e + cnt (rmaxdef V c) (slice (rdefs V c) (fst e) (row_length (rreps V c) (fst e))) <= length (rbase V c).
  Proof.
    intros Hok Hin. assert (He := ok_rows c Hok). rewrite Forall_forall in He.
    destruct (He e Hin) as (H1 & H2 & H3).
    destruct (row_length_bound _ _ H1) as [B1 B2]. repeat split; auto.
    rewrite H3, (ok_base c Hok). apply cnt_slice_le.
  Qed.

  (** ** appending whole rows (WriteValues, and one step of Page) *)
  Definition append_levels (c : rcol) (rs ds : list N) (bs : list V) (reord : bool) : rcol :=
    mkRcol V (rbase V c ++ bs)
           (rrows V c ++ canon_from (rmaxdef V c) (length (rreps V c)) (length (rbase V c)) rs ds)
           (rreps V c ++ rs) (rdefs V c ++ ds)
           (rmaxdef V c) (rnulls_first V c) (rdescending V c) reord.

  Lemma hd_zero_app a b : hd_zero a -> hd_zero b -> hd_zero (a ++ b).
  Proof. destruct a; simpl; auto. Qed.

  Lemma append_ok c rs ds bs reord :
    rcol_ok c -> length rs = length ds -> length bs = cnt (rmaxdef V c) ds -> hd_zero rs ->
    (reord = false -> rreordered V c = false) ->
    rcol_ok (append_levels c rs ds bs reord).
  Proof.
    intros Hok Hl Hb Hz Hre. assert (Hlen := ok_len c Hok). assert (Hbase := ok_base c Hok).
    constructor; unfold append_levels; simpl.
    - rewrite !app_length. lia.
    - rewrite app_length, cnt_app. lia.
    - apply Forall_app. split.
      + eapply Forall_impl; [|exact (ok_rows c Hok)]. intros e He. now apply entry_ok_app.
      + rewrite Hbase. apply canon_entries_ok; auto.
    - apply hd_zero_app; auto. exact (ok_hd c Hok).
    - intros E. rewrite (ok_canon c Hok (Hre E)), canon_from_app by auto. simpl. now rewrite Hbase.
  Qed.

  Lemma append_old_rows c rs ds bs reord e :
    rcol_ok c -> hd_zero rs -> In e (rrows V c) ->
    rcol_entry_row V (append_levels c rs ds bs reord) e = rcol_entry_row V c e.
  Proof.
    intros Hok Hz Hin. destruct (entry_base_enough c e Hok Hin) as (B1 & B2 & B3).
    assert (Hlen := ok_len c Hok).
    rewrite !entry_row_eq. unfold entry_row', append_levels. simpl.
    rewrite row_length_app by (auto; lia).
    rewrite !slice_app_l by lia.
    rewrite skipn_app. replace (snd e - length (rbase V c)) with 0 by lia. rewrite skipn_O.
    apply rpage_values_enough. rewrite skipn_length. lia.
  Qed.

  Lemma append_rows c rs ds bs reord :
    rcol_ok c -> length rs = length ds -> length bs = cnt (rmaxdef V c) ds -> hd_zero rs ->
    rcol_rows V (append_levels c rs ds bs reord) =
    rcol_rows V c ++ cut_rows V (length rs) (rpage_values V (rmaxdef V c) rs ds bs).
  Proof.
    intros Hok Hl Hb Hz. unfold rcol_rows at 1. unfold append_levels at 2. cbn [rrows].
    rewrite map_app. f_equal.
    - apply map_ext_in. intros e He. now apply append_old_rows.
    - rewrite (cut_canon (rmaxdef V c) (length rs) (rreps V c) (rdefs V c) (rbase V c) rs ds bs);
        auto using ok_len, ok_base.
  Qed.

  (** ** WriteValues of whole rows *)
  Definition batch_ok (md : N) (vs : list rval) : Prop :=
    Forall (rval_ok md) vs /\ hd_zero (map (rv_rep V) vs).

  Lemma flat_write_append c vs : Forall (rval_ok (rmaxdef V c)) vs ->
    flat_write c vs = append_levels c (map (rv_rep V) vs) (map (rv_def V) vs)
                                    (wvals (rmaxdef V c) vs) (rreordered V c).
  Proof. intros H. unfold flat_write, append_levels. now rewrite entries_canon. Qed.

  Theorem write_ok c vs : rcol_ok c -> batch_ok (rmaxdef V c) vs ->
    rcol_ok (rcol_write V c vs) /\
    rcol_rows V (rcol_write V c vs) = rcol_rows V c ++ cut_rows V (length vs) vs.
  Proof.
    intros Hok [Hv Hz]. rewrite rcol_write_flat, flat_write_append by auto. split.
    - apply append_ok; auto; rewrite ?map_length; auto. now apply wvals_length.
    - rewrite append_rows; auto; rewrite ?map_length; auto; [|now apply wvals_length].
      f_equal. f_equal.
      rewrite <- (app_nil_r (wvals (rmaxdef V c) vs)). now apply rpage_values_written.
  Qed.

  (** ** Swap *)
  Theorem swap_ok c i j : rcol_ok c -> rcol_ok (rcol_swap V c i j).
  Proof.
    intros Hok. constructor; unfold rcol_swap; simpl; try apply Hok.
    - eapply Permutation_Forall; [apply Permutation_sym, swapl_perm|]. apply Hok.
    - discriminate.
  Qed.

  (** ** Page *)
  Definition page_init (c : rcol) : rcol :=
    mkRcol V [] [] [] [] (rmaxdef V c) (rnulls_first V c) (rdescending V c) false.

  Definition page_step (c acc : rcol) (r : nat * nat) : rcol :=
    let len := row_length (rreps V c) (fst r) in
    let defs := slice (rdefs V c) (fst r) len in
    let nvals := length (filter (fun d => N.eqb d (rmaxdef V c)) defs) in
    mkRcol V (rbase V acc ++ slice (rbase V c) (snd r) nvals)
           (rrows V acc ++ [(length (rreps V acc), length (rbase V acc))])
           (rreps V acc ++ slice (rreps V c) (fst r) len)
           (rdefs V acc ++ defs)
           (rmaxdef V c) (rnulls_first V c) (rdescending V c) false.

  Lemma rcol_page_eq c :
    rcol_page V c = if rreordered V c then fold_left (page_step c) (rrows V c) (page_init c) else c.
  Proof. reflexivity. Qed.

  Definition same_cfg (c acc : rcol) : Prop :=
    rmaxdef V acc = rmaxdef V c /\ rnulls_first V acc = rnulls_first V c /\
    rdescending V acc = rdescending V c.

  Lemma page_step_ok c acc r : rcol_ok c -> In r (rrows V c) ->
    rcol_ok acc -> rreordered V acc = false -> same_cfg c acc ->
    let acc' := page_step c acc r in
    rcol_ok acc' /\ rreordered V acc' = false /\ same_cfg c acc' /\
    rcol_rows V acc' = rcol_rows V acc ++ [rcol_entry_row V c r].
  Proof.
    intros Hok Hin Hacc Hre (Hmd & Hnf & Hds).
    destruct (entry_base_enough c r Hok Hin) as (B1 & B2 & B3).
    assert (He := ok_rows c Hok). rewrite Forall_forall in He. destruct (He r Hin) as (E1 & E2 & E3).
    assert (Hlen := ok_len c Hok).
    set (len := row_length (rreps V c) (fst r)) in *.
    set (rs := slice (rreps V c) (fst r) len).
    set (ds := slice (rdefs V c) (fst r) len) in *.
    set (bs := slice (rbase V c) (snd r) (cnt (rmaxdef V c) ds)).
    destruct (row_shape (rreps V c) (fst r) E1) as (nz & Hsh & Hnz & _). fold len in Hsh. fold rs in Hsh.
    rewrite E2 in Hsh.
    assert (Lrs : length rs = len) by (apply slice_length; lia).
    assert (Lds : length ds = len) by (apply slice_length; lia).
    assert (Lbs : length bs = cnt (rmaxdef V c) ds) by (apply slice_length; lia).
    assert (Lnz : len = S (length nz)) by (rewrite <- Lrs, Hsh; reflexivity).
    assert (Hz : hd_zero rs) by (rewrite Hsh; reflexivity).
    assert (Eacc : page_step c acc r = append_levels acc rs ds bs false).
    { unfold page_step, append_levels. fold len. fold ds. fold rs. unfold cnt in bs. fold bs.
      rewrite Hmd, Hnf, Hds. f_equal. f_equal.
      rewrite Hsh. rewrite canon_from_row by (auto; lia). reflexivity. }
    cbv zeta. rewrite Eacc. split; [|split; [|split]].
    - apply append_ok; auto; rewrite ?Hmd; lia.
    - reflexivity.
    - unfold same_cfg, append_levels. simpl. auto.
    - rewrite append_rows by (auto; rewrite ?Hmd; lia). f_equal.
      rewrite Hmd, Lrs, Lnz. rewrite Hsh at 1.
      assert (Rreps : map (rv_rep V) (rpage_values V (rmaxdef V c) rs ds bs) = rs)
        by (apply rpage_values_reps; lia).
      rewrite <- Hsh.
      destruct (rpage_values V (rmaxdef V c) rs ds bs) as [|v r1] eqn:E.
      { rewrite Hsh in Rreps. discriminate. }
      cbn [cut_rows]. rewrite <- (app_nil_r r1), row_tail_app; cycle 1.
      { assert (Hr1 : map (rv_rep V) r1 = nz) by (rewrite Hsh in Rreps; simpl in Rreps; congruence).
        rewrite <- Hr1 in Hnz. rewrite Forall_map in Hnz. exact Hnz. }
      { exact I. }
      assert (Ecut : forall n, cut_rows V n (@nil rval) = []) by (intros [|n]; reflexivity).
      rewrite Ecut, <- E. f_equal.
      rewrite entry_row_eq. unfold entry_row'. fold len. fold rs. fold ds.
      rewrite (skipn_slice_base (rbase V c) (snd r) (cnt (rmaxdef V c) ds)). fold bs.
      now rewrite rpage_values_enough by lia.
  Qed.

  Lemma page_fold_ok c : rcol_ok c -> forall L acc, incl L (rrows V c) ->
    rcol_ok acc -> rreordered V acc = false -> same_cfg c acc ->
    let acc' := fold_left (page_step c) L acc in
    rcol_ok acc' /\ rreordered V acc' = false /\ same_cfg c acc' /\
    rcol_rows V acc' = rcol_rows V acc ++ map (rcol_entry_row V c) L.
  Proof.
    intros Hok. induction L as [|r L IH]; intros acc Hincl Hacc Hre Hcfg; cbn [fold_left map].
    - rewrite app_nil_r. cbv zeta. auto.
    - destruct (page_step_ok c acc r Hok (Hincl r (or_introl eq_refl)) Hacc Hre Hcfg) as (S1 & S2 & S3 & S4).
      destruct (IH (page_step c acc r)) as (I1 & I2 & I3 & I4); auto.
      { intros x Hx. apply Hincl. now right. }
      cbv zeta. split; [exact I1|]. split; [exact I2|]. split; [exact I3|].
      rewrite I4, S4, <- app_assoc. reflexivity.
  Qed.

  Theorem page_ok c : rcol_ok c ->
    rcol_ok (rcol_page V c) /\ rreordered V (rcol_page V c) = false /\ same_cfg c (rcol_page V c) /\
    rcol_rows V (rcol_page V c) = rcol_rows V c.
  Proof.
    intros Hok. rewrite rcol_page_eq. destruct (rreordered V c) eqn:Ere.
    - destruct (page_fold_ok c Hok (rrows V c) (page_init c)) as (I1 & I2 & I3 & I4).
      + apply incl_refl.
      + constructor; simpl; auto.
      + reflexivity.
      + unfold same_cfg, page_init; simpl; auto.
      + split; [exact I1|]. split; [exact I2|]. split; [exact I3|]. exact I4.
    - split; [exact Hok|]. split; [exact Ere|]. split; [|reflexivity]. unfold same_cfg. auto.
  Qed.

  (* the page read sequentially, cut at repetition level 0 *)
  Theorem page_rows_ok c : rcol_ok c -> rcol_page_rows V c = rcol_rows V c.
  Proof.
    intros Hok. destruct (page_ok c Hok) as (P1 & P2 & P3 & P4).
    unfold rcol_page_rows. set (c' := rcol_page V c) in *. rewrite <- P4.
    assert (Hl := ok_len c' P1).
    rewrite rpage_values_length by auto.
    rewrite (cut_canon (rmaxdef V c') (length (rreps V c')) [] [] [] (rreps V c') (rdefs V c') (rbase V c'));
      auto using ok_base, ok_hd.
    unfold rcol_rows. rewrite (ok_canon c' P1 P2). apply map_ext. intros e. now rewrite entry_row_eq.
  Qed.

  (** ** the comparator of value sequences: order properties *)
  Section CmpValues.
    Variable c : option V -> option V -> Z.
    Hypothesis c_opp : forall a b, (c a b < 0 <-> c b a > 0)%Z.
    Hypothesis c_trans : forall a b d, (c a b <= 0 -> c b d <= 0 -> c a d <= 0)%Z.

    Lemma cmp_values_opp a : forall b, (cmp_values V c a b < 0 <-> cmp_values V c b a > 0)%Z.
    Proof.
      induction a as [|x a IH]; intros [|y b]; simpl; try lia.
      assert (O1 := c_opp x y). assert (O2 := c_opp y x). specialize (IH b).
      destruct (Z.eqb_spec (c x y) 0); destruct (Z.eqb_spec (c y x) 0); lia.
    Qed.

    Lemma cmp_values_refl a : cmp_values V c a a = 0%Z.
    Proof.
      induction a as [|x a IH]; simpl; auto.
      assert (O := c_opp x x). destruct (Z.eqb_spec (c x x) 0); [auto|lia].
    Qed.

    Lemma cmp_values_trans a : forall b d,
      (cmp_values V c a b <= 0 -> cmp_values V c b d <= 0 -> cmp_values V c a d <= 0)%Z.
    Proof.
      induction a as [|x a IH]; intros [|y b] [|z d]; simpl; try lia.
      assert (T1 := c_trans x y z). assert (T2 := c_trans z x y).
      assert (T3 := c_trans y z x). assert (T4 := c_trans z y x).
      assert (T5 := c_trans y x z). assert (T6 := c_trans x z y).
      assert (O1 := c_opp x y). assert (O2 := c_opp y x). assert (O3 := c_opp y z).
      assert (O4 := c_opp z y). assert (O5 := c_opp x z). assert (O6 := c_opp z x).
      specialize (IH b d).
      destruct (Z.eqb_spec (c x y) 0); destruct (Z.eqb_spec (c y z) 0);
        destruct (Z.eqb_spec (c x z) 0); intros; lia.
    Qed.

    (* first pair of elements that differs, then the shorter sequence first *)
    Fixpoint first_diff (a b : list (option V)) : Z :=
      match a, b with
      | x :: a', y :: b' => let r := c x y in if Z.eqb r 0 then first_diff a' b' else r
      | _, _ => 0%Z
      end.

    Definition len_cmp (n m : nat) : Z := if n <? m then (-1)%Z else if m <? n then 1%Z else 0%Z.

    Lemma cmp_values_first_diff a : forall b,
      cmp_values V c a b =
      (let r := first_diff a b in if Z.eqb r 0 then len_cmp (length a) (length b) else r).
    Proof.
      induction a as [|x a IH]; intros [|y b]; simpl; try reflexivity.
      rewrite IH. cbv zeta. destruct (Z.eqb_spec (c x y) 0) as [E|E]; [reflexivity|].
      destruct (Z.eqb_spec (c x y) 0); [contradiction|reflexivity].
    Qed.

    Lemma first_diff_min a : forall b,
      first_diff a b = first_diff (firstn (Nat.min (length a) (length b)) a)
                                  (firstn (Nat.min (length a) (length b)) b).
    Proof.
      induction a as [|x a IH]; intros [|y b]; simpl; try reflexivity.
      now rewrite <- IH.
    Qed.
  End CmpValues.

  (** ** Less is the comparator *)
  Lemma skipn_cons_inv {A} (l : list A) : forall x v t,
    skipn x l = v :: t -> nth_error l x = Some v /\ skipn (S x) l = t.
  Proof.
    induction l as [|a l IH]; intros [|x] v t H; simpl in *; try discriminate.
    - inversion H; subst. auto.
    - apply IH. exact H.
  Qed.

  Lemma decide_step (r r' fd : Z) (rest : option bool) :
    (r < 0 <-> r' > 0)%Z -> (r' < 0 <-> r > 0)%Z ->
    rest = (if (fd =? 0)%Z then None else Some (fd <? 0)%Z) ->
    (if (r <? 0)%Z then Some true else if (r' <? 0)%Z then Some false else rest) =
    (let q := if (r =? 0)%Z then fd else r in if (q =? 0)%Z then None else Some (q <? 0)%Z).
  Proof.
    intros O1 O2 ->. cbv zeta.
    destruct (Z.eqb_spec r 0) as [E|E].
    - subst r. simpl. destruct (Z.ltb_spec r' 0); [lia|reflexivity].
    - destruct (Z.eqb_spec r 0); [contradiction|].
      destruct (Z.ltb_spec r 0); [reflexivity|]. destruct (Z.ltb_spec r' 0); [reflexivity|lia].
  Qed.

  Section Less.
    (* the sorting column: max definition level, nulls first, descending.
       Buffer.configure hands the column the null ordering [xorb nf desc]
       and sets its descending flag. *)
    Variable md : N.
    Variables nf desc : bool.

    Definition cfg_is (c : rcol) (nfo : bool) : Prop :=
      rmaxdef V c = md /\ rnulls_first V c = nfo /\ rdescending V c = desc.

    Notation cc := (cmp_col V cmp true desc nf).

    Lemma less_step (base : list V) (d1 d2 : N) (x y : nat) :
      (d1 = md -> x < length base) -> (d2 = md -> y < length base) ->
      let a := if N.eqb d1 md then nth_error base x else None in
      let b := if N.eqb d2 md then nth_error base y else None in
      let less := if xorb nf desc then nulls_go_first V lt else nulls_go_last V lt in
      let before0 := less base (Z.of_nat x) (Z.of_nat y) md d1 d2 in
      let after0 := less base (Z.of_nat y) (Z.of_nat x) md d2 d1 in
      (if desc then after0 else before0) = (cc a b <? 0)%Z /\
      (if desc then before0 else after0) = (cc b a <? 0)%Z.
    Proof.
      intros Hx Hy. cbv zeta.
      assert (Hnx : d1 = md -> exists vx, nth_error base x = Some vx).
      { intros E. destruct (nth_error base x) eqn:Ex; eauto. apply nth_error_None in Ex. specialize (Hx E). lia. }
      assert (Hny : d2 = md -> exists vy, nth_error base y = Some vy).
      { intros E. destruct (nth_error base y) eqn:Ey; eauto. apply nth_error_None in Ey. specialize (Hy E). lia. }
      destruct nf, desc; cbn [xorb]; unfold nulls_go_first, nulls_go_last, base_less; rewrite !Nat2Z.id;
        unfold Model.cmp_col, cmp_nf, cmp_nl, cmp_desc, cmp_raw;
        destruct (N.eqb_spec d1 md) as [E1|E1]; destruct (N.eqb_spec d2 md) as [E2|E2]; cbn [negb andb orb];
        try (destruct (Hnx E1) as [vx ->]); try (destruct (Hny E2) as [vy ->]);
        rewrite ?(lt_ltb V lt cmp lt_cmp); split; try reflexivity;
        try apply (cmp_opp_ltb V cmp cmp_opp).
    Qed.

    Lemma less_loop_spec (c : rcol) : cfg_is c (xorb nf desc) -> forall n k off1 off2 x y,
      off1 + k + n <= length (rdefs V c) -> off2 + k + n <= length (rdefs V c) ->
      x + cnt md (slice (rdefs V c) (off1 + k) n) <= length (rbase V c) ->
      y + cnt md (slice (rdefs V c) (off2 + k) n) <= length (rbase V c) ->
      less_loop V lt c k n off1 off2 (Z.of_nat x) (Z.of_nat y) =
      (let r := first_diff cc (vals_at md (slice (rdefs V c) (off1 + k) n) (skipn x (rbase V c)))
                              (vals_at md (slice (rdefs V c) (off2 + k) n) (skipn y (rbase V c))) in
       if (r =? 0)%Z then None else Some (r <? 0)%Z).
    Proof.
      intros (Hmd & Hnf & Hds). induction n as [|n IH]; intros k off1 off2 x y H1 H2 Hx Hy.
      - reflexivity.
      - cbn [less_loop]. rewrite Hmd, Hnf, Hds.
        set (d1 := nth (off1 + k) (rdefs V c) 0%N). set (d2 := nth (off2 + k) (rdefs V c) 0%N).
        rewrite (slice_S (rdefs V c) (off1 + k) n 0%N) in Hx |- * by lia.
        rewrite (slice_S (rdefs V c) (off2 + k) n 0%N) in Hy |- * by lia.
        fold d1 d2 in Hx, Hy |- *. rewrite cnt_cons in Hx, Hy.
        assert (Bx : d1 = md -> x < length (rbase V c)).
        { intros E. apply N.eqb_eq in E. rewrite E in Hx. lia. }
        assert (By : d2 = md -> y < length (rbase V c)).
        { intros E. apply N.eqb_eq in E. rewrite E in Hy. lia. }
        destruct (less_step (rbase V c) d1 d2 x y Bx By) as [S1 S2]. cbv zeta in S1, S2.
        rewrite S1, S2.
        set (a := if N.eqb d1 md then nth_error (rbase V c) x else None) in *.
        set (b := if N.eqb d2 md then nth_error (rbase V c) y else None) in *.
        set (x' := if N.eqb d1 md then S x else x).
        set (y' := if N.eqb d2 md then S y else y).
        assert (Ex' : (if N.eqb d1 md then Z.of_nat x + 1 else Z.of_nat x)%Z = Z.of_nat x')
          by (unfold x'; destruct (N.eqb d1 md); lia).
        assert (Ey' : (if N.eqb d2 md then Z.of_nat y + 1 else Z.of_nat y)%Z = Z.of_nat y')
          by (unfold y'; destruct (N.eqb d2 md); lia).
        rewrite Ex', Ey'.
        assert (Va : vals_at md (d1 :: slice (rdefs V c) (S (off1 + k)) n) (skipn x (rbase V c)) =
                     a :: vals_at md (slice (rdefs V c) (S (off1 + k)) n) (skipn x' (rbase V c))).
        { unfold a, x'. cbn [vals_at]. destruct (N.eqb_spec d1 md) as [E|E]; [|reflexivity].
          destruct (skipn x (rbase V c)) as [|vx t] eqn:Es.
          - exfalso. specialize (Bx E). assert (L := skipn_length x (rbase V c)). rewrite Es in L. simpl in L. lia.
          - destruct (skipn_cons_inv _ _ _ _ Es) as [N1 N2]. now rewrite N1, N2. }
        assert (Vb : vals_at md (d2 :: slice (rdefs V c) (S (off2 + k)) n) (skipn y (rbase V c)) =
                     b :: vals_at md (slice (rdefs V c) (S (off2 + k)) n) (skipn y' (rbase V c))).
        { unfold b, y'. cbn [vals_at]. destruct (N.eqb_spec d2 md) as [E|E]; [|reflexivity].
          destruct (skipn y (rbase V c)) as [|vy t] eqn:Es.
          - exfalso. specialize (By E). assert (L := skipn_length y (rbase V c)). rewrite Es in L. simpl in L. lia.
          - destruct (skipn_cons_inv _ _ _ _ Es) as [N1 N2]. now rewrite N1, N2. }
        rewrite Va, Vb. cbn [first_diff].
        apply decide_step.
        + apply (cmp_col_opp V cmp cmp_opp).
        + apply (cmp_col_opp V cmp cmp_opp).
        + rewrite <- !Nat.add_succ_r. apply IH; rewrite ?Nat.add_succ_r; try lia.
          * unfold x'. destruct (N.eqb d1 md); lia.
          * unfold y'. destruct (N.eqb d2 md); lia.
    Qed.

    Lemma nth_rcol_rows (c : rcol) i : i < length (rrows V c) ->
      nth i (rcol_rows V c) [] = rcol_entry_row V c (nth i (rrows V c) (0, 0)).
    Proof.
      intros Hi. unfold rcol_rows.
      rewrite (nth_indep _ [] (rcol_entry_row V c (0, 0))) by (now rewrite map_length).
      apply map_nth.
    Qed.

    Lemma entry_vals (c : rcol) e : rcol_ok c -> In e (rrows V c) ->
      map (rv_val V) (rcol_entry_row V c e) =
      vals_at (rmaxdef V c) (slice (rdefs V c) (fst e) (row_length (rreps V c) (fst e)))
              (skipn (snd e) (rbase V c)).
    Proof.
      intros Hok Hin. destruct (entry_base_enough c e Hok Hin) as (B1 & B2 & B3).
      assert (Hl := ok_len c Hok). rewrite entry_row_eq. unfold entry_row'.
      apply rpage_values_vals. rewrite !slice_length; lia.
    Qed.

    (** Less i j  =  (comparator (values of row i) (values of row j) < 0) *)
    Theorem rcol_less_spec (c : rcol) i j :
      rcol_ok c -> cfg_is c (xorb nf desc) -> i < length (rrows V c) -> j < length (rrows V c) ->
      rcol_less V lt c i j =
      (cmp_values V cc (map (rv_val V) (nth i (rcol_rows V c) []))
                       (map (rv_val V) (nth j (rcol_rows V c) [])) <? 0)%Z.
    Proof.
      intros Hok Hcfg Hi Hj. assert (Hmd : rmaxdef V c = md) by apply Hcfg.
      rewrite !nth_rcol_rows by auto.
      set (r1 := nth i (rrows V c) (0, 0)). set (r2 := nth j (rrows V c) (0, 0)).
      assert (In1 : In r1 (rrows V c)) by (apply nth_In; auto).
      assert (In2 : In r2 (rrows V c)) by (apply nth_In; auto).
      rewrite !entry_vals by auto. rewrite Hmd.
      destruct (entry_base_enough c r1 Hok In1) as (A1 & A2 & A3).
      destruct (entry_base_enough c r2 Hok In2) as (B1 & B2 & B3).
      rewrite Hmd in A3, B3. assert (Hl := ok_len c Hok).
      unfold rcol_less. fold r1 r2.
      set (l1 := row_length (rreps V c) (fst r1)) in *. set (l2 := row_length (rreps V c) (fst r2)) in *.
      set (m := Nat.min l1 l2).
      assert (C1 : cnt md (slice (rdefs V c) (fst r1) m) <= cnt md (slice (rdefs V c) (fst r1) l1)).
      { rewrite <- (firstn_slice (rdefs V c) (fst r1) l1 m) by lia. apply cnt_firstn_le. }
      assert (C2 : cnt md (slice (rdefs V c) (fst r2) m) <= cnt md (slice (rdefs V c) (fst r2) l2)).
      { rewrite <- (firstn_slice (rdefs V c) (fst r2) l2 m) by lia. apply cnt_firstn_le. }
      rewrite (less_loop_spec c Hcfg m 0 (fst r1) (fst r2) (snd r1) (snd r2))
        by (rewrite ?Nat.add_0_r; lia).
      rewrite !Nat.add_0_r. cbv zeta.
      set (A := vals_at md (slice (rdefs V c) (fst r1) l1) (skipn (snd r1) (rbase V c))).
      set (B := vals_at md (slice (rdefs V c) (fst r2) l2) (skipn (snd r2) (rbase V c))).
      assert (LA : length A = l1) by (unfold A; rewrite vals_at_length, slice_length; lia).
      assert (LB : length B = l2) by (unfold B; rewrite vals_at_length, slice_length; lia).
      assert (EA : first_diff cc A B =
                   first_diff cc (vals_at md (slice (rdefs V c) (fst r1) m) (skipn (snd r1) (rbase V c)))
                                 (vals_at md (slice (rdefs V c) (fst r2) m) (skipn (snd r2) (rbase V c)))).
      { rewrite (first_diff_min cc A B), LA, LB. fold m. unfold A, B.
        rewrite !vals_at_firstn, !firstn_slice by lia. reflexivity. }
      rewrite cmp_values_first_diff. cbv zeta. rewrite EA, LA, LB.
      set (r := first_diff cc _ _). destruct (Z.eqb_spec r 0) as [E|E].
      - unfold len_cmp. destruct (Nat.ltb_spec l1 l2); [reflexivity|].
        destruct (l2 <? l1); reflexivity.
      - reflexivity.
    Qed.

    Lemma cc_opp a b : (cc a b < 0 <-> cc b a > 0)%Z.
    Proof. apply (cmp_col_opp V cmp cmp_opp). Qed.

    Lemma cc_trans a b d : (cc a b <= 0 -> cc b d <= 0 -> cc a d <= 0)%Z.
    Proof. apply (cmp_col_trans V cmp cmp_opp cmp_trans); left; reflexivity. Qed.

    Definition row_vals (c : rcol) (i : nat) : list (option V) :=
      map (rv_val V) (nth i (rcol_rows V c) []).

    (** Less is a strict weak order on the rows of the column *)
    Definition rless_swo (c : rcol) (n : nat) : Prop :=
      (forall i, i < n -> rcol_less V lt c i i = false) /\
      (forall i j k, i < n -> j < n -> k < n ->
         rcol_less V lt c i j = true -> rcol_less V lt c j k = true -> rcol_less V lt c i k = true) /\
      (forall i j k, i < n -> j < n -> k < n ->
         rcol_less V lt c i j = false -> rcol_less V lt c j i = false ->
         rcol_less V lt c j k = false -> rcol_less V lt c k j = false ->
         rcol_less V lt c i k = false /\ rcol_less V lt c k i = false).

    Theorem rcol_less_swo (c : rcol) :
      rcol_ok c -> cfg_is c (xorb nf desc) -> rless_swo c (length (rrows V c)).
    Proof.
      intros Hok Hcfg. set (n := length (rrows V c)).
      assert (Hspec : forall i j, i < n -> j < n ->
                rcol_less V lt c i j = (cmp_values V cc (row_vals c i) (row_vals c j) <? 0)%Z)
        by (intros; apply rcol_less_spec; auto).
      assert (Hopp := cmp_values_opp cc cc_opp). assert (Htr := cmp_values_trans cc cc_opp cc_trans).
      split; [|split].
      - intros i Hi. rewrite Hspec, (cmp_values_refl cc cc_opp) by auto. reflexivity.
      - intros i j k Hi Hj Hk. rewrite !Hspec by auto. rewrite !Z.ltb_lt. intros H1 H2.
        assert (T := Htr (row_vals c i) (row_vals c j) (row_vals c k)).
        assert (T' := Htr (row_vals c k) (row_vals c i) (row_vals c j)).
        assert (O1 := Hopp (row_vals c i) (row_vals c k)). assert (O2 := Hopp (row_vals c k) (row_vals c i)).
        assert (O3 := Hopp (row_vals c j) (row_vals c k)). assert (O4 := Hopp (row_vals c k) (row_vals c j)). lia.
      - intros i j k Hi Hj Hk. rewrite !Hspec by auto. rewrite !Z.ltb_ge. intros H1 H2 H3 H4.
        assert (T1 := Htr (row_vals c i) (row_vals c j) (row_vals c k)).
        assert (T2 := Htr (row_vals c k) (row_vals c j) (row_vals c i)).
        assert (O1 := Hopp (row_vals c i) (row_vals c j)). assert (O2 := Hopp (row_vals c j) (row_vals c i)).
        assert (O3 := Hopp (row_vals c j) (row_vals c k)). assert (O4 := Hopp (row_vals c k) (row_vals c j)).
        assert (O5 := Hopp (row_vals c i) (row_vals c k)). assert (O6 := Hopp (row_vals c k) (row_vals c i)). lia.
    Qed.

    (** no adjacent inversion for Less: the rows are ordered by the comparator *)
    Definition rsorted_by_less (c : rcol) (n : nat) : Prop :=
      forall i, S i < n -> rcol_less V lt c (S i) i = false.

    Theorem rsorted_rows_ordered (c : rcol) :
      rcol_ok c -> cfg_is c (xorb nf desc) -> rsorted_by_less c (length (rrows V c)) ->
      forall i j, i <= j -> j < length (rrows V c) ->
        (cmp_values V cc (row_vals c i) (row_vals c j) <= 0)%Z.
    Proof.
      intros Hok Hcfg Hs i j Hij Hj. induction Hij as [|j Hij IH].
      - rewrite (cmp_values_refl cc cc_opp). lia.
      - assert (H := Hs j Hj). rewrite rcol_less_spec in H by (auto; lia). apply Z.ltb_ge in H.
        fold (row_vals c (S j)) in H. fold (row_vals c j) in H.
        assert (O := cmp_values_opp cc cc_opp (row_vals c j) (row_vals c (S j))).
        assert (O' := cmp_values_opp cc cc_opp (row_vals c (S j)) (row_vals c j)).
        eapply (cmp_values_trans cc cc_opp cc_trans); [apply IH; lia|lia].
    Qed.

    (** ** histories *)
    Definition rop_ok (o : rop V) : Prop :=
      match o with RWrite vs => batch_ok md vs | _ => True end.

    (* the same operations on a plain list of rows *)
    Definition rspec_step (rows : list (list rval)) (o : rop V) : list (list rval) :=
      match o with
      | RWrite vs => rows ++ cut_rows V (length vs) vs
      | RSwap i j => swapl rows i j
      | RPage => rows
      end.

    Definition rspec_run (ops : list (rop V)) : list (list rval) := fold_left rspec_step ops [].

    Definition rwritten (ops : list (rop V)) : list (list rval) :=
      flat_map (fun o => match o with RWrite vs => cut_rows V (length vs) vs | _ => [] end) ops.

    Definition rreach (nfo : bool) (ops : list (rop V)) : rcol :=
      fold_left (rcol_apply V) ops (new_rcol V md nfo desc).

    Lemma apply_inv nfo c o : rcol_ok c -> cfg_is c nfo -> rop_ok o ->
      rcol_ok (rcol_apply V c o) /\ cfg_is (rcol_apply V c o) nfo /\
      rcol_rows V (rcol_apply V c o) = rspec_step (rcol_rows V c) o.
    Proof.
      intros Hok (Hmd & Hnf & Hds) Ho. destruct o as [vs|i j|]; cbn [rcol_apply rspec_step].
      - simpl in Ho. rewrite <- Hmd in Ho. destruct (write_ok c vs Hok Ho) as [W1 W2].
        split; [exact W1|]. split; [|exact W2].
        rewrite rcol_write_flat. unfold cfg_is, flat_write. simpl. auto.
      - split; [now apply swap_ok|]. split; [unfold cfg_is, rcol_swap; simpl; auto|apply rcol_swap_rows].
      - destruct (page_ok c Hok) as (P1 & _ & (Q1 & Q2 & Q3) & P4).
        split; [exact P1|]. split; [|exact P4]. unfold cfg_is. rewrite Q1, Q2, Q3. auto.
    Qed.

    Lemma run_inv nfo ops : forall c, rcol_ok c -> cfg_is c nfo -> Forall rop_ok ops ->
      let c' := fold_left (rcol_apply V) ops c in
      rcol_ok c' /\ cfg_is c' nfo /\ rcol_rows V c' = fold_left rspec_step ops (rcol_rows V c).
    Proof.
      induction ops as [|o ops IH]; intros c Hok Hcfg Hops; cbn [fold_left].
      - cbv zeta. auto.
      - inversion Hops as [|? ? Ho Hops']; subst.
        destruct (apply_inv nfo c o Hok Hcfg Ho) as (A1 & A2 & A3).
        destruct (IH _ A1 A2 Hops') as (I1 & I2 & I3). cbv zeta.
        split; [exact I1|]. split; [exact I2|]. now rewrite I3, A3.
    Qed.

    Lemma new_rcol_ok nfo : rcol_ok (new_rcol V md nfo desc) /\ cfg_is (new_rcol V md nfo desc) nfo.
    Proof. split; [constructor; simpl; auto|unfold cfg_is; simpl; auto]. Qed.

    Theorem reach_inv nfo ops : Forall rop_ok ops ->
      rcol_ok (rreach nfo ops) /\ cfg_is (rreach nfo ops) nfo /\
      rcol_rows V (rreach nfo ops) = rspec_run ops.
    Proof.
      intros Hops. destruct (new_rcol_ok nfo) as [N1 N2].
      exact (run_inv nfo ops _ N1 N2 Hops).
    Qed.

    Lemma rspec_perm ops : forall rows w, Permutation rows w ->
      Permutation (fold_left rspec_step ops rows) (w ++ rwritten ops).
    Proof.
      induction ops as [|o ops IH]; intros rows w Hp; cbn [fold_left].
      - unfold rwritten. simpl. now rewrite app_nil_r.
      - unfold rwritten. cbn [flat_map]. fold (rwritten ops). destruct o as [vs|i j|]; cbn [rspec_step].
        + rewrite app_assoc. apply IH. now apply Permutation_app_tail.
        + simpl. apply IH. eapply perm_trans; [apply swapl_perm|exact Hp].
        + simpl. now apply IH.
    Qed.

    (** For every history of writes of whole rows, exchanges and pages: the
        logical rows are what the operations do to a plain list of rows, so are
        the rows read from the page, and they are a permutation of the rows
        written. *)
    Theorem repeated_rows_preserved nfo ops : Forall rop_ok ops ->
      rcol_rows V (rreach nfo ops) = rspec_run ops /\
      rcol_page_rows V (rreach nfo ops) = rspec_run ops /\
      rcol_rows V (rcol_page V (rreach nfo ops)) = rspec_run ops /\
      Permutation (rspec_run ops) (rwritten ops).
    Proof.
      intros Hops. destruct (reach_inv nfo ops Hops) as (R1 & R2 & R3).
      split; [exact R3|]. split; [now rewrite page_rows_ok|].
      split; [destruct (page_ok _ R1) as (_ & _ & _ & P); now rewrite P|].
      exact (rspec_perm ops [] [] (perm_nil _)).
    Qed.

    Definition rswap_ops (l : list (nat * nat)) : list (rop V) :=
      map (fun p => RSwap (fst p) (snd p)) l.

    Lemma rswap_ops_ok l : Forall rop_ok (rswap_ops l).
    Proof. unfold rswap_ops. apply Forall_map. apply Forall_forall. intros; exact I. Qed.

    Lemma rwritten_swaps ops l : rwritten (ops ++ rswap_ops l) = rwritten ops.
    Proof.
      unfold rwritten. rewrite flat_map_app.
      assert (E : flat_map (fun o : rop V => match o with
                    | RWrite vs => cut_rows V (length vs) vs | _ => [] end) (rswap_ops l) = []).
      { induction l; simpl; auto. }
      rewrite E. apply app_nil_r.
    Qed.

    Lemma swaps_rows_length l : forall c : rcol,
      length (rrows V (fold_left (rcol_apply V) (rswap_ops l) c)) = length (rrows V c).
    Proof.
      induction l as [|p l IH]; intros c; simpl; auto.
      rewrite IH. unfold rcol_swap. simpl. apply swapl_length.
    Qed.

    (** whatever exchanges a sort routine performs after any history: if the
        result has no adjacent inversion for Less, the rows are a permutation of
        the rows written, each intact, ordered by the comparator *)
    Theorem repeated_sorted_after_swaps ops l : Forall rop_ok ops ->
      let c := rreach (xorb nf desc) ops in
      let c' := rreach (xorb nf desc) (ops ++ rswap_ops l) in
      rsorted_by_less c' (length (rrows V c')) ->
      Permutation (rcol_rows V c') (rcol_rows V c) /\
      Permutation (rcol_rows V c') (rwritten ops) /\
      forall i j, i <= j -> j < length (rcol_rows V c') ->
        (cmp_values V cc (row_vals c' i) (row_vals c' j) <= 0)%Z.
    Proof.
      intros Hops c c' Hs.
      assert (Hops' : Forall rop_ok (ops ++ rswap_ops l))
        by (apply Forall_app; split; auto; apply rswap_ops_ok).
      destruct (reach_inv (xorb nf desc) _ Hops') as (R1 & R2 & R3). fold c' in R1, R2, R3.
      destruct (reach_inv (xorb nf desc) _ Hops) as (S1 & S2 & S3). fold c in S1, S2, S3.
      assert (P1 := rspec_perm (ops ++ rswap_ops l) [] [] (perm_nil _)).
      assert (P2 := rspec_perm ops [] [] (perm_nil _)).
      rewrite rwritten_swaps in P1. simpl in P1, P2. fold (rspec_run (ops ++ rswap_ops l)) in P1.
      fold (rspec_run ops) in P2. rewrite R3, S3.
      split; [eapply perm_trans; [exact P1|apply Permutation_sym; exact P2]|].
      split; [exact P1|]. intros i j Hij Hj. rewrite <- R3 in Hj. unfold rcol_rows in Hj.
      rewrite map_length in Hj. apply rsorted_rows_ordered; auto.
    Qed.

    Section SortContract.
      (* sort.Sort only calls Len, Less and Swap; when Less is a strict weak
         order on the n rows, the exchanges it performs leave no adjacent
         inversion *)
      Variable sort_swaps : rcol -> list (nat * nat).
      Hypothesis sort_sorts : forall c n, n = length (rrows V c) -> rless_swo c n ->
        rsorted_by_less (fold_left (rcol_apply V) (rswap_ops (sort_swaps c)) c) n.

      Theorem repeated_sorted_after_sort ops : Forall rop_ok ops ->
        let c := rreach (xorb nf desc) ops in
        let c' := fold_left (rcol_apply V) (rswap_ops (sort_swaps c)) c in
        Permutation (rcol_rows V c') (rcol_rows V c) /\
        Permutation (rcol_rows V c') (rwritten ops) /\
        forall i j, i <= j -> j < length (rcol_rows V c') ->
          (cmp_values V cc (row_vals c' i) (row_vals c' j) <= 0)%Z.
      Proof.
        intros Hops c c'.
        destruct (reach_inv (xorb nf desc) _ Hops) as (S1 & S2 & S3). fold c in S1, S2, S3.
        assert (Hs := sort_sorts c _ eq_refl (rcol_less_swo c S1 S2)). fold c' in Hs.
        assert (Ec' : c' = rreach (xorb nf desc) (ops ++ rswap_ops (sort_swaps c))).
        { unfold c', c, rreach. now rewrite fold_left_app. }
        assert (Hl : length (rrows V c') = length (rrows V c)) by apply swaps_rows_length.
        rewrite <- Hl in Hs. rewrite Ec' in *.
        apply (repeated_sorted_after_swaps ops (sort_swaps c) Hops Hs).
      Qed.
    End SortContract.
  End Less.
End RepeatedProofs.

(** * Buffer.Less over any mix of sorting columns

    Buffer.Less walks the sorting columns: "case col.Less(i, j): return true;
    case col.Less(j, i): return false" and goes on to the next column.  When
    the Less of every column is "its comparator < 0" (required and optional
    columns: [sorted_less_spec]; repeated columns: [rcol_less_spec]) the walk
    is the lexicographic comparator of compare.go: the first column whose
    comparator is not 0 decides. *)
Fixpoint less_walk (ls : list (nat -> nat -> bool)) (i j : nat) : bool :=
  match ls with
  | [] => false
  | l :: t => if l i j then true else if l j i then false else less_walk t i j
  end.

Fixpoint lex_cmp (cs : list (nat -> nat -> Z)) (i j : nat) : Z :=
  match cs with
  | [] => 0%Z
  | c :: t => if (c i j =? 0)%Z then lex_cmp t i j else c i j
  end.

Theorem less_walk_lexicographic ls cs i j :
  Forall2 (fun (l : nat -> nat -> bool) (c : nat -> nat -> Z) =>
             l i j = (c i j <? 0)%Z /\ l j i = (c j i <? 0)%Z /\
             (c i j < 0 <-> c j i > 0)%Z /\ (c j i < 0 <-> c i j > 0)%Z) ls cs ->
  less_walk ls i j = (lex_cmp cs i j <? 0)%Z.
Proof.
  induction 1 as [|l c ls cs (E1 & E2 & O1 & O2) _ IH]; simpl; [reflexivity|].
  rewrite E1, E2, IH.
  destruct (Z.eqb_spec (c i j) 0) as [E|E].
  - rewrite E. simpl. destruct (Z.ltb_spec (c j i) 0); [lia|reflexivity].
  - destruct (Z.ltb_spec (c i j) 0); [reflexivity|]. destruct (Z.ltb_spec (c j i) 0); [reflexivity|lia].
Qed.
