(** The stored filter depends only on the set of inserted keys: inserts
    commute and are idempotent, so the three build strategies of the writer
    (page by page, from the dictionary page, from pages read back) and any
    split of the values into pages produce the same bytes. *)
From Coq Require Import List NArith ZArith Bool Arith Lia Permutation.
From PQ Require Import Bloom.XXHash Bloom.Filter Bloom.Hashing
  Bloom.FilterProofs Bloom.XXHashProofs Bloom.HashingProofs.
Import ListNotations.
Open Scope N_scope.

Lemma update_nth_comm : forall (A : Type) (g h : A -> A) l i j, i <> j ->
  update_nth i g (update_nth j h l) = update_nth j h (update_nth i g l).
Proof.
  intros A g h l. induction l as [|x r IH]; intros [|i] [|j] NE; simpl; auto;
    try contradiction. f_equal. apply IH. congruence.
Qed.

Lemma update_nth_compose : forall (A : Type) (g h : A -> A) l i,
  update_nth i g (update_nth i h l) = update_nth i (fun x => g (h x)) l.
Proof.
  intros A g h l. induction l as [|x r IH]; intros [|i]; simpl; auto. f_equal. apply IH.
Qed.

Lemma update_nth_ext : forall (A : Type) (g h : A -> A) l i,
  (forall x, g x = h x) -> update_nth i g l = update_nth i h l.
Proof.
  intros A g h l i E. revert i. induction l as [|x r IH]; intros [|i]; simpl; auto.
  - rewrite E. reflexivity.
  - f_equal. apply IH.
Qed.

Lemma lor_swap : forall w a b, N.lor (N.lor w a) b = N.lor (N.lor w b) a.
Proof. intros. rewrite <- !N.lor_assoc, (N.lor_comm a b). reflexivity. Qed.

Lemma lor_idem : forall w a, N.lor (N.lor w a) a = N.lor w a.
Proof. intros. rewrite <- N.lor_assoc, N.lor_diag. reflexivity. Qed.

Lemma block_insert_comm : forall b x y,
  block_insert (block_insert b x) y = block_insert (block_insert b y) x.
Proof.
  intros [[[[[[[b0 b1] b2] b3] b4] b5] b6] b7] x y. unfold block_insert.
  repeat match goal with |- (_, _) = (_, _) => f_equal end; apply lor_swap.
Qed.

Lemma block_insert_idem : forall b x, block_insert (block_insert b x) x = block_insert b x.
Proof.
  intros [[[[[[[b0 b1] b2] b3] b4] b5] b6] b7] x. unfold block_insert.
  repeat match goal with |- (_, _) = (_, _) => f_equal end; apply lor_idem.
Qed.

Lemma filter_insert_comm : forall f a b,
  filter_insert (filter_insert f a) b = filter_insert (filter_insert f b) a.
Proof.
  intros f a b. unfold filter_insert at 1 3. rewrite !block_index_insert. unfold filter_insert.
  destruct (Nat.eq_dec (block_index f b) (block_index f a)) as [E|NE].
  - rewrite E, !update_nth_compose. apply update_nth_ext. intro x. apply block_insert_comm.
  - apply update_nth_comm. exact NE.
Qed.

Lemma filter_insert_idem : forall f a, filter_insert (filter_insert f a) a = filter_insert f a.
Proof.
  intros f a. unfold filter_insert at 1. rewrite block_index_insert. unfold filter_insert.
  rewrite update_nth_compose. apply update_nth_ext. intro x. apply block_insert_idem.
Qed.

Lemma bulk_cons : forall f a xs, filter_insert_bulk f (a :: xs) = filter_insert_bulk (filter_insert f a) xs.
Proof. reflexivity. Qed.

Lemma bulk_app : forall f xs ys,
  filter_insert_bulk f (xs ++ ys) = filter_insert_bulk (filter_insert_bulk f xs) ys.
Proof. intros. unfold filter_insert_bulk. apply fold_left_app. Qed.

Lemma bulk_insert_swap : forall xs f a,
  filter_insert_bulk (filter_insert f a) xs = filter_insert (filter_insert_bulk f xs) a.
Proof.
  induction xs as [|x xs IH]; intros f a; [reflexivity|].
  rewrite !bulk_cons, filter_insert_comm. apply IH.
Qed.

Lemma bulk_perm : forall xs ys, Permutation xs ys ->
  forall f, filter_insert_bulk f xs = filter_insert_bulk f ys.
Proof.
  intros xs ys P. induction P as [|x l l' P IH|x y l|l l' l'' P1 IH1 P2 IH2]; intro f.
  - reflexivity.
  - rewrite !bulk_cons. apply IH.
  - rewrite !bulk_cons, filter_insert_comm. reflexivity.
  - rewrite IH1. apply IH2.
Qed.

(** inserting a key that is inserted anyway changes nothing *)
Lemma bulk_absorb_one : forall xs f a, In a xs ->
  filter_insert_bulk (filter_insert f a) xs = filter_insert_bulk f xs.
Proof.
  induction xs as [|x xs IH]; intros f a H; [destruct H|].
  rewrite !bulk_cons. destruct H as [->|H].
  - rewrite filter_insert_idem. reflexivity.
  - rewrite filter_insert_comm. apply IH. exact H.
Qed.

Lemma bulk_absorb : forall xs ys f, incl xs ys ->
  filter_insert_bulk (filter_insert_bulk f ys) xs = filter_insert_bulk f ys.
Proof.
  induction xs as [|x xs IH]; intros ys f H; [reflexivity|].
  rewrite bulk_cons, <- bulk_insert_swap, bulk_absorb_one.
  - apply IH. intros z Hz. apply H. right. exact Hz.
  - apply H. left. reflexivity.
Qed.

(** the filter depends only on the set of keys *)
Lemma bulk_same_set : forall xs ys f, incl xs ys -> incl ys xs ->
  filter_insert_bulk f xs = filter_insert_bulk f ys.
Proof.
  intros xs ys f H1 H2.
  rewrite <- (bulk_absorb ys xs f H2), <- bulk_app.
  rewrite (bulk_perm (xs ++ ys) (ys ++ xs) (Permutation_app_comm xs ys)).
  rewrite bulk_app. apply bulk_absorb. exact H1.
Qed.

(** * File level *)

Lemma write_pages_bulk : forall ps f,
  write_pages_to_filter f ps = filter_insert_bulk f (flat_map hashes_write ps).
Proof.
  unfold write_pages_to_filter. induction ps as [|p ps IH]; intro f; [reflexivity|].
  cbn [fold_left flat_map]. rewrite IH, bulk_app. reflexivity.
Qed.

(** the keys of a page are exactly the read-side hashes of its values;
    for booleans: at least those, at most the two boolean keys *)
Lemma hashes_write_typed : forall t vs, t <> TBoolean -> Forall (typed t) vs ->
  hashes_write (page_of_values t vs) = map hash_read vs.
Proof.
  intros t vs NB Hall.
  assert (Hv : forall v, In v vs -> typed t v) by (intros; eapply typed_in; eauto).
  destruct t; try contradiction; cbn [page_of_values hashes_write].
  - rewrite bulk_map, map_map. apply map_ext_in. intros v Hin.
    specialize (Hv v Hin). destruct v; simpl in Hv; try contradiction. reflexivity.
  - rewrite bulk_map, map_map. apply map_ext_in. intros v Hin.
    specialize (Hv v Hin). destruct v; simpl in Hv; try contradiction. reflexivity.
  - rewrite (fixed_chunks_concat_all 12); [|lia|apply (typed_lengths TInt96 vs 12 Hall); auto].
    rewrite map_map. apply map_ext_in. intros v Hin.
    specialize (Hv v Hin). destruct v; simpl in Hv; try contradiction. reflexivity.
  - rewrite bulk_map, map_map. apply map_ext_in. intros v Hin.
    specialize (Hv v Hin). destruct v; simpl in Hv; try contradiction. reflexivity.
  - rewrite bulk_map, map_map. apply map_ext_in. intros v Hin.
    specialize (Hv v Hin). destruct v; simpl in Hv; try contradiction. reflexivity.
  - pose proof (byte_array_slices_concat (map bytes_of vs) []) as E. cbn [app length] in E.
    rewrite E, map_map. apply map_ext_in. intros v Hin.
    specialize (Hv v Hin). destruct v; simpl in Hv; try contradiction. reflexivity.
  - destruct vs as [|v0 vs'].
    + cbn. destruct (Nat.eqb size 16); reflexivity.
    + assert (Hpos : (0 < size)%nat).
      { specialize (Hv v0 (or_introl eq_refl)). destruct v0; simpl in Hv; try contradiction. tauto. }
      pose proof (typed_lengths (TFixedLenByteArray size) (v0 :: vs') size Hall (or_intror eq_refl)) as L.
      destruct (Nat.eqb_spec size 16) as [E16|NE].
      * rewrite E16 in *. rewrite bulk_map, (fixed_chunks_concat_all 16); auto.
        rewrite map_map. apply map_ext_in. intros v Hin.
        specialize (Hv v Hin). destruct v; simpl in Hv; try contradiction.
        cbn [bytes_of hash_read]. apply sum64uint128_eq. tauto.
      * rewrite (fixed_chunks_concat_all size); auto.
        rewrite map_map. apply map_ext_in. intros v Hin.
        specialize (Hv v Hin). destruct v; simpl in Hv; try contradiction. reflexivity.
Qed.

Lemma flat_map_hashes_typed : forall t pages, t <> TBoolean -> Forall (Forall (typed t)) pages ->
  flat_map hashes_write (map (page_of_values t) pages) = map hash_read (concat pages).
Proof.
  intros t pages NB H. induction H as [|p ps Hp Hps IH]; [reflexivity|].
  cbn [map flat_map concat]. rewrite map_app, IH, (hashes_write_typed t p NB Hp). reflexivity.
Qed.

(** for every non-boolean type the filter of a chunk is the fold of insert
    over the read-side hashes of all its values *)
Lemma chunk_filter_fold : forall t n pages, t <> TBoolean -> Forall (Forall (typed t)) pages ->
  chunk_filter n t pages = filter_insert_bulk (empty_filter n) (map hash_read (concat pages)).
Proof.
  intros t n pages NB H. unfold chunk_filter.
  rewrite write_pages_bulk, (flat_map_hashes_typed t pages NB H). reflexivity.
Qed.

(** two ways of feeding the same set of values (other page boundaries, another
    order, duplicates removed as in the dictionary page) store the same filter *)
Lemma chunk_filter_same_values : forall t n pages pages', t <> TBoolean ->
  Forall (Forall (typed t)) pages -> Forall (Forall (typed t)) pages' ->
  incl (concat pages) (concat pages') -> incl (concat pages') (concat pages) ->
  chunk_filter n t pages = chunk_filter n t pages'.
Proof.
  intros t n pages pages' NB H H' I1 I2.
  rewrite (chunk_filter_fold t n pages NB H), (chunk_filter_fold t n pages' NB H').
  apply bulk_same_set; apply incl_map; assumption.
Qed.
