(** Proofs about the XXH64 model (Bloom/XXHash.v): the specialised one-value
    hashes Sum64Uint8/16/32/64/128 equal XXH64 of the little-endian bytes of
    the value, and every hash is a uint64. *)
From Coq Require Import List NArith ZArith Bool Arith Lia ZifyN ZifyNat ZifyBool.
From PQ Require Import Bloom.XXHash Bloom.Filter Bloom.FilterProofs.
Import ListNotations.
Open Scope N_scope.

(** * Every hash is below 2^64 *)

Lemma shiftr_le : forall a n, N.shiftr a n <= a.
Proof.
  intros a n. rewrite N.shiftr_div_pow2.
  apply N.div_le_upper_bound; [apply N.pow_nonzero; discriminate|].
  assert (0 < 2 ^ n) by (apply N.neq_0_lt_0, N.pow_nonzero; discriminate). nia.
Qed.

Lemma mul64_lt : forall a b, mul64 a b < M64.
Proof. intros. rewrite mul64_mod. apply N.mod_lt. discriminate. Qed.

Lemma add64_lt : forall a b, add64 a b < M64.
Proof. intros. rewrite add64_mod. apply N.mod_lt. discriminate. Qed.

Lemma avalanche_lt : forall h, avalanche h < M64.
Proof.
  intro h. unfold avalanche. rewrite M64_eq. apply lxor_lt_pow2.
  - rewrite <- M64_eq. apply mul64_lt.
  - eapply N.le_lt_trans; [apply shiftr_le|]. rewrite <- M64_eq. apply mul64_lt.
Qed.

Lemma xxh64_lt : forall b, xxh64 b < M64.
Proof.
  intro b. unfold xxh64.
  destruct (if (32 <=? length b)%nat then _ else _) as [h rest].
  destruct (tail8 _ _ _) as [h1 r1]. destruct (tail4 _ _) as [h2 r2].
  apply avalanche_lt.
Qed.

Lemma sum64uint8_lt : forall v, sum64uint8 v < M64.
Proof. intro. apply avalanche_lt. Qed.
Lemma sum64uint16_lt : forall v, sum64uint16 v < M64.
Proof. intro. apply avalanche_lt. Qed.
Lemma sum64uint32_lt : forall v, sum64uint32 v < M64.
Proof. intro. apply avalanche_lt. Qed.
Lemma sum64uint64_lt : forall v, sum64uint64 v < M64.
Proof. intro. apply avalanche_lt. Qed.
Lemma sum64uint128_lt : forall v, sum64uint128 v < M64.
Proof. intro. apply avalanche_lt. Qed.

(** * Specialised hashes = XXH64 of the little-endian bytes *)

(* control flow of xxh64 on a list of known length is decided by computation on
   nat/list only; the uint64 operations stay folded *)
Ltac xxh_shape :=
  cbv [xxh64 length Nat.leb stripes tail8 tail4 tail1 has firstn skipn Nat.eqb fold_left
       u64 u32 N.of_nat Pos.of_succ_nat Pos.succ].

Lemma xxh64_1 : forall b0, xxh64 [b0] = sum64uint8 b0.
Proof. intro. xxh_shape. unfold sum64uint8. reflexivity. Qed.

Lemma xxh64_2 : forall b0 b1,
  xxh64 [b0; b1] =
  avalanche (mul64 (rol64 (N.lxor (mul64 (rol64 (N.lxor (add64 prime5 2) (mul64 b0 prime5)) 11) prime1)
                                  (mul64 b1 prime5)) 11) prime1).
Proof. intros. xxh_shape. reflexivity. Qed.

Lemma xxh64_4 : forall b0 b1 b2 b3,
  xxh64 [b0; b1; b2; b3] = sum64uint32 (le_word [b0; b1; b2; b3]).
Proof. intros. xxh_shape. unfold sum64uint32. reflexivity. Qed.

Lemma xxh64_8 : forall b0 b1 b2 b3 b4 b5 b6 b7,
  xxh64 [b0; b1; b2; b3; b4; b5; b6; b7] = sum64uint64 (le_word [b0; b1; b2; b3; b4; b5; b6; b7]).
Proof. intros. xxh_shape. unfold sum64uint64. reflexivity. Qed.

Lemma xxh64_16 : forall b0 b1 b2 b3 b4 b5 b6 b7 c0 c1 c2 c3 c4 c5 c6 c7,
  xxh64 [b0; b1; b2; b3; b4; b5; b6; b7; c0; c1; c2; c3; c4; c5; c6; c7] =
  sum64uint128 [b0; b1; b2; b3; b4; b5; b6; b7; c0; c1; c2; c3; c4; c5; c6; c7].
Proof. intros. xxh_shape. cbv [sum64uint128 u64 firstn skipn]. reflexivity. Qed.

Lemma sum64uint8_eq : forall v, sum64uint8 v = xxh64 [v].
Proof. intro. symmetry. apply xxh64_1. Qed.

Lemma sum64uint8_eq_le : forall v, v < 256 -> sum64uint8 v = xxh64 (le_bytes 1 v).
Proof.
  intros v H. cbn [le_bytes]. rewrite N.mod_small by exact H. apply sum64uint8_eq.
Qed.

Lemma sum64uint16_eq : forall v, v < 2 ^ 16 -> sum64uint16 v = xxh64 (le_bytes 2 v).
Proof.
  intros v H. cbn [le_bytes]. rewrite xxh64_2. unfold sum64uint16.
  change 255 with (N.ones 8). rewrite N.land_ones, N.shiftr_div_pow2.
  change (2 ^ 8) with 256.
  rewrite (N.mod_small (v / 256) 256); [reflexivity|].
  apply N.div_lt_upper_bound; [discriminate|exact H].
Qed.

Lemma sum64uint32_eq : forall v, v < 2 ^ 32 -> sum64uint32 v = xxh64 (le_bytes 4 v).
Proof.
  intros v H. cbn [le_bytes]. rewrite xxh64_4.
  f_equal. symmetry. apply (le_word_le_bytes 4 v). exact H.
Qed.

Lemma sum64uint64_eq : forall v, v < 2 ^ 64 -> sum64uint64 v = xxh64 (le_bytes 8 v).
Proof.
  intros v H. cbn [le_bytes]. rewrite xxh64_8.
  f_equal. symmetry. apply (le_word_le_bytes 8 v). exact H.
Qed.

Lemma sum64uint128_eq : forall b, length b = 16%nat -> sum64uint128 b = xxh64 b.
Proof.
  intros b H.
  do 16 (destruct b as [|? b]; [discriminate|]). destruct b; [|discriminate].
  symmetry. apply xxh64_16.
Qed.
