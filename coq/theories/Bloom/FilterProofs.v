(** Proofs about the split-block filter model (Bloom/Filter.v): an inserted
    key always checks true, inserting never clears a bit, and checking through
    the serialised bytes (CheckSplitBlock) agrees with checking in memory. *)
From Coq Require Import List NArith ZArith Bool Arith Lia ZifyN ZifyNat ZifyBool.
From PQ Require Import Bloom.XXHash Bloom.Filter.
Import ListNotations.
Open Scope N_scope.

(** * Bit-level facts *)

Lemma M64_eq : M64 = 2 ^ 64. Proof. reflexivity. Qed.
Lemma M32_eq : M32 = 2 ^ 32. Proof. reflexivity. Qed.

Lemma w64_mod : forall x, w64 x = x mod M64.
Proof. intro x. unfold w64. change mask64 with (N.ones 64). rewrite N.land_ones. reflexivity. Qed.

Lemma w32_mod : forall x, w32 x = x mod M32.
Proof. intro x. unfold w32. change mask32 with (N.ones 32). rewrite N.land_ones. reflexivity. Qed.

Lemma mul64_mod : forall a b, mul64 a b = (a * b) mod M64.
Proof. intros. apply w64_mod. Qed.

Lemma add64_mod : forall a b, add64 a b = (a + b) mod M64.
Proof. intros. apply w64_mod. Qed.

Lemma lt_pow2_bits_high : forall a n m, a < 2 ^ n -> n <= m -> N.testbit a m = false.
Proof.
  intros a n m H Hm. rewrite <- (N.mod_small a (2 ^ n)) by exact H.
  apply N.mod_pow2_bits_high; exact Hm.
Qed.

Lemma bits_high_lt_pow2 : forall a n,
  (forall m, n <= m -> N.testbit a m = false) -> a < 2 ^ n.
Proof.
  intros a n H.
  assert (E : a = a mod 2 ^ n).
  { apply N.bits_inj; intro m. destruct (N.lt_ge_cases m n) as [L|G].
    - rewrite N.mod_pow2_bits_low; auto.
    - rewrite N.mod_pow2_bits_high by exact G. apply H; exact G. }
  rewrite E. apply N.mod_lt. apply N.pow_nonzero. discriminate.
Qed.

Lemma lxor_lt_pow2 : forall a b n, a < 2 ^ n -> b < 2 ^ n -> N.lxor a b < 2 ^ n.
Proof.
  intros a b n Ha Hb. apply bits_high_lt_pow2; intros m Hm.
  rewrite N.lxor_spec, (lt_pow2_bits_high a n m Ha Hm), (lt_pow2_bits_high b n m Hb Hm).
  reflexivity.
Qed.

Lemma lor_lt_pow2 : forall a b n, a < 2 ^ n -> b < 2 ^ n -> N.lor a b < 2 ^ n.
Proof.
  intros a b n Ha Hb. apply bits_high_lt_pow2; intros m Hm.
  rewrite N.lor_spec, (lt_pow2_bits_high a n m Ha Hm), (lt_pow2_bits_high b n m Hb Hm).
  reflexivity.
Qed.

Lemma has_bit_pow2 : forall w k, has_bit w (2 ^ k) = N.testbit w k.
Proof.
  intros w k. unfold has_bit. destruct (N.testbit w k) eqn:E.
  - destruct (N.eqb_spec (N.land w (2 ^ k)) 0) as [Z|NZ]; [|reflexivity].
    exfalso. assert (T : N.testbit (N.land w (2 ^ k)) k = true).
    { rewrite N.land_spec, E, N.pow2_bits_true. reflexivity. }
    rewrite Z, N.bits_0 in T. discriminate.
  - assert (Z : N.land w (2 ^ k) = 0).
    { apply N.bits_inj_0; intro m. rewrite N.land_spec.
      destruct (N.eq_dec k m) as [->|NE].
      - rewrite E. reflexivity.
      - rewrite (N.pow2_bits_false k m NE). apply andb_false_r. }
    rewrite Z. reflexivity.
Qed.

Definition bit_pos (x s : N) : N := N.shiftr (mul32 x s) 27.

Lemma bit_pow2 : forall x s, bit x s = 2 ^ bit_pos x s.
Proof. intros. unfold bit, bit_pos. apply N.shiftl_1_l. Qed.

Lemma bit_pos_lt : forall x s, bit_pos x s < 32.
Proof.
  intros. unfold bit_pos, mul32. rewrite w32_mod, N.shiftr_div_pow2.
  apply N.div_lt_upper_bound; [discriminate|].
  change (2 ^ 27 * 32) with M32. apply N.mod_lt. discriminate.
Qed.

Lemma bit_lt : forall x s, bit x s < M32.
Proof.
  intros. rewrite bit_pow2, M32_eq. apply N.pow_lt_mono_r; [reflexivity|apply bit_pos_lt].
Qed.

Lemma has_bit_lor_same : forall w x s, has_bit (N.lor w (bit x s)) (bit x s) = true.
Proof.
  intros. rewrite bit_pow2, has_bit_pow2, N.lor_spec, N.pow2_bits_true. apply orb_true_r.
Qed.

Lemma has_bit_lor_mono : forall w x s y s',
  has_bit w (bit y s') = true -> has_bit (N.lor w (bit x s)) (bit y s') = true.
Proof.
  intros w x s y s'. rewrite !bit_pow2, !has_bit_pow2, N.lor_spec. intros ->. reflexivity.
Qed.

(** * Blocks *)

Lemma block_check_insert : forall b x, block_check (block_insert b x) x = true.
Proof.
  intros [[[[[[[b0 b1] b2] b3] b4] b5] b6] b7] x. unfold block_check, block_insert.
  rewrite !has_bit_lor_same. reflexivity.
Qed.

Lemma block_check_mono : forall b x y,
  block_check b y = true -> block_check (block_insert b x) y = true.
Proof.
  intros [[[[[[[b0 b1] b2] b3] b4] b5] b6] b7] x y. unfold block_check, block_insert.
  rewrite !andb_true_iff. intros [[[[[[[H0 H1] H2] H3] H4] H5] H6] H7].
  repeat split; apply has_bit_lor_mono; assumption.
Qed.

(** * update_nth *)

Lemma length_update_nth : forall (A : Type) (g : A -> A) l i, length (update_nth i g l) = length l.
Proof.
  intros A g l. induction l as [|x r IH]; intros [|i]; simpl; auto.
Qed.

Lemma nth_error_update_nth_eq : forall (A : Type) (g : A -> A) l i x,
  nth_error l i = Some x -> nth_error (update_nth i g l) i = Some (g x).
Proof.
  intros A g l. induction l as [|y r IH]; intros [|i] x; simpl; try discriminate.
  - intros [= ->]. reflexivity.
  - apply IH.
Qed.

Lemma nth_error_update_nth_neq : forall (A : Type) (g : A -> A) l i j,
  i <> j -> nth_error (update_nth i g l) j = nth_error l j.
Proof.
  intros A g l. induction l as [|y r IH]; intros [|i] [|j] NE; simpl; auto;
    try contradiction; try (apply IH; congruence).
Qed.

(** * Filters *)

Definition is_u64 (x : N) : Prop := x < M64.

(* the number of blocks fits the int32 scale argument of fasthash1x64 *)
Definition blocks_ok (f : filter) : Prop :=
  (0 < length f)%nat /\ N.of_nat (length f) < 2 ^ 31.

Lemma length_filter_insert : forall f x, length (filter_insert f x) = length f.
Proof. intros. unfold filter_insert. apply length_update_nth. Qed.

Lemma length_filter_insert_bulk : forall xs f, length (filter_insert_bulk f xs) = length f.
Proof.
  unfold filter_insert_bulk. induction xs as [|x xs IH]; intro f; simpl; [reflexivity|].
  rewrite IH. apply length_filter_insert.
Qed.

Lemma block_index_insert : forall f x y, block_index (filter_insert f x) y = block_index f y.
Proof. intros. unfold block_index. rewrite length_filter_insert. reflexivity. Qed.

Lemma fasthash_lt : forall x n, x < M64 -> 0 < n -> n < 2 ^ 31 -> fasthash1x64 x n < n.
Proof.
  intros x n Hx Hn Hn31. unfold fasthash1x64. rewrite mul64_mod.
  rewrite !N.shiftr_div_pow2.
  assert (Ha : x / 2 ^ 32 < 2 ^ 32).
  { apply N.div_lt_upper_bound; [discriminate|]. exact Hx. }
  set (a := x / 2 ^ 32) in *.
  assert (Hs : a * n < M64).
  { change M64 with (2 ^ 32 * 2 ^ 32). apply N.mul_lt_mono; [exact Ha|].
    eapply N.lt_trans; [exact Hn31|reflexivity]. }
  rewrite (N.mod_small _ _ Hs).
  apply N.div_lt_upper_bound; [discriminate|].
  apply N.mul_lt_mono_pos_r; assumption.
Qed.

Lemma block_index_lt : forall f x, is_u64 x -> blocks_ok f -> (block_index f x < length f)%nat.
Proof.
  intros f x Hx [Hpos H31]. unfold block_index.
  assert (H : fasthash1x64 x (N.of_nat (length f)) < N.of_nat (length f)).
  { apply fasthash_lt; [exact Hx| lia | exact H31]. }
  lia.
Qed.

Lemma filter_check_insert_same : forall f x,
  (block_index f x < length f)%nat -> filter_check (filter_insert f x) x = true.
Proof.
  intros f x H. unfold filter_check. rewrite block_index_insert. unfold filter_insert.
  destruct (nth_error f (block_index f x)) as [b|] eqn:E.
  - rewrite (nth_error_update_nth_eq _ _ _ _ _ E). apply block_check_insert.
  - apply nth_error_None in E. lia.
Qed.

(** insert never clears a bit *)
Lemma filter_check_insert_mono : forall f x y,
  filter_check f y = true -> filter_check (filter_insert f x) y = true.
Proof.
  intros f x y. unfold filter_check. rewrite block_index_insert. unfold filter_insert.
  destruct (Nat.eq_dec (block_index f x) (block_index f y)) as [E|NE].
  - rewrite E. destruct (nth_error f (block_index f y)) as [b|] eqn:Eb; [|discriminate].
    rewrite (nth_error_update_nth_eq _ _ _ _ _ Eb). apply block_check_mono.
  - rewrite (nth_error_update_nth_neq _ _ _ _ _ NE). auto.
Qed.

Lemma filter_check_bulk_mono : forall xs f y,
  filter_check f y = true -> filter_check (filter_insert_bulk f xs) y = true.
Proof.
  unfold filter_insert_bulk. induction xs as [|x xs IH]; intros f y H; simpl; [exact H|].
  apply IH. apply filter_check_insert_mono. exact H.
Qed.

Lemma blocks_ok_insert_bulk : forall xs f, blocks_ok f -> blocks_ok (filter_insert_bulk f xs).
Proof. intros xs f. unfold blocks_ok. rewrite length_filter_insert_bulk. auto. Qed.

(** every inserted key checks true, whatever the filter held before *)
Lemma check_after_insert : forall hs f h,
  blocks_ok f -> Forall is_u64 hs -> In h hs ->
  filter_check (filter_insert_bulk f hs) h = true.
Proof.
  induction hs as [|a hs IH]; intros f h Hf Hu Hin; [destruct Hin|].
  inversion Hu as [|? ? Ha Hu']; subst.
  change (filter_insert_bulk f (a :: hs)) with (filter_insert_bulk (filter_insert f a) hs).
  destruct Hin as [->|Hin].
  - apply filter_check_bulk_mono. apply filter_check_insert_same.
    apply block_index_lt; assumption.
  - apply IH; auto. unfold blocks_ok. rewrite length_filter_insert. exact Hf.
Qed.

Lemma blocks_ok_empty : forall n, (0 < n)%nat -> N.of_nat n < 2 ^ 31 -> blocks_ok (empty_filter n).
Proof. intros n H1 H2. unfold blocks_ok, empty_filter. rewrite repeat_length. auto. Qed.

(** * Serialisation: CheckSplitBlock on Bytes() = Check in memory *)

Lemma le_word_le_bytes : forall k v, v < 256 ^ N.of_nat k -> le_word (le_bytes k v) = v.
Proof.
  induction k as [|k IH]; intros v Hv.
  - simpl in *. lia.
  - cbn [le_bytes le_word]. rewrite IH.
    + pose proof (N.div_mod v 256). lia.
    + rewrite Nat2N.inj_succ, N.pow_succ_r' in Hv.
      apply N.div_lt_upper_bound; [discriminate|exact Hv].
Qed.

Lemma length_le_bytes : forall k v, length (le_bytes k v) = k.
Proof. induction k; intros; simpl; auto. Qed.

Definition wf_block (b : block) : Prop :=
  let '(b0, b1, b2, b3, b4, b5, b6, b7) := b in
  b0 < M32 /\ b1 < M32 /\ b2 < M32 /\ b3 < M32 /\ b4 < M32 /\ b5 < M32 /\ b6 < M32 /\ b7 < M32.

Lemma wf_empty_block : wf_block empty_block.
Proof. repeat split. Qed.

Lemma wf_block_insert : forall b x, wf_block b -> wf_block (block_insert b x).
Proof.
  intros [[[[[[[b0 b1] b2] b3] b4] b5] b6] b7] x (H0 & H1 & H2 & H3 & H4 & H5 & H6 & H7).
  unfold block_insert, wf_block. rewrite M32_eq in *.
  repeat split; apply lor_lt_pow2; auto; rewrite <- M32_eq; apply bit_lt.
Qed.

Lemma length_block_bytes : forall b, length (block_bytes b) = 32%nat.
Proof. intros [[[[[[[b0 b1] b2] b3] b4] b5] b6] b7]. reflexivity. Qed.

Lemma u32_le_bytes_app : forall w r, w < M32 -> u32 (le_bytes 4 w ++ r) = w.
Proof.
  intros w r H. unfold u32.
  rewrite firstn_app, length_le_bytes, Nat.sub_diag, firstn_O, app_nil_r.
  rewrite firstn_all2 by (rewrite length_le_bytes; auto).
  apply le_word_le_bytes. exact H.
Qed.

Lemma skipn_le_bytes_app : forall w (r : list N), skipn 4 (le_bytes 4 w ++ r) = r.
Proof. intros. reflexivity. Qed.

Lemma block_of_block_bytes : forall b r, wf_block b -> block_of_bytes (firstn 32 (block_bytes b ++ r)) = b.
Proof.
  intros b r H.
  rewrite firstn_app, length_block_bytes, Nat.sub_diag, firstn_O, app_nil_r.
  rewrite firstn_all2 by (rewrite length_block_bytes; auto).
  destruct b as [[[[[[[b0 b1] b2] b3] b4] b5] b6] b7].
  destruct H as (H0 & H1 & H2 & H3 & H4 & H5 & H6 & H7).
  unfold block_of_bytes, block_bytes, u32. cbn [le_bytes app skipn firstn].
  repeat match goal with |- (_, _) = (_, _) => f_equal end;
    match goal with |- _ = ?w => apply (le_word_le_bytes 4 w); assumption end.
Qed.

Definition wf_filter (f : filter) : Prop := Forall wf_block f.

Lemma wf_empty_filter : forall n, wf_filter (empty_filter n).
Proof.
  intro n. unfold wf_filter, empty_filter. apply Forall_forall. intros b Hb.
  apply repeat_spec in Hb. subst. apply wf_empty_block.
Qed.

Lemma Forall_update_nth : forall (A : Type) (P : A -> Prop) (g : A -> A) l i,
  (forall x, P x -> P (g x)) -> Forall P l -> Forall P (update_nth i g l).
Proof.
  intros A P g l i Hg H. revert i. induction H as [|x r Hx Hr IH]; intros [|i]; simpl;
    constructor; auto.
Qed.

Lemma wf_filter_insert : forall f x, wf_filter f -> wf_filter (filter_insert f x).
Proof.
  intros f x H. unfold filter_insert. apply Forall_update_nth; [|exact H].
  intros b Hb. apply wf_block_insert. exact Hb.
Qed.

Lemma wf_filter_insert_bulk : forall xs f, wf_filter f -> wf_filter (filter_insert_bulk f xs).
Proof.
  unfold filter_insert_bulk. induction xs as [|x xs IH]; intros f H; simpl; [exact H|].
  apply IH. apply wf_filter_insert. exact H.
Qed.

Lemma length_filter_bytes : forall f, length (filter_bytes f) = (32 * length f)%nat.
Proof.
  induction f as [|b f IH]; [reflexivity|].
  unfold filter_bytes in *. cbn [flat_map]. rewrite app_length, length_block_bytes, IH.
  cbn [length]. lia.
Qed.

Lemma skipn_filter_bytes_some : forall f i b, nth_error f i = Some b ->
  exists r, skipn (32 * i) (filter_bytes f) = block_bytes b ++ r.
Proof.
  induction f as [|y f IH]; intros [|i] b H; try discriminate.
  - injection H as ->. exists (filter_bytes f). reflexivity.
  - cbn [nth_error] in H. destruct (IH i b H) as [r Hr]. exists r.
    unfold filter_bytes in *. cbn [flat_map].
    rewrite skipn_app, length_block_bytes.
    rewrite skipn_all2 by (rewrite length_block_bytes; lia).
    replace (32 * S i - 32)%nat with (32 * i)%nat by lia. exact Hr.
Qed.

Lemma skipn_filter_bytes_none : forall f i, nth_error f i = None ->
  skipn (32 * i) (filter_bytes f) = [].
Proof.
  intros f i H. apply nth_error_None in H. apply skipn_all2.
  rewrite length_filter_bytes. lia.
Qed.

Lemma block_check_empty : forall x, block_check (block_of_bytes []) x = false.
Proof. intro x. reflexivity. Qed.

Lemma block_size_32 : block_size = 32.
Proof. reflexivity. Qed.

(** CheckSplitBlock over the serialised filter = Check on the filter in memory *)
Lemma check_split_block_bytes : forall f x,
  wf_filter f -> check_split_block (filter_bytes f) x = filter_check f x.
Proof.
  intros f x Hwf. unfold check_split_block, filter_check.
  rewrite length_filter_bytes, block_size_32.
  replace (N.of_nat (32 * length f) / 32) with (N.of_nat (length f)).
  2:{ rewrite Nat2N.inj_mul. change (N.of_nat 32) with 32.
      rewrite N.mul_comm, N.div_mul; [reflexivity|discriminate]. }
  replace (N.to_nat (32 * fasthash1x64 x (N.of_nat (length f)))) with (32 * block_index f x)%nat
    by (unfold block_index; lia).
  destruct (nth_error f (block_index f x)) as [b|] eqn:E.
  - destruct (skipn_filter_bytes_some f _ b E) as [r ->].
    rewrite block_of_block_bytes; [reflexivity|].
    unfold wf_filter in Hwf. rewrite Forall_forall in Hwf. apply Hwf.
    eapply nth_error_In. exact E.
  - rewrite (skipn_filter_bytes_none f _ E). reflexivity.
Qed.
