(** Model of bloom/xxhash (xxhash.go, xxhash_purego.go, sum64uint.go):
    XXH64 with seed 0 over byte lists, and the specialised one-value hashes
    Sum64Uint8/16/32/64/128 exactly as the Go code computes them.

    A uint64 is an [N] below 2^64; every Go operation that can wrap is written
    with an explicit truncation [w64] (= mod 2^64).  A byte is an [N] below 256.  The primes are
    the constants the translator copied from bloom/xxhash/xxhash.go
    (PQ.Generated.Consts), not literals of this file.

    Executable; no proofs here (Bloom/Proofs.v). *)
From Coq Require Import List NArith ZArith Bool Arith.
From PQ Require Import Generated.Consts.
Import ListNotations.
Open Scope N_scope.

Definition M64 : N := Eval compute in 2 ^ 64.
Definition M32 : N := Eval compute in 2 ^ 32.

(* truncation to uint64 / uint32: x mod 2^64 and x mod 2^32, computed by
   masking (Bloom/FilterProofs.v: w64_mod, w32_mod) *)
Definition mask64 : N := Eval compute in 2 ^ 64 - 1.
Definition mask32 : N := Eval compute in 2 ^ 32 - 1.
Definition w64 (x : N) : N := N.land x mask64.
Definition w32 (x : N) : N := N.land x mask32.

(* uint64 arithmetic *)
Definition add64 (a b : N) : N := w64 (a + b).
Definition mul64 (a b : N) : N := w64 (a * b).
(* bits.RotateLeft64(x, r), 0 < r < 64 *)
Definition rol64 (x r : N) : N := N.lor (w64 (N.shiftl x r)) (N.shiftr x (64 - r)).

(* xxhash.go constants *)
Definition prime1 : N := Z.to_N go_bloom_xxhash_prime1.
Definition prime2 : N := Z.to_N go_bloom_xxhash_prime2.
Definition prime3 : N := Z.to_N go_bloom_xxhash_prime3.
Definition prime4 : N := Z.to_N go_bloom_xxhash_prime4.
Definition prime5 : N := Z.to_N go_bloom_xxhash_prime5.
Definition prime1plus2 : N := Z.to_N go_bloom_xxhash_prime1plus2.
Definition negprime1 : N := Z.to_N go_bloom_xxhash_negprime1.

(* xxhash.go avalanche *)
Definition avalanche (h : N) : N :=
  let h := N.lxor h (N.shiftr h 33) in
  let h := mul64 h prime2 in
  let h := N.lxor h (N.shiftr h 29) in
  let h := mul64 h prime3 in
  N.lxor h (N.shiftr h 32).

(* xxhash.go round *)
Definition round (acc input : N) : N :=
  let acc := add64 acc (mul64 input prime2) in
  let acc := rol64 acc 31 in
  mul64 acc prime1.

(* xxhash.go mergeRound *)
Definition merge_round (acc val : N) : N :=
  let val := round 0 val in
  let acc := N.lxor acc val in
  add64 (mul64 acc prime1) prime4.

(* binary.LittleEndian: value of a byte list / the k little-endian bytes of a value *)
Fixpoint le_word (b : list N) : N :=
  match b with
  | [] => 0
  | x :: r => x + 256 * le_word r
  end.

Fixpoint le_bytes (k : nat) (v : N) : list N :=
  match k with
  | O => []
  | S k' => v mod 256 :: le_bytes k' (v / 256)
  end.

Definition u64 (b : list N) : N := le_word (firstn 8 b).
Definition u32 (b : list N) : N := le_word (firstn 4 b).

(* [has n b]: len(b) >= n, looking at no more than n cells *)
Definition has (n : nat) (b : list N) : bool := Nat.eqb (length (firstn n b)) n.

(* xxhash_purego.go Sum64: the loop over 32-byte stripes *)
Fixpoint stripes (fuel : nat) (v : N * N * N * N) (b : list N) : (N * N * N * N) * list N :=
  match fuel with
  | O => (v, b)
  | S f =>
      if has 32 b then
        let '(v1, v2, v3, v4) := v in
        stripes f (round v1 (u64 b),
                   round v2 (u64 (skipn 8 b)),
                   round v3 (u64 (skipn 16 b)),
                   round v4 (u64 (skipn 24 b))) (skipn 32 b)
      else (v, b)
  end.

(* for ; i+8 <= end; i += 8 *)
Fixpoint tail8 (fuel : nat) (h : N) (b : list N) : N * list N :=
  match fuel with
  | O => (h, b)
  | S f =>
      if has 8 b then
        let k1 := round 0 (u64 b) in
        let h := N.lxor h k1 in
        tail8 f (add64 (mul64 (rol64 h 27) prime1) prime4) (skipn 8 b)
      else (h, b)
  end.

(* if i+4 <= end *)
Definition tail4 (h : N) (b : list N) : N * list N :=
  if has 4 b then
    let h := N.lxor h (mul64 (u32 b) prime1) in
    (add64 (mul64 (rol64 h 23) prime2) prime3, skipn 4 b)
  else (h, b).

(* for ; i < end; i++ *)
Definition tail1 (h : N) (b : list N) : N :=
  fold_left (fun h x => mul64 (rol64 (N.lxor h (mul64 x prime5)) 11) prime1) b h.

Definition xxh64 (b : list N) : N :=
  let n := length b in
  let '(h, rest) :=
    if (32 <=? n)%nat then
      let '((v1, v2, v3, v4), rest) := stripes n (prime1plus2, prime2, 0, negprime1) b in
      let h := add64 (add64 (add64 (rol64 v1 1) (rol64 v2 7)) (rol64 v3 12)) (rol64 v4 18) in
      let h := merge_round h v1 in
      let h := merge_round h v2 in
      let h := merge_round h v3 in
      let h := merge_round h v4 in
      (h, rest)
    else (prime5, b) in
  let h := add64 h (N.of_nat n) in
  let '(h, rest) := tail8 (length rest) h rest in
  let '(h, rest) := tail4 h rest in
  avalanche (tail1 h rest).

(* sum64uint.go *)
Definition sum64uint8 (v : N) : N :=
  let h := add64 prime5 1 in
  let h := N.lxor h (mul64 v prime5) in
  avalanche (mul64 (rol64 h 11) prime1).

Definition sum64uint16 (v : N) : N :=
  let h := add64 prime5 2 in
  let h := N.lxor h (mul64 (N.land v 255) prime5) in
  let h := mul64 (rol64 h 11) prime1 in
  let h := N.lxor h (mul64 (N.shiftr v 8) prime5) in
  let h := mul64 (rol64 h 11) prime1 in
  avalanche h.

Definition sum64uint32 (v : N) : N :=
  let h := add64 prime5 4 in
  let h := N.lxor h (mul64 v prime1) in
  avalanche (add64 (mul64 (rol64 h 23) prime2) prime3).

Definition sum64uint64 (v : N) : N :=
  let h := add64 prime5 8 in
  let h := N.lxor h (round 0 v) in
  avalanche (add64 (mul64 (rol64 h 27) prime1) prime4).

(* the argument is the [16]byte array *)
Definition sum64uint128 (v : list N) : N :=
  let h := add64 prime5 16 in
  let h := N.lxor h (round 0 (u64 v)) in
  let h := add64 (mul64 (rol64 h 27) prime1) prime4 in
  let h := N.lxor h (round 0 (u64 (skipn 8 v))) in
  let h := add64 (mul64 (rol64 h 27) prime1) prime4 in
  avalanche h.
