(** Model of the two hashing sides of parquet bloom filters (bloom.go):

    - write side: splitBlockEncoding.Encode* computes, from the *page data
      representation* (encoding.Values: bit-packed booleans, native words,
      12-byte INT96, data+offsets byte arrays, flat fixed-size arrays), the
      hashes that are inserted in the filter;
    - read side: Value.hash computes the one hash that Check looks up.

    Also the conversion of a list of column values to the page data
    representation (what the column buffers / page readers hand to
    writePageToFilter), so that the two sides can be related.

    Executable; no proofs here (Bloom/Proofs.v). *)
From Coq Require Import List NArith ZArith Bool Arith.
From PQ Require Import Bloom.XXHash Bloom.Filter.
Import ListNotations.
Open Scope N_scope.

(** * Values and page data *)

Inductive ptype :=
| TBoolean | TInt32 | TInt64 | TInt96 | TFloat | TDouble | TByteArray
| TFixedLenByteArray (size : nat).

(* a non-null parquet.Value: 32/64 bit kinds carry the bit pattern (Value.u64) *)
Inductive value :=
| VBoolean (b : bool)
| VInt32 (w : N)
| VInt64 (w : N)
| VInt96 (bytes : list N)
| VFloat (w : N)
| VDouble (w : N)
| VByteArray (bytes : list N)
| VFixedLenByteArray (bytes : list N).

Inductive page_data :=
| PBoolean (packed : list N)                     (* Values.Boolean(): bit-packed bytes *)
| PInt32 (words : list N)                        (* []int32 reinterpreted as []uint32 *)
| PInt64 (words : list N)
| PInt96 (data : list N)                         (* []deprecated.Int96 as bytes, 12 each *)
| PFloat (words : list N)
| PDouble (words : list N)
| PByteArray (data : list N) (offsets : list nat) (* Values.ByteArray(): n+1 offsets *)
| PFixedLenByteArray (size : nat) (data : list N).

(** * Read side: bloom.go (v Value) hash *)

Definition hash_read (v : value) : N :=
  match v with
  | VBoolean b => sum64uint8 (if b then 1 else 0)      (* h.Sum64Uint8(v.byte()) *)
  | VInt32 w | VFloat w => sum64uint32 w               (* h.Sum64Uint32(v.uint32()) *)
  | VInt64 w | VDouble w => sum64uint64 w              (* h.Sum64Uint64(v.uint64()) *)
  | VInt96 b | VByteArray b | VFixedLenByteArray b => xxh64 b   (* h.Sum64(v.byteArray()) *)
  end.

(** * Write side *)

(* bloom.go filterEncodeBufferSize *)
Definition filter_encode_buffer_size : nat := 128.

(* splitBlockEncodeUint8/32/64/128: hash at most 128 values at a time
   (MultiSum64UintK hashes min(len(buffer), len(values)) values), insert, go on *)
Fixpoint bulk_hashes {A : Type} (fuel : nat) (sum : A -> N) (values : list A) : list N :=
  match fuel with
  | O => []
  | S f =>
      match values with
      | [] => []
      | _ => map sum (firstn filter_encode_buffer_size values)
             ++ bulk_hashes f sum (skipn filter_encode_buffer_size values)
      end
  end.

Definition bulk {A : Type} (sum : A -> N) (values : list A) : list N :=
  bulk_hashes (length values) sum values.

(* splitBlockEncodeFixedLenByteArray: for i, j := 0, size; j <= len(data); i, j = i+size, j+size *)
Fixpoint fixed_chunks (fuel size : nat) (data : list N) : list (list N) :=
  match fuel with
  | O => []
  | S f =>
      if has size data then firstn size data :: fixed_chunks f size (skipn size data)
      else []
  end.

(* EncodeByteArray: baseOffset := offsets[0]; for _, endOffset := range offsets[1:] { src[base:end] } *)
Fixpoint byte_array_slices (data : list N) (base : nat) (ends : list nat) : list (list N) :=
  match ends with
  | [] => []
  | e :: r => firstn (e - base) (skipn base data) :: byte_array_slices data e r
  end.

(* EncodeBoolean (current code): the keys 0 and/or 1, from the packed bytes *)
Definition boolean_keys (packed : list N) : list N :=
  let has_false := existsb (fun b => negb (b =? 255)) packed in
  let has_true := existsb (fun b => negb (b =? 0)) packed in
  (if has_false then [0] else []) ++ (if has_true then [1] else []).

Definition hashes_write (p : page_data) : list N :=
  match p with
  | PBoolean packed => bulk sum64uint8 (boolean_keys packed)
  | PInt32 ws | PFloat ws => bulk sum64uint32 ws
  | PInt64 ws | PDouble ws => bulk sum64uint64 ws
  | PInt96 data => map xxh64 (fixed_chunks (length data) 12 data)
  | PByteArray data offsets =>
      match offsets with
      | [] => []                                         (* offsets[0] panics in Go *)
      | base :: ends => map xxh64 (byte_array_slices data base ends)
      end
  | PFixedLenByteArray size data =>
      if Nat.eqb size 16
      then bulk sum64uint128 (fixed_chunks (length data) 16 data)
      else map xxh64 (fixed_chunks (length data) size data)
  end.

(* EncodeBoolean before the repair commit e35cc49: one key per packed byte *)
Definition hashes_write_pinned (p : page_data) : list N :=
  match p with
  | PBoolean packed => bulk sum64uint8 packed
  | _ => hashes_write p
  end.

(* writePageToFilter: c.filter, err = pageType.Encode(c.filter, pageData, splitBlockEncoding{}) *)
Definition write_page_to_filter (f : filter) (p : page_data) : filter :=
  filter_insert_bulk f (hashes_write p).

Definition write_page_to_filter_pinned (f : filter) (p : page_data) : filter :=
  filter_insert_bulk f (hashes_write_pinned p).

Definition write_pages_to_filter (f : filter) (ps : list page_data) : filter :=
  fold_left write_page_to_filter ps f.

(** * From column values to page data *)

(* one byte from at most 8 bits, least significant first *)
Fixpoint byte_of_bits (bs : list bool) : N :=
  match bs with
  | [] => 0
  | b :: r => (if b then 1 else 0) + 2 * byte_of_bits r
  end.

Fixpoint pack_bools (fuel : nat) (bs : list bool) : list N :=
  match fuel with
  | O => []
  | S f =>
      match bs with
      | [] => []
      | _ => byte_of_bits (firstn 8 bs) :: pack_bools f (skipn 8 bs)
      end
  end.

Definition pack (bs : list bool) : list N := pack_bools (length bs) bs.

Definition bool_of (v : value) : bool := match v with VBoolean b => b | _ => false end.
Definition word_of (v : value) : N :=
  match v with VInt32 w | VInt64 w | VFloat w | VDouble w => w | _ => 0 end.
Definition bytes_of (v : value) : list N :=
  match v with VInt96 b | VByteArray b | VFixedLenByteArray b => b | _ => [] end.

Fixpoint offsets_from (base : nat) (vs : list (list N)) : list nat :=
  match vs with
  | [] => []
  | v :: r => (base + length v)%nat :: offsets_from (base + length v)%nat r
  end.

Definition page_of_values (t : ptype) (vs : list value) : page_data :=
  match t with
  | TBoolean => PBoolean (pack (map bool_of vs))
  | TInt32 => PInt32 (map word_of vs)
  | TInt64 => PInt64 (map word_of vs)
  | TInt96 => PInt96 (concat (map bytes_of vs))
  | TFloat => PFloat (map word_of vs)
  | TDouble => PDouble (map word_of vs)
  | TByteArray => PByteArray (concat (map bytes_of vs)) (0%nat :: offsets_from 0 (map bytes_of vs))
  | TFixedLenByteArray size => PFixedLenByteArray size (concat (map bytes_of vs))
  end.

(* a value of the column's physical type *)
Definition typed (t : ptype) (v : value) : Prop :=
  match t, v with
  | TBoolean, VBoolean _ => True
  | TInt32, VInt32 _ => True
  | TInt64, VInt64 _ => True
  | TInt96, VInt96 b => length b = 12%nat
  | TFloat, VFloat _ => True
  | TDouble, VDouble _ => True
  | TByteArray, VByteArray _ => True
  | TFixedLenByteArray size, VFixedLenByteArray b => length b = size /\ (0 < size)%nat
  | _, _ => False
  end.

(** * The filter of a column chunk *)

(* the filter the writer stores for pages [pages] with [nblocks] blocks *)
Definition chunk_filter (nblocks : nat) (t : ptype) (pages : list (list value)) : filter :=
  write_pages_to_filter (empty_filter nblocks) (map (page_of_values t) pages).

(* FileBloomFilter.Check on the stored bytes *)
Definition file_check (stored : list N) (v : value) : bool :=
  check_split_block stored (hash_read v).
