(** Proofs relating the write side (the Encode methods of splitBlockEncoding) and the read
    side (Value.hash) of bloom filter hashing (Bloom/Hashing.v), and the
    end-to-end statement: a value written to a column chunk checks true in the
    chunk's stored filter. *)
From Coq Require Import List NArith ZArith Bool Arith Lia ZifyN ZifyNat ZifyBool.
From PQ Require Import Bloom.XXHash Bloom.Filter Bloom.Hashing Bloom.FilterProofs Bloom.XXHashProofs.
Import ListNotations.
Open Scope N_scope.

(** * The bulk loops compute a plain map *)

Lemma bulk_hashes_map : forall (A : Type) (sum : A -> N) fuel values,
  (length values <= fuel)%nat -> bulk_hashes fuel sum values = map sum values.
Proof.
  intros A sum. induction fuel as [|f IH]; intros values H.
  - destruct values; [reflexivity|simpl in H; lia].
  - destruct values as [|x r]; [reflexivity|].
    cbn [bulk_hashes]. rewrite IH.
    + rewrite <- map_app, firstn_skipn. reflexivity.
    + rewrite skipn_length. unfold filter_encode_buffer_size. simpl length in *. lia.
Qed.

Lemma bulk_map : forall (A : Type) (sum : A -> N) values, bulk sum values = map sum values.
Proof. intros. unfold bulk. apply bulk_hashes_map. lia. Qed.

Lemma firstn_app_exact : forall (A : Type) (v r : list A), firstn (length v) (v ++ r) = v.
Proof.
  intros. rewrite firstn_app, Nat.sub_diag, firstn_O, app_nil_r. apply firstn_all.
Qed.

Lemma skipn_app_exact : forall (A : Type) (v r : list A), skipn (length v) (v ++ r) = r.
Proof.
  intros. rewrite skipn_app, Nat.sub_diag, skipn_all. reflexivity.
Qed.

Lemma fixed_chunks_concat : forall size vs fuel,
  (0 < size)%nat -> Forall (fun v => length v = size) vs -> (length vs <= fuel)%nat ->
  fixed_chunks fuel size (concat vs) = vs.
Proof.
  intros size vs fuel Hs. revert vs. induction fuel as [|f IH]; intros vs Hall Hlen.
  - destruct vs; [reflexivity|simpl in Hlen; lia].
  - destruct vs as [|v r].
    + cbn [concat fixed_chunks]. unfold has. rewrite firstn_nil. cbn [length].
      destruct size; [lia|reflexivity].
    + inversion Hall as [|? ? Hv Hr]; subst. cbn [concat fixed_chunks]. unfold has.
      rewrite firstn_app_exact, Nat.eqb_refl, skipn_app_exact, IH; auto.
      simpl in Hlen; lia.
Qed.

Lemma length_concat_fixed : forall size (vs : list (list N)),
  Forall (fun v => length v = size) vs -> length (concat vs) = (size * length vs)%nat.
Proof.
  intros size vs H. induction H as [|v r Hv Hr IH]; [simpl; lia|].
  cbn [concat length]. rewrite app_length, IH, Hv. lia.
Qed.

Lemma fixed_chunks_concat_all : forall size vs,
  (0 < size)%nat -> Forall (fun v => length v = size) vs ->
  fixed_chunks (length (concat vs)) size (concat vs) = vs.
Proof.
  intros size vs Hs H. apply fixed_chunks_concat; auto.
  rewrite (length_concat_fixed size vs H). nia.
Qed.

Lemma byte_array_slices_concat : forall vs pre,
  byte_array_slices (pre ++ concat vs) (length pre) (offsets_from (length pre) vs) = vs.
Proof.
  induction vs as [|v r IH]; intro pre; [reflexivity|].
  cbn [concat offsets_from byte_array_slices].
  rewrite skipn_app_exact.
  replace (length pre + length v - length pre)%nat with (length v) by lia.
  rewrite firstn_app_exact. f_equal.
  rewrite app_assoc, <- app_length. apply IH.
Qed.

(** * Booleans: the packed bytes reveal which keys occur *)

Lemma byte_of_bits_true : forall bs, In true bs -> byte_of_bits bs <> 0.
Proof.
  induction bs as [|b r IH]; intros H; [destruct H|].
  cbn [byte_of_bits]. destruct H as [->|H]; [lia|]. specialize (IH H). destruct b; lia.
Qed.

Lemma byte_of_bits_bound : forall bs, byte_of_bits bs + 1 <= 2 ^ N.of_nat (length bs).
Proof.
  induction bs as [|b r IH]; [simpl; lia|].
  cbn [byte_of_bits length]. rewrite Nat2N.inj_succ, N.pow_succ_r'. destruct b; lia.
Qed.

Lemma byte_of_bits_false : forall bs, In false bs -> byte_of_bits bs + 2 <= 2 ^ N.of_nat (length bs).
Proof.
  induction bs as [|b r IH]; intros H; [destruct H|].
  cbn [byte_of_bits length]. rewrite Nat2N.inj_succ, N.pow_succ_r'.
  destruct H as [->|H].
  - pose proof (byte_of_bits_bound r). lia.
  - specialize (IH H). destruct b; lia.
Qed.

Lemma byte_of_bits_false_255 : forall bs, (length bs <= 8)%nat -> In false bs -> byte_of_bits bs <> 255.
Proof.
  intros bs Hl H. pose proof (byte_of_bits_false bs H) as B.
  assert (2 ^ N.of_nat (length bs) <= 2 ^ 8) by (apply N.pow_le_mono_r; lia).
  change (2 ^ 8) with 256 in *. lia.
Qed.

Lemma pack_bools_in : forall fuel bs b, (length bs <= fuel)%nat -> In b bs ->
  exists chunk, In (byte_of_bits chunk) (pack_bools fuel bs) /\ In b chunk /\ (length chunk <= 8)%nat.
Proof.
  induction fuel as [|f IH]; intros bs b Hl Hin.
  - destruct bs; [destruct Hin|simpl in Hl; lia].
  - destruct bs as [|x r]; [destruct Hin|].
    cbn [pack_bools]. rewrite <- (firstn_skipn 8 (x :: r)) in Hin.
    apply in_app_or in Hin. destruct Hin as [Hin|Hin].
    + exists (firstn 8 (x :: r)). split; [left; reflexivity|]. split; [exact Hin|].
      apply firstn_le_length.
    + destruct (IH (skipn 8 (x :: r)) b) as [c [Hc1 [Hc2 Hc3]]]; auto.
      * rewrite skipn_length. simpl length in *. lia.
      * exists c. split; [right; exact Hc1|]. auto.
Qed.

Lemma boolean_keys_in : forall (bits : list bool) (b : bool), In b bits ->
  In (if b then 1 else 0) (boolean_keys (pack bits)).
Proof.
  intros bits b Hin. unfold pack.
  destruct (pack_bools_in (length bits) bits b (le_n _) Hin) as [c [Hc1 [Hc2 Hc3]]].
  unfold boolean_keys. apply in_or_app. destruct b.
  - right.
    assert (E : existsb (fun b => negb (b =? 0)) (pack_bools (length bits) bits) = true).
    { apply existsb_exists. exists (byte_of_bits c). split; [exact Hc1|].
      pose proof (byte_of_bits_true c Hc2). destruct (N.eqb_spec (byte_of_bits c) 0); [contradiction|reflexivity]. }
    rewrite E. left; reflexivity.
  - left.
    assert (E : existsb (fun b => negb (b =? 255)) (pack_bools (length bits) bits) = true).
    { apply existsb_exists. exists (byte_of_bits c). split; [exact Hc1|].
      pose proof (byte_of_bits_false_255 c Hc3 Hc2). destruct (N.eqb_spec (byte_of_bits c) 255); [contradiction|reflexivity]. }
    rewrite E. left; reflexivity.
Qed.

(** a boolean page whose packed bytes cover bits before ([pre], page.offset)
    and after ([post], padding) the page's values still yields the key *)
Lemma boolean_page_agree : forall pre bits post b, In b bits ->
  In (hash_read (VBoolean b)) (hashes_write (PBoolean (pack (pre ++ bits ++ post)))).
Proof.
  intros pre bits post b Hin. cbn [hashes_write hash_read]. rewrite bulk_map.
  apply (in_map sum64uint8 _ (if b then 1 else 0)). apply boolean_keys_in.
  apply in_or_app; right. apply in_or_app; left. exact Hin.
Qed.

(** * Write / read agreement for every physical type *)

Lemma typed_in : forall t vs v, Forall (typed t) vs -> In v vs -> typed t v.
Proof. intros t vs v H Hin. rewrite Forall_forall in H. auto. Qed.

Lemma typed_lengths : forall t vs size,
  Forall (typed t) vs -> (t = TInt96 /\ size = 12%nat) \/ t = TFixedLenByteArray size ->
  Forall (fun b => length b = size) (map bytes_of vs).
Proof.
  intros t vs size H Ht. apply Forall_forall. intros b Hb.
  apply in_map_iff in Hb. destruct Hb as [v [<- Hv]].
  pose proof (typed_in t vs v H Hv) as T.
  destruct Ht as [[-> ->]| ->]; destruct v; simpl in T; try contradiction; simpl; tauto.
Qed.

Lemma write_read_hash_agree : forall t vs v,
  Forall (typed t) vs -> In v vs -> In (hash_read v) (hashes_write (page_of_values t vs)).
Proof.
  intros t vs v Hall Hin. pose proof (typed_in t vs v Hall Hin) as T.
  destruct t; destruct v; simpl in T; try contradiction.
  - (* boolean *)
    pose proof (boolean_page_agree [] (map bool_of vs) [] b) as H.
    rewrite app_nil_r in H. apply H. apply (in_map bool_of vs (VBoolean b)). exact Hin.
  - (* int32 *)
    cbn [page_of_values hashes_write hash_read]. rewrite bulk_map.
    apply in_map. apply (in_map word_of vs (VInt32 w)). exact Hin.
  - (* int64 *)
    cbn [page_of_values hashes_write hash_read]. rewrite bulk_map.
    apply in_map. apply (in_map word_of vs (VInt64 w)). exact Hin.
  - (* int96 *)
    cbn [page_of_values hashes_write hash_read].
    rewrite (fixed_chunks_concat_all 12); [|lia|apply (typed_lengths TInt96 vs 12 Hall); auto].
    apply in_map. apply (in_map bytes_of vs (VInt96 bytes)). exact Hin.
  - (* float *)
    cbn [page_of_values hashes_write hash_read]. rewrite bulk_map.
    apply in_map. apply (in_map word_of vs (VFloat w)). exact Hin.
  - (* double *)
    cbn [page_of_values hashes_write hash_read]. rewrite bulk_map.
    apply in_map. apply (in_map word_of vs (VDouble w)). exact Hin.
  - (* byte array *)
    cbn [page_of_values hashes_write hash_read].
    pose proof (byte_array_slices_concat (map bytes_of vs) []) as E. cbn [app length] in E.
    rewrite E. apply in_map. apply (in_map bytes_of vs (VByteArray bytes)). exact Hin.
  - (* fixed-size byte array *)
    destruct T as [Hlen Hpos].
    cbn [page_of_values hashes_write hash_read].
    pose proof (typed_lengths (TFixedLenByteArray size) vs size Hall (or_intror eq_refl)) as L.
    destruct (Nat.eqb_spec size 16) as [E16|NE].
    + rewrite E16 in *. rewrite bulk_map, (fixed_chunks_concat_all 16); auto.
      rewrite <- (sum64uint128_eq bytes Hlen).
      apply in_map. apply (in_map bytes_of vs (VFixedLenByteArray bytes)). exact Hin.
    + rewrite (fixed_chunks_concat_all size); auto.
      apply in_map. apply (in_map bytes_of vs (VFixedLenByteArray bytes)). exact Hin.
Qed.

(** * Every inserted hash is a uint64 *)

Lemma Forall_map_lt : forall (A : Type) (f : A -> N) l, (forall x, f x < M64) -> Forall is_u64 (map f l).
Proof.
  intros A f l H. apply Forall_forall. intros y Hy. apply in_map_iff in Hy.
  destruct Hy as [x [<- _]]. apply H.
Qed.

Lemma hashes_write_u64 : forall p, Forall is_u64 (hashes_write p).
Proof.
  intros [packed|ws|ws|data|ws|ws|data offsets|size data]; cbn [hashes_write];
    rewrite ?bulk_map.
  - apply Forall_map_lt, sum64uint8_lt.
  - apply Forall_map_lt, sum64uint32_lt.
  - apply Forall_map_lt, sum64uint64_lt.
  - apply Forall_map_lt, xxh64_lt.
  - apply Forall_map_lt, sum64uint32_lt.
  - apply Forall_map_lt, sum64uint64_lt.
  - destruct offsets; [constructor|]. apply Forall_map_lt, xxh64_lt.
  - destruct (Nat.eqb size 16); rewrite ?bulk_map.
    + apply Forall_map_lt, sum64uint128_lt.
    + apply Forall_map_lt, xxh64_lt.
Qed.

(** * Building the filter of a chunk page by page *)

Lemma write_pages_mono : forall ps f y,
  filter_check f y = true -> filter_check (write_pages_to_filter f ps) y = true.
Proof.
  unfold write_pages_to_filter. induction ps as [|p ps IH]; intros f y H; simpl; [exact H|].
  apply IH. unfold write_page_to_filter. apply filter_check_bulk_mono. exact H.
Qed.

Lemma write_pages_length : forall ps f, length (write_pages_to_filter f ps) = length f.
Proof.
  unfold write_pages_to_filter. induction ps as [|p ps IH]; intro f; simpl; [reflexivity|].
  rewrite IH. apply length_filter_insert_bulk.
Qed.

Lemma write_pages_wf : forall ps f, wf_filter f -> wf_filter (write_pages_to_filter f ps).
Proof.
  unfold write_pages_to_filter. induction ps as [|p ps IH]; intros f H; simpl; [exact H|].
  apply IH. apply wf_filter_insert_bulk. exact H.
Qed.

Lemma write_pages_check : forall ps f p h,
  blocks_ok f -> In p ps -> In h (hashes_write p) ->
  filter_check (write_pages_to_filter f ps) h = true.
Proof.
  induction ps as [|q ps IH]; intros f p h Hf Hp Hh; [destruct Hp|].
  change (write_pages_to_filter f (q :: ps)) with
    (write_pages_to_filter (write_page_to_filter f q) ps).
  destruct Hp as [->|Hp].
  - apply write_pages_mono. unfold write_page_to_filter.
    apply check_after_insert; auto. apply hashes_write_u64.
  - apply (IH _ p); auto. apply blocks_ok_insert_bulk. exact Hf.
Qed.

(** end to end, through the stored bytes and FileBloomFilter.Check *)
Lemma written_value_checks_true : forall t nblocks pages page v,
  (0 < nblocks)%nat -> N.of_nat nblocks < 2 ^ 31 ->
  Forall (Forall (typed t)) pages -> In page pages -> In v page ->
  file_check (filter_bytes (chunk_filter nblocks t pages)) v = true.
Proof.
  intros t n pages page v Hn Hn31 Hall Hp Hv. unfold file_check, chunk_filter.
  rewrite check_split_block_bytes by (apply write_pages_wf, wf_empty_filter).
  apply (write_pages_check _ _ (page_of_values t page)).
  - apply blocks_ok_empty; assumption.
  - apply in_map. exact Hp.
  - apply write_read_hash_agree; [|exact Hv].
    rewrite Forall_forall in Hall. apply Hall. exact Hp.
Qed.

(** the same starting from any filter content (a reused, pre-sized or copied
    filter): later pages never remove what earlier pages inserted *)
Lemma written_value_checks_true_from : forall t f pages page v,
  blocks_ok f -> wf_filter f ->
  Forall (Forall (typed t)) pages -> In page pages -> In v page ->
  file_check (filter_bytes (write_pages_to_filter f (map (page_of_values t) pages))) v = true.
Proof.
  intros t f pages page v Hf Hwf Hall Hp Hv. unfold file_check.
  rewrite check_split_block_bytes by (apply write_pages_wf; exact Hwf).
  apply (write_pages_check _ _ (page_of_values t page)); auto.
  - apply in_map. exact Hp.
  - apply write_read_hash_agree; [|exact Hv].
    rewrite Forall_forall in Hall. apply Hall. exact Hp.
Qed.

(** * The behaviour before the repair commit *)

Definition pinned_witness : list value := repeat (VBoolean true) 8.

Lemma pinned_boolean_hash_disagree :
  ~ In (hash_read (VBoolean true)) (hashes_write_pinned (page_of_values TBoolean pinned_witness)).
Proof. vm_compute. intros [H|[]]. discriminate H. Qed.

Lemma pinned_boolean_check_false :
  file_check (filter_bytes (write_page_to_filter_pinned (empty_filter 1) (page_of_values TBoolean pinned_witness)))
             (VBoolean true) = false.
Proof. vm_compute. reflexivity. Qed.
