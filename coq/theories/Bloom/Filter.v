(** Model of the split-block bloom filter of bloom/ (block.go,
    block_optimized.go, bloom.go fasthash1x64, filter.go, filter_default.go).

    A block is eight uint32 words; the salts and the block size are the
    constants the translator copied from bloom/block.go (PQ.Generated.Consts).
    A filter is a list of blocks; its serialisation is the little-endian bytes
    of the words in order (SplitBlockFilter.Bytes on a little-endian machine,
    which is also the layout of the parquet format).

    Executable; no proofs here (Bloom/Proofs.v). *)
From Coq Require Import List NArith ZArith Bool Arith.
From PQ Require Import Generated.Consts Bloom.XXHash.
Import ListNotations.
Open Scope N_scope.

(* block.go *)
Definition block_size : N := Z.to_N go_bloom_BlockSize.
Definition salt0 : N := Z.to_N go_bloom_salt0.
Definition salt1 : N := Z.to_N go_bloom_salt1.
Definition salt2 : N := Z.to_N go_bloom_salt2.
Definition salt3 : N := Z.to_N go_bloom_salt3.
Definition salt4 : N := Z.to_N go_bloom_salt4.
Definition salt5 : N := Z.to_N go_bloom_salt5.
Definition salt6 : N := Z.to_N go_bloom_salt6.
Definition salt7 : N := Z.to_N go_bloom_salt7.

Definition block : Type := (N * N * N * N * N * N * N * N)%type.
Definition empty_block : block := (0, 0, 0, 0, 0, 0, 0, 0).

Definition mul32 (a b : N) : N := w32 (a * b).

(* 1 << ((x * salt) >> 27), uint32 arithmetic *)
Definition bit (x salt : N) : N := N.shiftl 1 (N.shiftr (mul32 x salt) 27).

(* block_optimized.go (b *Block) Insert *)
Definition block_insert (b : block) (x : N) : block :=
  let '(b0, b1, b2, b3, b4, b5, b6, b7) := b in
  (N.lor b0 (bit x salt0),
   N.lor b1 (bit x salt1),
   N.lor b2 (bit x salt2),
   N.lor b3 (bit x salt3),
   N.lor b4 (bit x salt4),
   N.lor b5 (bit x salt5),
   N.lor b6 (bit x salt6),
   N.lor b7 (bit x salt7)).

Definition has_bit (w m : N) : bool := negb (N.land w m =? 0).

(* block_optimized.go (b *Block) Check *)
Definition block_check (b : block) (x : N) : bool :=
  let '(b0, b1, b2, b3, b4, b5, b6, b7) := b in
  has_bit b0 (bit x salt0) &&
  has_bit b1 (bit x salt1) &&
  has_bit b2 (bit x salt2) &&
  has_bit b3 (bit x salt3) &&
  has_bit b4 (bit x salt4) &&
  has_bit b5 (bit x salt5) &&
  has_bit b6 (bit x salt6) &&
  has_bit b7 (bit x salt7).

(* bloom.go fasthash1x64(value uint64, scale int32): scale is len(f) *)
Definition fasthash1x64 (value scale : N) : N :=
  N.shiftr (mul64 (N.shiftr value 32) scale) 32.

Definition filter : Type := list block.

Fixpoint update_nth {A : Type} (i : nat) (g : A -> A) (l : list A) : list A :=
  match l, i with
  | [], _ => []
  | x :: r, O => g x :: r
  | x :: r, S j => x :: update_nth j g r
  end.

Definition block_index (f : filter) (x : N) : nat :=
  N.to_nat (fasthash1x64 x (N.of_nat (length f))).

(* filter_default.go filterInsert: f[fasthash1x64(x, len(f))].Insert(uint32(x)) *)
Definition filter_insert (f : filter) (x : N) : filter :=
  update_nth (block_index f x) (fun b => block_insert b (w32 x)) f.

(* filter_default.go filterCheck (an index out of range panics in Go: false here) *)
Definition filter_check (f : filter) (x : N) : bool :=
  match nth_error f (block_index f x) with
  | Some b => block_check b (w32 x)
  | None => false
  end.

(* filterInsertBulk *)
Definition filter_insert_bulk (f : filter) (xs : list N) : filter :=
  fold_left filter_insert xs f.

Definition empty_filter (n : nat) : filter := repeat empty_block n.

(* Block.Bytes / SplitBlockFilter.Bytes *)
Definition block_bytes (b : block) : list N :=
  let '(b0, b1, b2, b3, b4, b5, b6, b7) := b in
  le_bytes 4 b0 ++ le_bytes 4 b1 ++ le_bytes 4 b2 ++ le_bytes 4 b3 ++
  le_bytes 4 b4 ++ le_bytes 4 b5 ++ le_bytes 4 b6 ++ le_bytes 4 b7.

Definition filter_bytes (f : filter) : list N := flat_map block_bytes f.

(* reading a block back from (at most) 32 bytes; missing bytes read as zero *)
Definition block_of_bytes (b : list N) : block :=
  (u32 b, u32 (skipn 4 b), u32 (skipn 8 b), u32 (skipn 12 b),
   u32 (skipn 16 b), u32 (skipn 20 b), u32 (skipn 24 b), u32 (skipn 28 b)).

(* MakeSplitBlockFilter(data): len(data)/BlockSize blocks *)
Fixpoint filter_of_bytes (fuel : nat) (data : list N) : filter :=
  match fuel with
  | O => []
  | S f =>
      if has 32 data then block_of_bytes (firstn 32 data) :: filter_of_bytes f (skipn 32 data)
      else []
  end.

(* filter.go CheckSplitBlock(r, n, x): reads the one block at
   BlockSize * fasthash1x64(x, n/BlockSize) *)
Definition check_split_block (data : list N) (x : N) : bool :=
  let n := N.of_nat (length data) in
  let offset := block_size * fasthash1x64 x (n / block_size) in
  let blk := block_of_bytes (firstn 32 (skipn (N.to_nat offset) data)) in
  block_check blk (w32 x).

(* filter.go NumSplitBlocksOf(numValues int64, bitsPerValue uint) *)
Definition num_split_blocks_of (num_values bits_per_value : N) : N :=
  let num_bytes := add64 (mul64 (w64 num_values) bits_per_value) 7 / 8 in
  add64 num_bytes (block_size - 1) / block_size.
