(** Thrift compact protocol over a generic value tree (encoding/thrift/compact.go
    and thrift-compact-protocol.md).  [encode] writes a tree the way the Go
    encoder does (field-id deltas of 1..15 in the header nibble, booleans in
    the field header, short list headers); [decode] is written from the
    specification and accepts every conforming form.  No proofs here. *)
From Coq Require Import List NArith ZArith Bool Arith.
From PQ Require Import Base.Bytes Base.Varint.
Import ListNotations.
Open Scope N_scope.

(* compact type codes *)
Definition T_TRUE : N := 1.
Definition T_FALSE : N := 2.
Definition T_I8 : N := 3.
Definition T_I16 : N := 4.
Definition T_I32 : N := 5.
Definition T_I64 : N := 6.
Definition T_DOUBLE : N := 7.
Definition T_BINARY : N := 8.
Definition T_LIST : N := 9.
Definition T_SET : N := 10.
Definition T_MAP : N := 11.
Definition T_STRUCT : N := 12.

Inductive tval :=
| TBool (b : bool)
| TI8 (n : N)                         (* the byte *)
| TInt (code : N) (z : Z)             (* i16 / i32 / i64, zig-zag varints *)
| TDouble (bits : N)                  (* 8 bytes little endian, never interpreted *)
| TBin (b : bytes)
| TList (elem : N) (l : list tval)    (* element type code *)
| TStruct (fs : list (Z * tval)).     (* (field id, value) in wire order *)

Definition type_code (v : tval) : N :=
  match v with
  | TBool true => T_TRUE
  | TBool false => T_FALSE
  | TI8 _ => T_I8
  | TInt c _ => c
  | TDouble _ => T_DOUBLE
  | TBin _ => T_BINARY
  | TList _ _ => T_LIST
  | TStruct _ => T_STRUCT
  end.

(** * Encoder *)

Definition enc_list_header (elem : N) (n : nat) : bytes :=
  if (n <=? 14)%nat then [N.of_nat n * 16 + elem]
  else (240 + elem) :: uvarint64 (N.of_nat n).

Definition enc_field_header (last id : Z) (ty : N) : bytes :=
  let delta := (id - last)%Z in
  if ((0 <? delta) && (delta <=? 15))%Z then [Z.to_N delta * 16 + ty]
  else ty :: varint64 id.

Fixpoint encode (v : tval) : bytes :=
  match v with
  | TBool b => [if b then 1 else 0]            (* list element form *)
  | TI8 n => [n]
  | TInt _ z => varint64 z
  | TDouble bits => to_le 8 bits
  | TBin b => uvarint64 (N.of_nat (length b)) ++ b
  | TList elem l => enc_list_header elem (length l) ++ concat (map encode l)
  | TStruct fs =>
      (fix fields (last : Z) (fs : list (Z * tval)) : bytes :=
         match fs with
         | [] => [0]
         | (id, TBool b) :: r => enc_field_header last id (if b then T_TRUE else T_FALSE) ++ fields id r
         | (id, x) :: r => enc_field_header last id (type_code x) ++ encode x ++ fields id r
         end) 0%Z fs
  end.

(** * Decoder *)

Definition take (n : nat) (b : bytes) : option (bytes * bytes) :=
  if (n <=? length b)%nat then Some (firstn n b, skipn n b) else None.

(* the loops over list elements and struct fields, given the decoder of one value *)
Fixpoint dec_elems_with (dec : N -> bytes -> option (tval * bytes)) (elem : N) (k : nat) (b : bytes)
  : option (list tval * bytes) :=
  match k with
  | O => Some ([], b)
  | S k' =>
      match dec elem b with
      | None => None
      | Some (x, b') =>
          match dec_elems_with dec elem k' b' with
          | Some (xs, b'') => Some (x :: xs, b'')
          | None => None
          end
      end
  end.

Fixpoint dec_fields_with (dec : N -> bytes -> option (tval * bytes)) (k : nat) (last : Z) (b : bytes)
  : option (list (Z * tval) * bytes) :=
  match k with
  | O => None
  | S k' =>
      match b with
      | [] => None
      | h :: r =>
          if h =? 0 then Some ([], r)
          else
            let fty := h mod 16 in
            let delta := h / 16 in
            let idr := if delta =? 0 then
                         match varint_dec r with Some (id, r') => Some (id, r') | None => None end
                       else Some ((last + Z.of_N delta)%Z, r) in
            match idr with
            | None => None
            | Some (id, r1) =>
                let fv := if fty =? T_TRUE then Some (TBool true, r1)
                          else if fty =? T_FALSE then Some (TBool false, r1)
                          else dec fty r1 in
                match fv with
                | None => None
                | Some (x, r2) =>
                    match dec_fields_with dec k' id r2 with
                    | Some (fs, r3) => Some ((id, x) :: fs, r3)
                    | None => None
                    end
                end
            end
      end
  end.

(* [fuel] bounds the nesting depth and the number of fields of a struct *)
Fixpoint dec_val (fuel : nat) (ty : N) (b : bytes) {struct fuel} : option (tval * bytes) :=
  match fuel with
  | O => None
  | S f =>
      if ty =? T_TRUE then
        (* as a list element: one byte *)
        match b with x :: r => Some (TBool (x =? 1), r) | [] => None end
      else if ty =? T_FALSE then
        match b with x :: r => Some (TBool (x =? 1), r) | [] => None end
      else if ty =? T_I8 then
        match b with x :: r => Some (TI8 x, r) | [] => None end
      else if (ty =? T_I16) || (ty =? T_I32) || (ty =? T_I64) then
        match varint_dec b with Some (z, r) => Some (TInt ty z, r) | None => None end
      else if ty =? T_DOUBLE then
        match take 8 b with Some (x, r) => Some (TDouble (of_le x), r) | None => None end
      else if ty =? T_BINARY then
        match uvarint_dec b with
        | Some (n, r) => match take (N.to_nat n) r with Some (x, r') => Some (TBin x, r') | None => None end
        | None => None
        end
      else if (ty =? T_LIST) || (ty =? T_SET) then
        match b with
        | [] => None
        | h :: r =>
            let elem := h mod 16 in
            let short := h / 16 in
            let hdr := if short =? 15 then uvarint_dec r else Some (short, r) in
            match hdr with
            | None => None
            | Some (n, r1) =>
                match dec_elems_with (dec_val f) elem (N.to_nat n) r1 with
                | Some (xs, r2) => Some (TList elem xs, r2)
                | None => None
                end
            end
        end
      else if ty =? T_STRUCT then
        match dec_fields_with (dec_val f) f 0%Z b with
        | Some (fs, r) => Some (TStruct fs, r)
        | None => None
        end
      else None
  end.

Definition decode_struct (b : bytes) : option (tval * bytes) := dec_val (S (length b)) T_STRUCT b.

(** * Accessors used by the file decoder *)

Fixpoint field (id : Z) (fs : list (Z * tval)) : option tval :=
  match fs with
  | [] => None
  | (i, v) :: r => if (i =? id)%Z then Some v else field id r
  end.

Definition get (id : Z) (v : tval) : option tval :=
  match v with TStruct fs => field id fs | _ => None end.

Definition get_int (id : Z) (v : tval) : option Z :=
  match get id v with Some (TInt _ z) => Some z | Some (TI8 n) => Some (Z.of_N n) | _ => None end.

Definition get_bin (id : Z) (v : tval) : option bytes :=
  match get id v with Some (TBin b) => Some b | _ => None end.

Definition get_list (id : Z) (v : tval) : option (list tval) :=
  match get id v with Some (TList _ l) => Some l | _ => None end.

Definition get_bool (id : Z) (v : tval) : option bool :=
  match get id v with Some (TBool b) => Some b | _ => None end.
