(** The specification decoder of the thrift compact protocol inverts the
    encoder on every well-formed value tree (any nesting, any field ids, long
    and short field / list headers, booleans in headers and in lists). *)
From Coq Require Import List NArith ZArith Bool Arith Lia.
From Coq Require Import ZifyN ZifyNat ZifyBool.
From PQ Require Import Base.Bytes Base.Varint Base.ListExtra Thrift.Compact.
Import ListNotations.
Open Scope N_scope.

(** * Standalone versions of the nested loops *)

Fixpoint enc_fields (last : Z) (fs : list (Z * tval)) : bytes :=
  match fs with
  | [] => [0]
  | (id, TBool b) :: r => enc_field_header last id (if b then T_TRUE else T_FALSE) ++ enc_fields id r
  | (id, x) :: r => enc_field_header last id (type_code x) ++ encode x ++ enc_fields id r
  end.

Lemma encode_struct fs : encode (TStruct fs) = enc_fields 0 fs.
Proof.
  simpl. generalize 0%Z as last. induction fs as [|[id x] r IH]; intros last; [reflexivity|].
  destruct x; cbn [enc_fields]; repeat f_equal; apply IH.
Qed.

Lemma encode_list elem l : encode (TList elem l) = enc_list_header elem (length l) ++ concat (map encode l).
Proof. reflexivity. Qed.

Notation dec_elems f := (dec_elems_with (dec_val f)).
Notation dec_fields f := (dec_fields_with (dec_val f)).

Lemma dec_val_struct f b :
  dec_val (S f) T_STRUCT b =
  match dec_fields f f 0%Z b with Some (fs, r) => Some (TStruct fs, r) | None => None end.
Proof. reflexivity. Qed.

Lemma dec_val_list f b :
  dec_val (S f) T_LIST b =
  match b with
  | [] => None
  | h :: r =>
      let elem := h mod 16 in
      let short := h / 16 in
      let hdr := if short =? 15 then uvarint_dec r else Some (short, r) in
      match hdr with
      | None => None
      | Some (n, r1) =>
          match dec_elems f elem (N.to_nat n) r1 with
          | Some (xs, r2) => Some (TList elem xs, r2)
          | None => None
          end
      end
  end.
Proof. reflexivity. Qed.

(** * Well-formed trees and their size *)

Definition code_ok (ty : N) (v : tval) : Prop :=
  match v with
  | TBool _ => ty = T_TRUE \/ ty = T_FALSE
  | _ => ty = type_code v
  end.

Fixpoint wf (v : tval) : Prop :=
  match v with
  | TBool _ => True
  | TI8 n => n < 256
  | TInt c z => (c = T_I16 \/ c = T_I32 \/ c = T_I64) /\ in_sint 64 z
  | TDouble bits => bits < 2 ^ 64
  | TBin b => N.of_nat (length b) < 2 ^ 64
  | TList elem l =>
      (1 <= elem <= 12 /\ elem <> T_MAP) /\ N.of_nat (length l) < 2 ^ 64 /\
      (fix all (l : list tval) : Prop :=
         match l with [] => True | x :: r => (code_ok elem x /\ wf x) /\ all r end) l
  | TStruct fs =>
      (fix all (fs : list (Z * tval)) : Prop :=
         match fs with [] => True | (id, x) :: r => (in_sint 64 id /\ wf x) /\ all r end) fs
  end.

Fixpoint sz (v : tval) : nat :=
  match v with
  | TList _ l => S (fold_right (fun x a => sz x + a)%nat 0%nat l)
  | TStruct fs => S (S (fold_right (fun p a => sz (snd p) + a)%nat 0%nat fs))
  | _ => 1%nat
  end.

Lemma wf_list elem l :
  wf (TList elem l) <->
  (1 <= elem <= 12 /\ elem <> T_MAP) /\ N.of_nat (length l) < 2 ^ 64 /\ Forall (fun x => code_ok elem x /\ wf x) l.
Proof.
  cbn [wf]. split; intros (H1 & H2 & H3); repeat split; try tauto.
  - induction l as [|x r IH]; [constructor|]. destruct H3 as [Hx Hr]. constructor; [exact Hx|]. apply IH; [cbn in H2|exact Hr].
    cbn [length] in H2. lia.
  - induction H3 as [|x r Hx Hr IH]; [exact I|]. split; [exact Hx|]. apply IH. cbn [length] in H2. lia.
Qed.

Lemma wf_struct fs : wf (TStruct fs) <-> Forall (fun p => in_sint 64 (fst p) /\ wf (snd p)) fs.
Proof.
  cbn [wf]. split.
  - induction fs as [|[id x] r IH]; intros H; [constructor|]. destruct H as [Hx Hr]. constructor; [exact Hx|auto].
  - induction 1 as [|[id x] r Hx Hr IH]; [exact I|]. split; [exact Hx|exact IH].
Qed.

(** induction principle with the nested lists *)
Section Ind.
  Variable P : tval -> Prop.
  Hypothesis HBool : forall b, P (TBool b).
  Hypothesis HI8 : forall n, P (TI8 n).
  Hypothesis HInt : forall c z, P (TInt c z).
  Hypothesis HDouble : forall b, P (TDouble b).
  Hypothesis HBin : forall b, P (TBin b).
  Hypothesis HList : forall e l, Forall P l -> P (TList e l).
  Hypothesis HStruct : forall fs, Forall (fun p => P (snd p)) fs -> P (TStruct fs).

  Fixpoint tval_ind' (v : tval) : P v :=
    match v with
    | TBool b => HBool b
    | TI8 n => HI8 n
    | TInt c z => HInt c z
    | TDouble b => HDouble b
    | TBin b => HBin b
    | TList e l =>
        HList e l ((fix go (l : list tval) : Forall P l :=
                      match l with
                      | [] => Forall_nil P
                      | x :: r => Forall_cons x (tval_ind' x) (go r)
                      end) l)
    | TStruct fs =>
        HStruct fs ((fix go (fs : list (Z * tval)) : Forall (fun p => P (snd p)) fs :=
                       match fs with
                       | [] => Forall_nil _
                       | p :: r => Forall_cons p (tval_ind' (snd p)) (go r)
                       end) fs)
    end.
End Ind.

(** * Headers *)

Lemma take_app (a b : bytes) : take (length a) (a ++ b) = Some (a, b).
Proof.
  unfold take. rewrite app_length.
  destruct (Nat.leb_spec (length a) (length a + length b)); [|lia].
  now rewrite firstn_app_exact, skipn_app_exact.
Qed.

Lemma type_code_range v : wf v -> 1 <= type_code v <= 12.
Proof.
  destruct v as [[|]| |c z| | | |]; cbn [type_code wf]; unfold T_TRUE, T_FALSE, T_I8, T_DOUBLE, T_BINARY, T_LIST, T_STRUCT; try lia.
  intros [[->|[->| ->]] _]; unfold T_I16, T_I32, T_I64; lia.
Qed.

(** * Main lemma *)

Definition roundtrip_at (v : tval) : Prop :=
  wf v -> forall fuel ty rest, (sz v <= fuel)%nat -> code_ok ty v ->
  (match v with TInt c _ => True | _ => True end) ->
  dec_val fuel ty (encode v ++ rest) = Some (v, rest).

Lemma int_code_cases c : c = T_I16 \/ c = T_I32 \/ c = T_I64 ->
  (c =? T_TRUE) = false /\ (c =? T_FALSE) = false /\ (c =? T_I8) = false /\
  ((c =? T_I16) || (c =? T_I32) || (c =? T_I64)) = true.
Proof. intros [->|[->| ->]]; repeat split; reflexivity. Qed.

Lemma dec_elems_ok f elem : forall l rest,
  Forall (fun x => code_ok elem x /\ wf x /\
                   (forall fuel ty rest, (sz x <= fuel)%nat -> code_ok ty x ->
                                         dec_val fuel ty (encode x ++ rest) = Some (x, rest))) l ->
  (fold_right (fun x a => sz x + a)%nat 0%nat l <= f)%nat ->
  dec_elems f elem (length l) (concat (map encode l) ++ rest) = Some (l, rest).
Proof.
  induction l as [|x l IH]; intros rest Hl Hf; [reflexivity|].
  inversion Hl as [|? ? (Hc & Hw & Hx) Hl']; subst.
  cbn [length dec_elems_with map concat fold_right] in *. rewrite <- app_assoc.
  rewrite Hx by (auto; lia). rewrite IH by (auto; lia). reflexivity.
Qed.

Lemma field_header_dec last id ty rest :
  1 <= ty <= 12 -> in_sint 64 id ->
  exists h r, enc_field_header last id ty ++ rest = h :: r /\ (h =? 0) = false /\
    h mod 16 = ty /\
    (if h / 16 =? 0 then match varint_dec r with Some (i, r') => Some (i, r') | None => None end
     else Some ((last + Z.of_N (h / 16))%Z, r)) = Some (id, rest).
Proof.
  intros Hty Hid. unfold enc_field_header.
  destruct ((0 <? id - last)%Z && (id - last <=? 15)%Z) eqn:E.
  - apply andb_true_iff in E. destruct E as [E1 E2].
    apply Z.ltb_lt in E1. apply Z.leb_le in E2.
    set (delta := Z.to_N (id - last)).
    assert (Hd : 1 <= delta <= 15) by (subst delta; lia).
    exists (delta * 16 + ty), rest. cbn [app].
    assert (Hdiv : (delta * 16 + ty) / 16 = delta).
    { rewrite N.add_comm, N.div_add by discriminate. rewrite N.div_small by lia. lia. }
    assert (Hmod : (delta * 16 + ty) mod 16 = ty).
    { rewrite N.add_comm, N.mod_add by discriminate. apply N.mod_small. lia. }
    repeat split.
    + apply N.eqb_neq. lia.
    + exact Hmod.
    + rewrite Hdiv. destruct (N.eqb_spec delta 0); [lia|]. f_equal. f_equal. subst delta. lia.
  - exists ty, (varint64 id ++ rest). cbn [app].
    assert (Hdiv : ty / 16 = 0) by (apply N.div_small; lia).
    repeat split.
    + apply N.eqb_neq. lia.
    + apply N.mod_small. lia.
    + rewrite Hdiv. cbn [N.eqb]. now rewrite varint64_roundtrip.
Qed.

Lemma dec_fields_ok f : forall fs last rest k,
  Forall (fun p => in_sint 64 (fst p) /\ wf (snd p) /\
                   (forall fuel ty rest, (sz (snd p) <= fuel)%nat -> code_ok ty (snd p) ->
                                         dec_val fuel ty (encode (snd p) ++ rest) = Some (snd p, rest))) fs ->
  (fold_right (fun p a => sz (snd p) + a)%nat 0%nat fs <= f)%nat -> (length fs < k)%nat ->
  dec_fields f k last (enc_fields last fs ++ rest) = Some (fs, rest).
Proof.
  induction fs as [|[id x] fs IH]; intros last rest k Hfs Hf Hk.
  - destruct k; [cbn in Hk; lia|]. reflexivity.
  - destruct k as [|k]; [cbn in Hk; lia|].
    inversion Hfs as [|? ? (Hid & Hw & Hx) Hfs']; subst. cbn [fst snd] in *.
    cbn [fold_right snd length] in *.
    assert (Hrest : dec_fields f k id (enc_fields id fs ++ rest) = Some (fs, rest)) by (apply IH; auto; lia).
    destruct x as [b| n| c z| bits| bs| e l| gs].
    + (* boolean: value in the header *)
      cbn [enc_fields]. rewrite <- app_assoc.
      destruct (field_header_dec last id (if b then T_TRUE else T_FALSE) (enc_fields id fs ++ rest))
        as (h & r & Eh & Hnz & Hm & Hidr); [destruct b; unfold T_TRUE, T_FALSE; lia|exact Hid|].
      rewrite Eh. cbn [dec_fields_with]. rewrite Hnz. cbv zeta. rewrite Hidr, Hm.
      destruct b; cbn [N.eqb T_TRUE T_FALSE Pos.eqb]; rewrite Hrest; reflexivity.
    + cbn [enc_fields]. rewrite <- !app_assoc.
      destruct (field_header_dec last id (type_code (TI8 n)) (encode (TI8 n) ++ enc_fields id fs ++ rest))
        as (h & r & Eh & Hnz & Hm & Hidr); [apply type_code_range; exact Hw|exact Hid|].
      rewrite Eh. cbn [dec_fields_with]. rewrite Hnz. cbv zeta. rewrite Hidr, Hm.
      cbn [type_code N.eqb T_TRUE T_FALSE T_I8 Pos.eqb].
      rewrite Hx; [|lia|reflexivity]. rewrite Hrest. reflexivity.
    + cbn [enc_fields]. rewrite <- !app_assoc.
      destruct (field_header_dec last id (type_code (TInt c z)) (encode (TInt c z) ++ enc_fields id fs ++ rest))
        as (h & r & Eh & Hnz & Hm & Hidr); [apply type_code_range; exact Hw|exact Hid|].
      rewrite Eh. cbn [dec_fields_with]. rewrite Hnz. cbv zeta. rewrite Hidr, Hm.
      cbn [type_code]. destruct Hw as [Hc _].
      destruct (int_code_cases c Hc) as (E1 & E2 & _). rewrite E1, E2.
      rewrite Hx; [|lia|reflexivity]. rewrite Hrest. reflexivity.
    + cbn [enc_fields]. rewrite <- !app_assoc.
      destruct (field_header_dec last id (type_code (TDouble bits)) (encode (TDouble bits) ++ enc_fields id fs ++ rest))
        as (h & r & Eh & Hnz & Hm & Hidr); [apply type_code_range; exact Hw|exact Hid|].
      rewrite Eh. cbn [dec_fields_with]. rewrite Hnz. cbv zeta. rewrite Hidr, Hm.
      cbn [type_code N.eqb T_TRUE T_FALSE T_DOUBLE Pos.eqb].
      rewrite Hx; [|lia|reflexivity]. rewrite Hrest. reflexivity.
    + cbn [enc_fields]. rewrite <- !app_assoc.
      destruct (field_header_dec last id (type_code (TBin bs)) (encode (TBin bs) ++ enc_fields id fs ++ rest))
        as (h & r & Eh & Hnz & Hm & Hidr); [apply type_code_range; exact Hw|exact Hid|].
      rewrite Eh. cbn [dec_fields_with]. rewrite Hnz. cbv zeta. rewrite Hidr, Hm.
      cbn [type_code N.eqb T_TRUE T_FALSE T_BINARY Pos.eqb].
      rewrite Hx; [|lia|reflexivity]. rewrite Hrest. reflexivity.
    + cbn [enc_fields]. rewrite <- !app_assoc.
      destruct (field_header_dec last id (type_code (TList e l)) (encode (TList e l) ++ enc_fields id fs ++ rest))
        as (h & r & Eh & Hnz & Hm & Hidr); [apply type_code_range; exact Hw|exact Hid|].
      rewrite Eh. cbn [dec_fields_with]. rewrite Hnz. cbv zeta. rewrite Hidr, Hm.
      cbn [type_code N.eqb T_TRUE T_FALSE T_LIST Pos.eqb].
      rewrite Hx; [|lia|reflexivity]. rewrite Hrest. reflexivity.
    + cbn [enc_fields]. rewrite <- !app_assoc.
      destruct (field_header_dec last id (type_code (TStruct gs)) (encode (TStruct gs) ++ enc_fields id fs ++ rest))
        as (h & r & Eh & Hnz & Hm & Hidr); [apply type_code_range; exact Hw|exact Hid|].
      rewrite Eh. cbn [dec_fields_with]. rewrite Hnz. cbv zeta. rewrite Hidr, Hm.
      cbn [type_code N.eqb T_TRUE T_FALSE T_STRUCT Pos.eqb].
      rewrite Hx; [|lia|reflexivity]. rewrite Hrest. reflexivity.
Qed.

Lemma list_header_dec elem n rest :
  1 <= elem <= 12 -> N.of_nat n < 2 ^ 64 ->
  exists h r, enc_list_header elem n ++ rest = h :: r /\ h mod 16 = elem /\
    (if h / 16 =? 15 then uvarint_dec r else Some (h / 16, r)) = Some (N.of_nat n, rest).
Proof.
  intros He Hn. unfold enc_list_header.
  destruct (Nat.leb_spec n 14) as [Hs|Hl].
  - exists (N.of_nat n * 16 + elem), rest. cbn [app].
    assert (Hdiv : (N.of_nat n * 16 + elem) / 16 = N.of_nat n).
    { rewrite N.add_comm, N.div_add by discriminate. rewrite N.div_small by lia. lia. }
    repeat split.
    + rewrite N.add_comm, N.mod_add by discriminate. apply N.mod_small. lia.
    + rewrite Hdiv. destruct (N.eqb_spec (N.of_nat n) 15); [lia|reflexivity].
  - exists (240 + elem), (uvarint64 (N.of_nat n) ++ rest). cbn [app].
    assert (Hdiv : (240 + elem) / 16 = 15).
    { replace (240 + elem) with (elem + 15 * 16) by lia. rewrite N.div_add by discriminate.
      rewrite N.div_small by lia. reflexivity. }
    repeat split.
    + replace (240 + elem) with (elem + 15 * 16) by lia. rewrite N.mod_add by discriminate.
      apply N.mod_small. lia.
    + rewrite Hdiv. cbn [N.eqb Pos.eqb]. now rewrite uvarint64_roundtrip.
Qed.

Theorem dec_val_encode : forall v, wf v ->
  forall fuel ty rest, (sz v <= fuel)%nat -> code_ok ty v ->
  dec_val fuel ty (encode v ++ rest) = Some (v, rest).
Proof.
  induction v as [b|n|c z|bits|bs|e l IH|fs IH] using tval_ind';
    intros Hw fuel ty rest Hf Hc; (destruct fuel as [|f]; [cbn in Hf; lia|]).
  - (* bool as a list element *)
    destruct Hc as [-> | ->]; destruct b; reflexivity.
  - cbn in Hc. subst ty. reflexivity.
  - cbn in Hc. subst ty. destruct Hw as [Hcode Hz].
    destruct (int_code_cases c Hcode) as (E1 & E2 & E3 & E4).
    cbn [dec_val encode]. rewrite E1, E2, E3, E4.
    now rewrite varint64_roundtrip.
  - cbn in Hc. subst ty. cbn [dec_val encode type_code N.eqb T_TRUE T_FALSE T_I8 T_I16 T_I32 T_I64 T_DOUBLE Pos.eqb orb].
    rewrite <- (to_le_length 8 bits) at 1. rewrite take_app.
    rewrite of_le_to_le; [reflexivity|]. cbn in Hw. exact Hw.
  - cbn in Hc. subst ty.
    cbn [dec_val encode type_code N.eqb T_TRUE T_FALSE T_I8 T_I16 T_I32 T_I64 T_DOUBLE T_BINARY Pos.eqb orb].
    rewrite <- app_assoc, uvarint64_roundtrip by exact Hw.
    rewrite Nat2N.id, take_app. reflexivity.
  - (* list *)
    cbn in Hc. subst ty. apply wf_list in Hw. destruct Hw as ((He & Hm) & Hn & Hl).
    change (type_code (TList e l)) with T_LIST. rewrite dec_val_list, encode_list, <- app_assoc.
    destruct (list_header_dec e (length l) (concat (map encode l) ++ rest) He Hn)
      as (h & r & Eh & Hmod & Hhdr).
    rewrite Eh. cbv zeta. rewrite Hhdr, Hmod, Nat2N.id.
    rewrite dec_elems_ok; [reflexivity| |cbn [sz] in Hf; lia].
    clear -IH Hl. induction Hl as [|x l [Hc Hw] _ IHl]; [constructor|].
    inversion IH as [|? ? H1 H2]; subst. constructor; [|auto].
    split; [exact Hc|]. split; [exact Hw|]. intros. now apply H1.
  - (* struct *)
    cbn in Hc. subst ty. apply wf_struct in Hw.
    change (type_code (TStruct fs)) with T_STRUCT. rewrite dec_val_struct, encode_struct.
    cbn [sz] in Hf.
    assert (Hlen : (length fs <= fold_right (fun p a => sz (snd p) + a) 0 fs)%nat).
    { clear. induction fs as [|[id x] fs IHf]; cbn [length fold_right snd]; [lia|].
      assert (1 <= sz x)%nat by (destruct x; cbn; lia). lia. }
    rewrite dec_fields_ok; [reflexivity| |lia|lia].
    clear -IH Hw. induction Hw as [|[id x] fs [Hid Hx] _ IHw]; [constructor|].
    inversion IH as [|? ? H1 H2]; subst. constructor; [|auto]. cbn [fst snd] in *.
    split; [exact Hid|]. split; [exact Hx|]. intros. now apply H1.
Qed.

Theorem decode_struct_encode fs rest : wf (TStruct fs) ->
  dec_val (sz (TStruct fs)) T_STRUCT (encode (TStruct fs) ++ rest) = Some (TStruct fs, rest).
Proof. intros H. apply dec_val_encode; [exact H|lia|reflexivity]. Qed.
