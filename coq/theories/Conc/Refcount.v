(** P1 — reference counted, pooled page buffers (buffer.go: buffer[T].ref /
    unref, bufferPool.get / put; page sharing with Retain / Release).

    Per-buffer automaton [buf_step] over the four events the verif hook
    reports (get=1 ref=2 unref=3 put=4), the TRACE CHECKER [check_trace]
    built from it (extracted; used on the traces recorded from the real code),
    and the thread system whose atomic actions mirror the Go code:

      Get b      bufferPool.get: sync.Pool.Get + refc.Store(1)     (event get)
      Ref b      buffer.ref:   refc.Add(1)                         (event ref)
      Unref b    buffer.unref: refc.Add(-1), remembers whether it saw 0 (event unref)
      Release b  the rest of unref in the thread that saw 0:
                 data.Reset() and pool.put(b)                      (event put)
      Use b      read or write the bytes of b (plain memory)
      Send b / Recv b   hand one reference to another goroutine through a channel

    Executable, no proofs here (Conc/RefcountProofs.v). *)
From Coq Require Import List Arith Bool NArith.
From PQ Require Import Conc.Sem.
Import ListNotations.

Inductive event : Type := EGet | ERef | EUnref | EPut.

(** state of one buffer as far as the events tell.  [BLive pooled n]: n >= 1
    references; [pooled] = it came from the pool with a get event (buffers made
    by newBuffer in column.go are not pooled: they start with one reference
    and no get event, and are never put).  [BZero]: a pooled buffer whose
    count reached 0, about to be put by the thread that saw 0.  [BDead]: an
    unpooled buffer whose count reached 0. *)
Inductive bstate : Type :=
  | BNew | BPooled | BLive (pooled : bool) (n : nat) | BZero | BDead.

Definition buf_step (s : bstate) (e : event) : option bstate :=
  match s, e with
  | BNew, EGet => Some (BLive true 1)
  | BNew, ERef => Some (BLive false 2)
  | BNew, EUnref => Some BDead
  | BPooled, EGet => Some (BLive true 1)
  | BLive p n, ERef => Some (BLive p (S n))
  | BLive p n, EUnref =>
      match n with
      | 0 => None
      | 1 => Some (if p then BZero else BDead)
      | S m => Some (BLive p m)
      end
  | BZero, EPut => Some BPooled
  | _, _ => None
  end.

Fixpoint check_buf (s : bstate) (es : list event) : option bstate :=
  match es with
  | [] => Some s
  | e :: r => match buf_step s e with Some s' => check_buf s' r | None => None end
  end.

(** the trace checker: events carry a buffer id; the states are kept in an
    association list (most recently used first). *)
Section Trace.
  Variable Id : Type.
  Variable eqb : Id -> Id -> bool.

  Definition amap : Type := list (Id * bstate).

  Fixpoint aget (m : amap) (b : Id) : bstate :=
    match m with
    | [] => BNew
    | (k, s) :: r => if eqb k b then s else aget r b
    end.

  Fixpoint adel (m : amap) (b : Id) : amap :=
    match m with
    | [] => []
    | (k, s) :: r => if eqb k b then adel r b else (k, s) :: adel r b
    end.

  Definition aset (m : amap) (b : Id) (s : bstate) : amap := (b, s) :: adel m b.

  (* [inl m]: accepted, final states; [inr (i, s)]: event number [i] (from 0)
     is not allowed in state [s] of its buffer *)
  Fixpoint check_from (m : amap) (i : N) (tr : list (event * Id)) : amap + (N * bstate) :=
    match tr with
    | [] => inl m
    | (e, b) :: r =>
        match buf_step (aget m b) e with
        | Some s' => check_from (aset m b s') (N.succ i) r
        | None => inr (i, aget m b)
        end
    end.

  Definition check_trace (tr : list (event * Id)) : amap + (N * bstate) := check_from [] 0%N tr.

  (* the events of one buffer *)
  Fixpoint proj (b : Id) (tr : list (event * Id)) : list event :=
    match tr with
    | [] => []
    | (e, k) :: r => if eqb k b then e :: proj b r else proj b r
    end.

  (* specification of the checker: every buffer's own sequence is a run of
     the per-buffer automaton *)
  Definition trace_ok (tr : list (event * Id)) : Prop :=
    forall b, exists s, check_buf BNew (proj b tr) = Some s.
End Trace.

Arguments aget {Id} eqb m b.
Arguments aset {Id} eqb m b s.
Arguments adel {Id} eqb m b.
Arguments check_from {Id} eqb m i tr.
Arguments check_trace {Id} eqb tr.
Arguments proj {Id} eqb b tr.
Arguments trace_ok {Id} eqb tr.

Definition check_trace_N : list (event * N) -> amap N + (N * bstate) := check_trace N.eqb.

(** ** the thread system *)
Inductive act : Type :=
  | Get (b : nat) | Ref (b : nat) | Unref (b : nat) | Release (b : nat)
  | Use (b : nat) | Send (b : nat) | Recv (b : nat).

Definition upd (f : nat -> nat) (b v : nat) : nat -> nat :=
  fun x => if Nat.eqb x b then v else f x.

(* rc: the atomic counter of each buffer; pool: how many times the buffer is in
   the pool (a correct run keeps it <= 1); inflight (ghost): references
   travelling through channels; trace (ghost): the events in order *)
Record shared : Type := mkShared {
  rc : nat -> nat;
  pool : nat -> nat;
  inflight : nat -> nat;
  trace : list (event * nat)
}.

(* held (ghost): references this thread owns; after_unref: the value the
   thread's last refc.Add(-1) returned, as far as it matters: Some (b, true)
   when it saw 0 and must put b *)
Record local : Type := mkLocal {
  held : nat -> nat;
  after_unref : option (nat * bool)
}.

Definition exec (s : shared) (l : local) (a : act) : option (shared * local) :=
  match a with
  | Get b =>
      if Nat.leb 1 (pool s b) then
        Some (mkShared (upd (rc s) b 1) (upd (pool s) b (pool s b - 1)) (inflight s) (trace s ++ [(EGet, b)]),
              mkLocal (upd (held l) b (S (held l b))) (after_unref l))
      else None
  | Ref b =>
      Some (mkShared (upd (rc s) b (S (rc s b))) (pool s) (inflight s) (trace s ++ [(ERef, b)]),
            mkLocal (upd (held l) b (S (held l b))) (after_unref l))
  | Unref b =>
      Some (mkShared (upd (rc s) b (rc s b - 1)) (pool s) (inflight s) (trace s ++ [(EUnref, b)]),
            mkLocal (upd (held l) b (held l b - 1)) (Some (b, Nat.eqb (rc s b - 1) 0)))
  | Release b =>
      match after_unref l with
      | Some (b', true) =>
          if Nat.eqb b b' then
            Some (mkShared (rc s) (upd (pool s) b (S (pool s b))) (inflight s) (trace s ++ [(EPut, b)]),
                  mkLocal (held l) None)
          else Some (s, mkLocal (held l) None)
      | _ => Some (s, mkLocal (held l) None)
      end
  | Use b => Some (s, l)
  | Send b =>
      Some (mkShared (rc s) (pool s) (upd (inflight s) b (S (inflight s b))) (trace s),
            mkLocal (upd (held l) b (held l b - 1)) (after_unref l))
  | Recv b =>
      if Nat.leb 1 (inflight s b) then
        Some (mkShared (rc s) (pool s) (upd (inflight s) b (inflight s b - 1)) (trace s),
              mkLocal (upd (held l) b (S (held l b))) (after_unref l))
      else None
  end.

Definition rconfig : Type := config shared local act.
Definition rstep : rconfig -> nat -> option rconfig := tstep exec.

(* every buffer in the pool (a buffer never allocated is as good as pooled),
   nothing held, empty trace *)
Definition shared0 : shared := mkShared (fun _ => 0) (fun _ => 1) (fun _ => 0) [].
Definition local0 : local := mkLocal (fun _ => 0) None.
Definition init (progs : list (list act)) : rconfig :=
  (shared0, map (fun p => (local0, p)) progs).

(** well-bracketed programs: a thread only refs / unrefs / uses / sends a
    buffer it holds a reference to, and every Unref is followed by its Release
    (the two halves of buffer.unref).  [h] = references held on entry. *)
Fixpoint wb (h : nat -> nat) (p : list act) : Prop :=
  match p with
  | [] => True
  | Get b :: r => wb (upd h b (S (h b))) r
  | Ref b :: r => 1 <= h b /\ wb (upd h b (S (h b))) r
  | Unref b :: Release b' :: r => b = b' /\ 1 <= h b /\ wb (upd h b (h b - 1)) r
  | Unref _ :: _ => False
  | Release _ :: _ => False
  | Use b :: r => 1 <= h b /\ wb h r
  | Send b :: r => 1 <= h b /\ wb (upd h b (h b - 1)) r
  | Recv b :: r => wb (upd h b (S (h b))) r
  end.

(** what the emitted events say about a run: used by the examples *)
Definition run_trace (progs : list (list act)) (sched : list nat) : option (list (event * nat)) :=
  match run rstep (init progs) sched with
  | Some c => Some (trace (fst c))
  | None => None
  end.
