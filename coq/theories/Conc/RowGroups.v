(** P4 — row groups filled concurrently, committed serially (writer.go
    BeginRowGroup / ConcurrentRowGroupWriter.WriteRows / Commit).

    The documented pattern: k row groups are created with BeginRowGroup, one
    goroutine per row group writes its rows (a ConcurrentRowGroupWriter owns
    its column writers, page buffers and statistics: plain memory touched by
    that goroutine only), the goroutines are joined (sync.WaitGroup), then the
    row groups are committed one after the other.

    Configuration: the rows each row group holds, the batches each writer
    still has to write, the row groups still to commit, the file.  Labels:
    [LW t] = writer t writes its next batch into row group t; [LCommit] = the
    committer commits the next row group — enabled only when every writer has
    finished (the join).  Commit appends [enc offset rows] to the file ([enc]:
    the bytes of a row group holding these rows when committed at that file
    offset — pages were encoded by the writer, offsets are assigned now) and
    resets the row group.  Executable; proofs in Conc/RowGroupsProofs.v. *)
From Coq Require Import List Arith Bool.
From PQ Require Import Conc.Sem.
Import ListNotations.

Section RowGroups.
  Variables Row B : Type.
  Variable enc : nat -> list Row -> list B.

  Record rgstate : Type := mkRG {
    rgs : list (list Row);
    wprogs : list (list (list Row));
    todo : list nat;
    file : list B
  }.

  Inductive rlabel : Type := LW (t : nat) | LCommit.

  Definition is_nil {A} (l : list A) : bool := match l with [] => true | _ => false end.

  Definition gstep (c : rgstate) (l : rlabel) : option rgstate :=
    match l with
    | LW t =>
        match nth_error (wprogs c) t with
        | Some (b :: rest) =>
            Some (mkRG (set_nth t (nth t (rgs c) [] ++ b) (rgs c)) (set_nth t rest (wprogs c)) (todo c) (file c))
        | _ => None
        end
    | LCommit =>
        if forallb is_nil (wprogs c) then
          match todo c with
          | g :: r =>
              Some (mkRG (set_nth g [] (rgs c)) (wprogs c) r
                         (file c ++ enc (length (file c)) (nth g (rgs c) [])))
          | [] => None
          end
        else None
    end.

  Definition ginit (batches : list (list (list Row))) (order : list nat) : rgstate :=
    mkRG (repeat [] (length batches)) batches order [].

  (* the serial meaning: commit, in order, row groups holding all their rows *)
  Definition commit_all (batches : list (list (list Row))) (order : list nat) (f0 : list B) : list B :=
    fold_left (fun f g => f ++ enc (length f) (concat (nth g batches []))) order f0.
End RowGroups.

Arguments rgs {Row B} r.
Arguments wprogs {Row B} r.
Arguments todo {Row B} r.
Arguments file {Row B} r.
Arguments gstep {Row B} enc c l.
Arguments ginit {Row B} batches order.
Arguments commit_all {Row B} enc batches order f0.
