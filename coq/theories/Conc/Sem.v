(** Small-step INTERLEAVING semantics used by C15 / C16.

    A system is a labelled transition function [step : C -> L -> option C]
    ([None] = the label is not enabled in that configuration: a blocked
    channel operation, a finished thread, ...).  A RUN is a list of labels
    (for thread systems: the list of thread ids chosen by the scheduler); it
    is executed by [run], which fails as soon as a chosen label is not enabled.
    "For all interleavings" = for every run, i.e. for every list of labels.
    [reachable c0 c] = some run leads from [c0] to [c].

    The thread-system instance: a configuration is a shared state plus a list
    of threads; a thread is a local state plus its program, a list of ATOMIC
    actions (an atomic add / load / compare-and-swap, a channel operation, or
    a block of plain memory accesses to memory only that thread owns).
    [tstep c t] executes the next action of thread [t].

    Executable; the general lemmas are in Conc/SemProofs.v. *)
From Coq Require Import List Arith Bool.
Import ListNotations.

Section LTS.
  Variables C L : Type.
  Variable step : C -> L -> option C.

  Fixpoint run (c : C) (ls : list L) : option C :=
    match ls with
    | [] => Some c
    | l :: r => match step c l with
                | Some c' => run c' r
                | None => None
                end
    end.

  Definition reachable (c0 c : C) : Prop := exists ls, run c0 ls = Some c.

  (* a property of configurations holds in every configuration of every run *)
  Definition always (c0 : C) (P : C -> Prop) : Prop :=
    forall ls c, run c0 ls = Some c -> P c.

  (* no label is enabled *)
  Definition stuck (c : C) : Prop := forall l, step c l = None.
End LTS.

Arguments run {C L} step c ls.
Arguments reachable {C L} step c0 c.
Arguments always {C L} step c0 P.
Arguments stuck {C L} step c.

(* replace the n-th element of a list (no-op when out of range) *)
Fixpoint set_nth {A : Type} (n : nat) (x : A) (l : list A) : list A :=
  match l, n with
  | [], _ => []
  | _ :: r, O => x :: r
  | y :: r, S m => y :: set_nth m x r
  end.

Section Threads.
  Variables Sh Loc Act : Type.
  (* semantics of one atomic action: new shared and local state, or [None]
     when the action is blocked in that shared state *)
  Variable exec : Sh -> Loc -> Act -> option (Sh * Loc).

  Definition thread : Type := (Loc * list Act)%type.
  Definition config : Type := (Sh * list thread)%type.

  Definition tstep (c : config) (t : nat) : option config :=
    match nth_error (snd c) t with
    | Some (l, a :: rest) =>
        match exec (fst c) l a with
        | Some (s', l') => Some (s', set_nth t (l', rest) (snd c))
        | None => None
        end
    | _ => None
    end.

  Definition finished (c : config) : Prop :=
    forall t l p, nth_error (snd c) t = Some (l, p) -> p = [].
End Threads.

Arguments tstep {Sh Loc Act} exec c t.
Arguments finished {Sh Loc Act} c.
