(** General lemmas about runs: the invariant rule (induction over the run),
    concatenation of runs, and list-update lemmas used by the thread systems. *)
From Coq Require Import List Arith Bool Lia.
From PQ Require Import Conc.Sem.
Import ListNotations.

Section LTS.
  Variables C L : Type.
  Variable step : C -> L -> option C.

  Lemma run_app : forall l1 l2 c,
    run step c (l1 ++ l2) =
    match run step c l1 with Some c' => run step c' l2 | None => None end.
  Proof.
    induction l1 as [|l r IH]; intros l2 c; simpl; [reflexivity|].
    destruct (step c l); [apply IH|reflexivity].
  Qed.

  Lemma run_snoc : forall ls l c c',
    run step c (ls ++ [l]) = Some c' <->
    exists c1, run step c ls = Some c1 /\ step c1 l = Some c'.
  Proof.
    intros ls l c c'. rewrite run_app. split.
    - destruct (run step c ls) as [c1|]; [|discriminate]. simpl.
      destruct (step c1 l) eqn:E; [|discriminate]. intros H; inversion H; subst.
      exists c1; auto.
    - intros [c1 [H1 H2]]. rewrite H1. simpl. rewrite H2. reflexivity.
  Qed.

  (** The invariant rule: a predicate that holds initially and is preserved by
      every enabled step holds after every run (all interleavings). *)
  Theorem invariant_run : forall (I : C -> Prop),
    (forall c l c', I c -> step c l = Some c' -> I c') ->
    forall ls c c', I c -> run step c ls = Some c' -> I c'.
  Proof.
    intros I Hstep. induction ls as [|l r IH]; intros c c' Hc Hr; simpl in Hr.
    - inversion Hr; subst; exact Hc.
    - destruct (step c l) as [c1|] eqn:E; [|discriminate].
      eapply IH; [|exact Hr]. eapply Hstep; eauto.
  Qed.

  Corollary invariant_always : forall (I : C -> Prop) c0,
    I c0 -> (forall c l c', I c -> step c l = Some c' -> I c') -> always step c0 I.
  Proof. intros I c0 H0 Hs ls c Hr. eapply invariant_run; eauto. Qed.

  Lemma always_weaken : forall c0 (P Q : C -> Prop),
    (forall c, P c -> Q c) -> always step c0 P -> always step c0 Q.
  Proof. intros c0 P Q HPQ HP ls c Hr. apply HPQ. eapply HP; eauto. Qed.

  Lemma reachable_refl : forall c, reachable step c c.
  Proof. intros c; exists []; reflexivity. Qed.

  Lemma reachable_step : forall c0 c l c',
    reachable step c0 c -> step c l = Some c' -> reachable step c0 c'.
  Proof.
    intros c0 c l c' [ls H] Hs. exists (ls ++ [l]). apply run_snoc. eauto.
  Qed.

  (** a property of (configuration, label, configuration) triples holds for
      every step taken along every run *)
  Theorem invariant_steps : forall (I : C -> Prop) (Q : C -> L -> C -> Prop),
    (forall c l c', I c -> step c l = Some c' -> I c' /\ Q c l c') ->
    forall ls1 c0 c l c', I c0 -> run step c0 ls1 = Some c -> step c l = Some c' -> Q c l c'.
  Proof.
    intros I Q H ls1 c0 c l c' H0 Hr Hs.
    assert (Ic : I c).
    { eapply invariant_run; [|exact H0|exact Hr]. intros a b d Ia Hd. apply (H a b d Ia Hd). }
    apply (H c l c' Ic Hs).
  Qed.
End LTS.

(** set_nth / nth_error *)
Lemma set_nth_length : forall {A} n (x : A) l, length (set_nth n x l) = length l.
Proof.
  intros A n x l; revert n; induction l as [|y r IH]; intros [|n]; simpl; auto.
Qed.

Lemma nth_error_set_nth_eq : forall {A} n (x : A) l,
  n < length l -> nth_error (set_nth n x l) n = Some x.
Proof.
  intros A n x l; revert n; induction l as [|y r IH]; intros [|n] H; simpl in *; try lia; auto.
  apply IH; lia.
Qed.

Lemma nth_error_set_nth_neq : forall {A} n m (x : A) l,
  n <> m -> nth_error (set_nth n x l) m = nth_error l m.
Proof.
  intros A n m x l; revert n m; induction l as [|y r IH]; intros [|n] [|m] H; simpl; auto; try congruence.
Qed.

Lemma nth_error_set_nth : forall {A} n m (x : A) l,
  nth_error (set_nth n x l) m =
  if Nat.eqb n m then (if Nat.ltb n (length l) then Some x else None) else nth_error l m.
Proof.
  intros A n m x l. destruct (Nat.eqb_spec n m) as [->|Hne].
  - destruct (Nat.ltb_spec m (length l)) as [Hlt|Hge].
    + apply nth_error_set_nth_eq; auto.
    + apply nth_error_None. rewrite set_nth_length. lia.
  - apply nth_error_set_nth_neq; auto.
Qed.

Lemma set_nth_same : forall {A} n (x : A) l, nth_error l n = Some x -> set_nth n x l = l.
Proof.
  intros A n x l; revert n; induction l as [|y r IH]; intros [|n] H; simpl in *; try discriminate; auto.
  - inversion H; reflexivity.
  - f_equal; auto.
Qed.

Lemma set_nth_comm : forall {A} n m (x y : A) l,
  n <> m -> set_nth n x (set_nth m y l) = set_nth m y (set_nth n x l).
Proof.
  intros A n m x y l; revert n m; induction l as [|z r IH]; intros [|n] [|m] H; simpl; auto; try congruence.
  f_equal; apply IH; congruence.
Qed.

(** sums over a list, and how replacing one element changes them *)
Fixpoint sum_map {A} (f : A -> nat) (l : list A) : nat :=
  match l with [] => 0 | x :: r => f x + sum_map f r end.

Lemma sum_map_set_nth : forall {A} (f : A -> nat) n x y l,
  nth_error l n = Some y -> sum_map f (set_nth n x l) + f y = sum_map f l + f x.
Proof.
  intros A f n x y l; revert n; induction l as [|z r IH]; intros [|n] H; simpl in *; try discriminate.
  - inversion H; subst; lia.
  - specialize (IH n H). lia.
Qed.

Lemma sum_map_zero : forall {A} (f : A -> nat) l,
  sum_map f l = 0 <-> forall x, In x l -> f x = 0.
Proof.
  intros A f l; induction l as [|z r IH]; simpl; split; intros H.
  - intros x [].
  - reflexivity.
  - intros x [<-|Hin]; [lia|]. apply IH; [lia|auto].
  - assert (f z = 0) by (apply H; auto). assert (sum_map f r = 0) by (apply IH; intros; apply H; auto). lia.
Qed.

Lemma sum_map_ge : forall {A} (f : A -> nat) l n x,
  nth_error l n = Some x -> f x <= sum_map f l.
Proof.
  intros A f l; induction l as [|z r IH]; intros [|n] x H; simpl in *; try discriminate.
  - inversion H; subst; lia.
  - specialize (IH n x H). lia.
Qed.
