(** P5 — what a reader borrowed from a process-wide pool is given back by Close
    exactly once, however often Close is called.

    file.go FilePages (one thread of the model = one page reader and the
    history of calls made on it, by whichever goroutine):

        init:   f.rbuf, f.rbufpool = getBufioReader(&f.section, bufferSize)      KOpen k
                  pool.Get: some element of the pool of that buffer size (the
                  k-th: sync.Pool promises nothing about which), or a new one
        ReadPage / SeekToRow: use f.rbuf                                          KRead
        Close:  putBufioReader(f.rbuf, f.rbufpool)   pool.Put when rbuf != nil    KClose
                f.chunk = nil ... f.rbuf = nil; f.rbufpool = nil                  ([forget])

    [forget = true] is the code; [forget = false] is the code without the two
    assignments (Close keeps its reference to what it gave back).  pool.Get and
    pool.Put are single atomic steps; [krbuf] is plain memory of the reader.
    The same shape: every Close of the read side that returns something to a
    pool and then forgets it (columnChunkValueReader.Close: r.pages = nil,
    multiPages.Close, columnPages.Close, asyncPages.Close: done = nil).

    Executable; proofs in Conc/GiveBackProofs.v. *)
From Coq Require Import List Arith Bool.
From PQ Require Import Conc.Sem.
Import ListNotations.

Record kshared : Type := mkKS { kpool : list nat; knext : nat }.
Record klocal : Type := mkKL { krbuf : option nat; kopened : bool }.
Inductive kact : Type := KOpen (k : nat) | KRead | KClose.

Fixpoint remove_nth {A : Type} (k : nat) (l : list A) : list A :=
  match l, k with
  | [], _ => []
  | _ :: r, O => r
  | x :: r, S k' => x :: remove_nth k' r
  end.

Section GiveBack.
  Variable forget : bool.

  Definition kexec (s : kshared) (l : klocal) (a : kact) : option (kshared * klocal) :=
    match a with
    | KOpen k =>
        if kopened l then Some (s, l) else
        match nth_error (kpool s) k with
        | Some i => Some (mkKS (remove_nth k (kpool s)) (knext s), mkKL (Some i) true)
        | None => Some (mkKS (kpool s) (S (knext s)), mkKL (Some (knext s)) true)
        end
    | KRead => Some (s, l)
    | KClose =>
        Some (match krbuf l with
              | Some i => mkKS (i :: kpool s) (knext s)
              | None => s
              end,
              mkKL (if forget then None else krbuf l) false)
    end.

  Definition kconfig : Type := config kshared klocal kact.
  Definition kstep : kconfig -> nat -> option kconfig := tstep kexec.

  (* one thread per reader, nothing borrowed yet, the pool empty *)
  Definition kinit (progs : list (list kact)) : kconfig :=
    (mkKS [] 0, map (fun p => (mkKL None false, p)) progs).
End GiveBack.

(* two readers that are open at the same time and use the same pooled thing *)
Definition shared_by (c : kconfig) (t1 t2 i : nat) : Prop :=
  t1 <> t2 /\
  exists l1 p1 l2 p2,
    nth_error (snd c) t1 = Some (l1, p1) /\ nth_error (snd c) t2 = Some (l2, p2) /\
    kopened l1 = true /\ kopened l2 = true /\ krbuf l1 = Some i /\ krbuf l2 = Some i.
