(** P6 — copy-on-write caches keyed by a Go type: an entry is FILLED before it
    is PUBLISHED.

    column_buffer_reflect.go writeValueFuncOfGroup, struct case (the cache of
    field indexes per struct type, structFieldsCache; one key = one type):

        cachedFields, _ := structFieldsCache.Load().(map[...]...)            FLoad
        structFields, ok := cachedFields[t]
        if !ok {
            structFields = make(map[string][]int, ...)                        FAlloc
            cachedFields = copy of the map + {t: structFields}
            for _, f := range visibleStructFields {
                structFields[name] = f.Index                                  FFill (one per field)
            }
            structFieldsCache.Store(cachedFields)                             FStore
        }
        for i := range writers { ... structFields[w.fieldName] ... }          FUse

    The entry a caller allocates is plain memory: heap cell [fme] (one cell per
    caller), holding the number of fields filled in so far; a complete entry
    has [n] fields.  [fill_then_store] is the code; [store_then_fill] publishes
    the entry right after allocating it.  FUse records how many fields the
    caller found in the entry it uses (the loaded one on a hit, its own on a
    miss): the columns of the missing ones are written as zero / null.
    Load and Store are atomic steps; a fill is a plain write to the caller's
    own entry - which is only the caller's own as long as it is not published.

    Executable; proofs in Conc/FillPublishProofs.v. *)
From Coq Require Import List Arith Bool.
From PQ Require Import Conc.Sem.
Import ListNotations.

Record fshared : Type := mkFS { fcache : option nat; fheap : list nat; fseen : list (nat * nat) }.
Record flocal : Type := mkFL { fme : nat; fentry : option nat; falloc : bool }.
Inductive fact : Type := FLoad | FAlloc | FFill | FStore | FUse.

Definition fexec (s : fshared) (l : flocal) (a : fact) : option (fshared * flocal) :=
  match a with
  | FLoad => Some (s, mkFL (fme l) (fcache s) (falloc l))
  | FAlloc =>
      match fentry l with
      | None => Some (mkFS (fcache s) (set_nth (fme l) 0 (fheap s)) (fseen s), mkFL (fme l) None true)
      | Some _ => Some (s, l)
      end
  | FFill =>
      if falloc l
      then Some (mkFS (fcache s) (set_nth (fme l) (S (nth (fme l) (fheap s) 0)) (fheap s)) (fseen s), l)
      else Some (s, l)
  | FStore =>
      if falloc l then Some (mkFS (Some (fme l)) (fheap s) (fseen s), l) else Some (s, l)
  | FUse =>
      let e := match fentry l with Some e => e | None => fme l end in
      Some (mkFS (fcache s) (fheap s) (fseen s ++ [(fme l, nth e (fheap s) 0)]), l)
  end.

Definition fconfig : Type := config fshared flocal fact.
Definition fstep : fconfig -> nat -> option fconfig := tstep fexec.

Definition fill_then_store (n : nat) : list fact :=
  FLoad :: FAlloc :: repeat FFill n ++ [FStore; FUse].
Definition store_then_fill (n : nat) : list fact :=
  FLoad :: FAlloc :: FStore :: repeat FFill n ++ [FUse].

(* [w] callers meet a type no cache has seen *)
Definition finit (prog : list fact) (w : nat) : fconfig :=
  (mkFS None (repeat 0 w) [], map (fun t => (mkFL t None false, prog)) (seq 0 w)).
