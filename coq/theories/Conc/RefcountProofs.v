(** Proofs about P1: the trace checker decides its specification, and for
    ALL interleavings of any number of well-bracketed threads the refcount
    protocol is safe. *)
From Coq Require Import List Arith Bool NArith Lia.
From PQ Require Import Conc.Sem Conc.SemProofs Conc.Refcount.
Import ListNotations.

(** * the trace checker *)
Lemma check_buf_app : forall l1 l2 s,
  check_buf s (l1 ++ l2) =
  match check_buf s l1 with Some s' => check_buf s' l2 | None => None end.
Proof.
  induction l1 as [|e r IH]; intros l2 s; simpl; [reflexivity|].
  destruct (buf_step s e); [apply IH|reflexivity].
Qed.

Section Trace.
  Variable Id : Type.
  Variable eqb : Id -> Id -> bool.
  Hypothesis eqb_spec : forall a b, eqb a b = true <-> a = b.

  Lemma eqb_refl : forall a, eqb a a = true.
  Proof. intros a; apply eqb_spec; reflexivity. Qed.

  Lemma aget_adel_eq : forall m b, aget eqb (adel eqb m b) b = BNew.
  Proof.
    induction m as [|[k s] r IH]; intros b; simpl; [reflexivity|].
    destruct (eqb k b) eqn:E; [apply IH|]. simpl. rewrite E. apply IH.
  Qed.

  Lemma aget_adel_neq : forall m b b', b <> b' -> aget eqb (adel eqb m b) b' = aget eqb m b'.
  Proof.
    induction m as [|[k s] r IH]; intros b b' Hne; simpl; [reflexivity|].
    destruct (eqb k b) eqn:E.
    - apply eqb_spec in E; subst k. destruct (eqb b b') eqn:E2.
      + apply eqb_spec in E2; contradiction.
      + apply IH; auto.
    - simpl. destruct (eqb k b'); [reflexivity|apply IH; auto].
  Qed.

  Lemma aget_aset : forall m b s b',
    aget eqb (aset eqb m b s) b' = if eqb b b' then s else aget eqb m b'.
  Proof.
    intros m b s b'; unfold aset; simpl. destruct (eqb b b') eqn:E; [reflexivity|].
    apply aget_adel_neq. intros ->. rewrite eqb_refl in E; discriminate.
  Qed.

  Lemma proj_app : forall b l1 l2, proj eqb b (l1 ++ l2) = proj eqb b l1 ++ proj eqb b l2.
  Proof.
    intros b; induction l1 as [|[e k] r IH]; intros l2; simpl; [reflexivity|].
    destruct (eqb k b); simpl; rewrite IH; reflexivity.
  Qed.

  Lemma check_from_accept : forall tr m i m',
    check_from eqb m i tr = inl m' ->
    forall b, check_buf (aget eqb m b) (proj eqb b tr) = Some (aget eqb m' b).
  Proof.
    induction tr as [|[e k] r IH]; intros m i m' H b; simpl in *.
    - inversion H; reflexivity.
    - destruct (buf_step (aget eqb m k) e) as [s'|] eqn:E; [|discriminate].
      specialize (IH _ _ _ H b). rewrite aget_aset in IH.
      destruct (eqb k b) eqn:Ekb.
      + apply eqb_spec in Ekb; subst k. simpl. rewrite E. exact IH.
      + exact IH.
  Qed.

  Lemma check_from_reject : forall tr m i j s,
    check_from eqb m i tr = inr (j, s) ->
    exists b, check_buf (aget eqb m b) (proj eqb b tr) = None.
  Proof.
    induction tr as [|[e k] r IH]; intros m i j s H; simpl in *; [discriminate|].
    destruct (buf_step (aget eqb m k) e) as [s'|] eqn:E.
    - destruct (IH _ _ _ _ H) as [b Hb]. exists b. rewrite aget_aset in Hb.
      destruct (eqb k b) eqn:Ekb.
      + apply eqb_spec in Ekb; subst k. simpl. rewrite E. exact Hb.
      + exact Hb.
    - exists k. rewrite eqb_refl. simpl. rewrite E. reflexivity.
  Qed.

  (** the checker accepts exactly the traces whose per-buffer sequences are
      runs of the automaton *)
  Theorem check_trace_sound : forall tr m, check_trace eqb tr = inl m -> trace_ok eqb tr.
  Proof.
    intros tr m H b. exists (aget eqb m b).
    apply (check_from_accept tr [] 0%N m H b).
  Qed.

  Theorem check_trace_complete : forall tr, trace_ok eqb tr -> exists m, check_trace eqb tr = inl m.
  Proof.
    intros tr Hok. unfold check_trace. destruct (check_from eqb [] 0%N tr) as [m|[j s]] eqn:E.
    - exists m; reflexivity.
    - destruct (check_from_reject _ _ _ _ _ E) as [b Hb]. destruct (Hok b) as [s' Hs'].
      simpl in Hb. congruence.
  Qed.

  (* the index reported on rejection is the position of an event that the
     automaton of its buffer refuses after the events before it *)
  Lemma check_from_reject_index : forall tr m i j s,
    check_from eqb m i tr = inr (j, s) ->
    exists pre e b post, tr = pre ++ (e, b) :: post /\ j = (i + N.of_nat (length pre))%N /\
      (exists m', check_from eqb m i pre = inl m' /\ aget eqb m' b = s /\ buf_step s e = None).
  Proof.
    induction tr as [|[e k] r IH]; intros m i j s H; simpl in *; [discriminate|].
    destruct (buf_step (aget eqb m k) e) as [s'|] eqn:E.
    - destruct (IH _ _ _ _ H) as [pre [e' [b [post [Htr [Hj [m' [Hpre [Hs Hstep]]]]]]]]].
      exists ((e, k) :: pre), e', b, post. split; [simpl; rewrite Htr; reflexivity|].
      split; [simpl length; lia|]. exists m'. simpl. rewrite E. auto.
    - inversion H; subst. exists [], e, k, r. split; [reflexivity|]. split; [simpl; lia|].
      exists m. simpl. auto.
  Qed.
End Trace.

Lemma N_eqb_spec' : forall a b : N, N.eqb a b = true <-> a = b.
Proof. intros; apply N.eqb_eq. Qed.

Lemma Nat_eqb_spec' : forall a b : nat, Nat.eqb a b = true <-> a = b.
Proof. intros; apply Nat.eqb_eq. Qed.

(** * the thread system: invariant for all interleavings *)
Definition nz (n : nat) : nat := match n with 0 => 0 | _ => 1 end.

Lemma nz_spec : forall n, (n = 0 /\ nz n = 0) \/ (1 <= n /\ nz n = 1).
Proof. intros [|n]; simpl; [left|right]; split; lia. Qed.

Definition npend_l (b : nat) (l : local) : nat :=
  match after_unref l with
  | Some (b', true) => if Nat.eqb b' b then 1 else 0
  | _ => 0
  end.

Definition rthread : Type := thread local act.
Definition npend (b : nat) (ts : list rthread) : nat := sum_map (fun th => npend_l b (fst th)) ts.
Definition theld (b : nat) (ts : list rthread) : nat := sum_map (fun th => held (fst th) b) ts.

(* a thread between the two halves of unref has the Release as next action *)
Definition twb (th : rthread) : Prop :=
  match after_unref (fst th) with
  | Some (b, _) => exists r, snd th = Release b :: r /\ wb (held (fst th)) r
  | None => wb (held (fst th)) (snd th)
  end.

Definition matches (c : rconfig) (b : nat) (s : bstate) : Prop :=
  match s with
  | BNew | BPooled => pool (fst c) b = 1
  | BLive true n => pool (fst c) b = 0 /\ rc (fst c) b = n /\ 1 <= n /\ npend b (snd c) = 0
  | BZero => pool (fst c) b = 0 /\ rc (fst c) b = 0 /\ npend b (snd c) = 1
  | _ => False
  end.

Record Inv (c : rconfig) : Prop := mkInv {
  inv_A : forall b, pool (fst c) b + npend b (snd c) + nz (rc (fst c) b) = 1;
  inv_B : forall b, rc (fst c) b = theld b (snd c) + inflight (fst c) b;
  inv_C : forall t th, nth_error (snd c) t = Some th -> twb th;
  inv_D : forall b, exists s, check_buf BNew (proj Nat.eqb b (trace (fst c))) = Some s /\ matches c b s
}.

Lemma upd_eq : forall f b v, upd f b v b = v.
Proof. intros; unfold upd; rewrite Nat.eqb_refl; reflexivity. Qed.

Lemma upd_neq : forall f b v b', b' <> b -> upd f b v b' = f b'.
Proof. intros; unfold upd. destruct (Nat.eqb_spec b' b); [contradiction|reflexivity]. Qed.

Lemma set_facts : forall (ts : list rthread) t l p l' p' b,
  nth_error ts t = Some (l, p) ->
  theld b (set_nth t (l', p') ts) + held l b = theld b ts + held l' b /\
  npend b (set_nth t (l', p') ts) + npend_l b l = npend b ts + npend_l b l'.
Proof.
  intros ts t l p l' p' b H. split.
  - apply (sum_map_set_nth (fun th : rthread => held (fst th) b) t (l', p') (l, p) ts H).
  - apply (sum_map_set_nth (fun th : rthread => npend_l b (fst th)) t (l', p') (l, p) ts H).
Qed.

Lemma held_le_theld : forall (ts : list rthread) t l p b,
  nth_error ts t = Some (l, p) -> held l b <= theld b ts.
Proof.
  intros ts t l p b H.
  apply (sum_map_ge (fun th : rthread => held (fst th) b) ts t (l, p) H).
Qed.

Lemma npend_l_le : forall (ts : list rthread) t l p b,
  nth_error ts t = Some (l, p) -> npend_l b l <= npend b ts.
Proof.
  intros ts t l p b H.
  apply (sum_map_ge (fun th : rthread => npend_l b (fst th)) ts t (l, p) H).
Qed.

Lemma twb_set : forall (ts : list rthread) t x,
  (forall t' th, nth_error ts t' = Some th -> twb th) -> twb x ->
  forall t' th, nth_error (set_nth t x ts) t' = Some th -> twb th.
Proof.
  intros ts t x Hall Hx t' th H. rewrite nth_error_set_nth in H.
  destruct (Nat.eqb t t').
  - destruct (Nat.ltb t (length ts)); [inversion H; subst; exact Hx|discriminate].
  - eapply Hall; eauto.
Qed.

Lemma matches_frame : forall s ts s' ts' b st,
  pool s' b = pool s b -> rc s' b = rc s b -> npend b ts' = npend b ts ->
  matches (s, ts) b st -> matches (s', ts') b st.
Proof.
  intros s ts s' ts' b st Hp Hr Hn. unfold matches; simpl.
  destruct st as [| |[|] n| |]; rewrite ?Hp, ?Hr, ?Hn; auto.
Qed.

Lemma proj_snoc_neq : forall b b' e tr, b <> b' ->
  proj Nat.eqb b' (tr ++ [(e, b)]) = proj Nat.eqb b' tr.
Proof.
  intros b b' e tr Hne. rewrite proj_app. simpl.
  destruct (Nat.eqb_spec b b'); [contradiction|]. apply app_nil_r.
Qed.

Lemma proj_snoc_eq : forall b e tr,
  proj Nat.eqb b (tr ++ [(e, b)]) = proj Nat.eqb b tr ++ [e].
Proof. intros b e tr. rewrite proj_app. simpl. rewrite Nat.eqb_refl. reflexivity. Qed.

Lemma check_buf_snoc : forall s es e s1 s2,
  check_buf s es = Some s1 -> buf_step s1 e = Some s2 -> check_buf s (es ++ [e]) = Some s2.
Proof. intros s es e s1 s2 H1 H2. rewrite check_buf_app, H1. simpl. rewrite H2. reflexivity. Qed.

(* the frame part of inv_D: buffers other than the one acted upon *)
Lemma invD_other : forall s ts r' p' i' ts' b e b',
  b <> b' ->
  (exists st, check_buf BNew (proj Nat.eqb b' (trace s)) = Some st /\ matches (s, ts) b' st) ->
  p' b' = pool s b' -> r' b' = rc s b' -> npend b' ts' = npend b' ts ->
  exists st, check_buf BNew (proj Nat.eqb b' (trace s ++ [(e, b)])) = Some st /\
             matches (mkShared r' p' i' (trace s ++ [(e, b)]), ts') b' st.
Proof.
  intros s ts r' p' i' ts' b e b' Hne [st [Hc Hm]] Hp Hr Hn. exists st. split.
  - rewrite proj_snoc_neq; auto.
  - eapply matches_frame; eauto.
Qed.

Lemma invD_silent : forall s ts r' p' i' ts' b',
  (exists st, check_buf BNew (proj Nat.eqb b' (trace s)) = Some st /\ matches (s, ts) b' st) ->
  p' b' = pool s b' -> r' b' = rc s b' -> npend b' ts' = npend b' ts ->
  exists st, check_buf BNew (proj Nat.eqb b' (trace s)) = Some st /\
             matches (mkShared r' p' i' (trace s), ts') b' st.
Proof.
  intros s ts r' p' i' ts' b' [st [Hc Hm]] Hp Hr Hn. exists st. split; auto.
  eapply matches_frame; eauto.
Qed.

Lemma invD_same : forall s ts ts' b',
  (exists st, check_buf BNew (proj Nat.eqb b' (trace s)) = Some st /\ matches (s, ts) b' st) ->
  npend b' ts' = npend b' ts ->
  exists st, check_buf BNew (proj Nat.eqb b' (trace s)) = Some st /\ matches (s, ts') b' st.
Proof.
  intros s ts ts' b' [st [Hc Hm]] Hn. exists st. split; auto.
  eapply matches_frame; eauto.
Qed.

Ltac upd_cases b' b :=
  destruct (Nat.eq_dec b' b) as [?|?]; [subst b'; rewrite ?upd_eq | rewrite ?upd_neq by assumption].

Theorem step_inv : forall c t c', Inv c -> rstep c t = Some c' -> Inv c'.
Proof.
  intros [s ts] t c' HI Hstep. unfold rstep, tstep in Hstep; simpl in Hstep.
  destruct (nth_error ts t) as [[l [|a rest]]|] eqn:Hn; try discriminate.
  destruct (exec s l a) as [[s' l']|] eqn:He; [|discriminate].
  inversion Hstep; subst c'; clear Hstep.
  destruct HI as [HA HB HC HD]; simpl in *.
  pose proof (HC t _ Hn) as Hwb. unfold twb in Hwb; simpl in Hwb.
  assert (Hset : forall b, theld b (set_nth t (l', rest) ts) + held l b = theld b ts + held l' b /\
                           npend b (set_nth t (l', rest) ts) + npend_l b l = npend b ts + npend_l b l').
  { intros b; apply set_facts with (p := a :: rest); exact Hn. }
  pose proof (fun b => held_le_theld ts t l (a :: rest) b Hn) as Hle.
  pose proof (fun b => npend_l_le ts t l (a :: rest) b Hn) as Hnle.
  destruct a as [b|b|b|b|b|b|b]; unfold exec in He.
  - (* Get *)
    destruct (Nat.leb_spec 1 (pool s b)) as [Hpool|]; [|discriminate].
    inversion He; subst s' l'; clear He.
    assert (Hau : after_unref l = None).
    { revert Hwb. destruct (after_unref l) as [[b0 z]|]; [|reflexivity]. intros [r [Hr _]]; discriminate Hr. }
    rewrite Hau in Hwb.
    assert (Hnp : forall b', npend b' (set_nth t ({| held := upd (held l) b (S (held l b)); after_unref := after_unref l |}, rest) ts) = npend b' ts).
    { intros b'. destruct (Hset b') as [_ H2]. unfold npend_l in H2; simpl in H2. lia. }
    pose proof (HA b) as HAb. pose proof (HB b) as HBb. pose proof (nz_spec (rc s b)) as Hnz.
    constructor; simpl.
    + intros b'. rewrite Hnp. upd_cases b' b; [simpl; lia|apply HA].
    + intros b'. destruct (Hset b') as [H1 _]. simpl in H1. specialize (HB b'). upd_cases b' b; rewrite ?upd_eq in H1; [lia|].
      rewrite upd_neq in H1 by assumption. lia.
    + apply twb_set; [exact HC|]. unfold twb; simpl. rewrite Hau. exact Hwb.
    + intros b'. destruct (Nat.eq_dec b b') as [<-|Hne].
      * destruct (HD b) as [st [Hc Hm]]. exists (BLive true 1). split.
        -- rewrite proj_snoc_eq. eapply check_buf_snoc; [exact Hc|].
           unfold matches in Hm; simpl in Hm. destruct st as [| |[|] n| |]; simpl; try reflexivity; try lia; try contradiction.
        -- unfold matches; simpl. rewrite !upd_eq, Hnp. lia.
      * apply invD_other with (ts := ts); auto; rewrite ?upd_neq; auto.
  - (* Ref *)
    inversion He; subst s' l'; clear He.
    assert (Hau : after_unref l = None).
    { revert Hwb. destruct (after_unref l) as [[b0 z]|]; [|reflexivity]. intros [r [Hr _]]; discriminate Hr. }
    rewrite Hau in Hwb. destruct Hwb as [Hh Hwb].
    assert (Hnp : forall b', npend b' (set_nth t ({| held := upd (held l) b (S (held l b)); after_unref := after_unref l |}, rest) ts) = npend b' ts).
    { intros b'. destruct (Hset b') as [_ H2]. unfold npend_l in H2; simpl in H2. lia. }
    pose proof (HA b) as HAb. pose proof (HB b) as HBb. pose proof (nz_spec (rc s b)) as Hnz.
    pose proof (Hle b) as Hleb.
    constructor; simpl.
    + intros b'. rewrite Hnp. upd_cases b' b; [simpl; lia|apply HA].
    + intros b'. destruct (Hset b') as [H1 _]. simpl in H1. specialize (HB b'). upd_cases b' b; rewrite ?upd_eq in H1; [lia|].
      rewrite upd_neq in H1 by assumption. lia.
    + apply twb_set; [exact HC|]. unfold twb; simpl. rewrite Hau. exact Hwb.
    + intros b'. destruct (Nat.eq_dec b b') as [<-|Hne].
      * destruct (HD b) as [st [Hc Hm]]. unfold matches in Hm; simpl in Hm.
        destruct st as [| |[|] n| |]; try lia; try contradiction.
        exists (BLive true (S n)). split.
        -- rewrite proj_snoc_eq. eapply check_buf_snoc; [exact Hc|]. reflexivity.
        -- unfold matches; simpl. rewrite !upd_eq, Hnp. lia.
      * apply invD_other with (ts := ts); auto; rewrite ?upd_neq; auto.
  - (* Unref *)
    inversion He; subst s' l'; clear He.
    assert (Hau : after_unref l = None).
    { revert Hwb. destruct (after_unref l) as [[b0 z]|]; [|reflexivity]. intros [r [Hr _]]; discriminate Hr. }
    rewrite Hau in Hwb.
    destruct rest as [|[b1|b1|b1|b1|b1|b1|b1] rest']; simpl in Hwb; try contradiction.
    destruct Hwb as [<- [Hh Hwb]].
    pose proof (HA b) as HAb. pose proof (HB b) as HBb. pose proof (nz_spec (rc s b)) as Hnz.
    pose proof (Hle b) as Hleb.
    assert (Hnp : forall b', b' <> b -> npend b' (set_nth t ({| held := upd (held l) b (held l b - 1); after_unref := Some (b, Nat.eqb (rc s b - 1) 0) |}, Release b :: rest') ts) = npend b' ts).
    { intros b' Hne. destruct (Hset b') as [_ H2]. unfold npend_l in H2; simpl in H2. rewrite Hau in H2.
      destruct (Nat.eqb (rc s b - 1) 0); [|lia]. destruct (Nat.eqb_spec b b'); [congruence|lia]. }
    assert (Hnpb : npend b (set_nth t ({| held := upd (held l) b (held l b - 1); after_unref := Some (b, Nat.eqb (rc s b - 1) 0) |}, Release b :: rest') ts) = npend b ts + (if Nat.eqb (rc s b - 1) 0 then 1 else 0)).
    { destruct (Hset b) as [_ H2]. unfold npend_l in H2; simpl in H2. rewrite Hau in H2.
      destruct (Nat.eqb (rc s b - 1) 0); [|lia]. rewrite Nat.eqb_refl in H2. lia. }
    constructor; simpl.
    + intros b'. upd_cases b' b.
      * rewrite Hnpb. destruct (Nat.eqb_spec (rc s b - 1) 0) as [E|E]; pose proof (nz_spec (rc s b - 1)); lia.
      * rewrite Hnp by assumption. apply HA.
    + intros b'. destruct (Hset b') as [H1 _]. simpl in H1. specialize (HB b'). upd_cases b' b; rewrite ?upd_eq in H1; [lia|].
      rewrite upd_neq in H1 by assumption. lia.
    + apply twb_set; [exact HC|]. unfold twb; simpl. exists rest'. split; [reflexivity|exact Hwb].
    + intros b'. destruct (Nat.eq_dec b b') as [<-|Hne].
      * destruct (HD b) as [st [Hc Hm]]. unfold matches in Hm; simpl in Hm.
        destruct st as [| |[|] n| |]; try lia; try contradiction.
        destruct Hm as [Hp0 [Hrc [Hn1 Hnp0]]].
        destruct n as [|[|m]]; [lia| |].
        -- exists BZero. split.
           ++ rewrite proj_snoc_eq. eapply check_buf_snoc; [exact Hc|]. reflexivity.
           ++ unfold matches; simpl. rewrite !upd_eq, Hnpb, Hrc. simpl. lia.
        -- exists (BLive true (S m)). split.
           ++ rewrite proj_snoc_eq. eapply check_buf_snoc; [exact Hc|]. reflexivity.
           ++ unfold matches; simpl. rewrite !upd_eq, Hnpb, Hrc. simpl. lia.
      * apply invD_other with (ts := ts); auto; rewrite ?upd_neq; auto.
  - (* Release *)
    destruct (after_unref l) as [[b0 z]|] eqn:Hau; [|simpl in Hwb; contradiction].
    destruct Hwb as [r [Hr Hwb]]. inversion Hr; subst b0 r; clear Hr.
    destruct z.
    + (* the thread saw 0: put *)
      rewrite Nat.eqb_refl in He. inversion He; subst s' l'; clear He.
      pose proof (HA b) as HAb. pose proof (HB b) as HBb. pose proof (nz_spec (rc s b)) as Hnz.
      pose proof (Hnle b) as Hnleb. unfold npend_l in Hnleb; rewrite Hau, Nat.eqb_refl in Hnleb.
      assert (Hnp : forall b', b' <> b -> npend b' (set_nth t ({| held := held l; after_unref := None |}, rest) ts) = npend b' ts).
      { intros b' Hne. destruct (Hset b') as [_ H2]. unfold npend_l in H2; simpl in H2. rewrite Hau in H2.
        destruct (Nat.eqb_spec b b'); [congruence|lia]. }
      assert (Hnpb : npend b (set_nth t ({| held := held l; after_unref := None |}, rest) ts) + 1 = npend b ts).
      { destruct (Hset b) as [_ H2]. unfold npend_l in H2; simpl in H2. rewrite Hau, Nat.eqb_refl in H2. lia. }
      constructor; simpl.
      * intros b'. upd_cases b' b; [lia|]. rewrite Hnp by assumption. apply HA.
      * intros b'. destruct (Hset b') as [H1 _]. simpl in H1. specialize (HB b'). lia.
      * apply twb_set; [exact HC|]. unfold twb; simpl. exact Hwb.
      * intros b'. destruct (Nat.eq_dec b b') as [<-|Hne].
        -- destruct (HD b) as [st [Hc Hm]]. unfold matches in Hm; simpl in Hm.
           destruct st as [| |[|] n| |]; try lia; try contradiction.
           exists BPooled. split.
           ++ rewrite proj_snoc_eq. eapply check_buf_snoc; [exact Hc|]. reflexivity.
           ++ unfold matches; simpl. rewrite upd_eq. lia.
        -- apply invD_other with (ts := ts); auto; rewrite ?upd_neq; auto.
    + (* it did not: nothing to do *)
      inversion He; subst s' l'; clear He.
      assert (Hnp : forall b', npend b' (set_nth t ({| held := held l; after_unref := None |}, rest) ts) = npend b' ts).
      { intros b'. destruct (Hset b') as [_ H2]. unfold npend_l in H2; simpl in H2. rewrite Hau in H2. lia. }
      constructor; simpl.
      * intros b'. rewrite Hnp. apply HA.
      * intros b'. destruct (Hset b') as [H1 _]. simpl in H1. specialize (HB b'). lia.
      * apply twb_set; [exact HC|]. unfold twb; simpl. exact Hwb.
      * intros b'. apply invD_same with (ts := ts); auto.
  - (* Use *)
    inversion He; subst s' l'; clear He.
    assert (Hau : after_unref l = None).
    { revert Hwb. destruct (after_unref l) as [[b0 z]|]; [|reflexivity]. intros [r [Hr _]]; discriminate Hr. }
    rewrite Hau in Hwb. destruct Hwb as [Hh Hwb].
    assert (Hnp : forall b', npend b' (set_nth t (l, rest) ts) = npend b' ts).
    { intros b'. destruct (Hset b') as [_ H2]. lia. }
    constructor; simpl.
    + intros b'. rewrite Hnp. apply HA.
    + intros b'. destruct (Hset b') as [H1 _]. specialize (HB b'). lia.
    + apply twb_set; [exact HC|]. unfold twb; simpl. rewrite Hau. exact Hwb.
    + intros b'. apply invD_same with (ts := ts); auto.
  - (* Send *)
    inversion He; subst s' l'; clear He.
    assert (Hau : after_unref l = None).
    { revert Hwb. destruct (after_unref l) as [[b0 z]|]; [|reflexivity]. intros [r [Hr _]]; discriminate Hr. }
    rewrite Hau in Hwb. destruct Hwb as [Hh Hwb].
    assert (Hnp : forall b', npend b' (set_nth t ({| held := upd (held l) b (held l b - 1); after_unref := after_unref l |}, rest) ts) = npend b' ts).
    { intros b'. destruct (Hset b') as [_ H2]. unfold npend_l in H2; simpl in H2. lia. }
    constructor; simpl.
    + intros b'. rewrite Hnp. apply HA.
    + intros b'. destruct (Hset b') as [H1 _]. simpl in H1. specialize (HB b'). upd_cases b' b; rewrite ?upd_eq in H1; [lia|].
      rewrite upd_neq in H1 by assumption. lia.
    + apply twb_set; [exact HC|]. unfold twb; simpl. rewrite Hau. exact Hwb.
    + intros b'. apply invD_silent with (ts := ts); auto.
  - (* Recv *)
    destruct (Nat.leb_spec 1 (inflight s b)) as [Hfl|]; [|discriminate].
    inversion He; subst s' l'; clear He.
    assert (Hau : after_unref l = None).
    { revert Hwb. destruct (after_unref l) as [[b0 z]|]; [|reflexivity]. intros [r [Hr _]]; discriminate Hr. }
    rewrite Hau in Hwb.
    assert (Hnp : forall b', npend b' (set_nth t ({| held := upd (held l) b (S (held l b)); after_unref := after_unref l |}, rest) ts) = npend b' ts).
    { intros b'. destruct (Hset b') as [_ H2]. unfold npend_l in H2; simpl in H2. lia. }
    constructor; simpl.
    + intros b'. rewrite Hnp. apply HA.
    + intros b'. destruct (Hset b') as [H1 _]. simpl in H1. specialize (HB b'). upd_cases b' b; rewrite ?upd_eq in H1; [lia|].
      rewrite upd_neq in H1 by assumption. lia.
    + apply twb_set; [exact HC|]. unfold twb; simpl. rewrite Hau. exact Hwb.
    + intros b'. apply invD_silent with (ts := ts); auto.
Qed.

(** the initial configuration satisfies the invariant when every program is
    well-bracketed (starting with no reference held) *)
Lemma init_inv : forall progs,
  Forall (wb (fun _ => 0)) progs -> Inv (init progs).
Proof.
  intros progs Hwb. unfold init.
  assert (Hz : forall (f : rthread -> nat), (forall p, f (local0, p) = 0) ->
               sum_map f (map (fun p => (local0, p)) progs) = 0).
  { intros f Hf. apply sum_map_zero. intros x Hin. apply in_map_iff in Hin.
    destruct Hin as [p [<- _]]. apply Hf. }
  constructor; simpl.
  - intros b. unfold npend. rewrite Hz; [reflexivity|]. intros p; reflexivity.
  - intros b. unfold theld. rewrite Hz; [reflexivity|]. intros p; reflexivity.
  - intros t th Hn. apply nth_error_In in Hn. apply in_map_iff in Hn.
    destruct Hn as [p [<- Hin]]. unfold twb; simpl.
    rewrite Forall_forall in Hwb. apply Hwb; exact Hin.
  - intros b. exists BNew. split; reflexivity.
Qed.

(** what the invariant gives in a configuration: the statement of safety *)
Definition next_ok (c : rconfig) (l : local) (a : act) : Prop :=
  match a with
  | Use b | Ref b | Unref b | Send b =>
      (* the acting thread holds a reference to a live buffer that is not in the pool *)
      pool (fst c) b = 0 /\ 1 <= rc (fst c) b /\ 1 <= held l b
  | Release b =>
      (* the buffer is put only when its count is 0 and nobody holds or carries a reference *)
      after_unref l = Some (b, true) ->
      rc (fst c) b = 0 /\ pool (fst c) b = 0 /\ theld b (snd c) = 0 /\ inflight (fst c) b = 0
  | Get _ | Recv _ => True
  end.

Definition safe (c : rconfig) : Prop :=
  (forall b, pool (fst c) b <= 1) /\
  (forall b, pool (fst c) b = 1 ->
     rc (fst c) b = 0 /\ theld b (snd c) = 0 /\ inflight (fst c) b = 0 /\ npend b (snd c) = 0) /\
  (forall t l a rest, nth_error (snd c) t = Some (l, a :: rest) -> next_ok c l a) /\
  trace_ok Nat.eqb (trace (fst c)).

Lemma inv_safe : forall c, Inv c -> safe c.
Proof.
  intros [s ts] [HA HB HC HD]; simpl in *. unfold safe; simpl.
  split; [|split; [|split]].
  - intros b. specialize (HA b). lia.
  - intros b Hp. specialize (HA b). specialize (HB b). pose proof (nz_spec (rc s b)). lia.
  - intros t l a rest Hn. pose proof (HC t _ Hn) as Hwb. unfold twb in Hwb; simpl in Hwb.
    pose proof (held_le_theld ts t l (a :: rest)) as Hle.
    pose proof (npend_l_le ts t l (a :: rest)) as Hnle.
    assert (Hlive : forall b, 1 <= held l b -> pool s b = 0 /\ 1 <= rc s b /\ 1 <= held l b).
    { intros b Hh. specialize (Hle b Hn). specialize (HA b). specialize (HB b).
      pose proof (nz_spec (rc s b)). lia. }
    destruct a as [b|b|b|b|b|b|b]; simpl; auto.
    + revert Hwb. destruct (after_unref l) as [[b0 z]|]; [intros [r [Hr _]]; discriminate Hr|].
      intros [Hh _]. auto.
    + revert Hwb. destruct (after_unref l) as [[b0 z]|]; [intros [r [Hr _]]; discriminate Hr|].
      destruct rest as [|[b1|b1|b1|b1|b1|b1|b1] rest']; simpl; try contradiction.
      intros [_ [Hh _]]. auto.
    + intros Hau. specialize (Hnle b Hn). unfold npend_l in Hnle. rewrite Hau, Nat.eqb_refl in Hnle.
      specialize (HA b). specialize (HB b). pose proof (nz_spec (rc s b)). lia.
    + revert Hwb. destruct (after_unref l) as [[b0 z]|]; [intros [r [Hr _]]; discriminate Hr|].
      intros [Hh _]. auto.
    + revert Hwb. destruct (after_unref l) as [[b0 z]|]; [intros [r [Hr _]]; discriminate Hr|].
      intros [Hh _]. auto.
  - intros b. destruct (HD b) as [st [Hc _]]. exists st; exact Hc.
Qed.

(** P1, all interleavings: every configuration of every run of any number of
    well-bracketed threads is safe. *)
Theorem refcount_safe : forall progs sched c,
  Forall (wb (fun _ => 0)) progs ->
  run rstep (init progs) sched = Some c -> safe c.
Proof.
  intros progs sched c Hwb Hrun. apply inv_safe.
  eapply (invariant_run _ _ rstep Inv); [|apply init_inv; exact Hwb|exact Hrun].
  intros c0 t c1 HI Hs. eapply step_inv; eauto.
Qed.

(** hence the recorded trace of every run is accepted by the trace checker *)
Corollary refcount_trace_accepted : forall progs sched c,
  Forall (wb (fun _ => 0)) progs ->
  run rstep (init progs) sched = Some c ->
  exists m, check_trace Nat.eqb (trace (fst c)) = inl m.
Proof.
  intros progs sched c Hwb Hrun. apply (check_trace_complete nat Nat.eqb Nat_eqb_spec').
  apply (refcount_safe progs sched c Hwb Hrun).
Qed.

(** facts about the automaton the checker runs: a put is accepted only in the
    state reached by the unref that took a pooled buffer from one reference
    to none, and after it only a get is accepted *)
Lemma put_only_at_zero : forall s s', buf_step s EPut = Some s' -> s = BZero /\ s' = BPooled.
Proof. intros [| |p n| |] s' H; simpl in H; try discriminate. inversion H; auto. Qed.

Lemma zero_only_by_last_unref : forall s e, buf_step s e = Some BZero -> s = BLive true 1 /\ e = EUnref.
Proof.
  intros [| |p n| |] [| | |] H; simpl in H; try discriminate.
  destruct n as [|[|m]]; try discriminate. destruct p; inversion H. auto.
Qed.

Lemma pooled_only_get : forall e s', buf_step BPooled e = Some s' -> e = EGet /\ s' = BLive true 1.
Proof. intros [| | |] s' H; simpl in H; try discriminate. inversion H; auto. Qed.

Lemma count_never_negative : forall p e s', buf_step (BLive p 0) e = Some s' -> e = ERef.
Proof. intros p [| | |] s' H; simpl in H; try discriminate; reflexivity. Qed.
