(** Proofs about Conc/GiveBack.v: with [forget = true], for every interleaving
    of any histories of Open / Read / Close calls (any number of Close calls
    per reader), a pooled thing has at most one owner: it is in the pool at
    most once, or held by exactly one reader and then not in the pool. *)
From Coq Require Import List Arith Bool Lia.
From PQ Require Import Conc.Sem Conc.SemProofs Conc.GiveBack.
Import ListNotations.

Notation kthread := (thread klocal kact).

Definition holds (i : nat) (th : kthread) : nat :=
  match krbuf (fst th) with
  | Some j => if Nat.eqb i j then 1 else 0
  | None => 0
  end.

Definition owners (i : nat) (c : kconfig) : nat :=
  count_occ Nat.eq_dec (kpool (fst c)) i + sum_map (holds i) (snd c).

Definition KInv (c : kconfig) : Prop :=
  (forall i, owners i c <= 1) /\ (forall i, knext (fst c) <= i -> owners i c = 0).

Lemma count_remove_nth : forall (l : list nat) k j i,
  nth_error l k = Some j ->
  count_occ Nat.eq_dec (remove_nth k l) i + (if Nat.eqb i j then 1 else 0) =
  count_occ Nat.eq_dec l i.
Proof.
  induction l as [|x r IH]; intros [|k] j i H; simpl in *; try discriminate.
  - inversion H; subst. destruct (Nat.eq_dec j i) as [->|Hne].
    + rewrite Nat.eqb_refl. lia.
    + destruct (Nat.eqb_spec i j); [congruence|lia].
  - specialize (IH k j i H). destruct (Nat.eq_dec x i); lia.
Qed.

Lemma sum_map_ge2 : forall {A} (f : A -> nat) l n m x y,
  n <> m -> nth_error l n = Some x -> nth_error l m = Some y -> f x + f y <= sum_map f l.
Proof.
  intros A f l; induction l as [|z r IH]; intros [|n] [|m] x y Hne Hx Hy; simpl in *;
    try discriminate; try congruence.
  - inversion Hx; subst. pose proof (sum_map_ge f r m y Hy). lia.
  - inversion Hy; subst. pose proof (sum_map_ge f r n x Hx). lia.
  - assert (n <> m) by congruence. specialize (IH n m x y H Hx Hy). lia.
Qed.

Lemma kinit_inv : forall progs, KInv (kinit progs).
Proof.
  intros progs. unfold KInv, owners, kinit; simpl.
  assert (Z : forall i, sum_map (holds i) (map (fun p => (mkKL None false, p)) progs) = 0).
  { intros i. induction progs as [|p r IH]; simpl; auto. }
  split; intros i; [|intros _]; rewrite Z; lia.
Qed.

Lemma holds_eq : forall i (l : klocal) (p : list kact),
  holds i (l, p) = match krbuf l with Some j => if Nat.eqb i j then 1 else 0 | None => 0 end.
Proof. reflexivity. Qed.

Ltac fin := unfold thread in *; lia.

Theorem kstep_inv : forall c t c', KInv c -> kstep true c t = Some c' -> KInv c'.
Proof.
  intros [s ts] t c' [H1 H2] Hs. unfold kstep, tstep in Hs; simpl in Hs.
  destruct (nth_error ts t) as [[l [|a rest]]|] eqn:Et; try discriminate.
  unfold owners in *; simpl in *.
  assert (SM : forall i x, sum_map (holds i) (set_nth t x ts) + holds i (l, a :: rest) =
                           sum_map (holds i) ts + holds i x).
  { intros i x. apply sum_map_set_nth. exact Et. }
  destruct a as [k| |]; simpl in Hs.
  - (* Open *)
    destruct (kopened l) eqn:Eo.
    + inversion Hs; subst; clear Hs. unfold KInv, owners; simpl.
      assert (E : forall i, holds i (l, rest) = holds i (l, KOpen k :: rest)) by reflexivity.
      split; intros i; [|intros Hi]; pose proof (SM i (l, rest)); rewrite E in *;
        [specialize (H1 i)|specialize (H2 i Hi)]; fin.
    + destruct (nth_error (kpool s) k) as [j|] eqn:Ek; inversion Hs; subst; clear Hs;
        unfold KInv, owners; simpl.
      * pose proof (fun i => count_remove_nth (kpool s) k j i Ek) as CR.
        split; intros i; [|intros Hi]; pose proof (SM i (mkKL (Some j) true, rest)) as S1;
          specialize (CR i); rewrite !holds_eq in S1; simpl in S1;
          [specialize (H1 i)|specialize (H2 i Hi)]; fin.
      * split; intros i; [|intros Hi]; pose proof (SM i (mkKL (Some (knext s)) true, rest)) as S1;
          rewrite !holds_eq in S1; simpl in S1.
        -- pose proof (H2 (knext s) (le_n _)) as Z. specialize (H1 i).
           destruct (Nat.eqb_spec i (knext s)) as [Heq|Hne]; [rewrite Heq in *|]; fin.
        -- pose proof (H2 i) as Z.
           destruct (Nat.eqb_spec i (knext s)) as [Heq|Hne]; fin.
  - (* Read *)
    inversion Hs; subst; clear Hs. unfold KInv, owners; simpl.
    assert (E : forall i, holds i (l, rest) = holds i (l, KRead :: rest)) by reflexivity.
    split; intros i; [|intros Hi]; pose proof (SM i (l, rest)); rewrite E in *;
      [specialize (H1 i)|specialize (H2 i Hi)]; fin.
  - (* Close, forgetting *)
    inversion Hs; subst; clear Hs. unfold KInv, owners; simpl.
    destruct (krbuf l) as [j|] eqn:Er; simpl.
    + split; intros i; [|intros Hi]; pose proof (SM i (mkKL None false, rest)) as S1;
        rewrite !holds_eq in S1; simpl in S1; rewrite Er in S1;
        [specialize (H1 i)|specialize (H2 i Hi)];
        destruct (Nat.eq_dec j i) as [->|Hne];
        try rewrite Nat.eqb_refl in S1;
        try (destruct (Nat.eqb_spec i j); [congruence|]); fin.
    + split; intros i; [|intros Hi]; pose proof (SM i (mkKL None false, rest)) as S1;
        rewrite !holds_eq in S1; simpl in S1; rewrite Er in S1;
        [specialize (H1 i)|specialize (H2 i Hi)]; fin.
Qed.

Lemma kinv_safe : forall c, KInv c ->
  NoDup (kpool (fst c)) /\
  (forall t l p i, nth_error (snd c) t = Some (l, p) -> krbuf l = Some i -> ~ In i (kpool (fst c))) /\
  (forall t1 t2 i, ~ shared_by c t1 t2 i).
Proof.
  intros c [H1 _]. unfold owners in H1. repeat split.
  - apply (NoDup_count_occ Nat.eq_dec). intros i. specialize (H1 i). lia.
  - intros t l p i Ht Hr Hin.
    apply (count_occ_In Nat.eq_dec) in Hin.
    pose proof (sum_map_ge (holds i) (snd c) t (l, p) Ht) as G.
    rewrite holds_eq in G. rewrite Hr, Nat.eqb_refl in G. unfold thread in *.
    specialize (H1 i). lia.
  - intros t1 t2 i [Hne [l1 [p1 [l2 [p2 [E1 [E2 [_ [_ [R1 R2]]]]]]]]]].
    pose proof (sum_map_ge2 (holds i) (snd c) t1 t2 _ _ Hne E1 E2) as G.
    rewrite !holds_eq in G. rewrite R1, R2, Nat.eqb_refl in G. unfold thread in *.
    specialize (H1 i). lia.
Qed.

Theorem give_back_once : forall progs sched c,
  run (kstep true) (kinit progs) sched = Some c ->
  NoDup (kpool (fst c)) /\
  (forall t l p i, nth_error (snd c) t = Some (l, p) -> krbuf l = Some i -> ~ In i (kpool (fst c))) /\
  (forall t1 t2 i, ~ shared_by c t1 t2 i).
Proof.
  intros progs sched c Hr. apply kinv_safe.
  eapply (invariant_run _ _ (kstep true) KInv); [|apply kinit_inv|exact Hr].
  intros c1 l c2 Hi Hs. eapply kstep_inv; eauto.
Qed.
