(** Proofs about the ownership layer (C16): in every reachable state every
    value the caller is entitled to references memory that nobody may
    overwrite, and holds the content it had when it was handed out. *)
From Coq Require Import List Arith Bool Lia.
From PQ Require Import Conc.Sem Conc.SemProofs Conc.Ownership.
Import ListNotations.

Definition cell_ok (x : cell) : Prop :=
  match ctag x with
  | TLive n => 1 <= n /\ n = (match cowner x with Some _ => 1 | None => 0 end) + ccaller x /\
               (cowner x <> None -> ccaller x = 0)
  | _ => cowner x = None /\ ccaller x = 0
  end.

(* the referenced cell holds the content of the hand-out and is caller
   memory, detached, or a live buffer retained for exactly this window *)
Definition value_inv (h : list cell) (rds : list reader) (w : window) (v : value) : Prop :=
  forall c, vcell v = Some c ->
    exists x, nth_error h c = Some x /\ cval x = vsnap v /\
      (ctag x = TCaller \/ ctag x = TDetached \/
       (exists n r rd, ctag x = TLive n /\ w = WUntilNext r /\ cowner x = Some r /\
                       nth_error rds r = Some rd /\ rbytes rd = true) \/
       (exists n, ctag x = TLive n /\ w = WWhileHeld c /\ 1 <= ccaller x)).

Record OInv (st : ostate) : Prop := mkOInv {
  o_cells : forall c x, nth_error (heap st) c = Some x -> cell_ok x;
  o_page : forall r rd c, nth_error (readers st) r = Some rd -> rpage rd = Some c ->
             exists x, nth_error (heap st) c = Some x /\ cowner x = Some r;
  o_owner : forall c x r, nth_error (heap st) c = Some x -> cowner x = Some r ->
             exists rd, nth_error (readers st) r = Some rd /\ rpage rd = Some c;
  o_flags : forall r rd, nth_error (readers st) r = Some rd -> rbytes rd = true -> rdetach rd = true;
  o_held : forall b v, In b (held st) -> In v (bvals b) -> value_inv (heap st) (readers st) (bwin b) v
}.

(** ** list lemmas *)
Lemma pooled_or_fresh_spec : forall h c, is_pooled_or_fresh h c = true ->
  (exists x, nth_error h c = Some x /\ ctag x = TPooled) \/ (nth_error h c = None /\ c = length h).
Proof.
  intros h c H. unfold is_pooled_or_fresh in H. destruct (nth_error h c) as [x|] eqn:E.
  - left. exists x. split; auto. destruct (ctag x); try discriminate; reflexivity.
  - right. split; auto. apply Nat.eqb_eq; auto.
Qed.

Lemma nth_error_put_cell : forall h c x c', is_pooled_or_fresh h c = true ->
  nth_error (put_cell h c x) c' = if Nat.eqb c' c then Some x else nth_error h c'.
Proof.
  intros h c x c' H. unfold put_cell.
  destruct (pooled_or_fresh_spec h c H) as [[y [Hy _]]|[Hn Hl]].
  - assert (Hlt : c < length h) by (apply nth_error_Some; congruence).
    destruct (Nat.ltb_spec c (length h)); [|lia].
    rewrite nth_error_set_nth. rewrite Nat.eqb_sym.
    destruct (Nat.eqb c' c); auto. destruct (Nat.ltb_spec c (length h)); [auto|lia].
  - destruct (Nat.ltb_spec c (length h)); [lia|]. subst c.
    destruct (Nat.eqb_spec c' (length h)) as [->|Hne].
    + rewrite nth_error_app2 by lia. rewrite Nat.sub_diag. reflexivity.
    + destruct (Nat.lt_ge_cases c' (length h)).
      * apply nth_error_app1; auto.
      * assert (nth_error h c' = None) by (apply nth_error_None; lia).
        rewrite H2. apply nth_error_None. rewrite app_length; simpl; lia.
Qed.

Lemma nth_error_set_nth_some : forall {A} (l : list A) c x c' y,
  nth_error l c = Some y ->
  nth_error (set_nth c x l) c' = if Nat.eqb c' c then Some x else nth_error l c'.
Proof.
  intros A l c x c' y H. rewrite nth_error_set_nth. rewrite Nat.eqb_sym.
  destruct (Nat.eqb c' c); auto.
  assert (c < length l) by (apply nth_error_Some; congruence).
  destruct (Nat.ltb_spec c (length l)); [auto|lia].
Qed.

Lemma win_eqb_eq : forall a b, win_eqb a b = true <-> a = b.
Proof.
  intros [|a|a] [|b|b]; simpl; split; intros H; try discriminate; try reflexivity;
    try (apply Nat.eqb_eq in H; subst; reflexivity);
    try (inversion H; subst; apply Nat.eqb_refl).
Qed.

Lemma in_drop_win : forall w l b, In b (drop_win w l) -> In b l /\ bwin b <> w.
Proof.
  intros w l b H. unfold drop_win in H. apply filter_In in H. destruct H as [H1 H2].
  split; auto. intros Heq. apply negb_true_iff in H2. apply win_eqb_eq in Heq. congruence.
Qed.

Lemma in_drop_id : forall i l b, In b (drop_id i l) -> In b l.
Proof. intros i l b H. unfold drop_id in H. apply filter_In in H. tauto. Qed.

Lemma in_add_value : forall i w v l b v',
  In b (add_value i w v l) -> In v' (bvals b) ->
  (In b l) \/
  (bwin b = w /\ (v' = v \/ exists b0, In b0 l /\ bwin b0 = w /\ In v' (bvals b0))).
Proof.
  intros i w v l; induction l as [|b0 r IH]; intros b v' Hb Hv; simpl in *.
  - destruct Hb as [<-|[]]. simpl in *. destruct Hv as [<-|[]]. right; auto.
  - destruct (Nat.eqb (bid b0) i && win_eqb (bwin b0) w) eqn:E.
    + destruct Hb as [<-|Hb]; [|left; auto]. simpl in *.
      apply andb_true_iff in E. destruct E as [_ E]. apply win_eqb_eq in E.
      right. split; auto. apply in_app_or in Hv. destruct Hv as [Hv|[<-|[]]]; auto.
      right. exists b0. auto.
    + destruct Hb as [<-|Hb]; [left; auto|].
      destruct (IH b v' Hb Hv) as [H|[H1 [H2|[b1 [H3 H4]]]]]; auto.
      right. split; auto. right. exists b1. auto.
Qed.

(** ** frame lemmas for [value_inv] *)
Lemma value_inv_frame : forall h rds h' rds' w v,
  value_inv h rds w v ->
  (forall c x, vcell v = Some c -> nth_error h c = Some x -> nth_error h' c = Some x) ->
  (forall r rd, nth_error rds r = Some rd -> exists rd', nth_error rds' r = Some rd' /\ rbytes rd' = rbytes rd) ->
  value_inv h' rds' w v.
Proof.
  intros h rds h' rds' w v Hv Hh Hr c Hc. destruct (Hv c Hc) as [x [Hx [Hval Htag]]].
  exists x. split; [apply Hh; auto|]. split; auto.
  destruct Htag as [H|[H|[[n [r [rd [H1 [H2 [H3 [H4 H5]]]]]]]|H]]]; auto.
  right; right; left. destruct (Hr r rd H4) as [rd' [H6 H7]].
  exists n, r, rd'. repeat split; auto. congruence.
Qed.

Lemma readers_same : forall (rds : list reader) r rd,
  nth_error rds r = Some rd -> exists rd', nth_error rds r = Some rd' /\ rbytes rd' = rbytes rd.
Proof. intros; eauto. Qed.

Lemma readers_set : forall (rds : list reader) r0 rd0 rd0' r rd,
  nth_error rds r0 = Some rd0 -> rbytes rd0' = rbytes rd0 ->
  nth_error rds r = Some rd ->
  exists rd', nth_error (set_nth r0 rd0' rds) r = Some rd' /\ rbytes rd' = rbytes rd.
Proof.
  intros rds r0 rd0 rd0' r rd H0 Hb H. rewrite (nth_error_set_nth_some rds r0 rd0' r rd0 H0).
  destruct (Nat.eqb_spec r r0) as [->|Hne]; [|eauto].
  exists rd0'. split; auto. congruence.
Qed.

(* no entitled value references a pooled or an unallocated cell *)
Lemma value_not_pooled : forall h rds w v c,
  value_inv h rds w v -> vcell v = Some c ->
  (exists x, nth_error h c = Some x /\ ctag x = TPooled) \/ nth_error h c = None -> False.
Proof.
  intros h rds w v c Hv Hc H. destruct (Hv c Hc) as [x [Hx [_ Htag]]].
  destruct H as [[y [Hy Hp]]|Hn]; [|congruence].
  rewrite Hx in Hy; inversion Hy; subst y.
  destruct Htag as [H|[H|[[n [r [rd [H1 _]]]]|[n [H1 _]]]]]; congruence.
Qed.

Section Step.
  Variable pagefun : nat -> nat -> nat.
  Notation ostep := (ostep pagefun).

  Lemma copy_values_spec : forall vs h h' vs',
    copy_values h vs = (h', vs') ->
    (forall v c, In v vs -> vcell v = Some c -> exists x, nth_error h c = Some x /\ cval x = vsnap v) ->
    (exists ext, h' = h ++ ext /\ forall x, In x ext -> ctag x = TCaller /\ cowner x = None /\ ccaller x = 0) /\
    (forall v' c, In v' vs' -> vcell v' = Some c ->
       exists x, nth_error h' c = Some x /\ cval x = vsnap v' /\ ctag x = TCaller).
  Proof.
    induction vs as [|v r IH]; intros h h' vs' Hc Hsrc; simpl in Hc.
    - inversion Hc; subst. split; [exists []; rewrite app_nil_r; split; auto; intros x []|intros v' c []].
    - destruct (vcell v) as [c0|] eqn:Ev.
      + destruct (copy_values (h ++ [mkCell TCaller match nth_error h c0 with Some x => cval x | None => 0 end None 0]) r)
          as [h1 r1] eqn:E1.
        inversion Hc; subst h' vs'; clear Hc.
        destruct (Hsrc v c0 (or_introl eq_refl) Ev) as [x0 [Hx0 Hv0]]. rewrite Hx0 in E1.
        destruct (IH _ _ _ E1) as [[ext [Hext Hall]] Hnew].
        { intros v1 c1 Hin Hc1. destruct (Hsrc v1 c1 (or_intror Hin) Hc1) as [x1 [Hx1 Hv1]].
          exists x1. split; auto. rewrite nth_error_app1; auto. apply nth_error_Some; congruence. }
        split.
        * exists (mkCell TCaller (cval x0) None 0 :: ext). split.
          -- rewrite Hext, <- app_assoc. reflexivity.
          -- intros x [<-|Hin]; simpl; auto.
        * intros v' c [<-|Hin] Hc'; simpl in *.
          -- inversion Hc'; subst c. exists (mkCell TCaller (cval x0) None 0).
             rewrite Hext, <- app_assoc. rewrite nth_error_app2 by lia. rewrite Nat.sub_diag. simpl. auto.
          -- apply Hnew; auto.
      + destruct (copy_values h r) as [h1 r1] eqn:E1. inversion Hc; subst h' vs'; clear Hc.
        destruct (IH _ _ _ E1) as [Hext Hnew].
        { intros v1 c1 Hin Hc1. apply (Hsrc v1 c1 (or_intror Hin) Hc1). }
        split; auto. intros v' c [<-|Hin] Hc'; [congruence|]. apply Hnew; auto.
  Qed.

  Lemma find_batch_in : forall i l b, find_batch i l = Some b -> In b l.
  Proof. intros i l b H. unfold find_batch in H. apply find_some in H. tauto. Qed.

  Theorem ostep_inv : forall st l st', OInv st -> ostep st l = Some st' -> OInv st'.
  Proof.
    intros [h rds hl] l st' [Hcells Hpage Howner Hflags Hheld] Hstep; simpl in *.
    destruct l as [r|r|r c|r b|r closed pos|b b'|b|r c b|c|c|c v|src c];
      unfold Ownership.ostep in Hstep; cbn [heap readers held] in Hstep.
    - (* PEnd *)
      inversion Hstep; subst st'; clear Hstep. constructor; simpl; auto.
      intros b v Hb Hv. apply in_drop_win in Hb. destruct Hb as [Hb _]. apply Hheld; auto.
    - (* PRelease *)
      destruct (nth_error rds r) as [rd|] eqn:Er; [|discriminate].
      destruct (rpage rd) as [c|] eqn:Ep; [|discriminate].
      destruct (nth_error h c) as [x|] eqn:Ex; [|discriminate].
      inversion Hstep; subst st'; clear Hstep.
      destruct (Hpage r rd c Er Ep) as [x0 [Hx0 Hown]]. rewrite Ex in Hx0; inversion Hx0; subst x0; clear Hx0.
      pose proof (Hcells c x Ex) as Hok. unfold cell_ok in Hok.
      destruct (ctag x) as [n| | |] eqn:Et; try (destruct Hok as [Hn _]; congruence).
      destruct Hok as [Hn1 [Hn2 Hn3]]. rewrite Hown in Hn2, Hn3.
      assert (Hcc : ccaller x = 0) by (apply Hn3; discriminate).
      assert (Hn : n = 1) by lia. subst n.
      set (x' := if rdetach rd then mkCell TDetached (cval x) None 0 else unref_cell x None (ccaller x)).
      assert (Hx' : (rdetach rd = true /\ x' = mkCell TDetached (cval x) None 0) \/
                    (rdetach rd = false /\ x' = mkCell TPooled poison None 0)).
      { unfold x'. destruct (rdetach rd); [left; auto|right]. split; auto.
        unfold unref_cell. rewrite Et. simpl. rewrite Hcc. reflexivity. }
      constructor; simpl.
      + intros c' y Hy. rewrite (nth_error_set_nth_some h c x' c' x Ex) in Hy.
        destruct (Nat.eqb_spec c' c) as [->|Hne]; [|eapply Hcells; eauto].
        inversion Hy; subst y. destruct Hx' as [[_ ->]|[_ ->]]; unfold cell_ok; simpl; auto.
      + intros r' rd' c' Hr' Hp'. rewrite (nth_error_set_nth_some rds r _ r' rd Er) in Hr'.
        destruct (Nat.eqb_spec r' r) as [->|Hne].
        * inversion Hr'; subst rd'. simpl in Hp'. discriminate.
        * destruct (Hpage r' rd' c' Hr' Hp') as [y [Hy Hyo]]. exists y. split; auto.
          rewrite (nth_error_set_nth_some h c x' c' x Ex).
          destruct (Nat.eqb_spec c' c) as [->|Hne2]; auto.
          rewrite Ex in Hy; inversion Hy; subst y. rewrite Hown in Hyo. inversion Hyo; congruence.
      + intros c' y r' Hy Hyo. rewrite (nth_error_set_nth_some h c x' c' x Ex) in Hy.
        destruct (Nat.eqb_spec c' c) as [->|Hne].
        * inversion Hy; subst y. destruct Hx' as [[_ ->]|[_ ->]]; simpl in Hyo; discriminate.
        * destruct (Howner c' y r' Hy Hyo) as [rd' [Hr' Hp']].
          rewrite (nth_error_set_nth_some rds r _ r' rd Er).
          destruct (Nat.eqb_spec r' r) as [->|Hne2]; [|eauto].
          rewrite Er in Hr'; inversion Hr'; subst rd'. congruence.
      + intros r' rd' Hr' Hb'. rewrite (nth_error_set_nth_some rds r _ r' rd Er) in Hr'.
        destruct (Nat.eqb_spec r' r) as [->|Hne]; [|eapply Hflags; eauto].
        inversion Hr'; subst rd'. simpl in *. eapply Hflags; eauto.
      + intros b v Hb Hv c' Hc'. destruct (Hheld b v Hb Hv c' Hc') as [y [Hy [Hval Htag]]].
        rewrite (nth_error_set_nth_some h c x' c' x Ex).
        destruct (Nat.eqb_spec c' c) as [->|Hne].
        * rewrite Ex in Hy; inversion Hy; subst y.
          destruct Htag as [H|[H|[[n [r0 [rd0 [H1 [H2 [H3 [H4 H5]]]]]]]|[n [H1 [H2 H3]]]]]]; try congruence; try lia.
          rewrite Hown in H3; inversion H3; subst r0. rewrite Er in H4; inversion H4; subst rd0.
          pose proof (Hflags r rd Er H5) as Hdet.
          destruct Hx' as [[_ ->]|[Hd _]]; [|congruence].
          exists (mkCell TDetached (cval x) None 0). simpl. auto.
        * exists y. split; auto. split; auto.
          destruct Htag as [H|[H|[[n [r0 [rd0 [H1 [H2 [H3 [H4 H5]]]]]]]|H]]]; auto.
          right; right; left.
          destruct (readers_set rds r rd (mkReader None (rdetach rd) (rbytes rd) (rclosed rd) (rpos rd)) r0 rd0 Er eq_refl H4)
            as [rd1 [H6 H7]].
          exists n, r0, rd1. repeat split; auto. congruence.
    - (* PLoad *)
      destruct (nth_error rds r) as [rd|] eqn:Er; [|discriminate].
      destruct (rpage rd) as [c0|] eqn:Ep; [discriminate|].
      destruct (negb (rclosed rd) && is_pooled_or_fresh h c) eqn:Eg; [|discriminate].
      apply andb_true_iff in Eg. destruct Eg as [_ Epf].
      inversion Hstep; subst st'; clear Hstep.
      pose proof (pooled_or_fresh_spec h c Epf) as Hpf.
      set (x' := mkCell (TLive 1) (pagefun r (rpos rd)) (Some r) 0).
      assert (Hnoown : forall y r', nth_error h c = Some y -> cowner y = Some r' -> False).
      { intros y r' Hy Hyo. destruct Hpf as [[z [Hz Hzt]]|[Hn _]]; [|congruence].
        rewrite Hy in Hz; inversion Hz; subst z. pose proof (Hcells c y Hy) as Hok.
        unfold cell_ok in Hok. rewrite Hzt in Hok. destruct Hok; congruence. }
      constructor; simpl.
      + intros c' y Hy. rewrite (nth_error_put_cell h c x' c' Epf) in Hy.
        destruct (Nat.eqb_spec c' c) as [->|Hne]; [|eapply Hcells; eauto].
        inversion Hy; subst y. unfold cell_ok; simpl. repeat split; auto.
      + intros r' rd' c' Hr' Hp'. rewrite (nth_error_set_nth_some rds r _ r' rd Er) in Hr'.
        rewrite (nth_error_put_cell h c x' c' Epf).
        destruct (Nat.eqb_spec r' r) as [->|Hne].
        * inversion Hr'; subst rd'. simpl in Hp'. inversion Hp'; subst c'.
          rewrite Nat.eqb_refl. exists x'. auto.
        * destruct (Hpage r' rd' c' Hr' Hp') as [y [Hy Hyo]].
          destruct (Nat.eqb_spec c' c) as [->|Hne2]; [exfalso; eapply Hnoown; eauto|eauto].
      + intros c' y r' Hy Hyo. rewrite (nth_error_put_cell h c x' c' Epf) in Hy.
        rewrite (nth_error_set_nth_some rds r _ r' rd Er).
        destruct (Nat.eqb_spec c' c) as [->|Hne].
        * inversion Hy; subst y. simpl in Hyo. inversion Hyo; subst r'.
          rewrite Nat.eqb_refl. eexists; split; [reflexivity|reflexivity].
        * destruct (Howner c' y r' Hy Hyo) as [rd' [Hr' Hp']].
          destruct (Nat.eqb_spec r' r) as [->|Hne2]; [|eauto].
          rewrite Er in Hr'; inversion Hr'; subst rd'. congruence.
      + intros r' rd' Hr' Hb'. rewrite (nth_error_set_nth_some rds r _ r' rd Er) in Hr'.
        destruct (Nat.eqb_spec r' r) as [->|Hne]; [|eapply Hflags; eauto].
        inversion Hr'; subst rd'. simpl in *. eapply Hflags; eauto.
      + intros b v Hb Hv. eapply value_inv_frame; [apply Hheld; eauto| |].
        * intros c' y Hc' Hy. rewrite (nth_error_put_cell h c x' c' Epf).
          destruct (Nat.eqb_spec c' c) as [->|Hne]; auto.
          exfalso. eapply (value_not_pooled h rds (bwin b) v c); eauto.
          destruct Hpf as [[z [Hz Hzt]]|[Hn _]]; [left; eauto|right; auto].
        * intros r0 rd0 H0. eapply readers_set; eauto.
    - (* PCollect *)
      destruct (nth_error rds r) as [rd|] eqn:Er; [|discriminate].
      destruct (rpage rd) as [c|] eqn:Ep; [|discriminate].
      destruct (nth_error h c) as [x|] eqn:Ex; [|discriminate].
      inversion Hstep; subst st'; clear Hstep.
      destruct (Hpage r rd c Er Ep) as [x0 [Hx0 Hown]]. rewrite Ex in Hx0; inversion Hx0; subst x0; clear Hx0.
      pose proof (Hcells c x Ex) as Hok. unfold cell_ok in Hok.
      destruct (ctag x) as [n| | |] eqn:Et; try (destruct Hok as [Hn _]; congruence).
      constructor; simpl; auto.
      intros b0 v Hb Hv.
      destruct (in_add_value _ _ _ _ _ _ Hb Hv) as [Hold|[Hw [->|[b1 [Hb1 [Hw1 Hv1]]]]]].
      + apply Hheld; auto.
      + intros c' Hc'. simpl in Hc'. destruct (rbytes rd) eqn:Eb; [|discriminate].
        inversion Hc'; subst c'. exists x. simpl. repeat split; auto.
        right; right; left. exists n, r, rd. rewrite Hw. repeat split; auto.
      + rewrite Hw, <- Hw1. apply Hheld; auto.
    - (* PSetReader *)
      destruct (nth_error rds r) as [rd|] eqn:Er; [|discriminate].
      destruct (rpage rd) as [c0|] eqn:Ep; [discriminate|].
      inversion Hstep; subst st'; clear Hstep. constructor; simpl; auto.
      + intros r' rd' c' Hr' Hp'. rewrite (nth_error_set_nth_some rds r _ r' rd Er) in Hr'.
        destruct (Nat.eqb_spec r' r) as [->|Hne]; [|eauto].
        inversion Hr'; subst rd'. simpl in Hp'. discriminate.
      + intros c' y r' Hy Hyo. destruct (Howner c' y r' Hy Hyo) as [rd' [Hr' Hp']].
        rewrite (nth_error_set_nth_some rds r _ r' rd Er).
        destruct (Nat.eqb_spec r' r) as [->|Hne2]; [|eauto].
        rewrite Er in Hr'; inversion Hr'; subst rd'. congruence.
      + intros r' rd' Hr' Hb'. rewrite (nth_error_set_nth_some rds r _ r' rd Er) in Hr'.
        destruct (Nat.eqb_spec r' r) as [->|Hne]; [|eapply Hflags; eauto].
        inversion Hr'; subst rd'. simpl in *. eapply Hflags; eauto.
      + intros b v Hb Hv. eapply value_inv_frame; [apply Hheld; eauto|auto|].
        intros r0 rd0 H0. eapply readers_set; eauto.
    - (* PCopy *)
      destruct (find_batch b hl) as [bt|] eqn:Ef; [|discriminate].
      destruct (copy_values h (bvals bt)) as [h' vs'] eqn:Ec.
      inversion Hstep; subst st'; clear Hstep.
      pose proof (find_batch_in _ _ _ Ef) as Hbt.
      destruct (copy_values_spec _ _ _ _ Ec) as [[ext [Hext Hall]] Hnew].
      { intros v c Hv Hc. destruct (Hheld bt v Hbt Hv c Hc) as [x [Hx [Hval _]]]. eauto. }
      assert (Hold : forall c x, nth_error h c = Some x -> nth_error h' c = Some x).
      { intros c x Hx. rewrite Hext. rewrite nth_error_app1; auto. apply nth_error_Some; congruence. }
      assert (Hnewcell : forall c x, nth_error h' c = Some x -> nth_error h c = Some x \/ In x ext).
      { intros c x Hx. rewrite Hext in Hx. destruct (Nat.lt_ge_cases c (length h)).
        - rewrite nth_error_app1 in Hx by auto. auto.
        - rewrite nth_error_app2 in Hx by auto. right. eapply nth_error_In; eauto. }
      constructor; simpl; auto.
      + intros c x Hx. destruct (Hnewcell c x Hx) as [H|H]; [eapply Hcells; eauto|].
        destruct (Hall x H) as [H1 [H2 H3]]. unfold cell_ok. rewrite H1. auto.
      + intros r rd c Hr Hp. destruct (Hpage r rd c Hr Hp) as [x [Hx Ho]]. eauto.
      + intros c x r Hx Ho. destruct (Hnewcell c x Hx) as [H|H]; [eapply Howner; eauto|].
        destruct (Hall x H) as [_ [H2 _]]. congruence.
      + intros b0 v Hb Hv. apply in_app_or in Hb. destruct Hb as [Hb|[<-|[]]].
        * eapply value_inv_frame; [apply Hheld; eauto| |apply readers_same].
          intros c x _ Hx. auto.
        * simpl in *. intros c Hc. destruct (Hnew v c Hv Hc) as [x [Hx [Hval Htag]]].
          exists x. auto.
    - (* PDrop *)
      inversion Hstep; subst st'; clear Hstep. constructor; simpl; auto.
      intros b0 v Hb Hv. apply in_drop_id in Hb. apply Hheld; auto.
    - (* PReadPage *)
      destruct (nth_error rds r) as [rd|] eqn:Er; [|discriminate].
      destruct (negb (rclosed rd) && is_pooled_or_fresh h c) eqn:Eg; [|discriminate].
      apply andb_true_iff in Eg. destruct Eg as [_ Epf].
      inversion Hstep; subst st'; clear Hstep.
      pose proof (pooled_or_fresh_spec h c Epf) as Hpf.
      set (x' := mkCell (TLive 1) (pagefun r (rpos rd)) None 1).
      assert (Hnoown : forall y r', nth_error h c = Some y -> cowner y = Some r' -> False).
      { intros y r' Hy Hyo. destruct Hpf as [[z [Hz Hzt]]|[Hn _]]; [|congruence].
        rewrite Hy in Hz; inversion Hz; subst z. pose proof (Hcells c y Hy) as Hok.
        unfold cell_ok in Hok. rewrite Hzt in Hok. destruct Hok; congruence. }
      constructor; simpl.
      + intros c' y Hy. rewrite (nth_error_put_cell h c x' c' Epf) in Hy.
        destruct (Nat.eqb_spec c' c) as [->|Hne]; [|eapply Hcells; eauto].
        inversion Hy; subst y. unfold cell_ok; simpl. repeat split; auto. intros H; congruence.
      + intros r' rd' c' Hr' Hp'. rewrite (nth_error_set_nth_some rds r _ r' rd Er) in Hr'.
        rewrite (nth_error_put_cell h c x' c' Epf).
        assert (Hpg : exists rd0, nth_error rds r' = Some rd0 /\ rpage rd0 = Some c').
        { destruct (Nat.eqb_spec r' r) as [->|Hne]; [|eauto].
          inversion Hr'; subst rd'. simpl in Hp'. eauto. }
        destruct Hpg as [rd0 [Hr0 Hp0]]. destruct (Hpage r' rd0 c' Hr0 Hp0) as [y [Hy Hyo]].
        destruct (Nat.eqb_spec c' c) as [->|Hne2]; [exfalso; eapply Hnoown; eauto|eauto].
      + intros c' y r' Hy Hyo. rewrite (nth_error_put_cell h c x' c' Epf) in Hy.
        rewrite (nth_error_set_nth_some rds r _ r' rd Er).
        destruct (Nat.eqb_spec c' c) as [->|Hne].
        * inversion Hy; subst y. simpl in Hyo. discriminate.
        * destruct (Howner c' y r' Hy Hyo) as [rd' [Hr' Hp']].
          destruct (Nat.eqb_spec r' r) as [->|Hne2]; [|eauto].
          rewrite Er in Hr'; inversion Hr'; subst rd'. eexists; split; [reflexivity|]. simpl. auto.
      + intros r' rd' Hr' Hb'. rewrite (nth_error_set_nth_some rds r _ r' rd Er) in Hr'.
        destruct (Nat.eqb_spec r' r) as [->|Hne]; [|eapply Hflags; eauto].
        inversion Hr'; subst rd'. simpl in *. eapply Hflags; eauto.
      + intros b0 v Hb Hv. apply in_app_or in Hb. destruct Hb as [Hb|[<-|[]]].
        * eapply value_inv_frame; [apply Hheld; eauto| |].
          -- intros c' y Hc' Hy. rewrite (nth_error_put_cell h c x' c' Epf).
             destruct (Nat.eqb_spec c' c) as [->|Hne]; auto.
             exfalso. eapply (value_not_pooled h rds (bwin b0) v c); eauto.
             destruct Hpf as [[z [Hz Hzt]]|[Hn _]]; [left; eauto|right; auto].
          -- intros r0 rd0 H0. eapply readers_set; eauto.
        * simpl in *. destruct Hv as [<-|[]]. intros c' Hc'. simpl in Hc'. inversion Hc'; subst c'.
          exists x'. rewrite (nth_error_put_cell h c x' c Epf), Nat.eqb_refl. simpl.
          repeat split; auto. right; right; right. exists 1. auto.
    - (* PRetain *)
      destruct (nth_error h c) as [x|] eqn:Ex; [|discriminate].
      destruct (ctag x) as [n| | |] eqn:Et; try discriminate.
      destruct (Nat.leb_spec 1 (ccaller x)) as [Hcc|]; [|discriminate].
      inversion Hstep; subst st'; clear Hstep.
      pose proof (Hcells c x Ex) as Hok. unfold cell_ok in Hok. rewrite Et in Hok.
      destruct Hok as [Hn1 [Hn2 Hn3]].
      assert (Hno : cowner x = None).
      { destruct (cowner x) eqn:Eo; [|reflexivity]. assert (ccaller x = 0) by (apply Hn3; discriminate). lia. }
      set (x' := mkCell (TLive (S n)) (cval x) (cowner x) (S (ccaller x))).
      constructor; simpl; auto.
      + intros c' y Hy. rewrite (nth_error_set_nth_some h c x' c' x Ex) in Hy.
        destruct (Nat.eqb_spec c' c) as [->|Hne]; [|eapply Hcells; eauto].
        inversion Hy; subst y. unfold cell_ok; simpl. rewrite Hno in *. repeat split; auto; try lia.
        intros H; congruence.
      + intros r rd c' Hr Hp. destruct (Hpage r rd c' Hr Hp) as [y [Hy Hyo]].
        rewrite (nth_error_set_nth_some h c x' c' x Ex).
        destruct (Nat.eqb_spec c' c) as [->|Hne]; [|eauto].
        rewrite Ex in Hy; inversion Hy; subst y. congruence.
      + intros c' y r Hy Hyo. rewrite (nth_error_set_nth_some h c x' c' x Ex) in Hy.
        destruct (Nat.eqb_spec c' c) as [->|Hne]; [|eapply Howner; eauto].
        inversion Hy; subst y. simpl in Hyo. congruence.
      + intros b v Hb Hv c' Hc'. destruct (Hheld b v Hb Hv c' Hc') as [y [Hy [Hval Htag]]].
        rewrite (nth_error_set_nth_some h c x' c' x Ex).
        destruct (Nat.eqb_spec c' c) as [->|Hne]; [|eauto].
        rewrite Ex in Hy; inversion Hy; subst y. exists x'. simpl. repeat split; auto.
        destruct Htag as [H|[H|[[n0 [r0 [rd0 [H1 [H2 [H3 _]]]]]]|[n0 [H1 [H2 H3]]]]]]; try congruence.
        right; right; right. exists (S n). repeat split; auto; lia.
    - (* PReleaseC *)
      destruct (nth_error h c) as [x|] eqn:Ex; [|discriminate].
      destruct (Nat.leb_spec 1 (ccaller x)) as [Hcc|]; [|discriminate].
      inversion Hstep; subst st'; clear Hstep.
      pose proof (Hcells c x Ex) as Hok. unfold cell_ok in Hok.
      destruct (ctag x) as [n| | |] eqn:Et; try (destruct Hok as [_ Hz]; lia).
      destruct Hok as [Hn1 [Hn2 Hn3]].
      assert (Hno : cowner x = None).
      { destruct (cowner x) eqn:Eo; [|reflexivity]. assert (ccaller x = 0) by (apply Hn3; discriminate). lia. }
      rewrite Hno in Hn2. simpl in Hn2.
      destruct n as [|m]; [lia|].
      set (x' := unref_cell x (cowner x) (ccaller x - 1)).
      assert (Hx' : (m = 0 /\ ccaller x = 1 /\ x' = mkCell TPooled poison None 0) \/
                    (1 <= m /\ 2 <= ccaller x /\ x' = mkCell (TLive m) (cval x) None (ccaller x - 1))).
      { unfold x', unref_cell. rewrite Et, Hno. destruct (Nat.eqb_spec m 0); [left|right]; repeat split; auto; lia. }
      constructor; simpl; auto.
      + intros c' y Hy. rewrite (nth_error_set_nth_some h c x' c' x Ex) in Hy.
        destruct (Nat.eqb_spec c' c) as [->|Hne]; [|eapply Hcells; eauto].
        inversion Hy; subst y. destruct Hx' as [[_ [_ ->]]|[H1 [H2 ->]]]; unfold cell_ok; simpl; auto.
        repeat split; auto; try lia. intros H; congruence.
      + intros r rd c' Hr Hp. destruct (Hpage r rd c' Hr Hp) as [y [Hy Hyo]].
        rewrite (nth_error_set_nth_some h c x' c' x Ex).
        destruct (Nat.eqb_spec c' c) as [->|Hne]; [|eauto].
        rewrite Ex in Hy; inversion Hy; subst y. congruence.
      + intros c' y r Hy Hyo. rewrite (nth_error_set_nth_some h c x' c' x Ex) in Hy.
        destruct (Nat.eqb_spec c' c) as [->|Hne]; [|eapply Howner; eauto].
        inversion Hy; subst y. destruct Hx' as [[_ [_ ->]]|[_ [_ ->]]]; simpl in Hyo; discriminate.
      + intros b v Hb Hv c' Hc'.
        assert (Hb' : In b hl /\ (ccaller x = 1 -> bwin b <> WWhileHeld c)).
        { destruct (Nat.eqb_spec (ccaller x) 1) as [E|E].
          - apply in_drop_win in Hb. destruct Hb; auto.
          - split; auto; intros; lia. }
        destruct Hb' as [Hb0 Hbw].
        destruct (Hheld b v Hb0 Hv c' Hc') as [y [Hy [Hval Htag]]].
        rewrite (nth_error_set_nth_some h c x' c' x Ex).
        destruct (Nat.eqb_spec c' c) as [->|Hne]; [|eauto].
        rewrite Ex in Hy; inversion Hy; subst y.
        destruct Htag as [H|[H|[[n0 [r0 [rd0 [H1 [H2 [H3 _]]]]]]|[n0 [H1 [H2 H3]]]]]]; try congruence.
        destruct Hx' as [[Hm [Hc1 _]]|[Hm [Hc2 ->]]]; [exfalso; apply (Hbw Hc1 H2)|].
        eexists; split; [reflexivity|]. simpl. repeat split; auto.
        right; right; right. exists m. repeat split; auto; lia.
    - (* PChurn *)
      destruct (nth_error h c) as [x|] eqn:Ex; [|discriminate].
      destruct (ctag x) eqn:Et; try discriminate.
      inversion Hstep; subst st'; clear Hstep.
      set (x' := mkCell TPooled v None 0).
      constructor; simpl; auto.
      + intros c' y Hy. rewrite (nth_error_set_nth_some h c x' c' x Ex) in Hy.
        destruct (Nat.eqb_spec c' c) as [->|Hne]; [|eapply Hcells; eauto].
        inversion Hy; subst y. unfold cell_ok; simpl; auto.
      + intros r rd c' Hr Hp. destruct (Hpage r rd c' Hr Hp) as [y [Hy Hyo]].
        rewrite (nth_error_set_nth_some h c x' c' x Ex).
        destruct (Nat.eqb_spec c' c) as [->|Hne]; [|eauto].
        rewrite Ex in Hy; inversion Hy; subst y. pose proof (Hcells c x Ex) as Hok.
        unfold cell_ok in Hok. rewrite Et in Hok. destruct Hok; congruence.
      + intros c' y r Hy Hyo. rewrite (nth_error_set_nth_some h c x' c' x Ex) in Hy.
        destruct (Nat.eqb_spec c' c) as [->|Hne]; [|eapply Howner; eauto].
        inversion Hy; subst y. simpl in Hyo. discriminate.
      + intros b v0 Hb Hv. eapply value_inv_frame; [apply Hheld; eauto| |apply readers_same].
        intros c' y Hc' Hy. rewrite (nth_error_set_nth_some h c x' c' x Ex).
        destruct (Nat.eqb_spec c' c) as [->|Hne]; auto.
        exfalso. eapply (value_not_pooled h rds (bwin b) v0 c); eauto.
    - (* PWrite *)
      destruct (nth_error h src) as [xs|] eqn:Exs; [|discriminate].
      destruct (ctag xs) eqn:Ets; try discriminate.
      destruct (is_pooled_or_fresh h c) eqn:Epf; [|discriminate].
      inversion Hstep; subst st'; clear Hstep.
      pose proof (pooled_or_fresh_spec h c Epf) as Hpf.
      set (x' := mkCell TPooled (cval xs) None 0).
      assert (Hnoown : forall y r', nth_error h c = Some y -> cowner y = Some r' -> False).
      { intros y r' Hy Hyo. destruct Hpf as [[z [Hz Hzt]]|[Hn _]]; [|congruence].
        rewrite Hy in Hz; inversion Hz; subst z. pose proof (Hcells c y Hy) as Hok.
        unfold cell_ok in Hok. rewrite Hzt in Hok. destruct Hok; congruence. }
      constructor; simpl; auto.
      + intros c' y Hy. rewrite (nth_error_put_cell h c x' c' Epf) in Hy.
        destruct (Nat.eqb_spec c' c) as [->|Hne]; [|eapply Hcells; eauto].
        inversion Hy; subst y. unfold cell_ok; simpl; auto.
      + intros r rd c' Hr Hp. destruct (Hpage r rd c' Hr Hp) as [y [Hy Hyo]].
        rewrite (nth_error_put_cell h c x' c' Epf).
        destruct (Nat.eqb_spec c' c) as [->|Hne]; [exfalso; eapply Hnoown; eauto|eauto].
      + intros c' y r Hy Hyo. rewrite (nth_error_put_cell h c x' c' Epf) in Hy.
        destruct (Nat.eqb_spec c' c) as [->|Hne]; [|eapply Howner; eauto].
        inversion Hy; subst y. simpl in Hyo. discriminate.
      + intros b v0 Hb Hv. eapply value_inv_frame; [apply Hheld; eauto| |apply readers_same].
        intros c' y Hc' Hy. rewrite (nth_error_put_cell h c x' c' Epf).
        destruct (Nat.eqb_spec c' c) as [->|Hne]; auto.
        exfalso. eapply (value_not_pooled h rds (bwin b) v0 c); eauto.
        destruct Hpf as [[z [Hz Hzt]]|[Hn _]]; [left; eauto|right; auto].
  Qed.

  (** ** consequences *)
  Definition readers_ok (rds : list reader) : Prop :=
    forall r rd, nth_error rds r = Some rd -> rpage rd = None /\ (rbytes rd = true -> rdetach rd = true).

  Lemma init_oinv : forall rds, readers_ok rds -> OInv (mkO [] rds []).
  Proof.
    intros rds H. constructor; simpl.
    - intros c x Hx. destruct c; discriminate.
    - intros r rd c Hr Hp. destruct (H r rd Hr) as [H1 _]. congruence.
    - intros c x r Hx. destruct c; discriminate.
    - intros r rd Hr. apply (H r rd Hr).
    - intros b v [].
  Qed.

  Lemma oinit_ok : forall n, readers_ok (readers (oinit n true)).
  Proof.
    intros n r rd Hr. simpl in Hr. apply nth_error_In in Hr. apply repeat_spec in Hr. subst rd. simpl. auto.
  Qed.

  (* what the caller can rely on for a value it is entitled to *)
  Definition not_dangling (st : ostate) (v : value) : Prop :=
    forall c, vcell v = Some c ->
      exists x, nth_error (heap st) c = Some x /\ cval x = vsnap v /\
                (ctag x = TCaller \/ ctag x = TDetached \/ exists n, ctag x = TLive n /\ 1 <= n).

  Lemma oinv_not_dangling : forall st b v,
    OInv st -> In b (held st) -> In v (bvals b) -> not_dangling st v.
  Proof.
    intros st b v HI Hb Hv c Hc. destruct (o_held st HI b v Hb Hv c Hc) as [x [Hx [Hval Htag]]].
    exists x. split; auto. split; auto.
    pose proof (o_cells st HI c x Hx) as Hok. unfold cell_ok in Hok.
    destruct Htag as [H|[H|[[n [r [rd [H1 _]]]]|[n [H1 _]]]]]; auto;
      right; right; exists n; rewrite H1 in Hok; split; auto; tauto.
  Qed.

  (** C16, every history of primitives (hence every history of API calls,
      seeks, closes, clones, typed reads and any amount of pool churn): each
      value of each batch the caller is still entitled to references a cell
      that is caller memory, detached, or a live retained buffer, and that cell
      holds the content the value had when it was handed out. *)
  Theorem no_dangling : forall rds ps st b v,
    readers_ok rds ->
    run ostep (mkO [] rds []) ps = Some st ->
    In b (held st) -> In v (bvals b) -> not_dangling st v.
  Proof.
    intros rds ps st b v Hr Hrun Hb Hv.
    eapply oinv_not_dangling; eauto.
    eapply (invariant_run _ _ ostep OInv); [|apply init_oinv; exact Hr|exact Hrun].
    intros a l a' Ha Hs. eapply ostep_inv; eauto.
  Qed.

  (** pool churn cannot change what an entitled value reads *)
  Theorem churn_preserves_values : forall st c w st' b v c0 x,
    OInv st -> ostep st (PChurn c w) = Some st' ->
    In b (held st) -> In v (bvals b) -> vcell v = Some c0 ->
    nth_error (heap st) c0 = Some x -> nth_error (heap st') c0 = Some x.
  Proof.
    intros [h rds hl] c w st' b v c0 x HI Hs Hb Hv Hc Hx; simpl in *.
    destruct (nth_error h c) as [y|] eqn:Ey; [|discriminate].
    destruct (ctag y) eqn:Et; try discriminate.
    inversion Hs; subst st'; simpl.
    rewrite (nth_error_set_nth_some h c _ c0 y Ey).
    destruct (Nat.eqb_spec c0 c) as [->|Hne]; auto.
    exfalso. eapply (value_not_pooled h rds (bwin b) v c); eauto.
    apply (o_held _ HI b v Hb Hv).
  Qed.

  (** no primitive — in particular no write path — changes a cell of the caller *)
  Theorem caller_cells_untouched : forall st l st' c x,
    OInv st -> ostep st l = Some st' ->
    nth_error (heap st) c = Some x -> ctag x = TCaller ->
    nth_error (heap st') c = Some x.
  Proof.
    intros [h rds hl] l st' c x HI Hstep Hx Ht.
    destruct HI as [Hcells Hpage Howner Hflags Hheld]; simpl in *.
    assert (Hput : forall c' x', is_pooled_or_fresh h c' = true -> nth_error (put_cell h c' x') c = Some x).
    { intros c' x' Hpf. rewrite (nth_error_put_cell h c' x' c Hpf).
      destruct (Nat.eqb_spec c c') as [->|Hne]; auto.
      destruct (pooled_or_fresh_spec h c' Hpf) as [[z [Hz Hzt]]|[Hn _]]; congruence. }
    assert (Hset : forall c' y x', nth_error h c' = Some y -> ctag y <> TCaller -> nth_error (set_nth c' x' h) c = Some x).
    { intros c' y x' Hy Hyt. rewrite (nth_error_set_nth_some h c' x' c y Hy).
      destruct (Nat.eqb_spec c c') as [->|Hne]; auto. congruence. }
    destruct l as [r|r|r c1|r b|r closed pos|b b'|b|r c1 b|c1|c1|c1 v|src c1];
      unfold Ownership.ostep in Hstep; cbn [heap readers held] in Hstep.
    - inversion Hstep; subst; auto.
    - destruct (nth_error rds r) as [rd|] eqn:Er; [|discriminate].
      destruct (rpage rd) as [c1|] eqn:Ep; [|discriminate].
      destruct (nth_error h c1) as [y|] eqn:Ey; [|discriminate].
      inversion Hstep; subst st'; simpl. eapply Hset; eauto.
      destruct (Hpage r rd c1 Er Ep) as [y0 [Hy0 Ho]]. rewrite Ey in Hy0; inversion Hy0; subst y0.
      pose proof (Hcells c1 y Ey) as Hok. unfold cell_ok in Hok. intros E; rewrite E in Hok. destruct Hok; congruence.
    - destruct (nth_error rds r) as [rd|]; [|discriminate]. destruct (rpage rd); [discriminate|].
      destruct (negb (rclosed rd) && is_pooled_or_fresh h c1) eqn:Eg; [|discriminate].
      apply andb_true_iff in Eg. destruct Eg as [_ Epf]. inversion Hstep; subst st'; simpl. auto.
    - destruct (nth_error rds r) as [rd|]; [|discriminate]. destruct (rpage rd) as [c1|]; [|discriminate].
      destruct (nth_error h c1); [|discriminate]. inversion Hstep; subst; auto.
    - destruct (nth_error rds r) as [rd|]; [|discriminate]. destruct (rpage rd); [discriminate|].
      inversion Hstep; subst; auto.
    - destruct (find_batch b hl) as [bt|] eqn:Ef; [|discriminate].
      destruct (copy_values h (bvals bt)) as [h' vs'] eqn:Ec.
      inversion Hstep; subst st'; simpl.
      destruct (copy_values_spec _ _ _ _ Ec) as [[ext [Hext _]] _].
      { intros v c0 Hv Hc. destruct (Hheld bt v (find_batch_in _ _ _ Ef) Hv c0 Hc) as [y [Hy [Hval _]]]. eauto. }
      rewrite Hext. rewrite nth_error_app1; auto. apply nth_error_Some; congruence.
    - inversion Hstep; subst; auto.
    - destruct (nth_error rds r) as [rd|]; [|discriminate].
      destruct (negb (rclosed rd) && is_pooled_or_fresh h c1) eqn:Eg; [|discriminate].
      apply andb_true_iff in Eg. destruct Eg as [_ Epf]. inversion Hstep; subst st'; simpl. auto.
    - destruct (nth_error h c1) as [y|] eqn:Ey; [|discriminate].
      destruct (ctag y) eqn:Et; try discriminate. destruct (Nat.leb 1 (ccaller y)); [|discriminate].
      inversion Hstep; subst st'; simpl. eapply Hset; eauto. congruence.
    - destruct (nth_error h c1) as [y|] eqn:Ey; [|discriminate].
      destruct (Nat.leb_spec 1 (ccaller y)) as [Hcc|]; [|discriminate].
      inversion Hstep; subst st'; simpl. eapply Hset; eauto.
      pose proof (Hcells c1 y Ey) as Hok. unfold cell_ok in Hok. intros E; rewrite E in Hok. destruct Hok; lia.
    - destruct (nth_error h c1) as [y|] eqn:Ey; [|discriminate].
      destruct (ctag y) eqn:Et; try discriminate.
      inversion Hstep; subst st'; simpl. eapply Hset; eauto. congruence.
    - destruct (nth_error h src) as [y|]; [|discriminate]. destruct (ctag y); try discriminate.
      destruct (is_pooled_or_fresh h c1) eqn:Epf; [|discriminate].
      inversion Hstep; subst st'; simpl. auto.
  Qed.

  (** ** the replay used by the oracle stays inside the invariant *)
  Lemma run_prims_inv : forall ps st, OInv st -> OInv (run_prims pagefun st ps).
  Proof.
    induction ps as [|p r IH]; intros st HI; simpl; auto.
    destruct (Ownership.ostep pagefun st p) as [st'|] eqn:E; [|auto].
    apply IH. eapply ostep_inv; eauto.
  Qed.

  Local Opaque run_prims.

  Lemma read_move_inv : forall cross st r b, OInv st -> OInv (read_move pagefun st r b cross).
  Proof.
    induction cross as [|n IH]; intros st r b HI; simpl; auto.
    apply IH. apply run_prims_inv. apply run_prims_inv. exact HI.
  Qed.

  Lemma read_rows_inv : forall st r b cross, OInv st -> OInv (read_rows pagefun st r b cross).
  Proof.
    intros st r b cross HI. unfold read_rows. apply read_move_inv.
    destruct (has_page (run_prims pagefun st [PEnd r]) r); apply run_prims_inv; apply run_prims_inv; exact HI.
  Qed.

  Lemma churn_all_inv : forall i st v, OInv st -> OInv (churn_all pagefun st v i).
  Proof.
    induction i as [|n IH]; intros st v HI; simpl; auto. apply IH. apply run_prims_inv. exact HI.
  Qed.

  Lemma do_op_inv : forall st i o, OInv st -> OInv (do_op pagefun st i o).
  Proof.
    intros st i o HI. destruct o; simpl.
    - apply read_rows_inv; auto.
    - apply run_prims_inv. apply read_rows_inv; auto.
    - destruct (find _ (held st)); [apply run_prims_inv|]; auto.
    - apply run_prims_inv; auto.
    - apply run_prims_inv; auto.
    - apply churn_all_inv; auto.
    - auto.
  Qed.

  Lemma oinv_state_ok : forall st, OInv st -> state_ok st = true.
  Proof.
    intros st HI. unfold state_ok. apply forallb_forall. intros b Hb.
    apply forallb_forall. intros v Hv. unfold value_ok.
    destruct (vcell v) as [c|] eqn:Ec; [|reflexivity].
    destruct (o_held st HI b v Hb Hv c Ec) as [x [Hx [Hval Htag]]]. rewrite Hx.
    rewrite Hval, Nat.eqb_refl. simpl.
    destruct Htag as [H|[H|[[n [r [rd [H1 _]]]]|[n [H1 _]]]]]; rewrite ?H, ?H1; reflexivity.
  Qed.

  Local Transparent run_prims.

  Theorem replay_all_ok : forall ops st i,
    OInv st -> Forall (fun p => snd p = true) (replay pagefun st i ops).
  Proof.
    induction ops as [|o r IH]; intros st i HI; simpl; constructor.
    - simpl. apply oinv_state_ok. apply do_op_inv; auto.
    - apply IH. apply do_op_inv; auto.
  Qed.
End Step.

(** ** the tags refine the states of the refcount protocol P1: a cell's unref
    is the automaton's unref (followed, at zero, by its put) *)
From PQ Require Import Conc.Refcount.

Definition tag_of_bstate (s : bstate) : option tag :=
  match s with
  | BLive true n => Some (TLive n)
  | BNew | BPooled | BZero => Some TPooled
  | _ => None
  end.

Lemma unref_refines_P1 : forall x n o k,
  ctag x = TLive (S n) ->
  exists s', buf_step (BLive true (S n)) EUnref = Some s' /\
             tag_of_bstate s' = Some (ctag (unref_cell x o k)) /\
             (n = 0 -> buf_step s' EPut = Some BPooled).
Proof.
  intros x n o k Ht. unfold unref_cell. rewrite Ht. destruct n as [|m]; simpl.
  - exists BZero. auto.
  - exists (BLive true (S m)). repeat split; auto. intros H; discriminate.
Qed.
