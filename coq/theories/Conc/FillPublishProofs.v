(** Proofs about Conc/FillPublish.v: with [fill_then_store], for any number of
    callers and every interleaving, every caller finds ALL the fields in the
    entry it uses (its own, or the one it loaded from the cache). *)
From Coq Require Import List Arith Bool Lia.
From PQ Require Import Conc.Sem Conc.SemProofs Conc.FillPublish.
Import ListNotations.

Section Fill.
  Variable n : nat.

  Notation fthread := (flocal * list fact)%type.

  Definition complete (h : list nat) (e : nat) : Prop := nth_error h e = Some n.

  Definition loaded_ok (h : list nat) (l : flocal) : Prop :=
    forall e, fentry l = Some e -> complete h e.

  Definition tail_k (k : nat) : list fact := repeat FFill (n - k) ++ [FStore; FUse].

  (* where a caller is in its program, and what it knows there *)
  Definition stage_ok (h : list nat) (th : fthread) : Prop :=
    let (l, p) := th in
    (p = fill_then_store n /\ falloc l = false /\ nth_error h (fme l) = Some 0)
    \/ (p = FAlloc :: tail_k 0 /\ falloc l = false /\ nth_error h (fme l) = Some 0 /\ loaded_ok h l)
    \/ (exists k, k <= n /\ p = tail_k k /\ loaded_ok h l /\
          ((fentry l = None /\ falloc l = true /\ nth_error h (fme l) = Some k)
           \/ (fentry l <> None /\ falloc l = false)))
    \/ (p = [FUse] /\ loaded_ok h l /\ (fentry l = None -> complete h (fme l)))
    \/ p = [].

  Definition FInv (c : fconfig) : Prop :=
    (forall t th, nth_error (snd c) t = Some th -> fme (fst th) = t /\ stage_ok (fheap (fst c)) th) /\
    (forall e, fcache (fst c) = Some e -> complete (fheap (fst c)) e) /\
    (forall t k, In (t, k) (fseen (fst c)) -> k = n).

  Lemma tail_k_n : tail_k n = [FStore; FUse].
  Proof. unfold tail_k. rewrite Nat.sub_diag. reflexivity. Qed.

  Lemma tail_k_lt : forall k, k < n -> tail_k k = FFill :: tail_k (S k).
  Proof.
    intros k H. unfold tail_k. replace (n - k) with (S (n - S k)) by lia. reflexivity.
  Qed.

  (* the heap changes in one cell, which did not hold a complete entry (or
     does not change): what the other callers know stays true *)
  Lemma stage_other : forall h t v k (th : fthread),
    nth_error h t = Some k -> (k <> n \/ v = k) -> fme (fst th) <> t ->
    stage_ok h th -> stage_ok (set_nth t v h) th.
  Proof.
    intros h t v k [l p] Ht Hk Hne H. simpl in Hne.
    assert (C : forall e, complete h e -> complete (set_nth t v h) e).
    { intros e He. unfold complete in *. destruct (Nat.eq_dec t e) as [->|Hte].
      - rewrite Ht in He. inversion He; subst. destruct Hk as [Hk| ->]; [congruence|].
        rewrite set_nth_same; auto.
      - rewrite nth_error_set_nth_neq; auto. }
    assert (M : forall x, nth_error h (fme l) = Some x -> nth_error (set_nth t v h) (fme l) = Some x).
    { intros x Hx. rewrite nth_error_set_nth_neq; auto. }
    assert (L : loaded_ok h l -> loaded_ok (set_nth t v h) l).
    { intros Hl e He. apply C. apply Hl. exact He. }
    unfold stage_ok in *.
    destruct H as [[Hp [Ha H0]]|[[Hp [Ha [H0 Hl]]]|[[k' [Hk' [Hp [Hl Hc]]]]|[[Hp [Hl Hc]]|Hp]]]].
    - left. auto.
    - right; left. auto.
    - right; right; left. exists k'. repeat split; auto.
      destruct Hc as [[He [Ha Hh]]|Hc]; [left|right]; auto.
    - right; right; right; left. repeat split; auto.
    - right; right; right; right. exact Hp.
  Qed.

  Lemma finit_inv : forall w, FInv (finit (fill_then_store n) w).
  Proof.
    intros w. unfold FInv, finit; simpl. split; [|split].
    - intros t [l p] H.
      rewrite nth_error_map in H. destruct (nth_error (seq 0 w) t) as [x|] eqn:E; [|discriminate].
      inversion H; subst; simpl. clear H.
      assert (Hl : t < w).
      { assert (Hl : t < length (seq 0 w)) by (apply nth_error_Some; congruence).
        rewrite seq_length in Hl. exact Hl. }
      assert (x = t).
      { rewrite (nth_error_nth' _ 0) in E by (rewrite seq_length; lia).
        rewrite seq_nth in E by lia. inversion E; lia. }
      subst x. split; [reflexivity|]. left. repeat split.
      rewrite (nth_error_nth' _ 0) by (rewrite repeat_length; lia).
      f_equal. apply nth_repeat.
    - intros e He. discriminate.
    - intros t k [].
  Qed.

  Theorem fstep_inv : forall c t c', FInv c -> fstep c t = Some c' -> FInv c'.
  Proof.
    intros [s ts] t c' [HT [HC HS]] Hs. unfold fstep, tstep in Hs; simpl in *.
    destruct (nth_error ts t) as [[l [|a rest]]|] eqn:Et; try discriminate.
    destruct (HT t _ Et) as [Hme Hst]. simpl in Hme.
    assert (Hlen : t < length ts) by (apply nth_error_Some; congruence).
    (* the threads of the new configuration: the stepping one gets [x] *)
    assert (TH : forall h' x,
      fme (fst x) = t -> stage_ok h' x ->
      (forall t' th', t' <> t -> nth_error ts t' = Some th' -> stage_ok h' th') ->
      forall t' th', nth_error (set_nth t x ts) t' = Some th' -> fme (fst th') = t' /\ stage_ok h' th').
    { intros h' x Hx Hsx Ho t' th' H'. destruct (Nat.eq_dec t t') as [<-|Hne].
      - rewrite nth_error_set_nth_eq in H' by exact Hlen. inversion H'; subst. auto.
      - rewrite nth_error_set_nth_neq in H' by exact Hne. split; [apply (HT t' th' H')|].
        apply (Ho t'); auto. }
    assert (SAME : forall t' th', t' <> t -> nth_error ts t' = Some th' -> stage_ok (fheap s) th').
    { intros t' th' _ H'. apply (HT t' th' H'). }
    unfold stage_ok in Hst.
    destruct a; simpl in Hs.
    - (* FLoad *)
      inversion Hs; subst; clear Hs. unfold FInv; simpl. split; [|split]; auto.
      apply TH; [reflexivity| |exact SAME]. simpl.
      destruct Hst as [[Hp [Ha H0]]|[[Hp _]|[[k [_ [Hp _]]]|[[Hp _]|Hp]]]]; try discriminate.
      + inversion Hp; subst. right; left.
        split; [unfold tail_k; rewrite Nat.sub_0_r; reflexivity|].
        split; [exact Ha|]. split; [exact H0|].
        intros e He; simpl in He. apply HC; auto.
      + unfold tail_k in Hp. destruct (n - k); discriminate.
    - (* FAlloc *)
      destruct Hst as [[Hp _]|[[Hp [Ha [H0 Hl]]]|[[k [_ [Hp _]]]|[[Hp _]|Hp]]]]; try discriminate;
        [|unfold tail_k in Hp; destruct (n - k); discriminate].
      inversion Hp; subst rest; clear Hp.
      assert (HH : set_nth (fme l) 0 (fheap s) = fheap s) by (apply set_nth_same; exact H0).
      destruct (fentry l) as [e|] eqn:Ee; inversion Hs; subst; clear Hs; unfold FInv; simpl;
        try rewrite HH; (split; [|split]; auto); (apply TH; [reflexivity| |exact SAME]); simpl;
        right; right; left; exists 0; (split; [lia|]); (split; [reflexivity|]).
      + split; [exact Hl|]. right. split; [congruence|exact Ha].
      + split; [intros e He; simpl in He; discriminate|]. left. auto.
    - (* FFill *)
      destruct Hst as [[Hp _]|[[Hp _]|[[k [Hk [Hp [Hl Hc]]]]|[[Hp _]|Hp]]]]; try discriminate.
      assert (Hlt : k < n).
      { destruct (Nat.eq_dec k n) as [->|]; [rewrite tail_k_n in Hp; discriminate|lia]. }
      rewrite (tail_k_lt k Hlt) in Hp. inversion Hp; subst rest; clear Hp.
      destruct Hc as [[He [Ha Hh]]|[He Ha]].
      + rewrite Ha in Hs. inversion Hs; subst; clear Hs. unfold FInv; simpl.
        rewrite (nth_error_nth _ _ 0 Hh).
        assert (HhL : fme l < length (fheap s)) by (apply nth_error_Some; congruence).
        assert (CO : forall e, complete (fheap s) e -> complete (set_nth (fme l) (S k) (fheap s)) e).
        { intros e Hce. unfold complete in *. destruct (Nat.eq_dec (fme l) e) as [<-|Hd].
          - rewrite Hh in Hce. inversion Hce; lia.
          - rewrite nth_error_set_nth_neq; auto. }
        split; [|split]; auto.
        apply TH; [reflexivity| |].
        * simpl. right; right; left. exists (S k). split; [lia|]. split; [reflexivity|].
          split; [intros e Hee; congruence|].
          left. repeat split; auto. apply nth_error_set_nth_eq. exact HhL.
        * intros t' th' Hne H'. eapply stage_other; eauto; [left; lia|].
          rewrite (proj1 (HT t' th' H')). auto.
      + rewrite Ha in Hs. inversion Hs; subst; clear Hs. unfold FInv; simpl.
        split; [|split]; auto.
        apply TH; [reflexivity| |exact SAME]. simpl.
        right; right; left. exists (S k). split; [lia|]. split; [reflexivity|]. split; auto.
    - (* FStore *)
      destruct Hst as [[Hp _]|[[Hp _]|[[k [Hk [Hp [Hl Hc]]]]|[[Hp _]|Hp]]]]; try discriminate.
      assert (k = n).
      { destruct (Nat.eq_dec k n); auto. rewrite tail_k_lt in Hp by lia. discriminate. }
      subst k. rewrite tail_k_n in Hp. inversion Hp; subst rest; clear Hp.
      destruct Hc as [[He [Ha Hh]]|[He Ha]]; rewrite Ha in Hs; inversion Hs; subst; clear Hs;
        unfold FInv; simpl; (split; [|split]; auto).
      + apply TH; [reflexivity| |exact SAME]. simpl. right; right; right; left. repeat split; auto.
      + intros e Hee. inversion Hee; subst. exact Hh.
      + apply TH; [reflexivity| |exact SAME]. simpl. right; right; right; left. repeat split; auto.
        intros Hn; congruence.
    - (* FUse *)
      destruct Hst as [[Hp _]|[[Hp _]|[[k [Hk [Hp _]]]|[[Hp [Hl Hc]]|Hp]]]]; try discriminate;
        [unfold tail_k in Hp; destruct (n - k); discriminate|].
      inversion Hp; subst rest; clear Hp.
      inversion Hs; subst; clear Hs. unfold FInv; simpl. split; [|split]; auto.
      + apply TH; [reflexivity| |exact SAME]. simpl. right; right; right; right. reflexivity.
      + intros t' k' Hin. apply in_app_or in Hin. destruct Hin as [Hin|[Hin|[]]]; [eauto|].
        inversion Hin; subst. destruct (fentry l) as [e|] eqn:Ee.
        * apply (nth_error_nth _ _ 0). apply Hl. exact Ee.
        * apply (nth_error_nth _ _ 0). apply Hc. first [exact Ee|reflexivity].
  Qed.

  Theorem fill_then_store_complete : forall w sched c,
    run fstep (finit (fill_then_store n) w) sched = Some c ->
    (forall e, fcache (fst c) = Some e -> nth_error (fheap (fst c)) e = Some n) /\
    (forall t k, In (t, k) (fseen (fst c)) -> k = n).
  Proof.
    intros w sched c Hr.
    assert (I : FInv c).
    { eapply (invariant_run _ _ fstep FInv); [|apply finit_inv|exact Hr].
      intros c1 l c2 Hi Hs. eapply fstep_inv; eauto. }
    destruct I as [_ [H2 H3]]. split; auto.
  Qed.
End Fill.
