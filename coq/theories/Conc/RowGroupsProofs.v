(** Proofs about P4: writes to distinct row groups commute, and for every
    interleaving the committed file is the serial one. *)
From Coq Require Import List Arith Bool Lia.
From PQ Require Import Conc.Sem Conc.SemProofs Conc.RowGroups.
Import ListNotations.

Lemma nth_set_nth_eq : forall {A} t (x d : A) l, t < length l -> nth t (set_nth t x l) d = x.
Proof.
  intros A t x d l; revert t; induction l as [|y r IH]; intros [|t] H; simpl in *; try lia; auto.
  apply IH; lia.
Qed.

Lemma nth_set_nth_neq : forall {A} t m (x d : A) l, t <> m -> nth m (set_nth t x l) d = nth m l d.
Proof.
  intros A t m x d l; revert t m; induction l as [|y r IH]; intros [|t] [|m] H; simpl; auto; try congruence.
Qed.

Lemma nth_error_nth' : forall {A} (l : list A) t x d, nth_error l t = Some x -> nth t l d = x.
Proof.
  intros A l; induction l as [|y r IH]; intros [|t] x d H; simpl in *; try discriminate.
  - inversion H; reflexivity.
  - apply IH; auto.
Qed.

Section Proofs.
  Variables Row B : Type.
  Variable enc : nat -> list Row -> list B.

  Notation rgstate := (rgstate Row B).
  Notation gstep := (gstep enc).
  Notation commit_all := (commit_all enc).

  (** ** steps of distinct writers commute (the diamond) *)
  Theorem writers_commute : forall (c c1 c12 : rgstate) t1 t2,
    t1 <> t2 ->
    gstep c (LW t1) = Some c1 -> gstep c1 (LW t2) = Some c12 ->
    exists c2, gstep c (LW t2) = Some c2 /\ gstep c2 (LW t1) = Some c12.
  Proof.
    intros [rg wp td fl] c1 c12 t1 t2 Hne H1 H2. simpl in *.
    destruct (nth_error wp t1) as [[|b1 rest1]|] eqn:E1; try discriminate.
    inversion H1; subst c1; clear H1. simpl in H2.
    rewrite nth_error_set_nth_neq in H2 by auto.
    destruct (nth_error wp t2) as [[|b2 rest2]|] eqn:E2; try discriminate.
    inversion H2; subst c12; clear H2.
    eexists; split; [reflexivity|]. simpl.
    rewrite nth_error_set_nth_neq by auto. rewrite E1.
    rewrite !nth_set_nth_neq by auto.
    f_equal. f_equal; apply set_nth_comm; auto.
  Qed.

  (** a writer's step leaves every other row group untouched *)
  Theorem writer_touches_own : forall (c c' : rgstate) t g,
    gstep c (LW t) = Some c' -> g <> t ->
    nth g (rgs c') [] = nth g (rgs c) [] /\ nth g (wprogs c') [] = nth g (wprogs c) [].
  Proof.
    intros [rg wp td fl] c' t g H Hne. simpl in *.
    destruct (nth_error wp t) as [[|b rest]|]; try discriminate.
    inversion H; subst c'; simpl. split; apply nth_set_nth_neq; auto.
  Qed.

  (** ** the invariant *)
  Variable batches : list (list (list Row)).
  Variable order : list nat.
  Hypothesis order_nodup : NoDup order.
  Hypothesis order_range : forall g, In g order -> g < length batches.

  Definition GInv (c : rgstate) : Prop :=
    exists committed,
      committed ++ todo c = order /\
      file c = commit_all batches committed [] /\
      length (rgs c) = length batches /\ length (wprogs c) = length batches /\
      (committed <> [] -> forallb is_nil (wprogs c) = true) /\
      forall t, t < length batches -> ~ In t committed ->
        nth t (rgs c) [] ++ concat (nth t (wprogs c) []) = concat (nth t batches []).

  Lemma all_nil_nth : forall (wp : list (list (list Row))) t,
    forallb is_nil wp = true -> nth t wp [] = [].
  Proof.
    induction wp as [|x r IH]; intros [|t] H; simpl in *; auto.
    - apply andb_true_iff in H. destruct H as [H _]. destruct x; [reflexivity|discriminate].
    - apply andb_true_iff in H. destruct H as [_ H]. apply IH; auto.
  Qed.

  Lemma nth_repeat_nil : forall (A : Type) n t, nth t (repeat (@nil A) n) [] = [].
  Proof. intros A n; induction n as [|n IH]; intros [|t]; simpl; auto. Qed.

  Lemma ginit_inv : GInv (ginit batches order).
  Proof.
    exists []. simpl. repeat apply conj; auto.
    - apply repeat_length.
    - intros t Ht _. rewrite nth_repeat_nil. reflexivity.
  Qed.

  Lemma commit_all_snoc : forall l g f0,
    commit_all batches (l ++ [g]) f0 =
    commit_all batches l f0 ++ enc (length (commit_all batches l f0)) (concat (nth g batches [])).
  Proof. intros l g f0. unfold RowGroups.commit_all. rewrite fold_left_app. reflexivity. Qed.

  Theorem gstep_inv : forall c l c', GInv c -> gstep c l = Some c' -> GInv c'.
  Proof.
    intros [rg wp td fl] l c' [committed [Ho [Hf [Hlr [Hlw [Hnil Hrows]]]]]] Hstep; simpl in *.
    destruct l as [t|]; simpl in Hstep.
    - (* a writer writes a batch *)
      destruct (nth_error wp t) as [[|b rest]|] eqn:E; try discriminate.
      inversion Hstep; subst c'; clear Hstep.
      assert (Ht : t < length wp) by (apply nth_error_Some; congruence).
      assert (Hc : committed = []).
      { destruct committed as [|g0 r0]; [reflexivity|].
        assert (Hn : forallb is_nil wp = true) by (apply Hnil; discriminate).
        pose proof (all_nil_nth wp t Hn) as Hz. rewrite (nth_error_nth' wp t _ [] E) in Hz. discriminate. }
      subst committed. exists []. simpl. repeat apply conj; auto.
      + rewrite set_nth_length; auto.
      + rewrite set_nth_length; auto.
      + intros t' Ht' _. destruct (Nat.eq_dec t t') as [<-|Hne].
        * rewrite !nth_set_nth_eq by lia. specialize (Hrows t Ht' (fun x => x)).
          rewrite (nth_error_nth' wp t _ [] E) in Hrows. simpl in Hrows.
          rewrite <- app_assoc. exact Hrows.
        * rewrite !nth_set_nth_neq by auto. apply Hrows; auto.
    - (* the committer commits the next row group *)
      destruct (forallb is_nil wp) eqn:Enil; [|discriminate].
      destruct td as [|g r]; [discriminate|].
      inversion Hstep; subst c'; clear Hstep.
      assert (Hin : In g order) by (rewrite <- Ho; apply in_or_app; right; left; reflexivity).
      assert (Hnc : ~ In g committed).
      { intros Hc. rewrite <- Ho in order_nodup. apply NoDup_remove_2 in order_nodup.
        apply order_nodup. apply in_or_app; left; exact Hc. }
      exists (committed ++ [g]). simpl. repeat apply conj; auto.
      + rewrite <- app_assoc. exact Ho.
      + rewrite commit_all_snoc, <- Hf. f_equal. f_equal.
        specialize (Hrows g (order_range g Hin) Hnc). rewrite all_nil_nth in Hrows by auto.
        simpl in Hrows. rewrite app_nil_r in Hrows. exact Hrows.
      + rewrite set_nth_length; auto.
      + intros t Ht Hnt. assert (Hne : g <> t).
        { intros ->. apply Hnt. apply in_or_app; right; left; reflexivity. }
        rewrite nth_set_nth_neq by auto. apply Hrows; auto.
        intros Hc; apply Hnt; apply in_or_app; left; exact Hc.
  Qed.

  (** P4, all interleavings: once every row group has been committed the file
      is the serial one; it depends on the batches and the commit order only,
      not on how the writers were interleaved. *)
  Theorem rowgroups_commute : forall sched c,
    run gstep (ginit batches order) sched = Some c -> todo c = [] ->
    file c = commit_all batches order [].
  Proof.
    intros sched c Hrun Htodo.
    assert (HI : GInv c).
    { eapply (invariant_run _ _ gstep GInv); [|apply ginit_inv|exact Hrun].
      intros a l b Ha Hs. eapply gstep_inv; eauto. }
    destruct HI as [committed [Ho [Hf _]]]. rewrite Htodo, app_nil_r in Ho. subst committed. exact Hf.
  Qed.

  (** before the join each row group holds exactly the rows its own writer
      has written so far, whatever the others did *)
  Theorem rowgroups_state_per_writer : forall sched c t,
    run gstep (ginit batches order) sched = Some c -> todo c = order -> t < length batches ->
    nth t (rgs c) [] ++ concat (nth t (wprogs c) []) = concat (nth t batches []).
  Proof.
    intros sched c t Hrun Htodo Ht.
    assert (HI : GInv c).
    { eapply (invariant_run _ _ gstep GInv); [|apply ginit_inv|exact Hrun].
      intros a l b Ha Hs. eapply gstep_inv; eauto. }
    destruct HI as [committed [Ho [_ [_ [_ [_ Hrows]]]]]].
    assert (committed = []).
    { rewrite Htodo in Ho. destruct committed; [reflexivity|].
      apply (f_equal (@length nat)) in Ho. rewrite app_length in Ho. simpl in Ho. lia. }
    subst. apply Hrows; auto.
  Qed.
End Proofs.
