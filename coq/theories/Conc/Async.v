(** P3 — asyncPages (page.go AsyncPages / asyncPages / readPages).

    Two threads: the CONSUMER (the goroutine calling ReadPage / SeekToRow /
    Close, one call after the other) and the PRODUCER goroutine readPages.
    They share four channels — [read] (unbuffered, pages), [seek] (buffered,
    capacity 1), [init] and [done] (closed to signal) — and nothing else: the
    consumer's [version] field and the underlying Pages object are plain memory
    touched by one goroutine each.

    Every channel operation is one atomic step; a send on the unbuffered
    [read] channel is a joint step of both threads (enabled only when the
    consumer is blocked in a receive), attributed to the producer.  A select
    is one step whose ready case is chosen by the label ([LP choice]); a select
    with a default case is deterministic.

    The underlying Pages object is abstracted to what matters for the
    protocol: [SeekToRow k] sets (origin, next) := (k, 0); [ReadPage] returns the
    item (origin, next) — page number [next] of the sequence that starts at row
    [origin] (items past the end are the io.EOF results, which readPages
    forwards exactly like pages) — and increments [next].  Fatal errors of the
    underlying reader are not modelled.

    Executable; proofs in Conc/AsyncProofs.v. *)
From Coq Require Import List Arith Bool.
From PQ Require Import Conc.Sem.
Import ListNotations.

Inductive cop : Type := CRead | CSeek (k : nat) | CClose.

(* where the consumer is inside the current call *)
Inductive cpc : Type :=
  | CIdle            (* between calls *)
  | CR1              (* ReadPage: blocked in  p, ok := <-pages.read *)
  | CS1 (k : nat)    (* SeekToRow: after the select, before  pages.seek <- asyncSeek{k, version} *)
  | CS2              (* SeekToRow: before pages.start() *)
  | CC1              (* Close: init closed, before close(done) *)
  | CC2.             (* Close: in  for p := range pages.read *)

(* where the producer is in readPages *)
Inductive ppc : Type :=
  | P0                      (* select { <-init ; <-done } *)
  | P1                      (* select { seekTo = <-seek ; default } *)
  | P2                      (* top of the loop: SeekToRow or ReadPage on the underlying pages *)
  | P3 (origin idx : nat)   (* holding a page, in select { read <- page ; seekTo = <-seek ; <-done } *)
  | PExit                   (* deferred: read <- asyncPage{err: pages.Close(), version: -1} *)
  | PClose                  (* deferred: close(read) *)
  | PDone.

(* what the consumer observed, in order *)
Inductive cev : Type := EvSeek (k : nat) | EvPage (origin idx : nat).

Record cons : Type := mkCons {
  prog : list cop;       (* calls still to make (the head is the current one) *)
  cp : cpc;
  vc : nat;              (* pages.version *)
  seek_nil : bool        (* pages.seek == nil (after Close) *)
}.

Record chans : Type := mkChans {
  init_closed : bool;
  done_closed : bool;
  seekch : option (nat * nat);   (* the buffered seek channel: at most one asyncSeek{rowIndex, version} *)
  read_closed : bool
}.

Record prod : Type := mkProd {
  pp : ppc;
  seek_row : option nat;   (* seekTo.rowIndex >= 0 *)
  pv : nat;                (* seekTo.version *)
  u_origin : nat;          (* underlying pages: row of the last SeekToRow *)
  u_next : nat             (* underlying pages: number of ReadPage calls since *)
}.

Record ghost : Type := mkGhost {
  exp_origin : nat;        (* row of the consumer's latest SeekToRow (0 before any) *)
  exp_idx : nat;           (* pages delivered since *)
  hist : list cev
}.

Record astate : Type := mkA { co : cons; ch : chans; pr : prod; gh : ghost }.

Inductive alabel : Type := LC | LP (choice : nat).

Definition pop (c : cons) (pc : cpc) : cons := mkCons (tl (prog c)) pc (vc c) (seek_nil c).
Definition at_pc (c : cons) (pc : cpc) : cons := mkCons (prog c) pc (vc c) (seek_nil c).
Definition open_init (h : chans) : chans := mkChans true (done_closed h) (seekch h) (read_closed h).
Definition set_seekch (h : chans) (x : option (nat * nat)) : chans :=
  mkChans (init_closed h) (done_closed h) x (read_closed h).

(* the consumer's next atomic step *)
Definition cstep (st : astate) : option astate :=
  let c := co st in let h := ch st in let g := gh st in
  match cp c with
  | CIdle =>
      match prog c with
      | [] => None
      | CRead :: _ =>
          (* pages.start(): close(init) if still open; then block on the read channel *)
          Some (mkA (at_pc c CR1) (open_init h) (pr st) g)
      | CSeek k :: _ =>
          if seek_nil c then Some (mkA (pop c CIdle) h (pr st) g)   (* io.ErrClosedPipe *)
          else
            (* select { case <-pages.seek: default: pages.version++ } *)
            let g' := mkGhost k 0 (hist g ++ [EvSeek k]) in
            match seekch h with
            | Some _ => Some (mkA (at_pc c (CS1 k)) (set_seekch h None) (pr st) g')
            | None => Some (mkA (mkCons (prog c) (CS1 k) (S (vc c)) (seek_nil c)) h (pr st) g')
            end
      | CClose :: _ =>
          Some (mkA (at_pc c CC1) (open_init h) (pr st) g)
      end
  | CR1 =>
      (* receive on a closed channel: ReadPage returns io.EOF *)
      if read_closed h then Some (mkA (pop c CIdle) h (pr st) g) else None
  | CS1 k =>
      match seekch h with
      | None => Some (mkA (at_pc c CS2) (set_seekch h (Some (k, vc c))) (pr st) g)
      | Some _ => None
      end
  | CS2 => Some (mkA (pop c CIdle) (open_init h) (pr st) g)
  | CC1 => Some (mkA (at_pc c CC2) (mkChans (init_closed h) true (seekch h) (read_closed h)) (pr st) g)
  | CC2 =>
      if read_closed h then Some (mkA (mkCons (tl (prog c)) CIdle (vc c) true) h (pr st) g) else None
  end.

(* the consumer receives [it] (None = the final message, version -1) sent
   with version [v]; only possible while it is blocked in a receive *)
Definition crecv (st : astate) (it : option (nat * nat)) (v : nat) : option (cons * ghost) :=
  let c := co st in let g := gh st in
  match cp c with
  | CR1 =>
      match it with
      | Some (o, i) =>
          if Nat.eqb v (vc c)
          then Some (pop c CIdle, mkGhost (exp_origin g) (S (exp_idx g)) (hist g ++ [EvPage o i]))
          else Some (c, g)        (* wrong version: Release(p.page), loop *)
      | None => Some (c, g)
      end
  | CC2 => Some (c, g)            (* Close drains and releases *)
  | _ => None
  end.

Definition take_seek (p : prod) (k v : nat) : prod := mkProd P2 (Some k) v (u_origin p) (u_next p).
Definition at_pp (p : prod) (x : ppc) : prod := mkProd x (seek_row p) (pv p) (u_origin p) (u_next p).

Definition pstep (st : astate) (choice : nat) : option astate :=
  let p := pr st in let h := ch st in
  match pp p with
  | P0 =>
      match choice with
      | 0 => if init_closed h then Some (mkA (co st) h (at_pp p P1) (gh st)) else None
      | _ => if done_closed h then Some (mkA (co st) h (at_pp p PExit) (gh st)) else None
      end
  | P1 =>
      match seekch h with
      | Some (k, v) => Some (mkA (co st) (set_seekch h None) (take_seek p k v) (gh st))
      | None => Some (mkA (co st) h (mkProd P2 None (pv p) (u_origin p) (u_next p)) (gh st))
      end
  | P2 =>
      match seek_row p with
      | Some k => Some (mkA (co st) h (mkProd P2 None (pv p) k 0) (gh st))       (* pages.SeekToRow(k) *)
      | None => Some (mkA (co st) h
                          (mkProd (P3 (u_origin p) (u_next p)) None (pv p) (u_origin p) (S (u_next p)))
                          (gh st))                                               (* pages.ReadPage() *)
      end
  | P3 o i =>
      match choice with
      | 0 => match crecv st (Some (o, i)) (pv p) with
             | Some (c', g') => Some (mkA c' h (at_pp p P2) g')
             | None => None
             end
      | 1 => match seekch h with
             | Some (k, v) => Some (mkA (co st) (set_seekch h None) (take_seek p k v) (gh st))
             | None => None
             end
      | _ => if done_closed h then Some (mkA (co st) h (at_pp p PExit) (gh st)) else None
      end
  | PExit =>
      match crecv st None 0 with
      | Some (c', g') => Some (mkA c' h (at_pp p PClose) g')
      | None => None
      end
  | PClose =>
      Some (mkA (co st) (mkChans (init_closed h) (done_closed h) (seekch h) true) (at_pp p PDone) (gh st))
  | PDone => None
  end.

Definition astep (st : astate) (l : alabel) : option astate :=
  match l with
  | LC => cstep st
  | LP choice => pstep st choice
  end.

Definition ainit (calls : list cop) : astate :=
  mkA (mkCons calls CIdle 0 false) (mkChans false false None false)
      (mkProd P0 None 0 0 0) (mkGhost 0 0 []).

(** the specification of what the consumer may observe: after [EvSeek k] the
    delivered items are (k,0), (k,1), ...; before any seek (0,0), (0,1), ... *)
Fixpoint hist_ok (o i : nat) (h : list cev) : Prop :=
  match h with
  | [] => True
  | EvSeek k :: r => hist_ok k 0 r
  | EvPage o' i' :: r => o' = o /\ i' = i /\ hist_ok o (S i) r
  end.

Fixpoint hist_okb (o i : nat) (h : list cev) : bool :=
  match h with
  | [] => true
  | EvSeek k :: r => hist_okb k 0 r
  | EvPage o' i' :: r => Nat.eqb o' o && Nat.eqb i' i && hist_okb o (S i) r
  end.

(* the consumer still wants something *)
Definition wants (st : astate) : Prop := prog (co st) <> [] \/ cp (co st) <> CIdle.

(** the same protocol WITHOUT the version comparison in ReadPage (the seeded
    mutant): used to show that the comparison is what the theorem rests on *)
Definition crecv_nocheck (st : astate) (it : option (nat * nat)) (v : nat) : option (cons * ghost) :=
  let c := co st in let g := gh st in
  match cp c with
  | CR1 =>
      match it with
      | Some (o, i) => Some (pop c CIdle, mkGhost (exp_origin g) (S (exp_idx g)) (hist g ++ [EvPage o i]))
      | None => Some (c, g)
      end
  | CC2 => Some (c, g)
  | _ => None
  end.

Definition pstep_nocheck (st : astate) (choice : nat) : option astate :=
  let p := pr st in let h := ch st in
  match pp p, choice with
  | P3 o i, 0 =>
      match crecv_nocheck st (Some (o, i)) (pv p) with
      | Some (c', g') => Some (mkA c' h (at_pp p P2) g')
      | None => None
      end
  | _, _ => pstep st choice
  end.

Definition astep_nocheck (st : astate) (l : alabel) : option astate :=
  match l with
  | LC => cstep st
  | LP choice => pstep_nocheck st choice
  end.
