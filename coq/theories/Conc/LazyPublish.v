(** P2 — lazily loaded, atomically published per-chunk state.

    file.go readColumnIndexFrom / readOffsetIndex / readBloomFilter:

        if index := c.columnIndex.Load(); index != nil { return index }     Load
        ... read the bytes, decode: index := &FileColumnIndex{...}            Compute
        if !c.columnIndex.CompareAndSwap(nil, index) {                        Cas
            return c.columnIndex.Load()                                       Reload
        }
        return index                                                          Return

    The code does a compare-and-swap and, when it fails, a second Load, "for
    the nice property that concurrent calling goroutines will only ever
    observe a single pointer value".  schema.go cacheMap.load instead
    publishes with a plain Store of a copy of the map extended by a value that
    is a pure function of the key and returns its own value: program
    [store_prog] (callers then agree on the contents, not on the pointer).

    An object is (identity, contents): the identity is the allocating thread,
    the contents are [pure], a pure function of the file.  Executable; proofs
    in Conc/LazyPublishProofs.v. *)
From Coq Require Import List Arith Bool.
From PQ Require Import Conc.Sem.
Import ListNotations.

Section Lazy.
  Variable V : Type.
  Variable pure : V.

  Definition obj : Type := (nat * V)%type.

  (* ptr: the atomic pointer; uses (ghost): what each finished call returned *)
  Record lshared : Type := mkLS { ptr : option obj; uses : list (nat * option obj) }.

  Record llocal : Type := mkLL {
    me : nat;                (* thread identity = identity of what it allocates *)
    seen : option obj;       (* result of the first Load *)
    mine : option obj;       (* the object this call decoded *)
    casok : bool;            (* result of CompareAndSwap *)
    result : option obj      (* what the call returns *)
  }.

  Inductive lact : Type := Load | Compute | Cas | Reload | StoreA | Return.

  Definition lexec (s : lshared) (l : llocal) (a : lact) : option (lshared * llocal) :=
    match a with
    | Load =>
        Some (s, mkLL (me l) (ptr s) (mine l) (casok l)
                      (match ptr s with Some o => Some o | None => result l end))
    | Compute =>
        match seen l with
        | None => Some (s, mkLL (me l) None (Some (me l, pure)) (casok l) (result l))
        | Some _ => Some (s, l)
        end
    | Cas =>
        match seen l with
        | None =>
            match ptr s with
            | None => Some (mkLS (mine l) (uses s), mkLL (me l) None (mine l) true (mine l))
            | Some _ => Some (s, mkLL (me l) None (mine l) false (result l))
            end
        | Some _ => Some (s, l)
        end
    | Reload =>
        match seen l, casok l with
        | None, false => Some (s, mkLL (me l) None (mine l) false (ptr s))
        | _, _ => Some (s, l)
        end
    | StoreA =>
        match seen l with
        | None => Some (mkLS (mine l) (uses s), mkLL (me l) None (mine l) true (mine l))
        | Some _ => Some (s, l)
        end
    | Return => Some (mkLS (ptr s) (uses s ++ [(me l, result l)]), l)
    end.

  Definition cas_prog : list lact := [Load; Compute; Cas; Reload; Return].
  Definition store_prog : list lact := [Load; Compute; StoreA; Return].

  Definition lconfig : Type := config lshared llocal lact.
  Definition lstep : lconfig -> nat -> option lconfig := tstep lexec.

  Definition llocal0 (t : nat) : llocal := mkLL t None None false None.

  (* n callers of the same lazily loaded chunk state, nothing published yet *)
  Definition linit (prog : list lact) (n : nat) : lconfig :=
    (mkLS None [], map (fun t => (llocal0 t, prog)) (seq 0 n)).
End Lazy.

Arguments ptr {V} l.
Arguments uses {V} l.
Arguments me {V} l.
Arguments seen {V} l.
Arguments mine {V} l.
Arguments casok {V} l.
Arguments result {V} l.
Arguments lstep {V} pure c t.
Arguments linit {V} prog n.
