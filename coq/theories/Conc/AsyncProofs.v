(** Proofs about P3 (asyncPages) for all interleavings of consumer and
    producer: the version check keeps the delivered pages in the sequence of
    the latest seek, and no configuration in which the consumer still wants
    something is a deadlock. *)
From Coq Require Import List Arith Bool Lia.
From PQ Require Import Conc.Sem Conc.SemProofs Conc.Async.
Import ListNotations.

Fixpoint hist_end (o i : nat) (h : list cev) : nat * nat :=
  match h with
  | [] => (o, i)
  | EvSeek k :: r => hist_end k 0 r
  | EvPage _ _ :: r => hist_end o (S i) r
  end.

Lemma hist_snoc_seek : forall h o i k,
  hist_ok o i h -> hist_ok o i (h ++ [EvSeek k]) /\ hist_end o i (h ++ [EvSeek k]) = (k, 0).
Proof.
  induction h as [|[k'|o' i'] r IH]; intros o i k H; simpl in *.
  - auto.
  - apply IH; auto.
  - destruct H as [-> [-> H]]. destruct (IH o (S i) k H) as [H1 H2]. auto.
Qed.

Lemma hist_snoc_page : forall h o i o' i',
  hist_ok o i h -> hist_end o i h = (o', i') ->
  hist_ok o i (h ++ [EvPage o' i']) /\ hist_end o i (h ++ [EvPage o' i']) = (o', S i').
Proof.
  induction h as [|[k'|o1 i1] r IH]; intros o i o' i' H He; simpl in *.
  - inversion He; subst. auto.
  - apply IH; auto.
  - destruct H as [-> [-> H]]. destruct (IH o (S i) o' i' H He) as [H1 H2]. auto.
Qed.

Lemma hist_okb_spec : forall h o i, hist_okb o i h = true <-> hist_ok o i h.
Proof.
  induction h as [|[k|o' i'] r IH]; intros o i; simpl.
  - tauto.
  - apply IH.
  - rewrite !andb_true_iff, !Nat.eqb_eq, IH. tauto.
Qed.

Record AInv (st : astate) : Prop := mkAInv {
  a_v1 : pv (pr st) <= vc (co st);
  a_v2 : forall k v, seekch (ch st) = Some (k, v) ->
           v = vc (co st) /\ pv (pr st) < vc (co st) /\ k = exp_origin (gh st) /\ exp_idx (gh st) = 0;
  a_v3 : forall k, cp (co st) = CS1 k ->
           seekch (ch st) = None /\ pv (pr st) < vc (co st) /\ k = exp_origin (gh st) /\ exp_idx (gh st) = 0;
  a_v4 : pv (pr st) = vc (co st) -> done_closed (ch st) = false ->
         match pp (pr st) with
         | P0 | P1 => u_origin (pr st) = exp_origin (gh st) /\ u_next (pr st) = exp_idx (gh st)
         | P2 => match seek_row (pr st) with
                 | Some k => k = exp_origin (gh st) /\ exp_idx (gh st) = 0
                 | None => u_origin (pr st) = exp_origin (gh st) /\ u_next (pr st) = exp_idx (gh st)
                 end
         | P3 o i => o = exp_origin (gh st) /\ i = exp_idx (gh st) /\
                     u_origin (pr st) = exp_origin (gh st) /\ u_next (pr st) = S (exp_idx (gh st))
         | _ => True
         end;
  a_v5 : hist_ok 0 0 (hist (gh st)) /\
         hist_end 0 0 (hist (gh st)) = (exp_origin (gh st), exp_idx (gh st));
  a_v6 : done_closed (ch st) = true -> pp (pr st) <> PDone -> cp (co st) = CC2;
  a_v7 : read_closed (ch st) = true -> pp (pr st) = PDone;
  a_d1 : cp (co st) = CR1 -> init_closed (ch st) = true;
  a_d2 : cp (co st) = CC2 -> init_closed (ch st) = true /\ done_closed (ch st) = true;
  a_d3 : cp (co st) = CC1 -> init_closed (ch st) = true;
  a_p3 : forall o i, pp (pr st) = P3 o i -> seek_row (pr st) = None;
  a_d4 : pp (pr st) = PDone -> read_closed (ch st) = true
}.

Lemma ainit_inv : forall calls, AInv (ainit calls).
Proof.
  intros calls. constructor; simpl; auto; try discriminate; try (intros; discriminate).
Qed.

Ltac fin := simpl in *; intuition (try congruence; try lia; try discriminate).

Theorem astep_inv : forall st l st', AInv st -> astep st l = Some st' -> AInv st'.
Proof.
  intros [[prog cp vc sn] [ic dc sc rc] [pp sr pv uo un] [eo ei hi]] l st'
         [V1 V2 V3 V4 [V5a V5b] V6 V7 D1 D2 D3 PP3 D4] Hstep; simpl in *.
  destruct l as [|choice]; simpl in Hstep.
  - (* consumer *)
    unfold cstep in Hstep; simpl in Hstep.
    destruct cp as [| |k| | |].
    + (* CIdle *)
      destruct prog as [|[|k|] rest]; [discriminate| | |].
      * inversion Hstep; subst st'; clear Hstep. constructor; fin.
      * destruct sn.
        -- inversion Hstep; subst st'; clear Hstep. constructor; fin.
        -- destruct (hist_snoc_seek hi 0 0 k V5a) as [Hh1 Hh2].
           destruct sc as [[k0 v0]|].
           ++ inversion Hstep; subst st'; clear Hstep.
              destruct (V2 k0 v0 eq_refl) as [Hv [Hlt _]].
              constructor; simpl; auto; try (intros; discriminate); try lia.
              ** intros k1 Hk; inversion Hk; subst. repeat split; auto.
              ** intros Hd Hp. specialize (V6 Hd Hp). discriminate.
           ++ inversion Hstep; subst st'; clear Hstep.
              constructor; simpl; auto; try (intros; discriminate); try lia.
              ** intros k1 Hk; inversion Hk; subst. repeat split; auto. lia.
              ** intros Hd Hp. specialize (V6 Hd Hp). discriminate.
      * inversion Hstep; subst st'; clear Hstep. constructor; fin.
    + (* CR1 *)
      destruct rc; [|discriminate].
      inversion Hstep; subst st'; clear Hstep. constructor; fin.
    + (* CS1 *)
      destruct sc as [x|]; [discriminate|].
      inversion Hstep; subst st'; clear Hstep.
      destruct (V3 k eq_refl) as [_ [Hlt [Hk He]]].
      constructor; simpl; auto; try (intros; discriminate); try lia.
      * intros k1 v1 H; inversion H; subst. auto.
      * intros Hd Hp. specialize (V6 Hd Hp). discriminate.
    + (* CS2 *)
      inversion Hstep; subst st'; clear Hstep. constructor; fin.
    + (* CC1 *)
      inversion Hstep; subst st'; clear Hstep. constructor; fin.
    + (* CC2 *)
      destruct rc; [|discriminate].
      inversion Hstep; subst st'; clear Hstep. constructor; fin.
  - (* producer *)
    assert (Hrc : rc = false).
    { destruct rc; [|reflexivity]. specialize (V7 eq_refl). subst pp. simpl in Hstep. discriminate. }
    subst rc. unfold pstep in Hstep; simpl in Hstep.
    destruct pp as [| | |o i| | |].
    + (* P0 *)
      destruct choice.
      * destruct ic; [|discriminate]. inversion Hstep; subst st'; clear Hstep. constructor; fin.
      * destruct dc; [|discriminate]. inversion Hstep; subst st'; clear Hstep. constructor; fin.
    + (* P1 *)
      destruct sc as [[k v]|].
      * inversion Hstep; subst st'; clear Hstep.
        destruct (V2 k v eq_refl) as [Hv [Hlt [Hk He]]].
        constructor; simpl; auto; try (intros; discriminate); try lia.
        -- intros k1 Hk1. destruct (V3 k1 Hk1) as [H _]. discriminate.
        -- intros Hd Hp. apply V6; auto. discriminate.
      * inversion Hstep; subst st'; clear Hstep. constructor; fin.
    + (* P2 *)
      destruct sr as [k|].
      * inversion Hstep; subst st'; clear Hstep. constructor; fin.
      * inversion Hstep; subst st'; clear Hstep. constructor; fin.
    + (* P3 *)
      destruct choice as [|[|c2]].
      * (* send on read *)
        unfold crecv in Hstep; simpl in Hstep.
        destruct cp as [| |k| | |]; try discriminate.
        -- (* consumer in ReadPage *)
           destruct (Nat.eqb_spec pv vc) as [Heq|Hne].
           ++ inversion Hstep; subst st'; clear Hstep.
              assert (Hdc : dc = false).
              { destruct dc; [|reflexivity]. assert (CR1 = CC2) by (apply V6; auto; discriminate). discriminate. }
              subst dc. destruct (V4 Heq eq_refl) as [Ho [Hi [Huo Hun]]]. subst o i.
              destruct (hist_snoc_page hi 0 0 eo ei V5a V5b) as [Hh1 Hh2].
              assert (Hsc : sc = None).
              { destruct sc as [[k v]|]; [|reflexivity]. destruct (V2 k v eq_refl) as [_ [Hlt _]]. lia. }
              subst sc. rewrite (PP3 _ _ eq_refl).
              constructor; simpl; auto; try (intros; discriminate); try lia.
           ++ inversion Hstep; subst st'; clear Hstep.
              constructor; simpl; auto; try (intros; discriminate); try lia.
              intros Hd Hp. apply V6; auto. discriminate.
        -- (* consumer draining in Close *)
           inversion Hstep; subst st'; clear Hstep.
           destruct (D2 eq_refl) as [_ Hdc]. subst dc.
           constructor; simpl; auto; try (intros; discriminate); try lia.
      * (* take a seek *)
        destruct sc as [[k v]|]; [|discriminate].
        inversion Hstep; subst st'; clear Hstep.
        destruct (V2 k v eq_refl) as [Hv [Hlt [Hk He]]].
        constructor; simpl; auto; try (intros; discriminate); try lia.
        -- intros k1 Hk1. destruct (V3 k1 Hk1) as [H _]. discriminate.
        -- intros Hd Hp. apply V6; auto. discriminate.
      * destruct dc; [|discriminate]. inversion Hstep; subst st'; clear Hstep. constructor; fin.
    + (* PExit *)
      unfold crecv in Hstep; simpl in Hstep.
      destruct cp as [| |k| | |]; try discriminate;
        inversion Hstep; subst st'; clear Hstep; constructor; fin.
    + (* PClose *)
      inversion Hstep; subst st'; clear Hstep. constructor; fin.
    + discriminate.
Qed.

Lemma reach_inv : forall calls sched st,
  run astep (ainit calls) sched = Some st -> AInv st.
Proof.
  intros calls sched st Hrun.
  eapply (invariant_run _ _ astep AInv); [|apply ainit_inv|exact Hrun].
  intros a l b Ha Hs. eapply astep_inv; eauto.
Qed.

(** P3 safety, all interleavings: what the consumer observes is, after each
    SeekToRow(k), the sequence of pages starting at k, in order and without
    gaps (stale pages produced before the seek are never delivered). *)
Theorem async_versioned : forall calls sched st,
  run astep (ainit calls) sched = Some st -> hist_ok 0 0 (hist (gh st)).
Proof. intros calls sched st Hrun. apply (a_v5 st (reach_inv _ _ _ Hrun)). Qed.

(** P3 deadlock freedom: in every reachable configuration in which the
    consumer still has a call to make or to finish, some step is enabled. *)
Theorem async_no_deadlock : forall calls sched st,
  run astep (ainit calls) sched = Some st -> wants st ->
  exists l st', astep st l = Some st'.
Proof.
  intros calls sched st Hrun Hw. pose proof (reach_inv _ _ _ Hrun) as HI.
  destruct st as [[prog cp vc sn] [ic dc sc rc] [pp sr pv uo un] [eo ei hi]].
  destruct HI as [V1 V2 V3 V4 V5 V6 V7 D1 D2 D3 PP3 D4]; simpl in *.
  unfold wants in Hw; simpl in Hw.
  destruct cp as [| |k| | |].
  - (* between calls, a call remains *)
    destruct prog as [|[|k|] rest]; [destruct Hw; congruence| | |];
      exists LC; simpl; unfold cstep; simpl; eauto.
    destruct sn; eauto. destruct sc; eauto.
  - (* blocked in ReadPage *)
    destruct rc eqn:Erc; [exists LC; simpl; unfold cstep; simpl; eauto|].
    specialize (D1 eq_refl). subst ic.
    destruct pp as [| | |o i| | |].
    + exists (LP 0); simpl; unfold pstep; simpl; eauto.
    + exists (LP 0); simpl; unfold pstep; simpl; destruct sc as [[a b]|]; eauto.
    + exists (LP 0); simpl; unfold pstep; simpl; destruct sr; eauto.
    + exists (LP 0); simpl; unfold pstep, crecv; simpl. destruct (Nat.eqb pv vc); eauto.
    + exists (LP 0); simpl; unfold pstep, crecv; simpl; eauto.
    + exists (LP 0); simpl; unfold pstep; simpl; eauto.
    + specialize (D4 eq_refl). discriminate.
  - (* SeekToRow about to send: the channel is empty *)
    destruct (V3 k eq_refl) as [Hsc _]. subst sc.
    exists LC; simpl; unfold cstep; simpl; eauto.
  - exists LC; simpl; unfold cstep; simpl; eauto.
  - exists LC; simpl; unfold cstep; simpl; eauto.
  - (* Close draining *)
    destruct rc eqn:Erc; [exists LC; simpl; unfold cstep; simpl; eauto|].
    destruct (D2 eq_refl) as [Hic Hdc]. subst ic dc.
    destruct pp as [| | |o i| | |].
    + exists (LP 0); simpl; unfold pstep; simpl; eauto.
    + exists (LP 0); simpl; unfold pstep; simpl; destruct sc as [[a b]|]; eauto.
    + exists (LP 0); simpl; unfold pstep; simpl; destruct sr; eauto.
    + exists (LP 0); simpl; unfold pstep, crecv; simpl; eauto.
    + exists (LP 0); simpl; unfold pstep, crecv; simpl; eauto.
    + exists (LP 0); simpl; unfold pstep; simpl; eauto.
    + specialize (D4 eq_refl). discriminate.
Qed.

(** the send of SeekToRow never blocks (the capacity-1 channel was emptied by
    the select just before), and Close returns only after the producer has
    exited *)
Theorem async_seek_send_never_blocks : forall calls sched st k,
  run astep (ainit calls) sched = Some st -> cp (co st) = CS1 k -> seekch (ch st) = None.
Proof.
  intros calls sched st k Hrun Hcp. destruct (a_v3 st (reach_inv _ _ _ Hrun) k Hcp) as [H _]. exact H.
Qed.

Theorem async_close_joins_producer : forall calls sched st,
  run astep (ainit calls) sched = Some st -> read_closed (ch st) = true -> pp (pr st) = PDone.
Proof. intros calls sched st Hrun. apply (a_v7 st (reach_inv _ _ _ Hrun)). Qed.
