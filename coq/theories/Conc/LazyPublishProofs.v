(** Proofs about P2 (lazy publication), for all interleavings of any number
    of callers. *)
From Coq Require Import List Arith Bool Lia.
From PQ Require Import Conc.Sem Conc.SemProofs Conc.LazyPublish.
Import ListNotations.

Section Proofs.
  Variable V : Type.
  Variable pure : V.

  Notation obj := (obj V).
  Definition lthread : Type := thread (llocal V) lact.

  (* [r] is an object holding the pure value, allocated by some caller *)
  Definition good (r : option obj) : Prop := exists t, r = Some (t, pure).

  (** ** compare-and-swap publication (file.go) *)
  Definition stage_ok (p : option obj) (th : lthread) : Prop :=
    let l := fst th in
    match snd th with
    | [Load; Compute; Cas; Reload; Return] => True
    | [Compute; Cas; Reload; Return] =>
        seen l = None \/ (seen l = p /\ result l = p /\ p <> None)
    | [Cas; Reload; Return] =>
        (seen l = None /\ mine l = Some (me l, pure)) \/ (seen l = p /\ result l = p /\ p <> None)
    | [Reload; Return] =>
        (seen l = None /\ casok l = true /\ result l = p /\ p <> None) \/
        (seen l = None /\ casok l = false /\ p <> None) \/
        (seen l <> None /\ result l = p /\ p <> None)
    | [Return] => result l = p /\ p <> None
    | [] => True
    | _ => False
    end.

  Record LInv (c : lconfig V) : Prop := mkLInv {
    li_ptr : ptr (fst c) = None \/ good (ptr (fst c));
    li_threads : forall t th, nth_error (snd c) t = Some th -> stage_ok (ptr (fst c)) th;
    li_uses : forall t r, In (t, r) (uses (fst c)) -> r = ptr (fst c) /\ r <> None
  }.

  Lemma stage_stable : forall p p' th,
    stage_ok p th -> (p <> None -> p' = p) -> stage_ok p' th.
  Proof.
    intros p p' [l prog] H Hst. unfold stage_ok in *; simpl in *.
    destruct prog as [|a1 [|a2 [|a3 [|a4 [|a5 [|a6 r]]]]]]; auto;
      repeat match goal with x : lact |- _ => destruct x end; auto;
      repeat match goal with
             | H : _ \/ _ |- _ => destruct H
             | H : _ /\ _ |- _ => destruct H
             end;
      try (assert (p' = p) as -> by (apply Hst; assumption)); auto 10.
  Qed.

  Lemma stage_shapes : forall p l a rest, stage_ok p (l, a :: rest) ->
    (a = Load /\ rest = [Compute; Cas; Reload; Return]) \/
    (a = Compute /\ rest = [Cas; Reload; Return]) \/
    (a = Cas /\ rest = [Reload; Return]) \/
    (a = Reload /\ rest = [Return]) \/
    (a = Return /\ rest = []).
  Proof.
    intros p l a rest H. unfold stage_ok in H; simpl in H.
    destruct a; destruct rest as [|a2 [|a3 [|a4 [|a5 [|a6 r]]]]]; try contradiction;
      repeat match goal with x : lact |- _ => destruct x end; try contradiction; auto 10.
  Qed.

  Lemma others_ok : forall (ts : list lthread) t x p p',
    (forall t' th, nth_error ts t' = Some th -> stage_ok p th) ->
    (p <> None -> p' = p) -> stage_ok p' x ->
    forall t' th, nth_error (set_nth t x ts) t' = Some th -> stage_ok p' th.
  Proof.
    intros ts t x p p' Hall Hst Hx t' th H. rewrite nth_error_set_nth in H.
    destruct (Nat.eqb t t').
    - destruct (Nat.ltb t (length ts)); [inversion H; subst; exact Hx|discriminate].
    - eapply stage_stable; [eapply Hall; eauto|exact Hst].
  Qed.

  Theorem lstep_inv : forall c t c', LInv c -> lstep pure c t = Some c' -> LInv c'.
  Proof.
    intros [s ts] t c' [Hp Ht Hu] Hstep. unfold lstep, tstep in Hstep; simpl in *.
    destruct (nth_error ts t) as [[l [|a rest]]|] eqn:Hn; try discriminate.
    pose proof (Ht t _ Hn) as Hst.
    destruct (stage_shapes _ _ _ _ Hst) as [[-> ->]|[[-> ->]|[[-> ->]|[[-> ->]|[-> ->]]]]];
      unfold stage_ok in Hst; simpl in Hst; unfold lexec in Hstep.
    - (* Load *)
      inversion Hstep; subst c'; clear Hstep. constructor; simpl; auto.
      apply others_ok with (p := ptr s); auto.
      unfold stage_ok; simpl. destruct (ptr s) as [o|] eqn:E; [right|left]; auto.
      repeat split; auto; discriminate.
    - (* Compute *)
      destruct (seen l) eqn:Es.
      + inversion Hstep; subst c'; clear Hstep. constructor; simpl; auto.
        apply others_ok with (p := ptr s); auto. unfold stage_ok; simpl.
        destruct Hst as [H|H]; [congruence|]. right. rewrite Es. exact H.
      + inversion Hstep; subst c'; clear Hstep. constructor; simpl; auto.
        apply others_ok with (p := ptr s); auto. unfold stage_ok; simpl. left; auto.
    - (* Cas *)
      destruct (seen l) eqn:Es.
      + inversion Hstep; subst c'; clear Hstep. constructor; simpl; auto.
        apply others_ok with (p := ptr s); auto. unfold stage_ok; simpl.
        destruct Hst as [[H _]|H]; [congruence|]. right; right. rewrite Es.
        destruct H as [H1 [H2 H3]]. repeat split; auto. discriminate.
      + destruct Hst as [[_ Hm]|[H1 [_ H3]]]; [|congruence].
        destruct (ptr s) as [o|] eqn:Ep.
        * inversion Hstep; subst c'; clear Hstep.
          assert (Hne : Some o <> None) by discriminate.
          constructor; simpl; rewrite ?Ep; auto.
          apply others_ok with (p := Some o); auto.
          unfold stage_ok; simpl. right; left. auto.
        * inversion Hstep; subst c'; clear Hstep. constructor; simpl.
          -- right. exists (me l). exact Hm.
          -- apply others_ok with (p := None); auto.
             ++ intros H; contradiction.
             ++ unfold stage_ok; simpl. left. rewrite Hm. repeat split; auto; discriminate.
          -- intros t0 r Hin. destruct (Hu t0 r Hin) as [H1 H2]. contradiction.
    - (* Reload *)
      destruct (seen l) eqn:Es.
      + inversion Hstep; subst c'; clear Hstep. constructor; simpl; auto.
        apply others_ok with (p := ptr s); auto. unfold stage_ok; simpl.
        destruct Hst as [[H _]|[[H _]|[_ H]]]; try congruence; try exact H.
      + destruct (casok l) eqn:Ec.
        * inversion Hstep; subst c'; clear Hstep. constructor; simpl; auto.
          apply others_ok with (p := ptr s); auto. unfold stage_ok; simpl.
          destruct Hst as [[_ [_ H]]|[[_ [H _]]|[H _]]]; try congruence; try exact H.
        * inversion Hstep; subst c'; clear Hstep. constructor; simpl; auto.
          apply others_ok with (p := ptr s); auto. unfold stage_ok; simpl.
          destruct Hst as [[_ [H _]]|[[_ [_ H]]|[H _]]]; try congruence; auto.
    - (* Return *)
      inversion Hstep; subst c'; clear Hstep. constructor; simpl; auto.
      + apply others_ok with (p := ptr s); auto. unfold stage_ok; simpl. auto.
      + intros t0 r Hin. apply in_app_or in Hin. destruct Hin as [Hin|[Heq|[]]].
        * apply (Hu t0 r Hin).
        * inversion Heq; subst. destruct Hst as [H1 H2]. split; congruence.
  Qed.

  Lemma linit_inv : forall n, LInv (linit cas_prog n).
  Proof.
    intros n. constructor; simpl; auto.
    - intros t th H. apply nth_error_In in H. apply in_map_iff in H.
      destruct H as [k [<- _]]. unfold stage_ok; simpl. exact I.
    - intros t r [].
  Qed.

  (** P2, compare-and-swap, all interleavings of [n] callers: whatever has
      been published is an object holding the pure value, allocated by one of
      the callers; every call that returned got exactly that one object (the
      same pointer for everybody, never nil). *)
  Theorem lazy_publish_agree : forall n sched c,
    run (lstep pure) (linit cas_prog n) sched = Some c ->
    (ptr (fst c) = None \/ good (ptr (fst c))) /\
    (forall t r, In (t, r) (uses (fst c)) -> r = ptr (fst c) /\ good r).
  Proof.
    intros n sched c Hrun.
    assert (HI : LInv c).
    { eapply (invariant_run _ _ (lstep pure) LInv); [|apply linit_inv|exact Hrun].
      intros c0 t c1 H0 Hs. eapply lstep_inv; eauto. }
    destruct HI as [Hp _ Hu]. split; [exact Hp|].
    intros t r Hin. destruct (Hu t r Hin) as [H1 H2]. split; [exact H1|].
    destruct Hp as [Hp|Hp]; [congruence|]. rewrite H1; exact Hp.
  Qed.

  (** once published the pointer never changes *)
  Theorem lazy_publish_stable : forall c t c' o,
    LInv c -> lstep pure c t = Some c' -> ptr (fst c) = Some o -> ptr (fst c') = Some o.
  Proof.
    intros [s ts] t c' o [Hp Ht Hu] Hstep Ho. unfold lstep, tstep in Hstep; simpl in *.
    destruct (nth_error ts t) as [[l [|a rest]]|] eqn:Hn; try discriminate.
    destruct (lexec V pure s l a) as [[s' l']|] eqn:He; [|discriminate].
    inversion Hstep; subst c'; simpl.
    pose proof (Ht t _ Hn) as Hst.
    destruct (stage_shapes _ _ _ _ Hst) as [[-> ->]|[[-> ->]|[[-> ->]|[[-> ->]|[-> ->]]]]];
      unfold lexec in He;
      repeat match type of He with
             | context [match ?x with _ => _ end] => destruct x eqn:?
             end; inversion He; subst; simpl; try assumption; try congruence.
  Qed.

  (** ** plain Store of an equal value (schema.go cacheMap.load) *)
  Definition sstage_ok (th : lthread) : Prop :=
    let l := fst th in
    (seen l = None \/ good (seen l)) /\
    match snd th with
    | [Load; Compute; StoreA; Return] => True
    | [Compute; StoreA; Return] => seen l = None \/ good (result l)
    | [StoreA; Return] => (seen l = None /\ mine l = Some (me l, pure)) \/ (seen l <> None /\ good (result l))
    | [Return] => good (result l)
    | [] => True
    | _ => False
    end.

  Record SInv (c : lconfig V) : Prop := mkSInv {
    si_ptr : ptr (fst c) = None \/ good (ptr (fst c));
    si_threads : forall t th, nth_error (snd c) t = Some th -> sstage_ok th;
    si_uses : forall t r, In (t, r) (uses (fst c)) -> good r
  }.

  Lemma sstage_shapes : forall l a rest, sstage_ok (l, a :: rest) ->
    (a = Load /\ rest = [Compute; StoreA; Return]) \/
    (a = Compute /\ rest = [StoreA; Return]) \/
    (a = StoreA /\ rest = [Return]) \/
    (a = Return /\ rest = []).
  Proof.
    intros l a rest [_ H]. simpl in H.
    destruct a; destruct rest as [|a2 [|a3 [|a4 [|a5 r]]]]; try contradiction;
      repeat match goal with x : lact |- _ => destruct x end; try contradiction; auto 10.
  Qed.

  Lemma sothers_ok : forall (ts : list lthread) t x,
    (forall t' th, nth_error ts t' = Some th -> sstage_ok th) -> sstage_ok x ->
    forall t' th, nth_error (set_nth t x ts) t' = Some th -> sstage_ok th.
  Proof.
    intros ts t x Hall Hx t' th H. rewrite nth_error_set_nth in H.
    destruct (Nat.eqb t t').
    - destruct (Nat.ltb t (length ts)); [inversion H; subst; exact Hx|discriminate].
    - eapply Hall; eauto.
  Qed.

  Theorem sstep_inv : forall c t c', SInv c -> lstep pure c t = Some c' -> SInv c'.
  Proof.
    intros [s ts] t c' [Hp Ht Hu] Hstep. unfold lstep, tstep in Hstep; simpl in *.
    destruct (nth_error ts t) as [[l [|a rest]]|] eqn:Hn; try discriminate.
    pose proof (Ht t _ Hn) as Hst.
    destruct (sstage_shapes _ _ _ Hst) as [[-> ->]|[[-> ->]|[[-> ->]|[-> ->]]]];
      destruct Hst as [Hseen Hst]; simpl in Hseen, Hst; unfold lexec in Hstep.
    - inversion Hstep; subst c'; clear Hstep. constructor; simpl; auto.
      apply sothers_ok; auto. split; simpl.
      + destruct Hp; auto.
      + destruct (ptr s) as [o|] eqn:E; [right|left]; auto. destruct Hp as [Hp|Hp]; [discriminate|exact Hp].
    - destruct (seen l) eqn:Es.
      + inversion Hstep; subst c'; clear Hstep. constructor; simpl; auto.
        apply sothers_ok; auto. split; simpl; [rewrite Es; auto|].
        right. split; [rewrite Es; discriminate|]. destruct Hst as [H|H]; [discriminate|exact H].
      + inversion Hstep; subst c'; clear Hstep. constructor; simpl; auto.
        apply sothers_ok; auto. split; simpl; auto.
    - destruct (seen l) eqn:Es.
      + inversion Hstep; subst c'; clear Hstep. constructor; simpl; auto.
        apply sothers_ok; auto. split; simpl; [rewrite Es; auto|].
        destruct Hst as [[H _]|[_ H]]; [discriminate|exact H].
      + destruct Hst as [[_ Hm]|[H _]]; [|congruence].
        inversion Hstep; subst c'; clear Hstep. constructor; simpl; auto.
        * right. exists (me l); exact Hm.
        * apply sothers_ok; auto. split; simpl; auto. exists (me l); exact Hm.
    - inversion Hstep; subst c'; clear Hstep. constructor; simpl; auto.
      + apply sothers_ok; auto. split; simpl; auto.
      + intros t0 r Hin. apply in_app_or in Hin. destruct Hin as [Hin|[Heq|[]]].
        * apply (Hu t0 r Hin).
        * inversion Heq; subst. exact Hst.
  Qed.

  (** P2 with a plain Store: every call returns an object holding the pure
      value (the callers agree on the contents; the pointers may differ). *)
  Theorem lazy_store_agree : forall n sched c,
    run (lstep pure) (linit store_prog n) sched = Some c ->
    (ptr (fst c) = None \/ good (ptr (fst c))) /\
    (forall t r, In (t, r) (uses (fst c)) -> good r).
  Proof.
    intros n sched c Hrun.
    assert (HI : SInv c).
    { eapply (invariant_run _ _ (lstep pure) SInv); [| |exact Hrun].
      - intros c0 t c1 H0 Hs. eapply sstep_inv; eauto.
      - constructor; simpl; auto.
        + intros t th H. apply nth_error_In in H. apply in_map_iff in H.
          destruct H as [k [<- _]]. split; simpl; auto.
        + intros t r []. }
    destruct HI as [Hp _ Hu]. auto.
  Qed.
End Proofs.
