(** C16 — OWNERSHIP layer on top of the refcount protocol (P1).

    Memory cells (value buffers of pages, Go values, caller slices) carry a tag

        TLive rc    a pooled buffer with [rc] >= 1 references (buffer.go)
        TPooled     in a pool (after unref reached 0, or after a slice was
                    returned to the memory pools): its bytes may be overwritten
                    at any time by whoever gets it next (and ARE overwritten by
                    the poison hook)
        TDetached   bufferedPage.ReleaseAndDetachValues: never returned to a
                    pool, left to the garbage collector
        TCaller     memory of the caller: Go values filled by Read, clones
                    (Row.Clone), slices passed to Write

    and an abstract content [cval].  Values handed to the caller are
    (cell reference, content at hand-out) pairs; scalar parquet Values carry
    their bits inline ([vcell = None]).  The caller's ENTITLEMENT is the list
    [held]: batches of values with the window they are valid for.

    The transition system has PRIMITIVE labels (each a small heap update); the
    API calls of the property are sequences of primitives ([expand]):

      ReadRows on reader r  = PEnd r ; [PCollect r] ; (PRelease r ; PLoad r c ; PCollect r)*
        rowGroupRows.ReadRows: the batch holds values of the current page and of
        every page crossed during the call; a crossed page is released by
        columnChunkValueReader.clear — ReleaseAndDetachValues when [rdetach]
        (set for ByteArray / FixedLenByteArray columns, row_group.go), Release
        otherwise
      Seek / Close on r     = PEnd r ; PRelease r ; PSetReader r ...
      Row.Clone             = PCopy (type_byte_array / value.go copy the bytes)
      Read[T] / GenericReader.Read = ReadRows into an internal batch ; PCopy ;
        PDrop of the internal batch  (byteArrayType.AssignValue: string(v) and
        copyBytes(v) COPY the bytes out of page memory)
      Pages().ReadPage      = PReadPage (the caller owns one reference),
      Retain / Release      = PRetain / PReleaseC
      pool churn by other readers / writers / the poison hook = PChurn
      Write(rows)           = PWrite (reads caller cells, writes library cells)

    Executable; proofs in Conc/OwnershipProofs.v. *)
From Coq Require Import List Arith Bool.
From PQ Require Import Conc.Sem.
Import ListNotations.

Inductive tag : Type := TLive (rc : nat) | TPooled | TDetached | TCaller.

(* cowner (ghost): the reader holding one reference; ccaller (ghost): the
   references the caller holds (ReadPage / Retain) *)
Record cell : Type := mkCell { ctag : tag; cval : nat; cowner : option nat; ccaller : nat }.

Record reader : Type := mkReader {
  rpage : option nat;   (* cell of the current page's value buffer *)
  rdetach : bool;       (* columnChunkValueReader.detach *)
  rbytes : bool;        (* values reference page memory (byte array column) *)
  rclosed : bool;
  rpos : nat            (* number of the next page to load *)
}.

Inductive window : Type := WForever | WUntilNext (r : nat) | WWhileHeld (c : nat).

Record value : Type := mkValue { vcell : option nat; vsnap : nat }.
Record batch : Type := mkBatch { bid : nat; bwin : window; bvals : list value }.

Record ostate : Type := mkO { heap : list cell; readers : list reader; held : list batch }.

Inductive prim : Type :=
  | PEnd (r : nat)                    (* a new call on reader r: earlier rows of r are no longer valid *)
  | PRelease (r : nat)                (* reader r lets go of its current page *)
  | PLoad (r c : nat)                 (* reader r reads its next page into cell c (from the pool, or fresh) *)
  | PCollect (r b : nat)              (* the value of r's current page joins batch b (rows of r) *)
  | PSetReader (r : nat) (closed : bool) (pos : nat)
  | PCopy (b b' : nat)                (* copy the values of batch b into fresh caller memory: batch b' *)
  | PDrop (b : nat)                   (* the caller (or Read[T]) forgets batch b *)
  | PReadPage (r c b : nat)           (* ReadPage hands a page (cell c) to the caller; its value is batch b *)
  | PRetain (c : nat) | PReleaseC (c : nat)
  | PChurn (c v : nat)                (* somebody else got pooled cell c, wrote v, returned it *)
  | PWrite (src c : nat).             (* a writer reads caller cell src into library cell c *)

Definition poison : nat := 165.  (* 0xA5 *)

(* page contents used by the replay: distinct per reader and page *)
Definition default_pagefun (r p : nat) : nat := (r + 1) * 100 + p.

Definition is_pooled_or_fresh (h : list cell) (c : nat) : bool :=
  match nth_error h c with
  | Some x => match ctag x with TPooled => true | _ => false end
  | None => Nat.eqb c (length h)
  end.

(* store cell x at index c, appending when c = length h *)
Definition put_cell (h : list cell) (c : nat) (x : cell) : list cell :=
  if Nat.ltb c (length h) then set_nth c x h else h ++ [x].

Definition win_eqb (w1 w2 : window) : bool :=
  match w1, w2 with
  | WForever, WForever => true
  | WUntilNext a, WUntilNext b => Nat.eqb a b
  | WWhileHeld a, WWhileHeld b => Nat.eqb a b
  | _, _ => false
  end.

Definition drop_win (w : window) (l : list batch) : list batch :=
  filter (fun b => negb (win_eqb (bwin b) w)) l.

Definition drop_id (i : nat) (l : list batch) : list batch :=
  filter (fun b => negb (Nat.eqb (bid b) i)) l.

Fixpoint add_value (i : nat) (w : window) (v : value) (l : list batch) : list batch :=
  match l with
  | [] => [mkBatch i w [v]]
  | b :: r => if Nat.eqb (bid b) i && win_eqb (bwin b) w
              then mkBatch i w (bvals b ++ [v]) :: r
              else b :: add_value i w v r
  end.

Definition find_batch (i : nat) (l : list batch) : option batch :=
  find (fun b => Nat.eqb (bid b) i) l.

(* the unref half: one reference less; at 0 the buffer is pooled (and poisoned) *)
Definition unref_cell (x : cell) (owner' : option nat) (caller' : nat) : cell :=
  match ctag x with
  | TLive (S n) => if Nat.eqb n 0 then mkCell TPooled poison None 0
                   else mkCell (TLive n) (cval x) owner' caller'
  | _ => x
  end.

Section Step.
  (* content of page number p of reader r: a pure function of the file *)
  Variable pagefun : nat -> nat -> nat.

  (* copy values into fresh caller cells *)
  Fixpoint copy_values (h : list cell) (vs : list value) : list cell * list value :=
    match vs with
    | [] => (h, [])
    | v :: r =>
        match vcell v with
        | None => let (h', r') := copy_values h r in (h', v :: r')
        | Some c =>
            let now := match nth_error h c with Some x => cval x | None => 0 end in
            let h1 := h ++ [mkCell TCaller now None 0] in
            let (h', r') := copy_values h1 r in
            (h', mkValue (Some (length h)) (vsnap v) :: r')
        end
    end.

  Definition ostep (st : ostate) (l : prim) : option ostate :=
    let h := heap st in
    match l with
    | PEnd r => Some (mkO h (readers st) (drop_win (WUntilNext r) (held st)))
    | PRelease r =>
        match nth_error (readers st) r with
        | Some rd =>
            match rpage rd with
            | Some c =>
                match nth_error h c with
                | Some x =>
                    let x' := if rdetach rd then mkCell TDetached (cval x) None 0
                              else unref_cell x None (ccaller x) in
                    Some (mkO (set_nth c x' h)
                              (set_nth r (mkReader None (rdetach rd) (rbytes rd) (rclosed rd) (rpos rd)) (readers st))
                              (held st))
                | None => None
                end
            | None => None
            end
        | None => None
        end
    | PLoad r c =>
        match nth_error (readers st) r with
        | Some rd =>
            match rpage rd with
            | None =>
                if negb (rclosed rd) && is_pooled_or_fresh h c then
                  Some (mkO (put_cell h c (mkCell (TLive 1) (pagefun r (rpos rd)) (Some r) 0))
                            (set_nth r (mkReader (Some c) (rdetach rd) (rbytes rd) (rclosed rd) (S (rpos rd))) (readers st))
                            (held st))
                else None
            | Some _ => None
            end
        | None => None
        end
    | PCollect r b =>
        match nth_error (readers st) r with
        | Some rd =>
            match rpage rd with
            | Some c =>
                match nth_error h c with
                | Some x =>
                    let v := mkValue (if rbytes rd then Some c else None) (cval x) in
                    Some (mkO h (readers st) (add_value b (WUntilNext r) v (held st)))
                | None => None
                end
            | None => None
            end
        | None => None
        end
    | PSetReader r closed pos =>
        match nth_error (readers st) r with
        | Some rd =>
            match rpage rd with
            | None => Some (mkO h (set_nth r (mkReader None (rdetach rd) (rbytes rd) (rclosed rd || closed) pos) (readers st)) (held st))
            | Some _ => None
            end
        | None => None
        end
    | PCopy b b' =>
        match find_batch b (held st) with
        | Some bt =>
            let (h', vs') := copy_values h (bvals bt) in
            Some (mkO h' (readers st) (held st ++ [mkBatch b' WForever vs']))
        | None => None
        end
    | PDrop b => Some (mkO h (readers st) (drop_id b (held st)))
    | PReadPage r c b =>
        match nth_error (readers st) r with
        | Some rd =>
            if negb (rclosed rd) && is_pooled_or_fresh h c then
              let content := pagefun r (rpos rd) in
              Some (mkO (put_cell h c (mkCell (TLive 1) content None 1))
                        (set_nth r (mkReader (rpage rd) (rdetach rd) (rbytes rd) (rclosed rd) (S (rpos rd))) (readers st))
                        (held st ++ [mkBatch b (WWhileHeld c) [mkValue (Some c) content]]))
            else None
        | None => None
        end
    | PRetain c =>
        match nth_error h c with
        | Some x =>
            match ctag x with
            | TLive n => if Nat.leb 1 (ccaller x)
                         then Some (mkO (set_nth c (mkCell (TLive (S n)) (cval x) (cowner x) (S (ccaller x))) h) (readers st) (held st))
                         else None
            | _ => None
            end
        | None => None
        end
    | PReleaseC c =>
        match nth_error h c with
        | Some x =>
            if Nat.leb 1 (ccaller x) then
              Some (mkO (set_nth c (unref_cell x (cowner x) (ccaller x - 1)) h) (readers st)
                        (if Nat.eqb (ccaller x) 1 then drop_win (WWhileHeld c) (held st) else held st))
            else None
        | None => None
        end
    | PChurn c v =>
        match nth_error h c with
        | Some x => match ctag x with
                    | TPooled => Some (mkO (set_nth c (mkCell TPooled v None 0) h) (readers st) (held st))
                    | _ => None
                    end
        | None => None
        end
    | PWrite src c =>
        match nth_error h src with
        | Some x =>
            match ctag x with
            | TCaller =>
                if is_pooled_or_fresh h c
                then Some (mkO (put_cell h c (mkCell TPooled (cval x) None 0)) (readers st) (held st))
                else None
            | _ => None
            end
        | None => None
        end
    end.

  (** ** the API calls as sequences of primitives (for the replay) *)
  Definition pick_cell (st : ostate) : nat :=
    (fix go (h : list cell) (i : nat) : nat :=
       match h with
       | [] => i
       | x :: r => match ctag x with TPooled => i | _ => go r (S i) end
       end) (heap st) 0.

  Inductive op : Type :=
    | OReadRows (r cross : nat)     (* ReadRows crossing [cross] page boundaries *)
    | OReadTyped (r cross : nat)    (* Read[T] / GenericReader.Read *)
    | OClone (r : nat)              (* Row.Clone of the rows last returned by reader r *)
    | OSeek (r pos : nat) | OClose (r : nat)
    | OChurn (v : nat)              (* every pooled cell is overwritten with v *)
    | OGC.

  (* run a list of primitives, skipping those not enabled *)
  Fixpoint run_prims (st : ostate) (ps : list prim) : ostate :=
    match ps with
    | [] => st
    | p :: r => match ostep st p with Some st' => run_prims st' r | None => run_prims st r end
    end.

  Definition has_page (st : ostate) (r : nat) : bool :=
    match nth_error (readers st) r with
    | Some rd => match rpage rd with Some _ => true | None => false end
    | None => false
    end.

  (* movement of ReadRows: values of the current page, then cross pages *)
  Fixpoint read_move (st : ostate) (r b cross : nat) : ostate :=
    match cross with
    | 0 => st
    | S n =>
        let st1 := run_prims st [PRelease r] in
        let st2 := run_prims st1 [PLoad r (pick_cell st1); PCollect r b] in
        read_move st2 r b n
    end.

  Definition read_rows (st : ostate) (r b cross : nat) : ostate :=
    let st0 := run_prims st [PEnd r] in
    let st1 := if has_page st0 r then run_prims st0 [PCollect r b]
               else run_prims st0 [PLoad r (pick_cell st0); PCollect r b] in
    read_move st1 r b cross.

  Fixpoint churn_all (st : ostate) (v : nat) (i : nat) : ostate :=
    match i with
    | 0 => st
    | S n => churn_all (run_prims st [PChurn n v]) v n
    end.

  (* [i] = number of the operation = id of the batch it hands out; internal
     batches of typed reads use ids >= 1000 *)
  Definition do_op (st : ostate) (i : nat) (o : op) : ostate :=
    match o with
    | OReadRows r cross => read_rows st r i cross
    | OReadTyped r cross =>
        let tmp := 1000 + i in
        let st1 := read_rows st r tmp cross in
        run_prims st1 [PCopy tmp i; PEnd r]
    | OClone r =>
        match find (fun b => win_eqb (bwin b) (WUntilNext r)) (held st) with
        | Some bt => run_prims st [PCopy (bid bt) i]
        | None => st
        end
    | OSeek r pos => run_prims st [PEnd r; PRelease r; PSetReader r false pos]
    | OClose r => run_prims st [PEnd r; PRelease r; PSetReader r true 0]
    | OChurn v => churn_all st v (length (heap st))
    | OGC => st
    end.

  (* after each operation: the ids of the batches the caller is entitled to,
     and whether every entitled value still has its content *)
  Definition value_ok (h : list cell) (v : value) : bool :=
    match vcell v with
    | None => true
    | Some c => match nth_error h c with
                | Some x => Nat.eqb (cval x) (vsnap v) &&
                            match ctag x with TPooled => false | _ => true end
                | None => false
                end
    end.

  Definition state_ok (st : ostate) : bool :=
    forallb (fun b => forallb (value_ok (heap st)) (bvals b)) (held st).

  Fixpoint replay (st : ostate) (i : nat) (ops : list op) : list (list nat * bool) :=
    match ops with
    | [] => []
    | o :: r =>
        let st' := do_op st i o in
        (map bid (held st'), state_ok st') :: replay st' (S i) r
    end.

  (* [n] readers of byte array columns (detach set, as row_group.go does) *)
  Definition oinit (n : nat) (detach : bool) : ostate :=
    mkO [] (repeat (mkReader None detach true false 0) n) [].
End Step.
