(** A Parquet file decoder written from the format specification only
    (parquet.thrift, Encodings.md, the file layout in README.md): magic, footer,
    schema, column chunks, page headers, checksums, level and value
    encodings.  It recomputes what the footer claims (offsets, sizes, counts)
    from the bytes and returns the decoded column streams.  Extracted, it is the
    independent decoder of C02.  Compressed pages: UNCOMPRESSED and SNAPPY decoded here, the other codecs by the decompressor [ext] the decoder is given (see [decompress]). *)
From Coq Require Import List NArith ZArith Bool Arith.
From Coq Require String.
Import String.StringSyntax.
From PQ Require Import Base.Bytes Base.Varint Base.BitPack Thrift.Compact.
From PQ Require Import Enc.DeltaBP Enc.Rle Enc.RleProofs Enc.Plain Enc.PlainFast Enc.ByteArrayDelta.
From PQ Require Import Crc.Model Codec.Snappy.
Import ListNotations.
Open Scope N_scope.

Definition sub (b : bytes) (off len : nat) : option bytes :=
  if (off + len <=? length b)%nat then Some (firstn len (skipn off b)) else None.

Definition magic : bytes := [80; 65; 82; 49].   (* "PAR1" *)

(** The file is held as blocks of 1024 bytes so that the bytes at an offset are
    reached in time proportional to offset/1024 instead of offset. *)
(* absolute offsets and totals are [N] (never unary): [nat] is only used for
   amounts of data that are actually traversed *)
Record fbytes := { fb_len : N; fb_blocks : list bytes }.

Definition block_size : nat := 1024.

Fixpoint split_blocks (fuel : nat) (b : bytes) : list bytes :=
  match fuel with
  | O => []
  | S f => match b with
           | [] => []
           | _ => firstn block_size b :: split_blocks f (skipn block_size b)
           end
  end.

Definition mk_fbytes (b : bytes) : fbytes :=
  {| fb_len := N.of_nat (length b); fb_blocks := split_blocks (S (length b / block_size)) b |}.

Definition fsub (fb : fbytes) (off : N) (len : nat) : option bytes :=
  if (off + N.of_nat len <=? fb_len fb) then
    let bsz := N.of_nat block_size in
    let bs := skipn (N.to_nat (off / bsz)) (fb_blocks fb) in
    let inner := N.to_nat (off mod bsz) in
    let need := S (S ((inner + len) / block_size)) in
    Some (firstn len (skipn inner (concat (firstn need bs))))
  else None.

(* thrift structures of parquet files are shallow: this bounds the nesting depth
   and the number of fields of one struct, not the size of the input *)
Definition thrift_fuel : nat := 64.

Definition decode_thrift (b : bytes) : option (tval * bytes) := dec_val thrift_fuel T_STRUCT b.

(** * Schema *)

Record leaf := {
  l_path : list bytes;
  l_type : Z;         (* physical type *)
  l_tlen : nat;       (* type_length *)
  l_maxr : nat;
  l_maxd : nat;
}.

Definition zdef (o : option Z) (d : Z) : Z := match o with Some z => z | None => d end.

(* walk [count] nodes of the flattened schema *)
Fixpoint walk (fuel : nat) (elems : list tval) (count : nat) (r d : nat) (path : list bytes)
  : option (list leaf * list tval) :=
  match fuel with
  | O => None
  | S f =>
      match count with
      | O => Some ([], elems)
      | S c =>
          match elems with
          | [] => None
          | e :: rest =>
              let rep := zdef (get_int 3 e) 0 in
              let r' := if (rep =? 2)%Z then S r else r in
              let d' := if (rep =? 0)%Z then d else S d in
              let name := match get_bin 4 e with Some n => n | None => [] end in
              let nchild := Z.to_nat (zdef (get_int 5 e) 0) in
              let sub_result :=
                match get_int 1 e with
                | Some ty =>
                    (* a leaf *)
                    Some ([{| l_path := path ++ [name]; l_type := ty;
                              l_tlen := Z.to_nat (zdef (get_int 2 e) 0);
                              l_maxr := r'; l_maxd := d' |}], rest)
                | None => walk f rest nchild r' d' (path ++ [name])
                end in
              match sub_result with
              | None => None
              | Some (ls, rest') =>
                  match walk f rest' c r d path with
                  | Some (ls', rest'') => Some (ls ++ ls', rest'')
                  | None => None
                  end
              end
          end
      end
  end.

Definition leaves_of (schema : list tval) : option (list leaf) :=
  match schema with
  | root :: rest =>
      match walk (S (2 * length schema)) rest (Z.to_nat (zdef (get_int 5 root) 0)) 0 0 [] with
      | Some (ls, []) => Some ls
      | _ => None
      end
  | [] => None
  end.

(** * Pages *)

Record page := {
  p_offset : N;             (* file offset of the page header *)
  p_hlen : nat;             (* header length *)
  p_type : Z;               (* 0 data, 2 dictionary, 3 data v2 *)
  p_comp : nat;             (* compressed_page_size *)
  p_uncomp : nat;           (* uncompressed_page_size *)
  p_ulen : nat;             (* length of the body once decompressed (levels included) *)
  p_crc_present : bool;
  p_crc_ok : bool;
  p_nvalues : nat;
  p_nrows : option nat;     (* v2 *)
  p_nnulls : option nat;    (* v2 *)
  p_encoding : Z;
  p_rep : list N;
  p_def : list N;
  p_values : list bytes;    (* non-null values, PLAIN bytes each *)
}.

Definition bytes_of_z (k : nat) (width : N) (z : Z) : bytes := to_le k (wrapZ width z).

(* Compression codecs.  UNCOMPRESSED (0) and SNAPPY (1) are decoded here.  The other codecs
   of the format (GZIP 2, BROTLI 4, ZSTD 6, LZ4_RAW 7, ...) are decoded by [ext], a
   decompressor supplied from outside the model: [ext codec b] is [Some d] when [b] is a
   complete, well-formed compressed stream of that codec whose content is [d], and [None]
   otherwise (in particular for a section of zero bytes: no codec other than UNCOMPRESSED has an empty
   encoding of the empty string, a gzip member, a zstd frame, a brotli stream, an LZ4 block
   and a snappy block all hold at least one byte).  Every definition and theorem below holds
   for every [ext]; the run instantiates it with the reference implementations of the codecs
   (harness/c02/refcodec), [no_ext] is the decoder that knows codecs 0 and 1 only. *)
Definition ext_fn := Z -> bytes -> option bytes.
Definition no_ext : ext_fn := fun _ _ => None.

Definition decompress (ext : ext_fn) (codec : Z) (b : bytes) : option bytes :=
  if (codec =? 0)%Z then Some b
  else if (codec =? 1)%Z then snappy_decode b
  else ext codec b.

Definition split_fixed (k n : nat) (b : bytes) : option (list bytes) :=
  match sub b 0 (k * n) with
  | Some x => Some (Plain.split_every n k x)
  | None => None
  end.

Definition fixed_width (ty : Z) (tlen : nat) : nat :=
  if (ty =? 1)%Z then 4 else if (ty =? 2)%Z then 8 else if (ty =? 3)%Z then 12
  else if (ty =? 4)%Z then 4 else if (ty =? 5)%Z then 8 else if (ty =? 7)%Z then tlen else 0.

(* Dictionary lookup.  [nth_error dict (N.to_nat i)] costs a walk of [i] cells for every index: quadratic on
   dictionaries of 2^16 and more values.  The dictionary is cut once per page into blocks of 256 values and an
   index is looked up as (block i/256, position i mod 256): [dict_lookup (dict_blocks dict) i = nth_error dict
   (N.to_nat i)] for every [dict] and [i] (SpecDecoderProofs.v dict_lookup_eq; C02_dictionary_lookup). *)
Definition dict_block : nat := 256.
Definition dict_blocks {A} (dict : list A) : list (list A) :=
  Plain.split_every (S (length dict / dict_block)) dict_block dict.
Definition dict_lookup {A} (blocks : list (list A)) (i : N) : option A :=
  match nth_error blocks (N.to_nat (i / 256)) with
  | Some b => nth_error b (N.to_nat (i mod 256))
  | None => None
  end.

(* decode [n] non-null values *)
Definition decode_values (ty : Z) (tlen : nat) (enc : Z) (dict : list bytes) (n : nat) (data : bytes)
  : option (list bytes) :=
  if (enc =? 0)%Z then
    if (ty =? 0)%Z then
      match dec_plain_boolean n data with Some bits => Some (map (fun x => [x]) bits) | None => None end
    else if (ty =? 6)%Z then
      match dec_plain_byte_array (S (length data)) data with
      | Some vs => if (length vs =? n)%nat then Some vs else None
      | None => None
      end
    else split_fixed (fixed_width ty tlen) n data
  else if (enc =? 8)%Z || (enc =? 2)%Z then
    if (n =? 0)%nat then Some [] else
    match dec_dict_indexes data with
    | Some idx =>
        if (n <=? length idx)%nat then
          let blocks := dict_blocks dict in
          let look := map (fun i => dict_lookup blocks i) (firstn n idx) in
          if forallb (fun o => match o with Some _ => true | None => false end) look
          then Some (map (fun o => match o with Some v => v | None => [] end) look)
          else None
        else None
    | None => None
    end
  else if (enc =? 5)%Z then
    let k := if (ty =? 1)%Z then 32 else 64 in
    match DeltaBP.dec k data with
    | Some (zs, _) =>
        if (length zs =? n)%nat then Some (map (bytes_of_z (N.to_nat (k / 8)) k) zs) else None
    | None => None
    end
  else if (enc =? 6)%Z then
    match dlba_dec data with
    | Some vs => if (length vs =? n)%nat then Some vs else None
    | None => None
    end
  else if (enc =? 7)%Z then
    match dba_dec data with
    | Some vs => if (length vs =? n)%nat then Some vs else None
    | None => None
    end
  else if (enc =? 9)%Z then
    let k := fixed_width ty tlen in
    match sub data 0 (k * n) with
    | Some x => bss_dec_fast k x   (* = bss_dec k x (Enc/PlainFastProofs.v bss_dec_fast_eq), linear time *)
    | None => None
    end
  else if (enc =? 3)%Z then
    if (ty =? 0)%Z then
      match dec_boolean_n n data with Some bits => Some (map (fun x => [x]) bits) | None => None end
    else None
  else None.

Definition level_width (maxl : nat) : N := bitlen (N.of_nat maxl).

(* v1: 4-byte length prefix then RLE data *)
Definition levels_v1 (maxl n : nat) (b : bytes) : option (list N * bytes) :=
  if (maxl =? 0)%nat then Some (repeat 0 n, b)
  else
    match sub b 0 4 with
    | None => None
    | Some lb =>
        let len := N.to_nat (of_le lb) in
        match sub b 4 len with
        | None => None
        | Some body =>
            match dec_hybrid (level_width maxl) body with
            | Some ls => if (n <=? length ls)%nat then Some (firstn n ls, skipn (4 + len) b) else None
            | None => None
            end
        end
    end.

Definition levels_v2 (maxl n len : nat) (b : bytes) : option (list N * bytes) :=
  match sub b 0 len with
  | None => None
  | Some body =>
      if (maxl =? 0)%nat then Some (repeat 0 n, skipn len b)
      else
        match dec_hybrid (level_width maxl) body with
        | Some ls => if (n <=? length ls)%nat then Some (firstn n ls, skipn len b) else None
        | None => None
        end
  end.

Definition count_eq (x : N) (l : list N) : nat := length (filter (N.eqb x) l).

Definition nat_of_field (id : Z) (v : tval) : nat := Z.to_nat (zdef (get_int id v) 0).
Definition n_of_field (id : Z) (v : tval) : N := Z.to_N (zdef (get_int id v) 0).

(* the page header is decoded from a bounded prefix (headers are small); the
   whole remainder is only used when that fails *)
Definition header_window : nat := 4096.

Definition decode_header (rest : bytes) : option (tval * nat * bytes) :=
  let w := firstn header_window rest in
  match decode_thrift w with
  | Some (h, after) =>
      let hlen := (length w - length after)%nat in
      Some (h, hlen, skipn hlen rest)
  | None =>
      match decode_thrift rest with
      | Some (h, after) =>
          let hlen := (length rest - length after)%nat in
          Some (h, hlen, after)
      | None => None
      end
  end.

(* one page at [off]; [dict] = decoded dictionary so far *)
Definition decode_page (ext : ext_fn) (rest : bytes) (lf : leaf) (codec : Z) (dict : list bytes) (off : N)
  : option page :=
  match decode_header rest with
  | None => None
  | Some (h, hlen, after) =>
      let ptype := zdef (get_int 1 h) (-1) in
      let uncomp := nat_of_field 2 h in
      let comp := nat_of_field 3 h in
      match sub after 0 comp with
      | None => None
      | Some body =>
          let crcf := get_int 4 h in
          let crc_ok := match crcf with
                        | Some c => (int32_to_crc c =? crc32 body)
                        | None => true
                        end in
          let mk := fun ulen nvalues nrows nnulls enc rep def values =>
            {| p_offset := off; p_hlen := hlen; p_type := ptype; p_comp := comp; p_uncomp := uncomp; p_ulen := ulen;
               p_crc_present := match crcf with Some _ => true | None => false end; p_crc_ok := crc_ok;
               p_nvalues := nvalues; p_nrows := nrows; p_nnulls := nnulls; p_encoding := enc;
               p_rep := rep; p_def := def; p_values := values |} in
          if (ptype =? 2)%Z then
            (* dictionary page: PLAIN values *)
            match get 7 h, decompress ext codec body with
            | Some dh, Some data =>
                let n := nat_of_field 1 dh in
                match decode_values (l_type lf) (l_tlen lf) 0 [] n data with
                | Some vs => Some (mk (length data) n None None (zdef (get_int 2 dh) 0) [] [] vs)
                | None => None
                end
            | _, _ => None
            end
          else if (ptype =? 0)%Z then
            match get 5 h, decompress ext codec body with
            | Some dh, Some data =>
                let n := nat_of_field 1 dh in
                let enc := zdef (get_int 2 dh) 0 in
                match levels_v1 (l_maxr lf) n data with
                | None => None
                | Some (rep, d1) =>
                    match levels_v1 (l_maxd lf) n d1 with
                    | None => None
                    | Some (def, d2) =>
                        let nn := if (l_maxd lf =? 0)%nat then n else count_eq (N.of_nat (l_maxd lf)) def in
                        match decode_values (l_type lf) (l_tlen lf) enc dict nn d2 with
                        | Some vs => Some (mk (length data) n None None enc rep def vs)
                        | None => None
                        end
                    end
                end
            | _, _ => None
            end
          else if (ptype =? 3)%Z then
            match get 8 h with
            | Some dh =>
                let n := nat_of_field 1 dh in
                let nnulls := nat_of_field 2 dh in
                let nrows := nat_of_field 3 dh in
                let enc := zdef (get_int 4 dh) 0 in
                let dlen := nat_of_field 5 dh in
                let rlen := nat_of_field 6 dh in
                let compressed := match get_bool 7 dh with Some b => b | None => true end in
                match levels_v2 (l_maxr lf) n rlen body with
                | None => None
                | Some (rep, b1) =>
                    match levels_v2 (l_maxd lf) n dlen b1 with
                    | None => None
                    | Some (def, b2) =>
                        match (if compressed then decompress ext codec b2 else Some b2) with
                        | None => None
                        | Some data =>
                            let nn := if (l_maxd lf =? 0)%nat then n else count_eq (N.of_nat (l_maxd lf)) def in
                            match decode_values (l_type lf) (l_tlen lf) enc dict nn data with
                            | Some vs => Some (mk (rlen + dlen + length data)%nat n (Some nrows) (Some nnulls) enc rep def vs)
                            | None => None
                            end
                        end
                    end
                end
            | None => None
            end
          else None
      end
  end.

(* all pages of a chunk: from [off], until [stop] *)
Fixpoint decode_pages (ext : ext_fn) (fuel : nat) (rest : bytes) (lf : leaf) (codec : Z) (dict : list bytes)
         (off : N) : option (list page) :=
  match fuel with
  | O => None
  | S f =>
      match rest with
      | [] => Some []
      | _ =>
        match decode_page ext rest lf codec dict off with
        | None => None
        | Some p =>
            let dict' := if (p_type p =? 2)%Z then p_values p else dict in
            let adv := (p_hlen p + p_comp p)%nat in
            match decode_pages ext f (skipn adv rest) lf codec dict' (off + N.of_nat adv) with
            | Some ps => Some (p :: ps)
            | None => None
            end
        end
      end
  end.

(** * Column chunks and the footer *)

Record chunk := {
  c_leaf : leaf;
  c_meta : tval;           (* ColumnMetaData *)
  c_chunk : tval;          (* ColumnChunk *)
  c_start : N;
  c_pages : list page;
}.

Definition chunk_start (md : tval) : N :=
  let dpo := n_of_field 9 md in
  let dict := n_of_field 11 md in
  if (0 <? dict) && (dict <? dpo) then dict else dpo.

Definition decode_chunk (ext : ext_fn) (file : fbytes) (lf : leaf) (cc : tval) : option chunk :=
  match get 3 cc with
  | None => None
  | Some md =>
      let start := chunk_start md in
      let total := nat_of_field 7 md in
      let codec := zdef (get_int 4 md) 0 in
      match fsub file start total with
      | None => None
      | Some data =>
          match decode_pages ext (S total) data lf codec [] start with
          | Some ps => Some {| c_leaf := lf; c_meta := md; c_chunk := cc; c_start := start; c_pages := ps |}
          | None => None
          end
      end
  end.

Fixpoint decode_chunks (ext : ext_fn) (file : fbytes) (ls : list leaf) (ccs : list tval) : option (list chunk) :=
  match ls, ccs with
  | [], [] => Some []
  | lf :: ls', cc :: ccs' =>
      match decode_chunk ext file lf cc, decode_chunks ext file ls' ccs' with
      | Some c, Some cs => Some (c :: cs)
      | _, _ => None
      end
  | _, _ => None
  end.

Record row_group := { g_meta : tval; g_chunks : list chunk }.

Record pfile := { f_meta : tval; f_leaves : list leaf; f_groups : list row_group; f_footer_start : N }.

Definition footer_of (file : fbytes) : option (tval * N) :=
  let n := fb_len file in
  if (n <? 12) then None
  else
    match fsub file 0 4, fsub file (n - 4) 4, fsub file (n - 8) 4 with
    | Some m1, Some m2, Some lb =>
        if (of_le m1 =? of_le magic) && (of_le m2 =? of_le magic) then
          let flen := of_le lb in
          if (flen + 12 <=? n) then
            match fsub file (n - 8 - flen) (N.to_nat flen) with
            | Some fb =>
                match decode_thrift fb with
                | Some (t, []) => Some (t, n - 8 - flen)
                | _ => None
                end
            | None => None
            end
          else None
        else None
    | _, _, _ => None
    end.

Fixpoint decode_groups (ext : ext_fn) (file : fbytes) (ls : list leaf) (gs : list tval) : option (list row_group) :=
  match gs with
  | [] => Some []
  | g :: gs' =>
      match get_list 1 g with
      | None => None
      | Some ccs =>
          match decode_chunks ext file ls ccs, decode_groups ext file ls gs' with
          | Some cs, Some rest => Some ({| g_meta := g; g_chunks := cs |} :: rest)
          | _, _ => None
          end
      end
  end.

Definition parse (ext : ext_fn) (file : fbytes) : option pfile :=
  match footer_of file with
  | None => None
  | Some (md, fstart) =>
      match get_list 2 md with
      | None => None
      | Some schema =>
          match leaves_of schema with
          | None => None
          | Some ls =>
              let gs := match get_list 4 md with Some l => l | None => [] end in
              match decode_groups ext file ls gs with
              | Some groups => Some {| f_meta := md; f_leaves := ls; f_groups := groups; f_footer_start := fstart |}
              | None => None
              end
          end
      end
  end.

(** * Consistency: what the footer and the page headers claim against the bytes *)

Definition data_pages (c : chunk) : list page := filter (fun p => negb (p_type p =? 2)%Z) (c_pages c).

Definition sum (l : list nat) : nat := fold_left Nat.add l 0%nat.
Definition sumN (l : list nat) : N := fold_left (fun a x => a + N.of_nat x) l 0.

Definition chunk_rows (c : chunk) : nat :=
  if (l_maxr (c_leaf c) =? 0)%nat then sum (map p_nvalues (data_pages c))
  else sum (map (fun p => count_eq 0 (p_rep p)) (data_pages c)).

Open Scope string_scope.

Notation string := String.string.

Definition check (cond : bool) (code : string) : list string := if cond then [] else [code].

Definition in_z (x : Z) (l : list tval) : bool :=
  existsb (fun t => match t with TInt _ z => (z =? x)%Z | _ => false end) l.

(* encoding_stats (ColumnMetaData field 13, optional; PageEncodingStats = 1: page_type,
   2: encoding, 3: count): "number of pages of this type with this encoding".  For every
   (page type, encoding) pair that occurs in a page header of the chunk or in an entry of
   the list, the counts declared must add up to the number of page headers found. *)
Definition stat_is (ty enc : Z) (st : tval) : bool :=
  (zdef (get_int 1 st) (-1) =? ty)%Z && (zdef (get_int 2 st) (-1) =? enc)%Z.

Definition declared_pages (ty enc : Z) (stats : list tval) : N :=
  fold_left N.add (map (n_of_field 3) (filter (stat_is ty enc) stats)) 0.

Definition found_pages (ty enc : Z) (ps : list page) : N :=
  N.of_nat (length (filter (fun p => (p_type p =? ty)%Z && (p_encoding p =? enc)%Z) ps)).

Definition encoding_stats_ok (c : chunk) : bool :=
  match get_list 13 (c_meta c) with
  | None => true
  | Some stats =>
      forallb (fun p => declared_pages (p_type p) (p_encoding p) stats =? found_pages (p_type p) (p_encoding p) (c_pages c))
              (c_pages c)
      && forallb (fun st => let ty := zdef (get_int 1 st) (-1) in
                            let enc := zdef (get_int 2 st) (-1) in
                            declared_pages ty enc stats =? found_pages ty enc (c_pages c)) stats
  end.

Definition check_chunk (c : chunk) : list string :=
  let md := c_meta c in
  let dps := data_pages c in
  let encs := match get_list 2 md with Some l => l | None => [] end in
  check (sum (map p_nvalues dps) =? nat_of_field 5 md)%nat "num_values"
  ++ check (sumN (map (fun p => p_hlen p + p_comp p)%nat (c_pages c)) =? n_of_field 7 md) "total_compressed_size"
  ++ check (sumN (map (fun p => p_hlen p + p_uncomp p)%nat (c_pages c)) =? n_of_field 6 md) "total_uncompressed_size"
  ++ check (forallb (fun p => (p_ulen p =? p_uncomp p)%nat) (c_pages c)) "uncompressed_page_size"
  ++ check (forallb p_crc_ok (c_pages c)) "page_crc"
  ++ check (forallb (fun p => in_z (p_encoding p) encs) dps) "encodings_list"
  ++ check (match dps with p :: _ => (p_offset p =? n_of_field 9 md) | [] => true end) "data_page_offset"
  ++ check (match c_pages c with
            | p :: _ => if (p_type p =? 2)%Z then (p_offset p =? n_of_field 11 md)
                        else (n_of_field 11 md =? 0) || (n_of_field 9 md <=? n_of_field 11 md)
            | [] => true end) "dictionary_page_offset"
  ++ check (forallb (fun p => match p_nrows p with
                              | Some n => (n =? (if (l_maxr (c_leaf c) =? 0)%nat then p_nvalues p else count_eq 0 (p_rep p)))%nat
                              | None => true end) dps) "v2_num_rows"
  ++ check (forallb (fun p => match p_nnulls p with
                              | Some n => (n =? p_nvalues p - length (p_values p))%nat
                              | None => true end) dps) "v2_num_nulls"
  ++ check (forallb (fun p => match p_nrows p, p_rep p with
                              | Some _, r :: _ => (r =? 0)%N
                              | _, _ => true end) dps) "v2_page_starts_mid_row"
  ++ check (forallb (fun p => forallb (fun d => (d <=? N.of_nat (l_maxd (c_leaf c)))%N) (p_def p)
                              && forallb (fun r => (r <=? N.of_nat (l_maxr (c_leaf c)))%N) (p_rep p)) dps) "level_range"
  ++ check (Z.eqb (zdef (get_int 1 md) (-1)) (l_type (c_leaf c))) "column_type"
  ++ check (encoding_stats_ok c) "encoding_stats".

Definition check_group (g : row_group) : list string :=
  let nrows := nat_of_field 3 (g_meta g) in
  concat (map check_chunk (g_chunks g))
  ++ check (forallb (fun c => (chunk_rows c =? nrows)%nat) (g_chunks g)) "row_group_num_rows"
  ++ check (fold_left N.add (map (fun c => n_of_field 7 (c_meta c)) (g_chunks g)) 0 =? n_of_field 6 (g_meta g))
       "row_group_total_compressed_size"
  ++ check (fold_left N.add (map (fun c => n_of_field 6 (c_meta c)) (g_chunks g)) 0 =? n_of_field 2 (g_meta g))
       "row_group_total_byte_size".

Definition check_file (f : pfile) : list string :=
  concat (map check_group (f_groups f))
  ++ check (fold_left N.add (map (fun g => n_of_field 3 (g_meta g)) (f_groups f)) 0 =? n_of_field 3 (f_meta f))
       "file_num_rows".

(** offset index of one chunk against the pages found *)
Definition check_offset_index (c : chunk) (oi : tval) : list string :=
  match get_list 1 oi with
  | None => ["offset_index_missing_locations"]
  | Some locs =>
      let dps := data_pages c in
      check (length locs =? length dps)%nat "offset_index_length"
      ++ check (forallb (fun pl => (n_of_field 1 (fst pl) =? p_offset (snd pl))) (combine locs dps)) "page_location_offset"
      ++ check (forallb (fun pl => (nat_of_field 2 (fst pl) =? p_hlen (snd pl) + p_comp (snd pl))%nat) (combine locs dps))
           "page_location_size"
      ++ check ((fix rows (acc : nat) (l : list (tval * page)) : bool :=
                   match l with
                   | [] => true
                   | (loc, p) :: r =>
                       (nat_of_field 3 loc =? acc)%nat
                       && rows (acc + (if (l_maxr (c_leaf c) =? 0)%nat then p_nvalues p else count_eq 0 (p_rep p)))%nat r
                   end) 0%nat (combine locs dps)) "page_location_first_row_index"
      (* a chunk described by an offset index is addressed by rows: every data page (v1 as
         well as v2) begins with the first value of a row *)
      ++ check (forallb (fun p => match p_rep p with r :: _ => (r =? 0)%N | [] => true end) dps)
           "indexed_page_starts_mid_row"
  end.

Definition offset_index_of (file : fbytes) (c : chunk) : option tval :=
  let off := n_of_field 4 (c_chunk c) in
  let len := nat_of_field 5 (c_chunk c) in
  if (len =? 0)%nat then None
  else match fsub file off len with
       | Some b => match decode_thrift b with Some (t, _) => Some t | None => None end
       | None => None
       end.

Definition check_indexes (file : fbytes) (f : pfile) : list string :=
  concat (map (fun g => concat (map (fun c =>
    match offset_index_of file c with
    | Some oi => check_offset_index c oi
    | None => if (nat_of_field 5 (c_chunk c) =? 0)%nat then [] else ["offset_index_unreadable"]
    end) (g_chunks g))) (f_groups f)).

(** sorting_columns of a row group (RowGroup field 4; SortingColumn = 1: column_idx, 2:
    descending, 3: nulls_first): "if set, specifies a sort ordering of the rows in this
    row group".  Every column_idx must name a column chunk of the row group.  What the
    declaration says about the rows is decided here as far as the levels alone decide it:
    the placement of the nulls of the FIRST sorting column, when that column is not
    repeated (one value per row): its nulls (definition level below the maximum) all come
    before its non-null values when nulls_first is set, all after them otherwise.  (The
    later sorting columns are ordered only inside runs of equal earlier keys, and the order
    of the values themselves is the order of the logical type: both are C05's.) *)
Fixpoint drop_while {A} (f : A -> bool) (l : list A) : list A :=
  match l with
  | [] => []
  | x :: r => if f x then drop_while f r else l
  end.

Definition nulls_placed (nulls_first : bool) (maxd : N) (defs : list N) : bool :=
  let isnull := fun d => (d <? maxd)%N in
  if nulls_first then forallb (fun d => negb (isnull d)) (drop_while isnull defs)
  else forallb isnull (drop_while (fun d => negb (isnull d)) defs).

Definition check_sorting_group (g : row_group) : list string :=
  match get_list 4 (g_meta g) with
  | Some scs =>
      check (forallb (fun sc => match get_int 1 sc with
                                | Some i => (0 <=? i)%Z && (Z.to_nat i <? length (g_chunks g))%nat
                                | None => false end) scs) "sorting_column_idx"
      ++ match scs with
         | sc :: _ =>
             match nth_error (g_chunks g) (nat_of_field 1 sc) with
             | Some c =>
                 if (l_maxr (c_leaf c) =? 0)%nat then
                   check (nulls_placed (match get_bool 3 sc with Some b => b | None => false end)
                                       (N.of_nat (l_maxd (c_leaf c))) (concat (map p_def (data_pages c))))
                         "sorting_nulls_placement"
                 else []
             | None => []
             end
         | [] => []
         end
  | None => []
  end.

Definition check_sorting (f : pfile) : list string := concat (map check_sorting_group (f_groups f)).

Definition verify (ext : ext_fn) (bytes_of_file : bytes) : option (pfile * list string) :=
  let file := mk_fbytes bytes_of_file in
  match parse ext file with
  | Some f => Some (f, check_file f ++ check_indexes file f ++ check_sorting f)
  | None => None
  end.
