(** The write/read pipeline above the encodings: records are shredded into
    column streams (Dremel), every column stream is cut into pages by an
    ARBITRARY layout (the page cuts a writer happens to choose: byte-size
    heuristics, Flush calls, dictionary fallback ... are all just layouts),
    each page stores its repetition levels, definition levels (RLE/bit-packed
    hybrid at the width of the leaf's maximum level) and its non-null values
    (any value encoding with a round-trip property); reading decodes the pages,
    concatenates them and assembles the records.  No proofs here. *)
From Coq Require Import List NArith ZArith Bool Arith.
From PQ Require Import Base.Bytes Base.BitPack Enc.Rle Dremel.Model.
Import ListNotations.
Open Scope N_scope.

Section Pipeline.
  Variable V : Type.
  (* a value encoding: encoder, decoder given the number of values *)
  Variable venc : list V -> bytes.
  Variable vdec : nat -> bytes -> option (list V).

  Notation entry := (entry V).
  Notation column := (column V).

  Record page := {
    pg_n : nat;            (* num_values *)
    pg_rep : option bytes; (* None when the encoder rejects the levels *)
    pg_def : option bytes;
    pg_val : bytes;
  }.

  Definition width (maxl : nat) : N := bitlen (N.of_nat maxl).

  Definition values_of (es : list entry) : list V :=
    flat_map (fun e => match fst (fst e) with Some v => [v] | None => [] end) es.

  Definition encode_page (maxr maxd : nat) (es : list entry) : page :=
    {| pg_n := length es;
       pg_rep := enc_levels (width maxr) (map (fun e => N.of_nat (e_r V e)) es);
       pg_def := enc_levels (width maxd) (map (fun e => N.of_nat (e_d V e)) es);
       pg_val := venc (values_of es) |}.

  (* rebuild the entries from levels and the non-null values *)
  Fixpoint rebuild (maxd : nat) (rs ds : list N) (vs : list V) : option (list entry) :=
    match rs, ds with
    | [], [] => match vs with [] => Some [] | _ => None end
    | r :: rs', d :: ds' =>
        if (N.to_nat d =? maxd)%nat then
          match vs with
          | v :: vs' =>
              match rebuild maxd rs' ds' vs' with
              | Some es => Some ((Some v, N.to_nat r, N.to_nat d) :: es)
              | None => None
              end
          | [] => None
          end
        else
          match rebuild maxd rs' ds' vs with
          | Some es => Some ((None, N.to_nat r, N.to_nat d) :: es)
          | None => None
          end
    | _, _ => None
    end.

  Definition decode_page (maxr maxd : nat) (p : page) : option (list entry) :=
    match pg_rep p, pg_def p with
    | Some rb, Some db =>
        match dec_hybrid (width maxr) rb, dec_hybrid (width maxd) db with
        | Some rs, Some ds =>
            if (length rs =? pg_n p)%nat && (length ds =? pg_n p)%nat then
              let nn := length (filter (fun d => (N.to_nat d =? maxd)%nat) ds) in
              match vdec nn (pg_val p) with
              | Some vs => rebuild maxd rs ds vs
              | None => None
              end
            else None
        | _, _ => None
        end
    | _, _ => None
    end.

  (** a layout of a column: the number of entries of each page *)
  Fixpoint cut (layout : list nat) (col : column) : list (list entry) :=
    match layout with
    | [] => match col with [] => [] | _ => [col] end   (* whatever is left forms a last page *)
    | n :: rest => firstn n col :: cut rest (skipn n col)
    end.

  Definition write_column (maxr maxd : nat) (layout : list nat) (col : column) : list page :=
    map (encode_page maxr maxd) (cut layout col).

  Fixpoint read_column (maxr maxd : nat) (pages : list page) : option column :=
    match pages with
    | [] => Some []
    | p :: rest =>
        match decode_page maxr maxd p, read_column maxr maxd rest with
        | Some es, Some more => Some (es ++ more)
        | _, _ => None
        end
    end.

  (** a file: per leaf column its pages; layouts are per column *)
  Fixpoint write_columns (levels : list (nat * nat)) (layouts : list (list nat)) (cols : list column)
    : list (list page) :=
    match levels, layouts, cols with
    | (mr, md) :: ls, lay :: lays, c :: cs => write_column mr md lay c :: write_columns ls lays cs
    | (mr, md) :: ls, [], c :: cs => write_column mr md [] c :: write_columns ls [] cs
    | _, _, _ => []
    end.

  Fixpoint read_columns (levels : list (nat * nat)) (file : list (list page)) : option (list column) :=
    match levels, file with
    | [], [] => Some []
    | (mr, md) :: ls, ps :: rest =>
        match read_column mr md ps, read_columns ls rest with
        | Some c, Some cs => Some (c :: cs)
        | _, _ => None
        end
    | _, _ => None
    end.

  Definition write_file (s : schema) (layouts : list (list nat)) (rows : list (value V)) : list (list page) :=
    write_columns (max_levels s 0 0) layouts (shred_rows s rows).

  Definition read_file (s : schema) (nrows fuel : nat) (file : list (list page)) : option (list (value V)) :=
    match read_columns (max_levels s 0 0) file with
    | Some cols => asm_rows nrows s fuel cols
    | None => None
    end.
End Pipeline.
