(** Layout soundness: on the file laid out by the abstract writer of
    File/Layout.v (the offset accounting of /repo/writer.go) the structural
    checks of the specification decoder (File/SpecDecoder.v) pass: the footer
    is found and decodes to the tree the accounting built, every recorded
    chunk offset / size slices exactly the pages of the chunk, walking page
    headers from there reads back the headers written, every PageLocation
    points at the page header it describes, the row group sizes and offsets
    are the recomputed sums. *)
From Coq Require Import List NArith ZArith Bool Arith Lia.
From Coq Require Import ZifyN ZifyNat ZifyBool.
From Coq Require String.
From PQ Require Import Base.Bytes Base.Varint Base.ListExtra Thrift.Compact Thrift.CompactProofs.
From PQ Require Import Generated.Thrift File.SpecAgreement File.SpecDecoder File.Layout.
Import ListNotations.
Open Scope N_scope.

(** The field ids the model writer uses are the ones of the Go struct tags. *)
Lemma layout_ids_agree_with_go : forallb struct_agrees layout_ids = true.
Proof. vm_compute. reflexivity. Qed.

(** * Lists and sizes *)

Lemma sizeN_app a b : sizeN (a ++ b) = sizeN a + sizeN b.
Proof. unfold sizeN. rewrite app_length. lia. Qed.

Lemma sizeN_nil : sizeN [] = 0.
Proof. reflexivity. Qed.

Lemma fold_add_acc l : forall a, fold_left N.add l a = a + fold_left N.add l 0.
Proof.
  induction l as [|x l IH]; intros a; cbn [fold_left]; [lia|].
  rewrite IH, (IH (0 + x)). lia.
Qed.

Lemma fold_add_cons x l : fold_left N.add (x :: l) 0 = x + fold_left N.add l 0.
Proof. cbn [fold_left]. rewrite fold_add_acc. lia. Qed.

Lemma fold_add_app a b : fold_left N.add (a ++ b) 0 = fold_left N.add a 0 + fold_left N.add b 0.
Proof. rewrite fold_left_app, fold_add_acc. reflexivity. Qed.

Lemma slice_app {A} (pre x post : list A) : firstn (length x) (skipn (length pre) (pre ++ x ++ post)) = x.
Proof. rewrite skipn_app_exact. apply firstn_app_exact. Qed.

Lemma nth_error_split' {A} (l : list A) j x :
  nth_error l j = Some x -> l = firstn j l ++ x :: skipn (S j) l /\ length (firstn j l) = j.
Proof.
  revert j. induction l as [|y l IH]; intros [|j] H; cbn in H; try discriminate.
  - inversion H. subst. split; reflexivity.
  - destruct (IH j H) as [E L]. split; [|cbn [firstn length]; now rewrite L].
    cbn [firstn skipn app]. f_equal. exact E.
Qed.

Lemma concat_map_split {A} (f : A -> bytes) (l : list A) j x :
  nth_error l j = Some x ->
  concat (map f l) = concat (map f (firstn j l)) ++ f x ++ concat (map f (skipn (S j) l)).
Proof.
  intros H. destruct (nth_error_split' l j x H) as [E _].
  rewrite E at 1. rewrite map_app, concat_app. cbn [map concat]. reflexivity.
Qed.

(** * The block representation of the file: [fsub] slices the byte list *)

Lemma firstn_add {A} a c (l : list A) : firstn (a + c) l = firstn a l ++ firstn c (skipn a l).
Proof.
  revert l. induction a as [|a IH]; intros l; [reflexivity|].
  destruct l as [|x l]; [cbn; now rewrite firstn_nil|].
  cbn [Nat.add firstn skipn app]. f_equal. apply IH.
Qed.

Lemma skipn_add {A} a c (l : list A) : skipn (a + c) l = skipn c (skipn a l).
Proof.
  revert l. induction a as [|a IH]; intros l; [reflexivity|].
  destruct l as [|x l]; [cbn; now rewrite skipn_nil|]. cbn [Nat.add skipn]. apply IH.
Qed.

Lemma block_size_pos : (0 < block_size)%nat.
Proof. unfold block_size. lia. Qed.

Lemma blocks_slice : forall fuel (b : bytes) k m,
  (length b <= fuel * block_size)%nat ->
  concat (firstn m (skipn k (split_blocks fuel b))) = firstn (m * block_size) (skipn (k * block_size) b).
Proof.
  induction fuel as [|f IH]; intros b k m Hf.
  - destruct b; [|cbn in Hf; lia]. cbn [split_blocks]. now rewrite skipn_nil, firstn_nil, skipn_nil, firstn_nil.
  - destruct b as [|x b'] eqn:Eb.
    + cbn [split_blocks]. now rewrite skipn_nil, firstn_nil, skipn_nil, firstn_nil.
    + rewrite <- Eb in *. assert (Hs : split_blocks (S f) b = firstn block_size b :: split_blocks f (skipn block_size b)).
      { rewrite Eb. reflexivity. }
      rewrite Hs. clear Hs.
      assert (Hrest : (length (skipn block_size b) <= f * block_size)%nat).
      { rewrite skipn_length. cbn [Nat.mul] in Hf. lia. }
      destruct k as [|k].
      * cbn [skipn Nat.mul]. destruct m as [|m]; [reflexivity|].
        cbn [firstn concat Nat.mul]. rewrite firstn_add. f_equal.
        specialize (IH (skipn block_size b) 0%nat m Hrest). cbn [skipn Nat.mul] in IH. exact IH.
      * cbn [skipn]. rewrite (IH _ k m Hrest). f_equal.
        replace (S k * block_size)%nat with (block_size + k * block_size)%nat by (cbn [Nat.mul]; lia).
        now rewrite skipn_add.
Qed.

Lemma firstn_skipn_firstn {A} len r M (l : list A) :
  (r + len <= M)%nat -> firstn len (skipn r (firstn M l)) = firstn len (skipn r l).
Proof.
  intros H. replace M with (r + (M - r))%nat by lia.
  rewrite firstn_add. rewrite skipn_app.
  rewrite skipn_all2 by (rewrite firstn_length; lia). cbn [app].
  rewrite firstn_length.
  destruct (Nat.le_gt_cases r (length l)) as [Hl|Hl].
  - replace (r - Nat.min r (length l))%nat with 0%nat by lia. cbn [skipn].
    rewrite firstn_firstn. f_equal. lia.
  - rewrite (skipn_all2 l) by lia. rewrite skipn_nil, firstn_nil. now rewrite skipn_nil, firstn_nil.
Qed.

Lemma fsub_mk_fbytes (b : bytes) (off len : nat) :
  (off + len <= length b)%nat ->
  fsub (mk_fbytes b) (N.of_nat off) len = Some (firstn len (skipn off b)).
Proof.
  intros H. unfold fsub, mk_fbytes. cbn [fb_len fb_blocks].
  destruct (N.leb_spec (N.of_nat off + N.of_nat len) (N.of_nat (length b))) as [_|Hc]; [|lia].
  f_equal. pose proof block_size_pos as HB.
  set (B := block_size) in *.
  assert (Hq : N.to_nat (N.of_nat off / N.of_nat B) = (off / B)%nat).
  { rewrite <- Nat2N.inj_div. apply Nat2N.id. }
  assert (Hr : N.to_nat (N.of_nat off mod N.of_nat B) = (off mod B)%nat).
  { rewrite <- Nat2N.inj_mod. apply Nat2N.id. }
  rewrite Hq, Hr.
  rewrite blocks_slice.
  2:{ fold B. pose proof (Nat.div_mod_eq (length b) B). pose proof (Nat.mod_upper_bound (length b) B). cbn [Nat.mul]. nia. }
  fold B.
  set (q := (off / B)%nat). set (r := (off mod B)%nat).
  assert (Hoff : off = (q * B + r)%nat).
  { subst q r. pose proof (Nat.div_mod_eq off B). lia. }
  assert (Hrb : (r < B)%nat) by (subst r; apply Nat.mod_upper_bound; lia).
  rewrite firstn_skipn_firstn.
  - rewrite <- skipn_add. now rewrite <- Hoff.
  - pose proof (Nat.div_mod_eq (r + len) B). pose proof (Nat.mod_upper_bound (r + len) B). cbn [Nat.mul]. nia.
Qed.

Lemma fsub_at (pre x post : bytes) :
  fsub (mk_fbytes (pre ++ x ++ post)) (sizeN pre) (length x) = Some x.
Proof.
  unfold sizeN. rewrite fsub_mk_fbytes by (rewrite !app_length; lia).
  now rewrite slice_app.
Qed.
