(** Layout soundness: on the file laid out by the abstract writer of
    File/Layout.v (the offset accounting of /repo/writer.go) the structural
    checks of the specification decoder (File/SpecDecoder.v) pass: the footer
    is found and decodes to the tree the accounting built, every recorded
    chunk offset / size slices exactly the pages of the chunk, walking page
    headers from there reads back the headers written, every PageLocation
    points at the page header it describes, the row group sizes and offsets
    are the recomputed sums. *)
From Coq Require Import List NArith ZArith Bool Arith Lia.
From Coq Require Import ZifyN ZifyNat ZifyBool.
From Coq Require String.
From PQ Require Import Base.Bytes Base.Varint Base.ListExtra Thrift.Compact Thrift.CompactProofs.
From PQ Require Import Generated.Thrift File.SpecAgreement File.SpecDecoder File.Layout.
Import ListNotations.
Open Scope N_scope.

(** The field ids the model writer uses are the ones of the Go struct tags. *)
Lemma layout_ids_agree_with_go : forallb struct_agrees layout_ids = true.
Proof. vm_compute. reflexivity. Qed.

(** * Lists and sizes *)

Lemma sizeN_app a b : sizeN (a ++ b) = sizeN a + sizeN b.
Proof. unfold sizeN. rewrite app_length. lia. Qed.

Lemma sizeN_nil : sizeN [] = 0.
Proof. reflexivity. Qed.

Lemma fold_add_acc l : forall a, fold_left N.add l a = a + fold_left N.add l 0.
Proof.
  induction l as [|x l IH]; intros a; cbn [fold_left]; [lia|].
  rewrite IH, (IH (0 + x)). lia.
Qed.

Lemma fold_add_cons x l : fold_left N.add (x :: l) 0 = x + fold_left N.add l 0.
Proof. cbn [fold_left]. rewrite fold_add_acc. lia. Qed.

Lemma fold_add_app a b : fold_left N.add (a ++ b) 0 = fold_left N.add a 0 + fold_left N.add b 0.
Proof. rewrite fold_left_app, fold_add_acc. reflexivity. Qed.

Lemma slice_app {A} (pre x post : list A) : firstn (length x) (skipn (length pre) (pre ++ x ++ post)) = x.
Proof. rewrite skipn_app_exact. apply firstn_app_exact. Qed.

Lemma nth_error_split' {A} (l : list A) j x :
  nth_error l j = Some x -> l = firstn j l ++ x :: skipn (S j) l /\ length (firstn j l) = j.
Proof.
  revert j. induction l as [|y l IH]; intros [|j] H; cbn in H; try discriminate.
  - inversion H. subst. split; reflexivity.
  - destruct (IH j H) as [E L]. split; [|cbn [firstn length]; now rewrite L].
    cbn [firstn skipn app]. f_equal. exact E.
Qed.

Lemma concat_map_split {A} (f : A -> bytes) (l : list A) j x :
  nth_error l j = Some x ->
  concat (map f l) = concat (map f (firstn j l)) ++ f x ++ concat (map f (skipn (S j) l)).
Proof.
  intros H. destruct (nth_error_split' l j x H) as [E _].
  rewrite E at 1. rewrite map_app, concat_app. cbn [map concat]. reflexivity.
Qed.

(** * The block representation of the file: [fsub] slices the byte list *)

Lemma firstn_add {A} a c (l : list A) : firstn (a + c) l = firstn a l ++ firstn c (skipn a l).
Proof.
  revert l. induction a as [|a IH]; intros l; [reflexivity|].
  destruct l as [|x l]; [cbn; now rewrite firstn_nil|].
  cbn [Nat.add firstn skipn app]. f_equal. apply IH.
Qed.

Lemma skipn_add {A} a c (l : list A) : skipn (a + c) l = skipn c (skipn a l).
Proof.
  revert l. induction a as [|a IH]; intros l; [reflexivity|].
  destruct l as [|x l]; [cbn; now rewrite skipn_nil|]. cbn [Nat.add skipn]. apply IH.
Qed.

Lemma block_size_pos : (0 < block_size)%nat.
Proof. unfold block_size. lia. Qed.

Lemma blocks_slice : forall fuel (b : bytes) k m,
  (length b <= fuel * block_size)%nat ->
  concat (firstn m (skipn k (split_blocks fuel b))) = firstn (m * block_size) (skipn (k * block_size) b).
Proof.
  induction fuel as [|f IH]; intros b k m Hf.
  - destruct b; [|cbn in Hf; lia]. cbn [split_blocks]. now rewrite skipn_nil, firstn_nil, skipn_nil, firstn_nil.
  - destruct b as [|x b'] eqn:Eb.
    + cbn [split_blocks]. now rewrite skipn_nil, firstn_nil, skipn_nil, firstn_nil.
    + rewrite <- Eb in *. assert (Hs : split_blocks (S f) b = firstn block_size b :: split_blocks f (skipn block_size b)).
      { rewrite Eb. reflexivity. }
      rewrite Hs. clear Hs.
      assert (Hrest : (length (skipn block_size b) <= f * block_size)%nat).
      { rewrite skipn_length. cbn [Nat.mul] in Hf. lia. }
      destruct k as [|k].
      * cbn [skipn Nat.mul]. destruct m as [|m]; [reflexivity|].
        cbn [firstn concat Nat.mul]. rewrite firstn_add. f_equal.
        specialize (IH (skipn block_size b) 0%nat m Hrest). cbn [skipn Nat.mul] in IH. exact IH.
      * cbn [skipn]. rewrite (IH _ k m Hrest). f_equal.
        replace (S k * block_size)%nat with (block_size + k * block_size)%nat by (cbn [Nat.mul]; lia).
        now rewrite skipn_add.
Qed.

Lemma firstn_skipn_firstn {A} len r M (l : list A) :
  (r + len <= M)%nat -> firstn len (skipn r (firstn M l)) = firstn len (skipn r l).
Proof.
  intros H. replace M with (r + (M - r))%nat by lia.
  rewrite firstn_add. rewrite skipn_app.
  rewrite skipn_all2 by (rewrite firstn_length; lia). cbn [app].
  rewrite firstn_length.
  destruct (Nat.le_gt_cases r (length l)) as [Hl|Hl].
  - replace (r - Nat.min r (length l))%nat with 0%nat by lia. cbn [skipn].
    rewrite firstn_firstn. f_equal. lia.
  - rewrite (skipn_all2 l) by lia. rewrite firstn_nil, skipn_nil. reflexivity.
Qed.

Lemma fsub_mk_fbytes (b : bytes) (off len : nat) :
  (off + len <= length b)%nat ->
  fsub (mk_fbytes b) (N.of_nat off) len = Some (firstn len (skipn off b)).
Proof.
  intros H. unfold fsub, mk_fbytes. cbn [fb_len fb_blocks].
  destruct (N.leb_spec (N.of_nat off + N.of_nat len) (N.of_nat (length b))) as [_|Hc]; [|lia].
  f_equal. pose proof block_size_pos as HB.
  set (B := block_size) in *.
  assert (Hq : N.to_nat (N.of_nat off / N.of_nat B) = (off / B)%nat).
  { rewrite <- Nat2N.inj_div. apply Nat2N.id. }
  assert (Hr : N.to_nat (N.of_nat off mod N.of_nat B) = (off mod B)%nat).
  { rewrite <- Nat2N.inj_mod. apply Nat2N.id. }
  rewrite Hq, Hr.
  rewrite blocks_slice.
  2:{ fold B. pose proof (Nat.div_mod_eq (length b) B). pose proof (Nat.mod_upper_bound (length b) B). cbn [Nat.mul]. nia. }
  fold B.
  set (q := (off / B)%nat). set (r := (off mod B)%nat).
  assert (Hoff : off = (q * B + r)%nat).
  { subst q r. pose proof (Nat.div_mod_eq off B). lia. }
  assert (Hrb : (r < B)%nat) by (subst r; apply Nat.mod_upper_bound; lia).
  rewrite firstn_skipn_firstn.
  - rewrite <- skipn_add. now rewrite <- Hoff.
  - pose proof (Nat.div_mod_eq (r + len) B). pose proof (Nat.mod_upper_bound (r + len) B). cbn [Nat.mul]. nia.
Qed.

Lemma fsub_at (pre x post : bytes) :
  fsub (mk_fbytes (pre ++ x ++ post)) (sizeN pre) (length x) = Some x.
Proof.
  unfold sizeN. rewrite fsub_mk_fbytes by (rewrite !app_length; lia).
  now rewrite slice_app.
Qed.

(** * Thrift: the boolean well-formedness check, and decoding within the
      decoder's fuel (nesting depth / fields per struct, not tree size) *)

Lemma in_sint64b_ok z : in_sint64b z = true -> in_sint 64 z.
Proof.
  unfold in_sint64b, in_sint. change (Z.of_N 64 - 1)%Z with 63%Z. lia.
Qed.

Lemma code_okb_ok ty v : code_okb ty v = true -> code_ok ty v.
Proof.
  destruct v; cbn [code_okb code_ok]; intros H; try (apply N.eqb_eq; exact H).
  apply orb_true_iff in H. destruct H as [H|H]; apply N.eqb_eq in H; auto.
Qed.

Lemma wfb_wf : forall v, wfb v = true -> wf v.
Proof.
  induction v as [b|n|c z|bits|bs|e l IH|fs IH] using tval_ind'; intros H.
  - exact I.
  - cbn in *. lia.
  - cbn [wfb] in H. apply andb_true_iff in H. destruct H as [Hc Hz]. split; [|now apply in_sint64b_ok].
    unfold T_I16, T_I32, T_I64 in *. lia.
  - cbn in *. lia.
  - cbn [wfb wf] in *. lia.
  - apply wf_list. cbn [wfb] in H. rewrite !andb_true_iff in H.
    destruct H as ((((H1 & H2) & H3) & H4) & H5). unfold T_MAP in *.
    repeat split; try lia.
    rewrite forallb_forall in H5. rewrite Forall_forall in IH. apply Forall_forall. intros x Hx.
    specialize (H5 x Hx). apply andb_true_iff in H5. destruct H5 as [Hc Hw].
    split; [now apply code_okb_ok|]. now apply IH.
  - apply wf_struct. cbn [wfb] in H. rewrite forallb_forall in H. rewrite Forall_forall in IH.
    apply Forall_forall. intros p Hp. specialize (H p Hp). apply andb_true_iff in H. destruct H as [Hi Hw].
    split; [now apply in_sint64b_ok|]. now apply IH.
Qed.

Lemma need_list e l : need (TList e l) = S (fold_right (fun x a => Nat.max (need x) a) 0%nat l).
Proof. reflexivity. Qed.

Lemma need_struct fs : need (TStruct fs) = S (fold_right (fun p a => Nat.max (need (snd p)) a) (S (length fs)) fs).
Proof. reflexivity. Qed.

Lemma need_list_elem l : forall x, In x l -> (need x <= fold_right (fun x a => Nat.max (need x) a) 0%nat l)%nat.
Proof.
  induction l as [|y l IH]; intros x [->|Hx]; cbn [fold_right]; [lia|]. specialize (IH x Hx). lia.
Qed.

Lemma need_struct_bound (fs : list (Z * tval)) base :
  (base <= fold_right (fun p a => Nat.max (need (snd p)) a) base fs)%nat /\
  forall p, In p fs -> (need (snd p) <= fold_right (fun p a => Nat.max (need (snd p)) a) base fs)%nat.
Proof.
  induction fs as [|q fs [IH1 IH2]]; cbn [fold_right]; split; try lia.
  - intros p [].
  - intros p [->|Hp]; [lia|]. specialize (IH2 p Hp). lia.
Qed.

Lemma dec_elems_need f elem : forall l rest,
  Forall (fun x => forall rest, dec_val f elem (encode x ++ rest) = Some (x, rest)) l ->
  dec_elems f elem (length l) (concat (map encode l) ++ rest) = Some (l, rest).
Proof.
  induction l as [|x l IH]; intros rest Hl; [reflexivity|].
  inversion Hl as [|? ? Hx Hl']; subst.
  cbn [length dec_elems_with map concat]. rewrite <- app_assoc.
  rewrite Hx. rewrite IH by exact Hl'. reflexivity.
Qed.

Lemma type_code_not_bool x : (forall b, x <> TBool b) -> wf x ->
  (type_code x =? T_TRUE) = false /\ (type_code x =? T_FALSE) = false.
Proof.
  intros Hb Hw. destruct x as [b|n|c z|bits|bs|e l|gs]; try (split; reflexivity).
  - now destruct (Hb b).
  - cbn [type_code]. destruct Hw as [Hc _]. destruct (int_code_cases c Hc) as (E1 & E2 & _). now split.
Qed.

Lemma dec_fields_need f : forall fs last rest k,
  Forall (fun p => in_sint 64 (fst p) /\ wf (snd p) /\
                   (forall rest, dec_val f (type_code (snd p)) (encode (snd p) ++ rest) = Some (snd p, rest))) fs ->
  (length fs < k)%nat ->
  dec_fields f k last (enc_fields last fs ++ rest) = Some (fs, rest).
Proof.
  induction fs as [|[id x] fs IH]; intros last rest k Hfs Hk.
  - destruct k; [cbn in Hk; lia|]. reflexivity.
  - destruct k as [|k]; [cbn in Hk; lia|].
    inversion Hfs as [|? ? (Hid & Hw & Hx) Hfs']; subst. cbn [fst snd] in *. cbn [length] in Hk.
    assert (Hrest : dec_fields f k id (enc_fields id fs ++ rest) = Some (fs, rest)) by (apply IH; auto; lia).
    destruct x as [b|n|c z|bits|bs|e l|gs] eqn:Ex.
    + cbn [enc_fields]. rewrite <- app_assoc.
      destruct (field_header_dec last id (if b then T_TRUE else T_FALSE) (enc_fields id fs ++ rest))
        as (h & r & Eh & Hnz & Hm & Hidr); [destruct b; unfold T_TRUE, T_FALSE; lia|exact Hid|].
      rewrite Eh. cbn [dec_fields_with]. rewrite Hnz. cbv zeta. rewrite Hidr, Hm.
      destruct b; cbn [N.eqb T_TRUE T_FALSE Pos.eqb]; rewrite Hrest; reflexivity.
    + all: rewrite <- Ex in *.
      all: assert (Hnb : (type_code x =? T_TRUE) = false /\ (type_code x =? T_FALSE) = false)
             by (apply type_code_not_bool; [intros b' Hb'; rewrite Ex in Hb'; discriminate|exact Hw]).
      all: destruct Hnb as [Hn1 Hn2].
      all: assert (Henc : enc_fields last ((id, x) :: fs) = enc_field_header last id (type_code x) ++ encode x ++ enc_fields id fs)
             by (rewrite Ex; reflexivity).
      all: rewrite Henc, <- !app_assoc.
      all: destruct (field_header_dec last id (type_code x) (encode x ++ enc_fields id fs ++ rest))
             as (h & r & Eh & Hnz & Hm & Hidr); [apply type_code_range; exact Hw|exact Hid|].
      all: rewrite Eh; cbn [dec_fields_with]; rewrite Hnz; cbv zeta; rewrite Hidr, Hm, Hn1, Hn2.
      all: rewrite Hx, Hrest; reflexivity.
Qed.

Theorem dec_val_encode_need : forall v, wf v ->
  forall fuel ty rest, (need v <= fuel)%nat -> code_ok ty v ->
  dec_val fuel ty (encode v ++ rest) = Some (v, rest).
Proof.
  induction v as [b|n|c z|bits|bs|e l IH|fs IH] using tval_ind'; intros Hw fuel ty rest Hf Hc.
  1-5: apply dec_val_encode; [exact Hw|exact Hf|exact Hc].
  - (* list *)
    destruct fuel as [|f]; [cbn in Hf; lia|].
    cbn in Hc. subst ty. apply wf_list in Hw. destruct Hw as ((He & Hm) & Hn & Hl).
    change (type_code (TList e l)) with T_LIST. rewrite dec_val_list, encode_list, <- app_assoc.
    destruct (list_header_dec e (length l) (concat (map encode l) ++ rest) He Hn)
      as (h & r & Eh & Hmod & Hhdr).
    rewrite Eh. cbv zeta. rewrite Hhdr, Hmod, Nat2N.id.
    rewrite dec_elems_need; [reflexivity|].
    rewrite need_list in Hf.
    rewrite Forall_forall in *. intros x Hx rest'. destruct (Hl x Hx) as [Hcx Hwx].
    apply IH; [exact Hx|exact Hwx| |exact Hcx].
    pose proof (need_list_elem l x Hx). lia.
  - (* struct *)
    destruct fuel as [|f]; [cbn in Hf; lia|].
    cbn in Hc. subst ty. apply wf_struct in Hw.
    change (type_code (TStruct fs)) with T_STRUCT. rewrite dec_val_struct, encode_struct.
    rewrite need_struct in Hf.
    destruct (need_struct_bound fs (S (length fs))) as [Hb1 Hb2].
    rewrite dec_fields_need; [reflexivity| |lia].
    rewrite Forall_forall in *. intros p Hp. destruct (Hw p Hp) as [Hid Hwp].
    split; [exact Hid|]. split; [exact Hwp|]. intros rest'.
    apply IH; [exact Hp|exact Hwp| |].
    + specialize (Hb2 p Hp). lia.
    + destruct (snd p) as [[|]| | | | | |]; cbn; auto.
Qed.

Lemma decode_thrift_encode (t : tval) (rest : bytes) :
  wfb t = true -> (need t <=? 64)%nat = true -> (exists fs, t = TStruct fs) ->
  decode_thrift (encode t ++ rest) = Some (t, rest).
Proof.
  intros Hw Hn [fs ->]. unfold decode_thrift, thrift_fuel.
  apply dec_val_encode_need; [now apply wfb_wf|now apply Nat.leb_le|reflexivity].
Qed.
