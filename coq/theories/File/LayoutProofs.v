(** Layout soundness: on the file laid out by the abstract writer of
    File/Layout.v (the offset accounting of /repo/writer.go) the structural
    checks of the specification decoder (File/SpecDecoder.v) pass: the footer
    is found and decodes to the tree the accounting built, every recorded
    chunk offset / size slices exactly the pages of the chunk, walking page
    headers from there reads back the headers written, every PageLocation
    points at the page header it describes, the row group sizes and offsets
    are the recomputed sums. *)
From Coq Require Import List NArith ZArith Bool Arith Lia.
From Coq Require Import ZifyN ZifyNat ZifyBool.
From Coq Require String.
From PQ Require Import Base.Bytes Base.Varint Base.ListExtra Thrift.Compact Thrift.CompactProofs.
From PQ Require Import Generated.Thrift File.SpecAgreement File.SpecDecoder File.Layout.
Import ListNotations.
Open Scope N_scope.

(** The field ids the model writer uses are the ones of the Go struct tags. *)
Lemma layout_ids_agree_with_go : forallb struct_agrees layout_ids = true.
Proof. vm_compute. reflexivity. Qed.

(** * Lists and sizes *)

Lemma sizeN_app a b : sizeN (a ++ b) = sizeN a + sizeN b.
Proof. unfold sizeN. rewrite app_length. lia. Qed.

Lemma sizeN_nil : sizeN [] = 0.
Proof. reflexivity. Qed.

Lemma fold_add_acc l : forall a, fold_left N.add l a = a + fold_left N.add l 0.
Proof.
  induction l as [|x l IH]; intros a; cbn [fold_left]; [lia|].
  rewrite IH, (IH (0 + x)). lia.
Qed.

Lemma fold_add_cons x l : fold_left N.add (x :: l) 0 = x + fold_left N.add l 0.
Proof. cbn [fold_left]. rewrite fold_add_acc. lia. Qed.

Lemma fold_add_app a b : fold_left N.add (a ++ b) 0 = fold_left N.add a 0 + fold_left N.add b 0.
Proof. rewrite fold_left_app, fold_add_acc. reflexivity. Qed.

Lemma slice_app {A} (pre x post : list A) : firstn (length x) (skipn (length pre) (pre ++ x ++ post)) = x.
Proof. rewrite skipn_app_exact. apply firstn_app_exact. Qed.

Lemma nth_error_split' {A} (l : list A) j x :
  nth_error l j = Some x -> l = firstn j l ++ x :: skipn (S j) l /\ length (firstn j l) = j.
Proof.
  revert j. induction l as [|y l IH]; intros [|j] H; cbn in H; try discriminate.
  - inversion H. subst. split; reflexivity.
  - destruct (IH j H) as [E L]. split; [|cbn [firstn length]; now rewrite L].
    cbn [firstn skipn app]. f_equal. exact E.
Qed.

Lemma concat_map_split {A} (f : A -> bytes) (l : list A) j x :
  nth_error l j = Some x ->
  concat (map f l) = concat (map f (firstn j l)) ++ f x ++ concat (map f (skipn (S j) l)).
Proof.
  intros H. destruct (nth_error_split' l j x H) as [E _].
  rewrite E at 1. rewrite map_app, concat_app. cbn [map concat]. reflexivity.
Qed.

(** * The block representation of the file: [fsub] slices the byte list *)

Lemma firstn_add {A} a c (l : list A) : firstn (a + c) l = firstn a l ++ firstn c (skipn a l).
Proof.
  revert l. induction a as [|a IH]; intros l; [reflexivity|].
  destruct l as [|x l]; [cbn; now rewrite firstn_nil|].
  cbn [Nat.add firstn skipn app]. f_equal. apply IH.
Qed.

Lemma skipn_add {A} a c (l : list A) : skipn (a + c) l = skipn c (skipn a l).
Proof.
  revert l. induction a as [|a IH]; intros l; [reflexivity|].
  destruct l as [|x l]; [cbn; now rewrite skipn_nil|]. cbn [Nat.add skipn]. apply IH.
Qed.

Lemma block_size_pos : (0 < block_size)%nat.
Proof. unfold block_size. lia. Qed.

Lemma blocks_slice : forall fuel (b : bytes) k m,
  (length b <= fuel * block_size)%nat ->
  concat (firstn m (skipn k (split_blocks fuel b))) = firstn (m * block_size) (skipn (k * block_size) b).
Proof.
  induction fuel as [|f IH]; intros b k m Hf.
  - destruct b; [|cbn in Hf; lia]. cbn [split_blocks]. now rewrite skipn_nil, firstn_nil, skipn_nil, firstn_nil.
  - destruct b as [|x b'] eqn:Eb.
    + cbn [split_blocks]. now rewrite skipn_nil, firstn_nil, skipn_nil, firstn_nil.
    + rewrite <- Eb in *. assert (Hs : split_blocks (S f) b = firstn block_size b :: split_blocks f (skipn block_size b)).
      { rewrite Eb. reflexivity. }
      rewrite Hs. clear Hs.
      assert (Hrest : (length (skipn block_size b) <= f * block_size)%nat).
      { rewrite skipn_length. cbn [Nat.mul] in Hf. lia. }
      destruct k as [|k].
      * cbn [skipn Nat.mul]. destruct m as [|m]; [reflexivity|].
        cbn [firstn concat Nat.mul]. rewrite firstn_add. f_equal.
        specialize (IH (skipn block_size b) 0%nat m Hrest). cbn [skipn Nat.mul] in IH. exact IH.
      * cbn [skipn]. rewrite (IH _ k m Hrest). f_equal.
        replace (S k * block_size)%nat with (block_size + k * block_size)%nat by (cbn [Nat.mul]; lia).
        now rewrite skipn_add.
Qed.

Lemma firstn_skipn_firstn {A} len r M (l : list A) :
  (r + len <= M)%nat -> firstn len (skipn r (firstn M l)) = firstn len (skipn r l).
Proof.
  intros H. replace M with (r + (M - r))%nat by lia.
  rewrite firstn_add. rewrite skipn_app.
  rewrite skipn_all2 by (rewrite firstn_length; lia). cbn [app].
  rewrite firstn_length.
  destruct (Nat.le_gt_cases r (length l)) as [Hl|Hl].
  - replace (r - Nat.min r (length l))%nat with 0%nat by lia. cbn [skipn].
    rewrite firstn_firstn. f_equal. lia.
  - rewrite (skipn_all2 l) by lia. rewrite firstn_nil, skipn_nil. reflexivity.
Qed.

Lemma fsub_mk_fbytes (b : bytes) (off len : nat) :
  (off + len <= length b)%nat ->
  fsub (mk_fbytes b) (N.of_nat off) len = Some (firstn len (skipn off b)).
Proof.
  intros H. unfold fsub, mk_fbytes. cbn [fb_len fb_blocks].
  destruct (N.leb_spec (N.of_nat off + N.of_nat len) (N.of_nat (length b))) as [_|Hc]; [|lia].
  f_equal. pose proof block_size_pos as HB.
  set (B := block_size) in *.
  assert (Hq : N.to_nat (N.of_nat off / N.of_nat B) = (off / B)%nat).
  { rewrite <- Nat2N.inj_div. apply Nat2N.id. }
  assert (Hr : N.to_nat (N.of_nat off mod N.of_nat B) = (off mod B)%nat).
  { rewrite <- Nat2N.inj_mod. apply Nat2N.id. }
  rewrite Hq, Hr.
  rewrite blocks_slice.
  2:{ fold B. pose proof (Nat.div_mod_eq (length b) B). pose proof (Nat.mod_upper_bound (length b) B). cbn [Nat.mul]. nia. }
  fold B.
  set (q := (off / B)%nat). set (r := (off mod B)%nat).
  assert (Hoff : off = (q * B + r)%nat).
  { subst q r. pose proof (Nat.div_mod_eq off B). lia. }
  assert (Hrb : (r < B)%nat) by (subst r; apply Nat.mod_upper_bound; lia).
  rewrite firstn_skipn_firstn.
  - rewrite <- skipn_add. now rewrite <- Hoff.
  - pose proof (Nat.div_mod_eq (r + len) B). pose proof (Nat.mod_upper_bound (r + len) B). cbn [Nat.mul]. nia.
Qed.

Lemma fsub_at (pre x post : bytes) :
  fsub (mk_fbytes (pre ++ x ++ post)) (sizeN pre) (length x) = Some x.
Proof.
  unfold sizeN. rewrite fsub_mk_fbytes by (rewrite !app_length; lia).
  now rewrite slice_app.
Qed.

(** * Thrift: the boolean well-formedness check, and decoding within the
      decoder's fuel (nesting depth / fields per struct, not tree size) *)

Lemma in_sint64b_ok z : in_sint64b z = true -> in_sint 64 z.
Proof.
  unfold in_sint64b, in_sint. change (Z.of_N 64 - 1)%Z with 63%Z. lia.
Qed.

Lemma code_okb_ok ty v : code_okb ty v = true -> code_ok ty v.
Proof.
  destruct v; cbn [code_okb code_ok]; intros H; try (apply N.eqb_eq; exact H).
  apply orb_true_iff in H. destruct H as [H|H]; apply N.eqb_eq in H; auto.
Qed.

Lemma wfb_wf : forall v, wfb v = true -> wf v.
Proof.
  induction v as [b|n|c z|bits|bs|e l IH|fs IH] using tval_ind'; intros H.
  - exact I.
  - cbn [wfb] in H. cbn [wf]. now apply N.ltb_lt.
  - cbn [wfb] in H. apply andb_true_iff in H. destruct H as [Hc Hz]. split; [|now apply in_sint64b_ok].
    rewrite !orb_true_iff, !N.eqb_eq in Hc. tauto.
  - cbn [wfb] in H. cbn [wf]. now apply N.ltb_lt.
  - cbn [wfb] in H. cbn [wf]. now apply N.ltb_lt.
  - apply wf_list. cbn [wfb] in H. rewrite !andb_true_iff in H.
    destruct H as ((((H1 & H2) & H3) & H4) & H5).
    apply N.leb_le in H1, H2. apply N.ltb_lt in H4. apply negb_true_iff, N.eqb_neq in H3.
    split; [split; [split; assumption|assumption]|]. split; [assumption|].
    rewrite forallb_forall in H5. rewrite Forall_forall in IH. apply Forall_forall. intros x Hx.
    specialize (H5 x Hx). apply andb_true_iff in H5. destruct H5 as [Hc Hw].
    split; [now apply code_okb_ok|]. now apply IH.
  - apply wf_struct. cbn [wfb] in H. rewrite forallb_forall in H. rewrite Forall_forall in IH.
    apply Forall_forall. intros p Hp. specialize (H p Hp). apply andb_true_iff in H. destruct H as [Hi Hw].
    split; [now apply in_sint64b_ok|]. now apply IH.
Qed.

Lemma need_list e l : need (TList e l) = S (fold_right (fun x a => Nat.max (need x) a) 0%nat l).
Proof. reflexivity. Qed.

Lemma need_struct fs : need (TStruct fs) = S (fold_right (fun p a => Nat.max (need (snd p)) a) (S (length fs)) fs).
Proof. reflexivity. Qed.

Lemma need_list_elem l : forall x, In x l -> (need x <= fold_right (fun x a => Nat.max (need x) a) 0%nat l)%nat.
Proof.
  induction l as [|y l IH]; intros x Hx; [destruct Hx|].
  destruct Hx as [->|Hx]; cbn [fold_right]; [lia|]. specialize (IH x Hx). lia.
Qed.

Lemma need_struct_bound (fs : list (Z * tval)) base :
  (base <= fold_right (fun p a => Nat.max (need (snd p)) a) base fs)%nat /\
  forall p, In p fs -> (need (snd p) <= fold_right (fun p a => Nat.max (need (snd p)) a) base fs)%nat.
Proof.
  induction fs as [|q fs [IH1 IH2]]; cbn [fold_right]; split; try lia.
  - intros p [].
  - intros p [->|Hp]; [lia|]. specialize (IH2 p Hp). lia.
Qed.

Lemma dec_elems_need f elem : forall l rest,
  Forall (fun x => forall rest, dec_val f elem (encode x ++ rest) = Some (x, rest)) l ->
  dec_elems f elem (length l) (concat (map encode l) ++ rest) = Some (l, rest).
Proof.
  induction l as [|x l IH]; intros rest Hl; [reflexivity|].
  inversion Hl as [|? ? Hx Hl']; subst.
  cbn [length dec_elems_with map concat]. rewrite <- app_assoc.
  rewrite Hx. rewrite IH by exact Hl'. reflexivity.
Qed.

Lemma type_code_not_bool x : (forall b, x <> TBool b) -> wf x ->
  (type_code x =? T_TRUE) = false /\ (type_code x =? T_FALSE) = false.
Proof.
  intros Hb Hw. destruct x as [b|n|c z|bits|bs|e l|gs]; try (split; reflexivity).
  - now destruct (Hb b).
  - cbn [type_code]. destruct Hw as [Hc _]. destruct (int_code_cases c Hc) as (E1 & E2 & _). now split.
Qed.

Lemma dec_fields_need f : forall fs last rest k,
  Forall (fun p => in_sint 64 (fst p) /\ wf (snd p) /\
                   (forall rest, dec_val f (type_code (snd p)) (encode (snd p) ++ rest) = Some (snd p, rest))) fs ->
  (length fs < k)%nat ->
  dec_fields f k last (enc_fields last fs ++ rest) = Some (fs, rest).
Proof.
  induction fs as [|[id x] fs IH]; intros last rest k Hfs Hk.
  - destruct k; [cbn in Hk; lia|]. reflexivity.
  - destruct k as [|k]; [cbn in Hk; lia|].
    inversion Hfs as [|? ? (Hid & Hw & Hx) Hfs']; subst. cbn [fst snd] in *. cbn [length] in Hk.
    assert (Hrest : dec_fields f k id (enc_fields id fs ++ rest) = Some (fs, rest)) by (apply IH; auto; lia).
    destruct x as [b|n|c z|bits|bs|e l|gs] eqn:Ex.
    1:{ cbn [enc_fields]. rewrite <- app_assoc.
      destruct (field_header_dec last id (if b then T_TRUE else T_FALSE) (enc_fields id fs ++ rest))
        as (h & r & Eh & Hnz & Hm & Hidr); [destruct b; unfold T_TRUE, T_FALSE; lia|exact Hid|].
      rewrite Eh. cbn [dec_fields_with]. rewrite Hnz. cbv zeta. rewrite Hidr, Hm.
      destruct b; cbn [N.eqb T_TRUE T_FALSE Pos.eqb]; rewrite Hrest; reflexivity. }
      all: rewrite <- Ex in *.
      all: assert (Hnb : (type_code x =? T_TRUE) = false /\ (type_code x =? T_FALSE) = false)
             by (apply type_code_not_bool; [intros b' Hb'; rewrite Ex in Hb'; discriminate|exact Hw]).
      all: destruct Hnb as [Hn1 Hn2].
      all: assert (Henc : enc_fields last ((id, x) :: fs) = enc_field_header last id (type_code x) ++ encode x ++ enc_fields id fs)
             by (rewrite Ex; reflexivity).
      all: rewrite Henc, <- !app_assoc.
      all: destruct (field_header_dec last id (type_code x) (encode x ++ enc_fields id fs ++ rest))
             as (h & r & Eh & Hnz & Hm & Hidr); [apply type_code_range; exact Hw|exact Hid|].
      all: rewrite Eh; cbn [dec_fields_with]; rewrite Hnz; cbv zeta; rewrite Hidr, Hm, Hn1, Hn2.
      all: rewrite Hx, Hrest; reflexivity.
Qed.

Theorem dec_val_encode_need : forall v, wf v ->
  forall fuel ty rest, (need v <= fuel)%nat -> code_ok ty v ->
  dec_val fuel ty (encode v ++ rest) = Some (v, rest).
Proof.
  induction v as [b|n|c z|bits|bs|e l IH|fs IH] using tval_ind'; intros Hw fuel ty rest Hf Hc.
  1-5: apply dec_val_encode; [exact Hw|exact Hf|exact Hc].
  - (* list *)
    destruct fuel as [|f]; [cbn in Hf; lia|].
    cbn in Hc. subst ty. apply wf_list in Hw. destruct Hw as ((He & Hm) & Hn & Hl).
    change (type_code (TList e l)) with T_LIST. rewrite dec_val_list, encode_list, <- app_assoc.
    destruct (list_header_dec e (length l) (concat (map encode l) ++ rest) He Hn)
      as (h & r & Eh & Hmod & Hhdr).
    rewrite Eh. cbv zeta. rewrite Hhdr, Hmod, Nat2N.id.
    rewrite dec_elems_need; [reflexivity|].
    rewrite need_list in Hf.
    rewrite Forall_forall in *. intros x Hx rest'. destruct (Hl x Hx) as [Hcx Hwx].
    apply IH; [exact Hx|exact Hwx| |exact Hcx].
    pose proof (need_list_elem l x Hx). lia.
  - (* struct *)
    destruct fuel as [|f]; [cbn in Hf; lia|].
    cbn in Hc. subst ty. apply wf_struct in Hw.
    change (type_code (TStruct fs)) with T_STRUCT. rewrite dec_val_struct, encode_struct.
    rewrite need_struct in Hf.
    destruct (need_struct_bound fs (S (length fs))) as [Hb1 Hb2].
    rewrite dec_fields_need; [reflexivity| |lia].
    rewrite Forall_forall in *. intros p Hp. destruct (Hw p Hp) as [Hid Hwp].
    split; [exact Hid|]. split; [exact Hwp|]. intros rest'.
    apply IH; [exact Hp|exact Hwp| |].
    + specialize (Hb2 p Hp). lia.
    + destruct (snd p) as [[|]| | | | | |]; cbn; auto.
Qed.

Lemma decode_thrift_encode (t : tval) (rest : bytes) :
  wfb t = true -> (need t <=? 64)%nat = true -> (exists fs, t = TStruct fs) ->
  decode_thrift (encode t ++ rest) = Some (t, rest).
Proof.
  intros Hw Hn [fs ->]. unfold decode_thrift, thrift_fuel.
  apply dec_val_encode_need; [now apply wfb_wf|now apply Nat.leb_le|reflexivity].
Qed.

(** * Page headers *)

Lemma enc_fields_len : forall fs last, (1 <= length (enc_fields last fs))%nat.
Proof.
  induction fs as [|[id x] r IH]; intros last; [cbn; lia|].
  specialize (IH id). destruct x; cbn [enc_fields]; rewrite !app_length; lia.
Qed.

Lemma header_bytes_nonempty p : (1 <= length (page_header_bytes p))%nat.
Proof. unfold page_header_bytes, header_tree. rewrite encode_struct. apply enc_fields_len. Qed.

Lemma header_window_N : N.of_nat SpecDecoder.header_window = 4096.
Proof. reflexivity. Qed.

Lemma page_ok_parts d p : page_ok d p = true ->
  wfb (header_tree p) = true /\ (need (header_tree p) <=? 64)%nat = true /\ header_size p <= 4096.
Proof.
  unfold page_ok. rewrite !andb_true_iff. intros ((((_ & _) & Hw) & Hn) & Hh).
  repeat split; try assumption. unfold hdr_window in Hh. lia.
Qed.

Lemma decode_header_page d p tail : page_ok d p = true ->
  decode_header (page_bytes p ++ tail) =
  Some (header_tree p, length (page_header_bytes p), pg_body p ++ tail).
Proof.
  intros Hok. destruct (page_ok_parts d p Hok) as (Hw & Hn & Hh).
  unfold decode_header, page_bytes. rewrite <- app_assoc.
  set (hdr := page_header_bytes p) in *. set (X := pg_body p ++ tail).
  assert (Hlen : (length hdr <= SpecDecoder.header_window)%nat).
  { pose proof header_window_N. unfold header_size, sizeN in Hh. fold hdr in Hh. lia. }
  rewrite firstn_app, (firstn_all2 hdr) by exact Hlen.
  subst hdr. unfold page_header_bytes at 1.
  rewrite decode_thrift_encode; [|exact Hw|exact Hn|unfold header_tree; eauto].
  fold (page_header_bytes p).
  replace (length (page_header_bytes p ++ firstn (SpecDecoder.header_window - length (page_header_bytes p)) X)
           - length (firstn (SpecDecoder.header_window - length (page_header_bytes p)) X))%nat
    with (length (page_header_bytes p)) by (rewrite app_length; lia).
  now rewrite skipn_app_exact.
Qed.

Lemma header_comp p : nat_of_field 3 (header_tree p) = length (pg_body p).
Proof.
  unfold nat_of_field, header_tree, get_int, get. cbn [field PH_Type PH_UncompressedPageSize PH_CompressedPageSize Z.eqb Pos.eqb].
  unfold i32, zdef, sizeN. lia.
Qed.

Lemma header_uncomp p : n_of_field 2 (header_tree p) = pg_uncomp p.
Proof.
  unfold n_of_field, header_tree, get_int, get. cbn [field PH_Type PH_UncompressedPageSize Z.eqb Pos.eqb].
  unfold i32, zdef. lia.
Qed.

Lemma header_type p : get_int 1 (header_tree p) = Some (pg_type p).
Proof. reflexivity. Qed.

(** the inner header (data page v1 / v2 / dictionary) carries the value count *)
Definition header_nvalues (h : tval) : N :=
  let ty := zdef (get_int 1 h) (-1) in
  let inner := if (ty =? 2)%Z then get 7 h else if (ty =? 3)%Z then get 8 h else get 5 h in
  match inner with Some dh => n_of_field 1 dh | None => 0 end.

Lemma field_opt_z32_skip id id' z rest : id <> id' ->
  field id (opt_z32 id' z ++ rest) = field id rest.
Proof.
  intros H. unfold opt_z32. destruct (z =? 0)%Z; [reflexivity|].
  cbn [app field]. destruct (Z.eqb_spec id' id); [congruence|reflexivity].
Qed.

Lemma header_inner p :
  get (fst (inner_header p)) (header_tree p) = Some (snd (inner_header p)).
Proof.
  unfold header_tree, get.
  assert (H : fst (inner_header p) = 5%Z \/ fst (inner_header p) = 7%Z \/ fst (inner_header p) = 8%Z).
  { unfold inner_header. destruct (pg_type p =? 2)%Z; [|destruct (pg_type p =? 3)%Z]; cbn [fst]; auto. }
  destruct (inner_header p) as [iid it]. cbn [fst snd] in *.
  destruct H as [->|[->| ->]]; cbn [field PH_Type PH_UncompressedPageSize PH_CompressedPageSize Z.eqb Pos.eqb];
    (rewrite field_opt_z32_skip by (unfold PH_CRC; lia)); reflexivity.
Qed.

Lemma header_nvalues_page p : header_nvalues (header_tree p) = pg_nvalues p.
Proof.
  unfold header_nvalues. rewrite header_type. cbn [zdef].
  pose proof (header_inner p) as H. unfold inner_header in *.
  destruct (pg_type p =? 2)%Z; [|destruct (pg_type p =? 3)%Z]; cbn [fst snd] in H;
    unfold PH_DictionaryPageHeader, PH_DataPageHeaderV2, PH_DataPageHeader in H; rewrite H;
    unfold n_of_field, get_int, get; cbn [field DICT_NumValues V2_NumValues DPH_NumValues Z.eqb Pos.eqb];
    unfold i32, zdef; lia.
Qed.

(** * Walking the page headers of a chunk

    [walk_pages] is the page loop of [SpecDecoder.decode_pages] without the
    decoding of the bodies: header, [compressed_page_size] bytes, next page,
    until the chunk's bytes are used up exactly. *)

Record hpage := { h_offset : N; h_hlen : nat; h_comp : nat; h_header : tval }.

Fixpoint walk_pages (fuel : nat) (rest : bytes) (off : N) : option (list hpage) :=
  match fuel with
  | O => None
  | S f =>
      match rest with
      | [] => Some []
      | _ :: _ =>
          match decode_header rest with
          | None => None
          | Some (h, hlen, after) =>
              let comp := nat_of_field 3 h in
              match sub after 0 comp with
              | None => None
              | Some _ =>
                  match walk_pages f (skipn (hlen + comp) rest) (off + N.of_nat (hlen + comp)) with
                  | Some ps => Some ({| h_offset := off; h_hlen := hlen; h_comp := comp; h_header := h |} :: ps)
                  | None => None
                  end
              end
          end
      end
  end.

(* what the writer put there *)
Fixpoint written_pages (off : N) (ps : list page_in) : list hpage :=
  match ps with
  | [] => []
  | p :: r =>
      {| h_offset := off; h_hlen := length (page_header_bytes p); h_comp := length (pg_body p);
         h_header := header_tree p |} :: written_pages (off + comp_size p) r
  end.

Definition page_ok_any (p : page_in) : bool := page_ok true p || page_ok false p.

Lemma page_ok_any_of d p : page_ok d p = true -> page_ok_any p = true.
Proof. unfold page_ok_any. destruct d; intros ->; [reflexivity|apply orb_true_r]. Qed.

Lemma comp_size_nat p : comp_size p = N.of_nat (length (page_header_bytes p) + length (pg_body p)).
Proof. unfold comp_size, header_size, sizeN. lia. Qed.

Lemma page_bytes_size p : sizeN (page_bytes p) = comp_size p.
Proof. unfold page_bytes. rewrite sizeN_app. reflexivity. Qed.

Theorem walk_pages_written : forall ps fuel off,
  forallb page_ok_any ps = true -> (length ps < fuel)%nat ->
  walk_pages fuel (concat (map page_bytes ps)) off = Some (written_pages off ps).
Proof.
  induction ps as [|p ps IH]; intros fuel off Hok Hf.
  - destruct fuel; [cbn in Hf; lia|]. reflexivity.
  - destruct fuel as [|f]; [cbn in Hf; lia|]. cbn [length] in Hf.
    cbn [forallb] in Hok. apply andb_true_iff in Hok. destruct Hok as [Hp Hps].
    cbn [map concat written_pages].
    set (X := concat (map page_bytes ps)).
    destruct (page_bytes p ++ X) as [|b0 r0] eqn:E.
    { exfalso. apply (f_equal (@length _)) in E. unfold page_bytes in E. rewrite !app_length in E.
      pose proof (header_bytes_nonempty p). cbn [length] in E. lia. }
    cbn [walk_pages]. rewrite <- E.
    assert (Hd : exists d, page_ok d p = true).
    { unfold page_ok_any in Hp. apply orb_true_iff in Hp. destruct Hp; eauto. }
    destruct Hd as [d Hd]. rewrite (decode_header_page d p X Hd). cbv zeta.
    rewrite header_comp.
    assert (Hsub : sub (pg_body p ++ X) 0 (length (pg_body p)) = Some (firstn (length (pg_body p)) (pg_body p ++ X))).
    { unfold sub. cbn [Nat.add skipn]. rewrite app_length.
      destruct (Nat.leb_spec (length (pg_body p)) (length (pg_body p) + length X)); [reflexivity|lia]. }
    rewrite Hsub.
    assert (Hskip : skipn (length (page_header_bytes p) + length (pg_body p)) (page_bytes p ++ X) = X).
    { apply skipn_app_len. unfold page_bytes. now rewrite app_length. }
    rewrite Hskip. rewrite <- comp_size_nat.
    subst X. rewrite IH by (auto; lia). reflexivity.
Qed.

Lemma written_pages_app off a b :
  written_pages off (a ++ b) = written_pages off a ++ written_pages (off + fold_left N.add (map comp_size a) 0) b.
Proof.
  revert off. induction a as [|p a IH]; intros off.
  - cbn. f_equal. lia.
  - cbn [app written_pages map]. rewrite fold_add_cons, IH, N.add_assoc. reflexivity.
Qed.

Lemma pages_bytes_size ps : sizeN (concat (map page_bytes ps)) = fold_left N.add (map comp_size ps) 0.
Proof.
  induction ps as [|p ps IH]; [reflexivity|].
  cbn [map concat]. rewrite sizeN_app, fold_add_cons, IH, page_bytes_size. reflexivity.
Qed.

Lemma written_sizes off ps :
  map (fun hp => N.of_nat (h_hlen hp + h_comp hp)) (written_pages off ps) = map comp_size ps.
Proof.
  revert off. induction ps as [|p ps IH]; intros off; [reflexivity|].
  cbn [written_pages map h_hlen h_comp]. now rewrite IH, <- comp_size_nat.
Qed.

(** * Where the threaded offsets point: item [j] of a section starts where
      the items before it end *)

Lemma lay_chunks_firstn : forall cs j off bl ci oi,
  lay_chunks off bl ci oi (firstn j cs) = firstn j (lay_chunks off bl ci oi cs).
Proof.
  induction cs as [|c cs IH]; intros [|j] off bl ci oi; try reflexivity.
  cbn [firstn lay_chunks]. f_equal. apply IH.
Qed.

Lemma lay_chunks_length : forall cs off bl ci oi, length (lay_chunks off bl ci oi cs) = length cs.
Proof. induction cs as [|c cs IH]; intros; [reflexivity|]. cbn [lay_chunks length]. now rewrite IH. Qed.

Lemma oi_bytes_cons t ts : oi_bytes (t :: ts) = encode t ++ oi_bytes ts.
Proof. reflexivity. Qed.

Lemma lay_chunks_nth : forall cs j c off bl ci oi,
  nth_error cs j = Some c ->
  let pre := firstn j cs in
  let off' := off + sizeN (pages_bytes pre) in
  nth_error (lay_chunks off bl ci oi cs) j =
  Some (chunk_tree off' (bl + sizeN (blooms_bytes pre)) (ci + sizeN (cindex_bytes pre))
          (oi + sizeN (oi_bytes (map snd (lay_chunks off bl ci oi pre))))
          (sizeN (encode (oindex_tree off' c))) c,
        oindex_tree off' c).
Proof.
  induction cs as [|c0 cs IH]; intros [|j] c off bl ci oi H; cbn [nth_error] in H; try discriminate.
  - inversion H. subst c0. cbn [firstn lay_chunks nth_error map]. cbv zeta.
    unfold pages_bytes, blooms_bytes, cindex_bytes, oi_bytes. cbn [map concat].
    rewrite sizeN_nil, !N.add_0_r. reflexivity.
  - cbv zeta. cbn [firstn lay_chunks nth_error]. rewrite (IH j c _ _ _ _ H). cbv zeta.
    cbn [map snd]. rewrite oi_bytes_cons.
    unfold pages_bytes, blooms_bytes, cindex_bytes. cbn [map concat].
    rewrite !sizeN_app, !N.add_assoc. reflexivity.
Qed.

Lemma lay_groups_firstn : forall gs i off ci oi ord,
  lay_groups off ci oi ord (firstn i gs) = firstn i (lay_groups off ci oi ord gs).
Proof.
  induction gs as [|g gs IH]; intros [|i] off ci oi ord; try reflexivity.
  cbn [firstn lay_groups]. cbv zeta. f_equal. apply IH.
Qed.

Lemma lay_groups_length : forall gs off ci oi ord, length (lay_groups off ci oi ord gs) = length gs.
Proof. induction gs as [|g gs IH]; intros; [reflexivity|]. cbn [lay_groups length]. cbv zeta. cbn [length]. now rewrite IH. Qed.

Definition groups_bytes_of (gs : list group_in) : bytes := concat (map group_bytes gs).
Definition cindexes_bytes_of (gs : list group_in) : bytes := concat (map (fun g => cindex_bytes (gi_chunks g)) gs).

Lemma oindexes_of_cons gl lg : oindexes_of (gl :: lg) = oi_bytes (snd gl) ++ oindexes_of lg.
Proof. reflexivity. Qed.

Lemma lay_groups_nth : forall gs i g off ci oi ord,
  nth_error gs i = Some g ->
  let pre := firstn i gs in
  let off' := off + sizeN (groups_bytes_of pre) in
  let ci' := ci + sizeN (cindexes_bytes_of pre) in
  let oi' := oi + sizeN (oindexes_of (lay_groups off ci oi ord pre)) in
  nth_error (lay_groups off ci oi ord gs) i =
  Some (group_tree off' (ord + N.of_nat i) g (map fst (group_cols off' ci' oi' g)),
        map snd (group_cols off' ci' oi' g)).
Proof.
  induction gs as [|g0 gs IH]; intros [|i] g off ci oi ord H; cbn [nth_error] in H; try discriminate.
  - inversion H. subst g0. cbn [firstn lay_groups nth_error]. cbv zeta.
    unfold groups_bytes_of, cindexes_bytes_of, oindexes_of. cbn [map concat].
    rewrite sizeN_nil, !N.add_0_r. reflexivity.
  - cbv zeta. cbn [firstn lay_groups nth_error]. cbv zeta. rewrite (IH i g _ _ _ _ H). cbv zeta.
    rewrite oindexes_of_cons. cbn [snd].
    unfold groups_bytes_of, cindexes_bytes_of. cbn [map concat].
    rewrite !sizeN_app, !N.add_assoc.
    replace (ord + 1 + N.of_nat i) with (ord + N.of_nat (S i)) by lia. reflexivity.
Qed.

(** * Reading the fields of the trees the accounting built *)

Lemma field_app id a b :
  field id (a ++ b) = match field id a with Some v => Some v | None => field id b end.
Proof.
  induction a as [|[i v] a IH]; [reflexivity|]. cbn [app field]. destruct (i =? id)%Z; [reflexivity|exact IH].
Qed.

Lemma field_ids_between lo hi fs id :
  ids_between lo hi fs = true -> (id <= lo \/ hi <= id)%Z -> field id fs = None.
Proof.
  unfold ids_between. intros H Hid. induction fs as [|[i v] fs IH]; [reflexivity|].
  cbn [forallb fst] in H. apply andb_true_iff in H. destruct H as [Hi Hfs].
  cbn [field]. destruct (Z.eqb_spec i id); [lia|]. now apply IH.
Qed.

Lemma field_opt_i64 id id' n rest :
  field id (opt_i64 id' n ++ rest) =
  if (id' =? id)%Z && negb (n =? 0) then Some (i64 n) else field id rest.
Proof.
  unfold opt_i64. destruct (n =? 0); [now rewrite andb_false_r|].
  cbn [app field]. rewrite andb_true_r. reflexivity.
Qed.

Lemma field_opt_i32 id id' n rest :
  field id (opt_i32 id' n ++ rest) =
  if (id' =? id)%Z && negb (n =? 0) then Some (i32 n) else field id rest.
Proof.
  unfold opt_i32. destruct (n =? 0); [now rewrite andb_false_r|].
  cbn [app field]. rewrite andb_true_r. reflexivity.
Qed.

Lemma n_of_i64 n : Z.to_N (zdef (Some (Z.of_N n)) 0) = n.
Proof. cbn [zdef]. lia. Qed.

(* an integer field that is either present with value [n], or absent with [n = 0] *)
Lemma n_of_field_opt id fs (n : N) c :
  field id fs = (if negb (n =? 0) then Some (TInt c (Z.of_N n)) else None) ->
  n_of_field id (TStruct fs) = n.
Proof.
  intros H. unfold n_of_field, get_int, get. rewrite H.
  destruct (N.eqb_spec n 0); cbn [negb zdef]; lia.
Qed.

Section Meta.
  Variables (off bl : N) (c : chunk_in).
  Hypothesis Hok : chunk_ok c = true.

  Let Hparts : ids_between 0 CM_NumValues (ck_head c) = true /\
               ids_between CM_TotalCompressedSize CM_DataPageOffset (ck_kv c) = true /\
               ids_between CM_DictionaryPageOffset CM_BloomFilterOffset (ck_stats c) = true /\
               ids_between CM_BloomFilterLength (2 ^ 15) (ck_tail c) = true.
  Proof.
    unfold chunk_ok in Hok. rewrite !andb_true_iff in Hok. tauto.
  Qed.

  Lemma meta_num_values : n_of_field 5 (meta_tree off bl c) = chunk_num_values c.
  Proof.
    destruct Hparts as (H1 & _). unfold n_of_field, get_int, get, meta_tree.
    rewrite field_app, (field_ids_between _ _ _ 5%Z H1) by (unfold CM_NumValues; lia).
    cbn [field CM_NumValues Z.eqb Pos.eqb]. apply n_of_i64.
  Qed.

  Lemma meta_total_uncomp : n_of_field 6 (meta_tree off bl c) = chunk_total_uncomp c.
  Proof.
    destruct Hparts as (H1 & _). unfold n_of_field, get_int, get, meta_tree.
    rewrite field_app, (field_ids_between _ _ _ 6%Z H1) by (unfold CM_NumValues; lia).
    cbn [field CM_NumValues CM_TotalUncompressedSize Z.eqb Pos.eqb]. apply n_of_i64.
  Qed.

  Lemma meta_total_comp : n_of_field 7 (meta_tree off bl c) = chunk_total_comp c.
  Proof.
    destruct Hparts as (H1 & _). unfold n_of_field, get_int, get, meta_tree.
    rewrite field_app, (field_ids_between _ _ _ 7%Z H1) by (unfold CM_NumValues; lia).
    cbn [field CM_NumValues CM_TotalUncompressedSize CM_TotalCompressedSize Z.eqb Pos.eqb]. apply n_of_i64.
  Qed.

  Lemma meta_data_offset : n_of_field 9 (meta_tree off bl c) = data_offset off c.
  Proof.
    destruct Hparts as (H1 & H2 & _). unfold n_of_field, get_int, get, meta_tree.
    rewrite field_app, (field_ids_between _ _ _ 9%Z H1) by (unfold CM_NumValues; lia).
    cbn [field CM_NumValues CM_TotalUncompressedSize CM_TotalCompressedSize Z.eqb Pos.eqb].
    rewrite field_app, (field_ids_between _ _ _ 9%Z H2) by (unfold CM_DataPageOffset; lia).
    cbn [field CM_DataPageOffset Z.eqb Pos.eqb]. apply n_of_i64.
  Qed.

  Lemma meta_dict_offset : n_of_field 11 (meta_tree off bl c) = dict_offset off c.
  Proof.
    destruct Hparts as (H1 & H2 & H3 & H4).
    apply (n_of_field_opt _ _ _ T_I64). unfold meta_tree.
    rewrite field_app, (field_ids_between _ _ _ 11%Z H1) by (unfold CM_NumValues; lia).
    cbn [field CM_NumValues CM_TotalUncompressedSize CM_TotalCompressedSize Z.eqb Pos.eqb].
    rewrite field_app, (field_ids_between _ _ _ 11%Z H2) by (unfold CM_DataPageOffset; lia).
    cbn [field CM_DataPageOffset Z.eqb Pos.eqb].
    rewrite field_opt_i64. unfold CM_DictionaryPageOffset at 1. cbn [Z.eqb Pos.eqb andb].
    destruct (negb (dict_offset off c =? 0)); [reflexivity|].
    rewrite field_app, (field_ids_between _ _ _ 11%Z H3) by (unfold CM_DictionaryPageOffset; lia).
    rewrite field_app.
    assert (Hb : field 11 (match ck_bloom c with
                           | [] => []
                           | _ :: _ => opt_i64 CM_BloomFilterOffset bl ++ opt_i32 CM_BloomFilterLength (sizeN (ck_bloom c))
                           end) = None).
    { destruct (ck_bloom c); [reflexivity|]. rewrite field_opt_i64. unfold CM_BloomFilterOffset. cbn [Z.eqb Pos.eqb andb].
      rewrite <- (app_nil_r (opt_i32 _ _)), field_opt_i32. reflexivity. }
    rewrite Hb. apply (field_ids_between _ _ _ 11%Z H4). unfold CM_BloomFilterLength. lia.
  Qed.

  Lemma dict_bytes_pos : ck_dict c <> None -> 0 < sizeN (dict_bytes c).
  Proof.
    unfold dict_bytes, dict_pages. destruct (ck_dict c) as [d|]; [intros _|congruence].
    cbn [map concat]. rewrite app_nil_r. unfold page_bytes. rewrite sizeN_app.
    pose proof (header_bytes_nonempty d). unfold sizeN. lia.
  Qed.

  (* the decoder starts reading the chunk where the writer started writing it *)
  Lemma meta_chunk_start : 0 < off -> chunk_start (meta_tree off bl c) = off.
  Proof.
    intros Hoff. unfold chunk_start. rewrite meta_data_offset, meta_dict_offset.
    unfold dict_offset, data_offset.
    destruct (ck_dict c) as [d|] eqn:Ed.
    - assert (0 < sizeN (dict_bytes c)) by (apply dict_bytes_pos; congruence).
      destruct (N.ltb_spec 0 off); [|lia]. destruct (N.ltb_spec off (off + sizeN (dict_bytes c))); [reflexivity|lia].
    - cbn [N.ltb N.compare andb]. unfold dict_bytes, dict_pages. rewrite Ed. cbn [map concat]. rewrite sizeN_nil. lia.
  Qed.

  Lemma chunk_total_comp_size : chunk_total_comp c = sizeN (chunk_bytes c).
  Proof.
    unfold chunk_total_comp, chunk_bytes, dict_bytes. rewrite map_app, fold_add_app, sizeN_app, !pages_bytes_size. lia.
  Qed.
End Meta.

Lemma nat_of_n_of_field id v : nat_of_field id v = N.to_nat (n_of_field id v).
Proof. unfold nat_of_field, n_of_field. now rewrite Z_N_nat. Qed.

Section ChunkTree.
  Variables (off bl ci oi oilen : N) (c : chunk_in).

  Lemma chunk_tree_meta : get 3 (chunk_tree off bl ci oi oilen c) = Some (meta_tree off bl c).
  Proof. reflexivity. Qed.

  Let cindex_part :=
    match ck_cindex c with
    | [] => []
    | _ :: _ => opt_i64 CC_ColumnIndexOffset ci ++ opt_i32 CC_ColumnIndexLength (sizeN (ck_cindex c))
    end.

  Let cindex_part_none id : (id < 6)%Z -> field id cindex_part = None.
  Proof.
    intros H. unfold cindex_part. destruct (ck_cindex c); [reflexivity|].
    rewrite field_opt_i64. destruct (Z.eqb_spec CC_ColumnIndexOffset id); [unfold CC_ColumnIndexOffset in *; lia|].
    cbn [andb]. rewrite <- (app_nil_r (opt_i32 _ _)), field_opt_i32.
    destruct (Z.eqb_spec CC_ColumnIndexLength id); [unfold CC_ColumnIndexLength in *; lia|]. reflexivity.
  Qed.

  Lemma chunk_tree_oi_offset : n_of_field 4 (chunk_tree off bl ci oi oilen c) = oi.
  Proof.
    apply (n_of_field_opt _ _ _ T_I64). unfold chunk_tree.
    cbn [field CC_FileOffset CC_MetaData Z.eqb Pos.eqb].
    rewrite field_opt_i64. unfold CC_OffsetIndexOffset at 1. cbn [Z.eqb Pos.eqb andb].
    destruct (negb (oi =? 0)); [reflexivity|].
    rewrite field_opt_i32. unfold CC_OffsetIndexLength at 1. cbn [Z.eqb Pos.eqb andb].
    apply cindex_part_none. lia.
  Qed.

  Lemma chunk_tree_oi_length : n_of_field 5 (chunk_tree off bl ci oi oilen c) = oilen.
  Proof.
    apply (n_of_field_opt _ _ _ T_I32). unfold chunk_tree.
    cbn [field CC_FileOffset CC_MetaData Z.eqb Pos.eqb].
    rewrite field_opt_i64. unfold CC_OffsetIndexOffset at 1. cbn [Z.eqb Pos.eqb andb].
    rewrite field_opt_i32. unfold CC_OffsetIndexLength at 1. cbn [Z.eqb Pos.eqb andb].
    destruct (negb (oilen =? 0)); [reflexivity|].
    apply cindex_part_none. lia.
  Qed.

  Lemma chunk_tree_ci_offset :
    n_of_field 6 (chunk_tree off bl ci oi oilen c) = match ck_cindex c with [] => 0 | _ => ci end.
  Proof.
    apply (n_of_field_opt _ _ _ T_I64). unfold chunk_tree.
    cbn [field CC_FileOffset CC_MetaData Z.eqb Pos.eqb].
    rewrite field_opt_i64. unfold CC_OffsetIndexOffset at 1. cbn [Z.eqb Pos.eqb andb].
    rewrite field_opt_i32. unfold CC_OffsetIndexLength at 1. cbn [Z.eqb Pos.eqb andb].
    destruct (ck_cindex c); [reflexivity|].
    rewrite field_opt_i64. unfold CC_ColumnIndexOffset at 1. cbn [Z.eqb Pos.eqb andb].
    destruct (negb (ci =? 0)); [reflexivity|].
    rewrite <- (app_nil_r (opt_i32 _ _)), field_opt_i32. reflexivity.
  Qed.

  Lemma chunk_tree_ci_length : n_of_field 7 (chunk_tree off bl ci oi oilen c) = sizeN (ck_cindex c).
  Proof.
    apply (n_of_field_opt _ _ _ T_I32). unfold chunk_tree.
    cbn [field CC_FileOffset CC_MetaData Z.eqb Pos.eqb].
    rewrite field_opt_i64. unfold CC_OffsetIndexOffset at 1. cbn [Z.eqb Pos.eqb andb].
    rewrite field_opt_i32. unfold CC_OffsetIndexLength at 1. cbn [Z.eqb Pos.eqb andb].
    destruct (ck_cindex c) eqn:E; [reflexivity|]. rewrite <- E.
    rewrite field_opt_i64. unfold CC_ColumnIndexOffset at 1. cbn [Z.eqb Pos.eqb andb].
    rewrite <- (app_nil_r (opt_i32 _ _)), field_opt_i32. unfold CC_ColumnIndexLength at 1. cbn [Z.eqb Pos.eqb andb].
    destruct (negb (sizeN (ck_cindex c) =? 0)); reflexivity.
  Qed.
End ChunkTree.

Section GroupTree.
  Variables (off ord : N) (g : group_in) (cols : list tval).
  Hypothesis Hsort : ids_between RG_NumRows RG_FileOffset (gi_sorting g) = true.

  Lemma group_tree_columns : get_list 1 (group_tree off ord g cols) = Some cols.
  Proof. reflexivity. Qed.

  Lemma group_tree_total_byte_size :
    n_of_field 2 (group_tree off ord g cols) = fold_left N.add (map chunk_total_uncomp (gi_chunks g)) 0.
  Proof. unfold n_of_field, get_int, get, group_tree. cbn [field RG_Columns RG_TotalByteSize Z.eqb Pos.eqb]. apply n_of_i64. Qed.

  Lemma group_tree_num_rows : n_of_field 3 (group_tree off ord g cols) = group_num_rows g.
  Proof. unfold n_of_field, get_int, get, group_tree. cbn [field RG_Columns RG_TotalByteSize RG_NumRows Z.eqb Pos.eqb]. apply n_of_i64. Qed.

  Lemma group_tree_file_offset : n_of_field 5 (group_tree off ord g cols) = off.
  Proof.
    apply (n_of_field_opt _ _ _ T_I64). unfold group_tree.
    cbn [field RG_Columns RG_TotalByteSize RG_NumRows Z.eqb Pos.eqb].
    rewrite field_app, (field_ids_between _ _ _ 5%Z Hsort) by (unfold RG_FileOffset; lia).
    rewrite field_opt_i64. unfold RG_FileOffset at 1. cbn [Z.eqb Pos.eqb andb].
    destruct (negb (off =? 0)); [reflexivity|].
    rewrite field_opt_i64. reflexivity.
  Qed.

  Lemma group_tree_total_compressed_size :
    n_of_field 6 (group_tree off ord g cols) = fold_left N.add (map chunk_total_comp (gi_chunks g)) 0.
  Proof.
    apply (n_of_field_opt _ _ _ T_I64). unfold group_tree.
    cbn [field RG_Columns RG_TotalByteSize RG_NumRows Z.eqb Pos.eqb].
    rewrite field_app, (field_ids_between _ _ _ 6%Z Hsort) by (unfold RG_FileOffset; lia).
    rewrite field_opt_i64. unfold RG_FileOffset at 1. cbn [Z.eqb Pos.eqb andb].
    rewrite field_opt_i64. unfold RG_TotalCompressedSize at 1. cbn [Z.eqb Pos.eqb andb].
    destruct (negb (_ =? 0)); reflexivity.
  Qed.
End GroupTree.

Lemma footer_row_groups fi : get_list 4 (footer_tree fi) = Some (map fst (laid_groups fi)).
Proof. reflexivity. Qed.

Lemma footer_num_rows fi : n_of_field 3 (footer_tree fi) = fold_left N.add (map group_num_rows (fi_groups fi)) 0.
Proof.
  unfold n_of_field, get_int, get, footer_tree, footer_of_groups. cbn [field FMD_Version FMD_Schema FMD_NumRows Z.eqb Pos.eqb].
  apply n_of_i64.
Qed.

(** * (a) The footer *)

Lemma footer_found (P F : bytes) (t : tval) :
  firstn 4 P = SpecDecoder.magic -> sizeN F < 2 ^ 32 -> decode_thrift F = Some (t, []) ->
  SpecDecoder.footer_of (mk_fbytes (P ++ F ++ to_le 4 (sizeN F) ++ SpecDecoder.magic)) = Some (t, sizeN P).
Proof.
  intros HP HF Hdec.
  assert (HP4 : (4 <= length P)%nat).
  { apply (f_equal (@length _)) in HP. rewrite firstn_length in HP. cbn [SpecDecoder.magic length] in HP. lia. }
  set (L := to_le 4 (sizeN F)). set (file := P ++ F ++ L ++ SpecDecoder.magic).
  assert (HL : length L = 4%nat) by apply to_le_length.
  assert (Hn : fb_len (mk_fbytes file) = sizeN P + sizeN F + 8).
  { unfold mk_fbytes. cbn [fb_len]. subst file. rewrite !app_length, HL. cbn [SpecDecoder.magic length]. unfold sizeN. lia. }
  unfold SpecDecoder.footer_of. rewrite Hn.
  destruct (N.ltb_spec (sizeN P + sizeN F + 8) 12) as [Hlt|_]; [unfold sizeN in Hlt; lia|].
  (* leading magic *)
  assert (H1 : fsub (mk_fbytes file) 0 4 = Some SpecDecoder.magic).
  { change 0 with (N.of_nat 0). rewrite fsub_mk_fbytes.
    - cbn [skipn]. subst file. rewrite firstn_app. replace (4 - length P)%nat with 0%nat by lia.
      rewrite firstn_O, app_nil_r, HP. reflexivity.
    - subst file. rewrite app_length. lia. }
  (* trailing magic *)
  assert (H2 : fsub (mk_fbytes file) (sizeN P + sizeN F + 8 - 4) 4 = Some SpecDecoder.magic).
  { replace (sizeN P + sizeN F + 8 - 4) with (sizeN (P ++ F ++ L)).
    2:{ rewrite !sizeN_app. unfold sizeN at 3. rewrite HL. lia. }
    change 4%nat with (length SpecDecoder.magic).
    replace file with ((P ++ F ++ L) ++ SpecDecoder.magic ++ []) by (subst file; now rewrite app_nil_r, <- !app_assoc).
    apply fsub_at. }
  (* footer length *)
  assert (H3 : fsub (mk_fbytes file) (sizeN P + sizeN F + 8 - 8) 4 = Some L).
  { replace (sizeN P + sizeN F + 8 - 8) with (sizeN (P ++ F)) by (rewrite sizeN_app; lia).
    rewrite <- HL at 1.
    replace file with ((P ++ F) ++ L ++ SpecDecoder.magic) by (subst file; now rewrite <- !app_assoc).
    apply fsub_at. }
  rewrite H1, H2, H3. rewrite N.eqb_refl. cbn [andb].
  assert (Hflen : of_le L = sizeN F).
  { subst L. apply of_le_to_le. replace (256 ^ N.of_nat 4) with (2 ^ 32) by reflexivity. exact HF. }
  rewrite Hflen.
  destruct (N.leb_spec (sizeN F + 12) (sizeN P + sizeN F + 8)) as [_|Hc]; [|unfold sizeN in Hc; lia].
  replace (sizeN P + sizeN F + 8 - 8 - sizeN F) with (sizeN P) by lia.
  replace (N.to_nat (sizeN F)) with (length F) by (unfold sizeN; lia).
  subst file. rewrite fsub_at, Hdec. reflexivity.
Qed.

Lemma file_ok_parts fi : file_ok fi = true ->
  forallb group_ok (fi_groups fi) = true /\
  wfb (footer_tree fi) = true /\ (need (footer_tree fi) <=? 64)%nat = true /\
  forallb (fun gl => forallb (fun oi => wfb oi && (need oi <=? 64)%nat) (snd gl)) (laid_groups fi) = true /\
  sizeN (footer_bytes fi) < 2 ^ 32.
Proof.
  unfold file_ok, file_ok_with. cbv zeta. fold (footer_tree fi). fold (footer_bytes fi).
  rewrite !andb_true_iff. intros (((((H1 & _) & H3) & H4) & H5) & H6).
  repeat split; try assumption. now apply N.ltb_lt.
Qed.

Lemma layout_bytes_eq fi :
  layout_bytes fi =
  (file_magic ++ groups_bytes fi ++ cindexes_bytes fi ++ oindexes_bytes fi)
  ++ footer_bytes fi ++ to_le 4 (sizeN (footer_bytes fi)) ++ file_magic.
Proof. unfold layout_bytes, assemble. cbv zeta. now rewrite <- !app_assoc. Qed.

Lemma footer_start_eq fi :
  footer_start fi = sizeN (file_magic ++ groups_bytes fi ++ cindexes_bytes fi ++ oindexes_bytes fi).
Proof. unfold footer_start, oindex_start, cindex_start. rewrite !sizeN_app. lia. Qed.

Theorem layout_footer_found fi : file_ok fi = true ->
  SpecDecoder.footer_of (mk_fbytes (layout_bytes fi)) = Some (footer_tree fi, footer_start fi).
Proof.
  intros Hok. destruct (file_ok_parts fi Hok) as (_ & Hw & Hn & _ & Hlen).
  rewrite layout_bytes_eq, footer_start_eq.
  apply footer_found; [reflexivity|exact Hlen|].
  unfold footer_bytes. rewrite <- (app_nil_r (encode (footer_tree fi))).
  apply decode_thrift_encode; [exact Hw|exact Hn|unfold footer_tree, footer_of_groups; eauto].
Qed.

(** * Where things are in the file *)

Definition at_offset (file : bytes) (off : N) (x : bytes) : Prop :=
  exists pre post, file = pre ++ x ++ post /\ sizeN pre = off.

Lemma at_offset_fsub file off x : at_offset file off x -> fsub (mk_fbytes file) off (length x) = Some x.
Proof. intros (pre & post & -> & <-). apply fsub_at. Qed.

Lemma at_offset_trans outer mid x o1 o2 :
  at_offset outer o1 mid -> at_offset mid o2 x -> at_offset outer (o1 + o2) x.
Proof.
  intros (p1 & q1 & -> & <-) (p2 & q2 & -> & <-).
  exists (p1 ++ p2), (q2 ++ q1). split; [now rewrite <- !app_assoc|apply sizeN_app].
Qed.

Lemma at_offset_mid a x b : at_offset (a ++ x ++ b) (sizeN a) x.
Proof. exists a, b. split; reflexivity. Qed.

Lemma at_offset_head x b : at_offset (x ++ b) 0 x.
Proof. exists [], b. split; reflexivity. Qed.

Lemma at_offset_concat {A} (f : A -> bytes) l j y :
  nth_error l j = Some y -> at_offset (concat (map f l)) (sizeN (concat (map f (firstn j l)))) (f y).
Proof. intros H. rewrite (concat_map_split f l j y H). apply at_offset_mid. Qed.

(* the offsets the accounting gives to row group [i] and to column [j] of it *)
Definition group_off (fi : file_in) (i : nat) : N :=
  sizeN file_magic + sizeN (groups_bytes_of (firstn i (fi_groups fi))).
Definition group_ci (fi : file_in) (i : nat) : N :=
  cindex_start fi + sizeN (cindexes_bytes_of (firstn i (fi_groups fi))).
Definition group_oi (fi : file_in) (i : nat) : N :=
  oindex_start fi + sizeN (oindexes_of (firstn i (laid_groups fi))).
Definition the_cols (fi : file_in) (i : nat) (g : group_in) : list (tval * tval) :=
  group_cols (group_off fi i) (group_ci fi i) (group_oi fi i) g.

Definition chunk_off (fi : file_in) (i : nat) (g : group_in) (j : nat) : N :=
  group_off fi i + sizeN (pages_bytes (firstn j (gi_chunks g))).
Definition chunk_bl (fi : file_in) (i : nat) (g : group_in) (j : nat) : N :=
  group_off fi i + sizeN (pages_bytes (gi_chunks g)) + sizeN (blooms_bytes (firstn j (gi_chunks g))).
Definition chunk_ci (fi : file_in) (i : nat) (g : group_in) (j : nat) : N :=
  group_ci fi i + sizeN (cindex_bytes (firstn j (gi_chunks g))).
Definition chunk_oi (fi : file_in) (i : nat) (g : group_in) (j : nat) : N :=
  group_oi fi i + sizeN (oi_bytes (map snd (firstn j (the_cols fi i g)))).

Lemma laid_groups_nth fi i g : nth_error (fi_groups fi) i = Some g ->
  nth_error (laid_groups fi) i =
  Some (group_tree (group_off fi i) (N.of_nat i) g (map fst (the_cols fi i g)), map snd (the_cols fi i g)).
Proof.
  intros H. unfold laid_groups at 1. cbv zeta.
  rewrite (lay_groups_nth _ _ _ _ _ _ _ H). cbv zeta.
  rewrite lay_groups_firstn. reflexivity.
Qed.

Lemma the_cols_nth fi i g j c : nth_error (gi_chunks g) j = Some c ->
  nth_error (the_cols fi i g) j =
  Some (chunk_tree (chunk_off fi i g j) (chunk_bl fi i g j) (chunk_ci fi i g j) (chunk_oi fi i g j)
          (sizeN (encode (oindex_tree (chunk_off fi i g j) c))) c,
        oindex_tree (chunk_off fi i g j) c).
Proof.
  intros H. unfold the_cols at 1, group_cols.
  rewrite (lay_chunks_nth _ _ _ _ _ _ _ H). cbv zeta.
  rewrite lay_chunks_firstn. reflexivity.
Qed.

(** the entry of column [j] of row group [i] in a FileMetaData tree *)
Definition footer_chunk (ft : tval) (i j : nat) (gt cc md : tval) : Prop :=
  exists gts ccs, get_list 4 ft = Some gts /\ nth_error gts i = Some gt /\
                  get_list 1 gt = Some ccs /\ nth_error ccs j = Some cc /\ get 3 cc = Some md.

Lemma footer_chunk_unique ft i j gt cc md gt' cc' md' :
  footer_chunk ft i j gt cc md -> footer_chunk ft i j gt' cc' md' -> gt = gt' /\ cc = cc' /\ md = md'.
Proof.
  intros (gts & ccs & H1 & H2 & H3 & H4 & H5) (gts' & ccs' & H1' & H2' & H3' & H4' & H5').
  assert (gts = gts') by congruence. subst gts'. assert (gt = gt') by congruence. subst gt'.
  assert (ccs = ccs') by congruence. subst ccs'. assert (cc = cc') by congruence. subst cc'.
  repeat split; congruence.
Qed.

Definition the_group_tree (fi : file_in) (i : nat) (g : group_in) : tval :=
  group_tree (group_off fi i) (N.of_nat i) g (map fst (the_cols fi i g)).
Definition the_chunk_tree (fi : file_in) (i : nat) (g : group_in) (j : nat) (c : chunk_in) : tval :=
  chunk_tree (chunk_off fi i g j) (chunk_bl fi i g j) (chunk_ci fi i g j) (chunk_oi fi i g j)
    (sizeN (encode (oindex_tree (chunk_off fi i g j) c))) c.
Definition the_meta_tree (fi : file_in) (i : nat) (g : group_in) (j : nat) (c : chunk_in) : tval :=
  meta_tree (chunk_off fi i g j) (chunk_bl fi i g j) c.

Lemma footer_chunk_layout fi i j g c :
  nth_error (fi_groups fi) i = Some g -> nth_error (gi_chunks g) j = Some c ->
  footer_chunk (footer_tree fi) i j (the_group_tree fi i g) (the_chunk_tree fi i g j c) (the_meta_tree fi i g j c).
Proof.
  intros Hg Hc. exists (map fst (laid_groups fi)), (map fst (the_cols fi i g)).
  split; [apply footer_row_groups|].
  split; [erewrite map_nth_error by (apply laid_groups_nth; exact Hg); reflexivity|].
  split; [reflexivity|].
  split; [erewrite map_nth_error by (apply the_cols_nth; exact Hc); reflexivity|].
  reflexivity.
Qed.

Lemma groups_at fi : at_offset (layout_bytes fi) (sizeN file_magic) (groups_bytes fi).
Proof. unfold layout_bytes, assemble. cbv zeta. apply at_offset_mid. Qed.

Lemma group_at fi i g : nth_error (fi_groups fi) i = Some g ->
  at_offset (layout_bytes fi) (group_off fi i) (group_bytes g).
Proof.
  intros H. unfold group_off. eapply at_offset_trans; [apply groups_at|].
  unfold groups_bytes, groups_bytes_of. now apply at_offset_concat.
Qed.

Lemma chunk_at fi i g j c :
  nth_error (fi_groups fi) i = Some g -> nth_error (gi_chunks g) j = Some c ->
  at_offset (layout_bytes fi) (chunk_off fi i g j) (chunk_bytes c).
Proof.
  intros Hg Hc. unfold chunk_off.
  eapply at_offset_trans; [apply (group_at fi i g Hg)|].
  replace (sizeN (pages_bytes (firstn j (gi_chunks g)))) with (0 + sizeN (pages_bytes (firstn j (gi_chunks g)))) by lia.
  eapply at_offset_trans; [unfold group_bytes; apply at_offset_head|].
  unfold pages_bytes. now apply at_offset_concat.
Qed.

Lemma bloom_at fi i g j c :
  nth_error (fi_groups fi) i = Some g -> nth_error (gi_chunks g) j = Some c ->
  at_offset (layout_bytes fi) (chunk_bl fi i g j) (ck_bloom c).
Proof.
  intros Hg Hc. unfold chunk_bl. rewrite <- N.add_assoc.
  eapply at_offset_trans; [apply (group_at fi i g Hg)|].
  eapply at_offset_trans.
  - unfold group_bytes. rewrite <- (app_nil_r (blooms_bytes (gi_chunks g))). apply at_offset_mid.
  - unfold blooms_bytes. now apply at_offset_concat.
Qed.

Lemma cindexes_at fi : at_offset (layout_bytes fi) (cindex_start fi) (cindexes_bytes fi).
Proof.
  unfold layout_bytes, assemble, cindex_start. cbv zeta. rewrite <- sizeN_app.
  rewrite (app_assoc file_magic). apply at_offset_mid.
Qed.

Lemma cindex_at fi i g j c :
  nth_error (fi_groups fi) i = Some g -> nth_error (gi_chunks g) j = Some c ->
  at_offset (layout_bytes fi) (chunk_ci fi i g j) (ck_cindex c).
Proof.
  intros Hg Hc. unfold chunk_ci, group_ci. rewrite <- N.add_assoc.
  eapply at_offset_trans; [apply cindexes_at|].
  eapply at_offset_trans.
  - unfold cindexes_bytes, cindexes_bytes_of. apply (at_offset_concat (fun g => cindex_bytes (gi_chunks g)) _ _ _ Hg).
  - unfold cindex_bytes. now apply at_offset_concat.
Qed.

Lemma oindexes_at fi : at_offset (layout_bytes fi) (oindex_start fi) (oindexes_bytes fi).
Proof.
  unfold layout_bytes, assemble, oindex_start, cindex_start. cbv zeta. rewrite <- !sizeN_app.
  rewrite <- app_assoc.
  rewrite (app_assoc (groups_bytes fi)), (app_assoc file_magic). apply at_offset_mid.
Qed.

Lemma oindex_at fi i g j c :
  nth_error (fi_groups fi) i = Some g -> nth_error (gi_chunks g) j = Some c ->
  at_offset (layout_bytes fi) (chunk_oi fi i g j) (encode (oindex_tree (chunk_off fi i g j) c)).
Proof.
  intros Hg Hc. unfold chunk_oi, group_oi. rewrite <- N.add_assoc.
  eapply at_offset_trans; [apply oindexes_at|].
  eapply at_offset_trans.
  - unfold oindexes_bytes, oindexes_of.
    apply (at_offset_concat (fun gl => oi_bytes (snd gl)) _ _ _ (laid_groups_nth fi i g Hg)).
  - cbn [snd]. unfold oi_bytes. rewrite !map_map.
    apply (at_offset_concat (fun x => encode (snd x)) _ _ _ (the_cols_nth fi i g j c Hc)).
Qed.

(** * (b) Column chunks: the recorded start and size slice the pages written;
      walking the headers reads them back *)

Lemma forallb_nth_error {A} (f : A -> bool) l i x :
  forallb f l = true -> nth_error l i = Some x -> f x = true.
Proof. intros H Hn. rewrite forallb_forall in H. apply H. eapply nth_error_In; eauto. Qed.

Lemma chunk_ok_at fi i j g c : file_ok fi = true ->
  nth_error (fi_groups fi) i = Some g -> nth_error (gi_chunks g) j = Some c ->
  chunk_ok c = true /\ ids_between RG_NumRows RG_FileOffset (gi_sorting g) = true /\
  forallb chunk_ok (gi_chunks g) = true.
Proof.
  intros Hok Hg Hc. destruct (file_ok_parts fi Hok) as (Hgs & _).
  pose proof (forallb_nth_error _ _ _ _ Hgs Hg) as Hgo. unfold group_ok in Hgo.
  apply andb_true_iff in Hgo. destruct Hgo as [Hcs Hs].
  split; [exact (forallb_nth_error _ _ _ _ Hcs Hc)|]. split; assumption.
Qed.

Lemma group_off_pos fi i : 0 < group_off fi i.
Proof. unfold group_off. assert (H : sizeN file_magic = 4) by reflexivity. lia. Qed.

Lemma chunk_off_pos fi i g j : 0 < chunk_off fi i g j.
Proof. unfold chunk_off. pose proof (group_off_pos fi i). lia. Qed.

Definition all_pages (c : chunk_in) : list page_in := dict_pages c ++ ck_pages c.

Lemma chunk_bytes_pages c : chunk_bytes c = concat (map page_bytes (all_pages c)).
Proof. unfold chunk_bytes, dict_bytes, all_pages. now rewrite map_app, concat_app. Qed.

Lemma pages_count_le ps : (length ps <= length (concat (map page_bytes ps)))%nat.
Proof.
  induction ps as [|p ps IH]; [cbn; lia|]. cbn [map concat length]. rewrite app_length.
  assert (1 <= length (page_bytes p))%nat.
  { unfold page_bytes. rewrite app_length. pose proof (header_bytes_nonempty p). lia. }
  lia.
Qed.

Lemma chunk_ok_pages c : chunk_ok c = true ->
  forallb (page_ok true) (dict_pages c) = true /\ forallb (page_ok false) (ck_pages c) = true /\
  forallb page_ok_any (all_pages c) = true.
Proof.
  unfold chunk_ok. rewrite !andb_true_iff. intros (((((Hd & Hp) & _) & _) & _) & _).
  split; [exact Hd|]. split; [exact Hp|].
  unfold all_pages. rewrite forallb_app. apply andb_true_iff. split.
  - rewrite forallb_forall in *. intros p Hin. eapply page_ok_any_of; eauto.
  - rewrite forallb_forall in *. intros p Hin. eapply page_ok_any_of; eauto.
Qed.

Theorem layout_chunk_pages fi i j g c gt cc md :
  file_ok fi = true ->
  nth_error (fi_groups fi) i = Some g -> nth_error (gi_chunks g) j = Some c ->
  footer_chunk (footer_tree fi) i j gt cc md ->
  let start := chunk_start md in
  let total := nat_of_field 7 md in
  start = chunk_off fi i g j /\
  fsub (mk_fbytes (layout_bytes fi)) start total = Some (chunk_bytes c) /\
  walk_pages (S total) (chunk_bytes c) start = Some (written_pages start (all_pages c)).
Proof.
  intros Hok Hg Hc Hfc. cbv zeta.
  destruct (footer_chunk_unique _ _ _ _ _ _ _ _ _ Hfc (footer_chunk_layout fi i j g c Hg Hc)) as (-> & -> & ->).
  destruct (chunk_ok_at fi i j g c Hok Hg Hc) as (Hck & _).
  unfold the_meta_tree.
  rewrite (meta_chunk_start _ _ _ Hck (chunk_off_pos fi i g j)).
  rewrite nat_of_n_of_field, (meta_total_comp _ _ _ Hck), chunk_total_comp_size by exact Hck.
  replace (N.to_nat (sizeN (chunk_bytes c))) with (length (chunk_bytes c)) by (unfold sizeN; lia).
  split; [reflexivity|]. split.
  - apply at_offset_fsub. now apply chunk_at.
  - rewrite chunk_bytes_pages. apply walk_pages_written.
    + apply (chunk_ok_pages c Hck).
    + pose proof (pages_count_le (all_pages c)). lia.
Qed.

(** the sums the specification decoder recomputes (check_chunk) over the pages found *)

Lemma sumN_fold (l : list nat) : sumN l = fold_left N.add (map N.of_nat l) 0.
Proof.
  unfold sumN. generalize 0. induction l as [|x l IH]; intros a; [reflexivity|].
  cbn [fold_left map]. apply IH.
Qed.

Definition is_data_page (hp : hpage) : bool := negb (zdef (get_int 1 (h_header hp)) (-1) =? 2)%Z.

Lemma written_filter_dict off ps : forallb (page_ok true) ps = true ->
  filter is_data_page (written_pages off ps) = [].
Proof.
  revert off. induction ps as [|p ps IH]; intros off H; [reflexivity|].
  cbn [forallb] in H. apply andb_true_iff in H. destruct H as [Hp Hps].
  cbn [written_pages filter]. unfold is_data_page at 1. cbn [h_header]. rewrite header_type. cbn [zdef].
  unfold page_ok in Hp. rewrite !andb_true_iff in Hp. destruct Hp as ((((Ht & _) & _) & _) & _).
  rewrite Ht. cbn [negb]. now apply IH.
Qed.

Lemma written_filter_data off ps : forallb (page_ok false) ps = true ->
  filter is_data_page (written_pages off ps) = written_pages off ps.
Proof.
  revert off. induction ps as [|p ps IH]; intros off H; [reflexivity|].
  cbn [forallb] in H. apply andb_true_iff in H. destruct H as [Hp Hps].
  cbn [written_pages filter]. unfold is_data_page at 1. cbn [h_header]. rewrite header_type. cbn [zdef].
  unfold page_ok in Hp. rewrite !andb_true_iff in Hp. destruct Hp as ((((Ht & _) & _) & _) & _).
  assert (E : (pg_type p =? 2)%Z = false) by lia. rewrite E. cbn [negb]. f_equal. now apply IH.
Qed.

Lemma dict_pages_size c : fold_left N.add (map comp_size (dict_pages c)) 0 = sizeN (dict_bytes c).
Proof. unfold dict_bytes. now rewrite pages_bytes_size. Qed.

Lemma written_data_pages off c : chunk_ok c = true ->
  filter is_data_page (written_pages off (all_pages c)) = written_pages (data_offset off c) (ck_pages c).
Proof.
  intros Hck. destruct (chunk_ok_pages c Hck) as (Hd & Hp & _).
  unfold all_pages. rewrite written_pages_app, filter_app, written_filter_dict, written_filter_data by assumption.
  cbn [app]. unfold data_offset. now rewrite dict_pages_size.
Qed.

Lemma written_nvalues off ps :
  map (fun hp => header_nvalues (h_header hp)) (written_pages off ps) = map pg_nvalues ps.
Proof.
  revert off. induction ps as [|p ps IH]; intros off; [reflexivity|].
  cbn [written_pages map h_header]. now rewrite header_nvalues_page, IH.
Qed.

Lemma written_uncomp off ps :
  map (fun hp => N.of_nat (h_hlen hp + nat_of_field 2 (h_header hp))) (written_pages off ps) = map uncomp_size ps.
Proof.
  revert off. induction ps as [|p ps IH]; intros off; [reflexivity|].
  cbn [written_pages map h_header h_hlen]. rewrite IH. f_equal.
  rewrite nat_of_n_of_field, header_uncomp. unfold uncomp_size, header_size, sizeN. lia.
Qed.

Lemma fold_add_perm2 a b : fold_left N.add (a ++ b) 0 = fold_left N.add (b ++ a) 0.
Proof. rewrite !fold_add_app. lia. Qed.

Theorem layout_chunk_sums fi i j g c gt cc md :
  file_ok fi = true ->
  nth_error (fi_groups fi) i = Some g -> nth_error (gi_chunks g) j = Some c ->
  footer_chunk (footer_tree fi) i j gt cc md ->
  let ps := written_pages (chunk_start md) (all_pages c) in
  let dps := filter is_data_page ps in
  sumN (map (fun hp => (h_hlen hp + h_comp hp)%nat) ps) = n_of_field 7 md /\
  sumN (map (fun hp => (h_hlen hp + nat_of_field 2 (h_header hp))%nat) ps) = n_of_field 6 md /\
  fold_left N.add (map (fun hp => header_nvalues (h_header hp)) dps) 0 = n_of_field 5 md /\
  match dps with hp :: _ => h_offset hp = n_of_field 9 md | [] => True end /\
  match ps with
  | hp :: _ => if is_data_page hp then n_of_field 11 md = 0 else h_offset hp = n_of_field 11 md
  | [] => True
  end.
Proof.
  intros Hok Hg Hc Hfc. cbv zeta.
  destruct (footer_chunk_unique _ _ _ _ _ _ _ _ _ Hfc (footer_chunk_layout fi i j g c Hg Hc)) as (-> & -> & ->).
  destruct (chunk_ok_at fi i j g c Hok Hg Hc) as (Hck & _).
  unfold the_meta_tree.
  rewrite (meta_chunk_start _ _ _ Hck (chunk_off_pos fi i g j)).
  rewrite (meta_total_comp _ _ _ Hck), (meta_total_uncomp _ _ _ Hck), (meta_num_values _ _ _ Hck),
    (meta_data_offset _ _ _ Hck), (meta_dict_offset _ _ _ Hck).
  set (off := chunk_off fi i g j).
  rewrite (written_data_pages off c Hck).
  repeat split.
  - rewrite sumN_fold, map_map, written_sizes. unfold chunk_total_comp, all_pages. rewrite !map_app. apply fold_add_perm2.
  - rewrite sumN_fold, map_map, written_uncomp. unfold chunk_total_uncomp, all_pages. rewrite !map_app. apply fold_add_perm2.
  - rewrite written_nvalues. reflexivity.
  - destruct (ck_pages c); [exact I|reflexivity].
  - unfold all_pages, dict_pages, dict_offset. destruct (chunk_ok_pages c Hck) as (Hd & Hp & _).
    destruct (ck_dict c) as [d|] eqn:Ed.
    + cbn [app written_pages]. unfold is_data_page. cbn [h_header h_offset]. rewrite header_type. cbn [zdef].
      unfold dict_pages in Hd. rewrite Ed in Hd. cbn [forallb] in Hd. rewrite andb_true_r in Hd.
      unfold page_ok in Hd. rewrite !andb_true_iff in Hd. destruct Hd as ((((Ht & _) & _) & _) & _).
      rewrite Ht. reflexivity.
    + cbn [app]. destruct (ck_pages c) as [|p ps] eqn:Ep; [exact I|].
      cbn [written_pages]. unfold is_data_page. cbn [h_header]. rewrite header_type. cbn [zdef].
      cbn [forallb] in Hp. apply andb_true_iff in Hp. destruct Hp as [Hp _].
      unfold page_ok in Hp. rewrite !andb_true_iff in Hp. destruct Hp as ((((Ht & _) & _) & _) & _).
      assert (E : (pg_type p =? 2)%Z = false) by lia. rewrite E. reflexivity.
Qed.

(** * (c) The offset index: found where the ColumnChunk says, it decodes to
      one PageLocation per data page, each pointing at the header of its page *)

Lemma loc_tree_offset l : n_of_field 1 (loc_tree l) = pl_offset l.
Proof. unfold n_of_field, get_int, get, loc_tree. cbn [field PL_Offset Z.eqb Pos.eqb]. apply n_of_i64. Qed.

Lemma loc_tree_size l : n_of_field 2 (loc_tree l) = pl_size l.
Proof. unfold n_of_field, get_int, get, loc_tree. cbn [field PL_Offset PL_CompressedPageSize Z.eqb Pos.eqb]. apply n_of_i64. Qed.

Lemma loc_tree_first_row l : n_of_field 3 (loc_tree l) = pl_first_row l.
Proof.
  unfold n_of_field, get_int, get, loc_tree.
  cbn [field PL_Offset PL_CompressedPageSize PL_FirstRowIndex Z.eqb Pos.eqb]. apply n_of_i64.
Qed.

(* first_row_index of the pages: rows of the pages before *)
Fixpoint row_starts (nr : N) (ps : list page_in) : list N :=
  match ps with
  | [] => []
  | p :: r => nr :: row_starts (nr + pg_nrows p) r
  end.

(* a PageLocation describes a page found by walking the chunk *)
Definition loc_points_at (loc : tval) (hp : hpage) : Prop :=
  n_of_field 1 loc = h_offset hp /\ nat_of_field 2 loc = (h_hlen hp + h_comp hp)%nat.

Lemma locs_point_at dpo : forall ps tc nr,
  Forall2 loc_points_at (map loc_tree (rebase dpo (record_pages tc nr ps))) (written_pages (dpo + tc) ps) /\
  map (n_of_field 3) (map loc_tree (rebase dpo (record_pages tc nr ps))) = row_starts nr ps.
Proof.
  induction ps as [|p ps IH]; intros tc nr; [split; [constructor|reflexivity]|].
  cbn [record_pages]. cbv zeta. cbn [rebase map written_pages row_starts].
  destruct (IH (tc + comp_size p) (nr + pg_nrows p)) as [IH1 IH2]. split.
  - constructor.
    + split.
      * rewrite loc_tree_offset. cbn [pl_offset h_offset]. lia.
      * rewrite nat_of_n_of_field, loc_tree_size. cbn [pl_size h_hlen h_comp]. rewrite comp_size_nat. lia.
    + replace (dpo + tc + comp_size p) with (dpo + (tc + comp_size p)) by lia. exact IH1.
  - rewrite loc_tree_first_row. cbn [pl_first_row]. f_equal. exact IH2.
Qed.

Lemma oindex_locations off c :
  get_list 1 (oindex_tree off c) = Some (map loc_tree (chunk_locs off c)).
Proof. reflexivity. Qed.

Lemma oindex_ok_at fi i j g c : file_ok fi = true ->
  nth_error (fi_groups fi) i = Some g -> nth_error (gi_chunks g) j = Some c ->
  wfb (oindex_tree (chunk_off fi i g j) c) = true /\ (need (oindex_tree (chunk_off fi i g j) c) <=? 64)%nat = true.
Proof.
  intros Hok Hg Hc. destruct (file_ok_parts fi Hok) as (_ & _ & _ & Hoi & _).
  pose proof (forallb_nth_error _ _ _ _ Hoi (laid_groups_nth fi i g Hg)) as H1. cbn [snd] in H1.
  assert (Hn : nth_error (map snd (the_cols fi i g)) j = Some (oindex_tree (chunk_off fi i g j) c)).
  { erewrite map_nth_error by (apply the_cols_nth; exact Hc). reflexivity. }
  pose proof (forallb_nth_error _ _ _ _ H1 Hn) as H2. now apply andb_true_iff in H2.
Qed.

Theorem layout_offset_index fi i j g c gt cc md :
  file_ok fi = true ->
  nth_error (fi_groups fi) i = Some g -> nth_error (gi_chunks g) j = Some c ->
  footer_chunk (footer_tree fi) i j gt cc md ->
  exists raw oi locs,
    fsub (mk_fbytes (layout_bytes fi)) (n_of_field 4 cc) (nat_of_field 5 cc) = Some raw /\
    decode_thrift raw = Some (oi, []) /\
    get_list 1 oi = Some locs /\
    Forall2 loc_points_at locs (filter is_data_page (written_pages (chunk_start md) (all_pages c))) /\
    map (n_of_field 3) locs = row_starts 0 (ck_pages c).
Proof.
  intros Hok Hg Hc Hfc.
  destruct (footer_chunk_unique _ _ _ _ _ _ _ _ _ Hfc (footer_chunk_layout fi i j g c Hg Hc)) as (-> & -> & ->).
  destruct (chunk_ok_at fi i j g c Hok Hg Hc) as (Hck & _).
  destruct (oindex_ok_at fi i j g c Hok Hg Hc) as (Hw & Hn).
  set (off := chunk_off fi i g j) in *.
  exists (encode (oindex_tree off c)), (oindex_tree off c), (map loc_tree (chunk_locs off c)).
  unfold the_chunk_tree, the_meta_tree. fold off.
  rewrite chunk_tree_oi_offset, nat_of_n_of_field, chunk_tree_oi_length.
  replace (N.to_nat (sizeN (encode (oindex_tree off c)))) with (length (encode (oindex_tree off c))) by (unfold sizeN; lia).
  split; [apply at_offset_fsub; subst off; now apply oindex_at|].
  split.
  { rewrite <- (app_nil_r (encode (oindex_tree off c))).
    apply decode_thrift_encode; [exact Hw|exact Hn|unfold oindex_tree; eauto]. }
  split; [apply oindex_locations|].
  rewrite (meta_chunk_start _ _ _ Hck (chunk_off_pos fi i g j)). fold off.
  rewrite (written_data_pages off c Hck). unfold chunk_locs.
  destruct (locs_point_at (data_offset off c) (ck_pages c) 0 0) as [H1 H2].
  rewrite N.add_0_r in H1. split; assumption.
Qed.

(** the column index and bloom filter sections are where the metadata says *)
Theorem layout_column_index fi i j g c gt cc md :
  file_ok fi = true ->
  nth_error (fi_groups fi) i = Some g -> nth_error (gi_chunks g) j = Some c ->
  footer_chunk (footer_tree fi) i j gt cc md ->
  ck_cindex c <> [] ->
  fsub (mk_fbytes (layout_bytes fi)) (n_of_field 6 cc) (nat_of_field 7 cc) = Some (ck_cindex c).
Proof.
  intros Hok Hg Hc Hfc Hne.
  destruct (footer_chunk_unique _ _ _ _ _ _ _ _ _ Hfc (footer_chunk_layout fi i j g c Hg Hc)) as (-> & -> & ->).
  unfold the_chunk_tree. rewrite chunk_tree_ci_offset, nat_of_n_of_field, chunk_tree_ci_length.
  replace (N.to_nat (sizeN (ck_cindex c))) with (length (ck_cindex c)) by (unfold sizeN; lia).
  destruct (ck_cindex c) eqn:E; [congruence|]. rewrite <- E.
  apply at_offset_fsub. now apply cindex_at.
Qed.

Section MetaBloom.
  Variables (off bl : N) (c : chunk_in).
  Hypothesis Hok : chunk_ok c = true.

  Lemma meta_bloom_field id : (13 < id < 16)%Z ->
    field id (fields_of (meta_tree off bl c)) =
    field id (match ck_bloom c with
              | [] => []
              | _ :: _ => opt_i64 CM_BloomFilterOffset bl ++ opt_i32 CM_BloomFilterLength (sizeN (ck_bloom c))
              end).
  Proof.
    intros Hid. unfold chunk_ok in Hok. rewrite !andb_true_iff in Hok.
    destruct Hok as (((((_ & _) & H1) & H2) & H3) & H4).
    unfold meta_tree, fields_of.
    rewrite field_app, (field_ids_between _ _ _ id H1) by (unfold CM_NumValues; lia).
    cbn [field]. unfold CM_NumValues, CM_TotalUncompressedSize, CM_TotalCompressedSize.
    destruct (Z.eqb_spec 5 id); [lia|]. destruct (Z.eqb_spec 6 id); [lia|]. destruct (Z.eqb_spec 7 id); [lia|].
    rewrite field_app, (field_ids_between _ _ _ id H2) by (unfold CM_DataPageOffset; lia).
    cbn [field]. unfold CM_DataPageOffset. destruct (Z.eqb_spec 9 id); [lia|].
    rewrite field_opt_i64. unfold CM_DictionaryPageOffset at 1. destruct (Z.eqb_spec 11 id); [lia|]. cbn [andb].
    rewrite field_app, (field_ids_between _ _ _ id H3) by (unfold CM_BloomFilterOffset; lia).
    rewrite field_app, (field_ids_between _ _ _ id H4) by (unfold CM_BloomFilterLength; lia).
    destruct (field id _); reflexivity.
  Qed.

  Lemma meta_bloom_offset : n_of_field 14 (meta_tree off bl c) = match ck_bloom c with [] => 0 | _ => bl end.
  Proof.
    apply (n_of_field_opt _ _ _ T_I64).
    change (field 14 (fields_of (meta_tree off bl c)) =
            (if negb (match ck_bloom c with [] => 0 | _ => bl end =? 0) then Some (TInt T_I64 (Z.of_N (match ck_bloom c with [] => 0 | _ => bl end))) else None)).
    rewrite meta_bloom_field by lia.
    destruct (ck_bloom c); [reflexivity|].
    rewrite field_opt_i64. unfold CM_BloomFilterOffset at 1. cbn [Z.eqb Pos.eqb andb].
    destruct (negb (bl =? 0)); [reflexivity|].
    rewrite <- (app_nil_r (opt_i32 _ _)), field_opt_i32. reflexivity.
  Qed.

  Lemma meta_bloom_length : n_of_field 15 (meta_tree off bl c) = sizeN (ck_bloom c).
  Proof.
    apply (n_of_field_opt _ _ _ T_I32).
    change (field 15 (fields_of (meta_tree off bl c)) =
            (if negb (sizeN (ck_bloom c) =? 0) then Some (TInt T_I32 (Z.of_N (sizeN (ck_bloom c)))) else None)).
    rewrite meta_bloom_field by lia.
    destruct (ck_bloom c) eqn:E; [reflexivity|]. rewrite <- E.
    rewrite field_opt_i64. unfold CM_BloomFilterOffset at 1. cbn [Z.eqb Pos.eqb andb].
    rewrite <- (app_nil_r (opt_i32 _ _)), field_opt_i32. unfold CM_BloomFilterLength at 1. cbn [Z.eqb Pos.eqb andb].
    destruct (negb (sizeN (ck_bloom c) =? 0)); reflexivity.
  Qed.
End MetaBloom.

Theorem layout_bloom_filter fi i j g c gt cc md :
  file_ok fi = true ->
  nth_error (fi_groups fi) i = Some g -> nth_error (gi_chunks g) j = Some c ->
  footer_chunk (footer_tree fi) i j gt cc md ->
  ck_bloom c <> [] ->
  fsub (mk_fbytes (layout_bytes fi)) (n_of_field 14 md) (nat_of_field 15 md) = Some (ck_bloom c).
Proof.
  intros Hok Hg Hc Hfc Hne.
  destruct (footer_chunk_unique _ _ _ _ _ _ _ _ _ Hfc (footer_chunk_layout fi i j g c Hg Hc)) as (-> & -> & ->).
  destruct (chunk_ok_at fi i j g c Hok Hg Hc) as (Hck & _).
  unfold the_meta_tree. rewrite (meta_bloom_offset _ _ _ Hck), nat_of_n_of_field, (meta_bloom_length _ _ _ Hck).
  replace (N.to_nat (sizeN (ck_bloom c))) with (length (ck_bloom c)) by (unfold sizeN; lia).
  destruct (ck_bloom c) eqn:E; [congruence|]. rewrite <- E.
  apply at_offset_fsub. now apply bloom_at.
Qed.

(** * (d) Row groups and the file: offsets and totals are the recomputed sums *)

Definition md_of (cc : tval) : tval := match get 3 cc with Some md => md | None => TStruct [] end.

Lemma lay_chunks_totals : forall cs off bl ci oi, forallb chunk_ok cs = true ->
  map (fun cc => n_of_field 7 (md_of cc)) (map fst (lay_chunks off bl ci oi cs)) = map chunk_total_comp cs /\
  map (fun cc => n_of_field 6 (md_of cc)) (map fst (lay_chunks off bl ci oi cs)) = map chunk_total_uncomp cs.
Proof.
  induction cs as [|c cs IH]; intros off bl ci oi H; [split; reflexivity|].
  cbn [forallb] in H. apply andb_true_iff in H. destruct H as [Hc Hcs].
  cbn [lay_chunks]. cbv zeta. cbn [map fst].
  destruct (IH (off + sizeN (chunk_bytes c)) (bl + sizeN (ck_bloom c)) (ci + sizeN (ck_cindex c))
              (oi + sizeN (encode (oindex_tree off c))) Hcs) as [IH1 IH2].
  unfold md_of at 1 3. rewrite chunk_tree_meta.
  rewrite (meta_total_comp _ _ _ Hc), (meta_total_uncomp _ _ _ Hc). split; f_equal; assumption.
Qed.

Theorem layout_row_group fi i g gt :
  file_ok fi = true -> nth_error (fi_groups fi) i = Some g ->
  (exists gts, get_list 4 (footer_tree fi) = Some gts /\ nth_error gts i = Some gt) ->
  exists ccs, get_list 1 gt = Some ccs /\ length ccs = length (gi_chunks g) /\
    n_of_field 5 gt = group_off fi i /\
    at_offset (layout_bytes fi) (n_of_field 5 gt) (group_bytes g) /\
    (forall cc, nth_error ccs 0 = Some cc -> chunk_start (md_of cc) = n_of_field 5 gt) /\
    fold_left N.add (map (fun cc => n_of_field 7 (md_of cc)) ccs) 0 = n_of_field 6 gt /\
    fold_left N.add (map (fun cc => n_of_field 6 (md_of cc)) ccs) 0 = n_of_field 2 gt.
Proof.
  intros Hok Hg (gts & Hgts & Hgt).
  rewrite footer_row_groups in Hgts. inversion Hgts. subst gts. clear Hgts.
  erewrite map_nth_error in Hgt by (apply laid_groups_nth; exact Hg). cbn [fst] in Hgt.
  inversion Hgt. subst gt. clear Hgt.
  destruct (file_ok_parts fi Hok) as (Hgs & _).
  pose proof (forallb_nth_error _ _ _ _ Hgs Hg) as Hgo. unfold group_ok in Hgo.
  apply andb_true_iff in Hgo. destruct Hgo as [Hcs Hs].
  exists (map fst (the_cols fi i g)).
  rewrite group_tree_columns, (group_tree_file_offset _ _ _ _ Hs), (group_tree_total_compressed_size _ _ _ _ Hs),
    group_tree_total_byte_size.
  split; [reflexivity|].
  split; [unfold the_cols, group_cols; now rewrite map_length, lay_chunks_length|].
  split; [reflexivity|].
  split; [now apply group_at|].
  split.
  - intros cc Hcc. destruct (gi_chunks g) as [|c0 cs] eqn:Ecs.
    + unfold the_cols, group_cols in Hcc. rewrite Ecs in Hcc. cbn in Hcc. discriminate.
    + assert (Hc0 : nth_error (gi_chunks g) 0 = Some c0) by (rewrite Ecs; reflexivity).
      erewrite map_nth_error in Hcc by (apply the_cols_nth; exact Hc0). cbn [fst] in Hcc.
      inversion Hcc. subst cc. unfold md_of. rewrite chunk_tree_meta.
      rewrite meta_chunk_start; [|cbn [forallb] in Hcs; now apply andb_true_iff in Hcs|apply chunk_off_pos].
      unfold chunk_off. cbn [firstn]. unfold pages_bytes. cbn [map concat]. rewrite sizeN_nil. lia.
  - unfold the_cols, group_cols.
    destruct (lay_chunks_totals (gi_chunks g) (group_off fi i) (group_off fi i + sizeN (pages_bytes (gi_chunks g)))
                (group_ci fi i) (group_oi fi i) Hcs) as [H1 H2].
    rewrite H1, H2. split; reflexivity.
Qed.

Lemma lay_groups_rows : forall gs off ci oi ord,
  map (fun gt => n_of_field 3 gt) (map fst (lay_groups off ci oi ord gs)) = map group_num_rows gs.
Proof.
  induction gs as [|g gs IH]; intros; [reflexivity|].
  cbn [lay_groups]. cbv zeta. cbn [map fst]. rewrite group_tree_num_rows, IH. reflexivity.
Qed.

Theorem layout_file_rows fi :
  exists gts, get_list 4 (footer_tree fi) = Some gts /\ length gts = length (fi_groups fi) /\
    fold_left N.add (map (fun gt => n_of_field 3 gt) gts) 0 = n_of_field 3 (footer_tree fi).
Proof.
  exists (map fst (laid_groups fi)). split; [apply footer_row_groups|].
  split; [unfold laid_groups; cbv zeta; now rewrite map_length, lay_groups_length|].
  rewrite footer_num_rows. unfold laid_groups. cbv zeta. now rewrite lay_groups_rows.
Qed.

(* The lemmas from here on are about the decoder [verify ext] for an arbitrary external
   decompressor [ext] (SpecDecoder.decompress): nothing below depends on what [ext] answers. *)
Section WithExt.
Variable ext : ext_fn.

(** * The specification decoder's own page loop finds the pages [walk_pages] finds *)

Definition page_matches (p : page) (hp : hpage) : Prop :=
  p_offset p = h_offset hp /\ p_hlen p = h_hlen hp /\ p_comp p = h_comp hp /\
  p_uncomp p = nat_of_field 2 (h_header hp) /\
  p_type p = zdef (get_int 1 (h_header hp)) (-1) /\
  N.of_nat (p_nvalues p) = header_nvalues (h_header hp).

Lemma decode_page_skel rest lf codec dict off p :
  decode_page ext rest lf codec dict off = Some p ->
  exists h hlen after b,
    decode_header rest = Some (h, hlen, after) /\ sub after 0 (nat_of_field 3 h) = Some b /\
    page_matches p {| h_offset := off; h_hlen := hlen; h_comp := nat_of_field 3 h; h_header := h |}.
Proof.
  unfold decode_page. intros H.
  destruct (decode_header rest) as [[[h hlen] after]|]; [|discriminate].
  destruct (sub after 0 (nat_of_field 3 h)) as [body|] eqn:Esub; [|discriminate].
  exists h, hlen, after, body. split; [reflexivity|]. split; [exact Esub|].
  unfold page_matches, header_nvalues. cbn [h_offset h_hlen h_comp h_header].
  destruct (zdef (get_int 1 h) (-1) =? 2)%Z eqn:E2.
  - destruct (get 7 h) as [dh|]; [|discriminate].
    destruct (decompress ext codec body); [|discriminate].
    destruct (decode_values _ _ _ _ _ _); [|discriminate].
    inversion H. subst p. cbn [p_offset p_hlen p_comp p_uncomp p_type p_nvalues]. repeat split; try reflexivity. rewrite nat_of_n_of_field. lia.
  - destruct (zdef (get_int 1 h) (-1) =? 0)%Z eqn:E0.
    + assert (E3 : (zdef (get_int 1 h) (-1) =? 3)%Z = false) by lia. rewrite E3.
      destruct (get 5 h) as [dh|]; [|discriminate].
      destruct (decompress ext codec body); [|discriminate].
      destruct (levels_v1 _ _ _) as [[rep d1]|]; [|discriminate].
      destruct (levels_v1 _ _ _) as [[def d2]|]; [|discriminate].
      destruct (decode_values _ _ _ _ _ _); [|discriminate].
      inversion H. subst p. cbn [p_offset p_hlen p_comp p_uncomp p_type p_nvalues]. repeat split; try reflexivity. rewrite nat_of_n_of_field. lia.
    + destruct (zdef (get_int 1 h) (-1) =? 3)%Z eqn:E3; [|discriminate].
      destruct (get 8 h) as [dh|]; [|discriminate].
      destruct (levels_v2 _ _ _ _) as [[rep b1]|]; [|discriminate].
      destruct (levels_v2 _ _ _ _) as [[def b2]|]; [|discriminate].
      destruct (if match get_bool 7 dh with Some b => b | None => true end then decompress ext codec b2 else Some b2); [|discriminate].
      destruct (decode_values _ _ _ _ _ _); [|discriminate].
      inversion H. subst p. cbn [p_offset p_hlen p_comp p_uncomp p_type p_nvalues]. repeat split; try reflexivity. rewrite nat_of_n_of_field. lia.
Qed.

Lemma decode_pages_cons f b0 r0 lf codec dict off :
  decode_pages ext (S f) (b0 :: r0) lf codec dict off =
  match decode_page ext (b0 :: r0) lf codec dict off with
  | None => None
  | Some p =>
      match decode_pages ext f (skipn (p_hlen p + p_comp p) (b0 :: r0)) lf codec
              (if (p_type p =? 2)%Z then p_values p else dict) (off + N.of_nat (p_hlen p + p_comp p)) with
      | Some ps => Some (p :: ps)
      | None => None
      end
  end.
Proof. reflexivity. Qed.

Lemma walk_pages_cons f b0 r0 off :
  walk_pages (S f) (b0 :: r0) off =
  match decode_header (b0 :: r0) with
  | None => None
  | Some (h, hlen, after) =>
      match sub after 0 (nat_of_field 3 h) with
      | None => None
      | Some _ =>
          match walk_pages f (skipn (hlen + nat_of_field 3 h) (b0 :: r0)) (off + N.of_nat (hlen + nat_of_field 3 h)) with
          | Some ps => Some ({| h_offset := off; h_hlen := hlen; h_comp := nat_of_field 3 h; h_header := h |} :: ps)
          | None => None
          end
      end
  end.
Proof. reflexivity. Qed.

Lemma decode_pages_walk : forall fuel rest lf codec dict off ps,
  decode_pages ext fuel rest lf codec dict off = Some ps ->
  exists hs, walk_pages fuel rest off = Some hs /\ Forall2 page_matches ps hs.
Proof.
  induction fuel as [|f IH]; intros rest lf codec dict off ps H; [discriminate|].
  destruct rest as [|b0 r0].
  - inversion H. exists []. split; [reflexivity|constructor].
  - rewrite decode_pages_cons in H. rewrite walk_pages_cons.
    destruct (decode_page ext (b0 :: r0) lf codec dict off) as [p|] eqn:Ep; [|discriminate].
    destruct (decode_page_skel _ _ _ _ _ _ Ep) as (h & hlen & after & body & Hh & Hs & Hm).
    rewrite Hh, Hs.
    destruct Hm as (Mo & Ml & Mc & Mu & Mt & Mn). cbn [h_offset h_hlen h_comp h_header] in *.
    rewrite Ml, Mc in H.
    destruct (decode_pages ext f _ lf codec _ _) as [ps'|] eqn:Eps; [|discriminate].
    inversion H. subst ps.
    destruct (IH _ _ _ _ _ _ Eps) as (hs & Hw & Hf). rewrite Hw.
    eexists. split; [reflexivity|]. constructor; [|exact Hf].
    unfold page_matches. cbn [h_offset h_hlen h_comp h_header]. repeat split; assumption.
Qed.

(** * What a successful [parse] looks like *)

Lemma Forall2_nth_r {A B} (R : A -> B -> Prop) l1 l2 i y :
  Forall2 R l1 l2 -> nth_error l2 i = Some y -> exists x, nth_error l1 i = Some x /\ R x y.
Proof.
  intros H. revert i. induction H as [|a b l1 l2 Hab _ IH]; intros [|i] Hn; cbn in Hn; try discriminate.
  - inversion Hn. subst. exists a. split; [reflexivity|exact Hab].
  - apply IH. exact Hn.
Qed.

Lemma Forall2_filter {A B} (R : A -> B -> Prop) (f : A -> bool) (g : B -> bool) l1 l2 :
  Forall2 R l1 l2 -> (forall x y, R x y -> f x = g y) -> Forall2 R (filter f l1) (filter g l2).
Proof.
  intros H Hfg. induction H as [|a b l1 l2 Hab _ IH]; [constructor|].
  cbn [filter]. rewrite (Hfg a b Hab). destruct (g b); [constructor; assumption|assumption].
Qed.

Lemma Forall2_combine_forallb {A B} (R : A -> B -> Prop) (f : A * B -> bool) l1 l2 :
  Forall2 R l1 l2 -> (forall x y, R x y -> f (x, y) = true) -> forallb f (combine l1 l2) = true.
Proof.
  intros H Hf. induction H as [|a b l1 l2 Hab _ IH]; [reflexivity|].
  cbn [combine forallb]. now rewrite (Hf a b Hab), IH.
Qed.

Lemma Forall2_compose {A B C} (R : A -> B -> Prop) (S : C -> B -> Prop) (T : A -> C -> Prop) l1 l2 l3 :
  Forall2 R l1 l2 -> Forall2 S l3 l2 -> (forall a b c, R a b -> S c b -> T a c) -> Forall2 T l1 l3.
Proof.
  intros H. revert l3. induction H as [|a b l1 l2 Hab _ IH]; intros l3 H3 HT; inversion H3; subst; constructor.
  - eapply HT; eassumption.
  - apply IH; assumption.
Qed.

Definition chunk_decoded (file : fbytes) (cc : tval) (ch : chunk) : Prop :=
  exists md data,
    get 3 cc = Some md /\ c_meta ch = md /\ c_chunk ch = cc /\ c_start ch = chunk_start md /\
    fsub file (chunk_start md) (nat_of_field 7 md) = Some data /\
    decode_pages ext (S (nat_of_field 7 md)) data (c_leaf ch) (zdef (get_int 4 md) 0) [] (chunk_start md) = Some (c_pages ch).

Lemma decode_chunk_inv file lf cc ch : decode_chunk ext file lf cc = Some ch -> chunk_decoded file cc ch.
Proof.
  unfold decode_chunk. intros H.
  destruct (get 3 cc) as [md|] eqn:Eg; [|discriminate].
  destruct (fsub file (chunk_start md) (nat_of_field 7 md)) as [data|] eqn:Ef; [|discriminate].
  destruct (decode_pages ext _ _ _ _ _ _) as [ps|] eqn:Ep; [|discriminate].
  inversion H. subst ch. exists md, data. cbn [c_meta c_chunk c_start c_pages c_leaf]. repeat split; try reflexivity; assumption.
Qed.

Lemma decode_chunks_inv file : forall ls ccs chs,
  decode_chunks ext file ls ccs = Some chs -> Forall2 (chunk_decoded file) ccs chs.
Proof.
  induction ls as [|lf ls IH]; intros [|cc ccs] chs H; cbn [decode_chunks] in H; try discriminate.
  - inversion H. constructor.
  - destruct (decode_chunk ext file lf cc) as [ch|] eqn:E1; [|discriminate].
    destruct (decode_chunks ext file ls ccs) as [chs'|] eqn:E2; [|discriminate].
    inversion H. subst chs. constructor; [now apply decode_chunk_inv in E1|now apply IH].
Qed.

Definition group_decoded (file : fbytes) (gt : tval) (grp : row_group) : Prop :=
  g_meta grp = gt /\ exists ccs, get_list 1 gt = Some ccs /\ Forall2 (chunk_decoded file) ccs (g_chunks grp).

Lemma decode_groups_inv file ls : forall gts grps,
  decode_groups ext file ls gts = Some grps -> Forall2 (group_decoded file) gts grps.
Proof.
  induction gts as [|gt gts IH]; intros grps H; cbn [decode_groups] in H.
  - inversion H. constructor.
  - destruct (get_list 1 gt) as [ccs|] eqn:E0; [|discriminate].
    destruct (decode_chunks ext file ls ccs) as [chs|] eqn:E1; [|discriminate].
    destruct (decode_groups ext file ls gts) as [rest|] eqn:E2; [|discriminate].
    inversion H. subst grps. constructor; [|now apply IH].
    split; [reflexivity|]. exists ccs. split; [exact E0|]. cbn [g_chunks]. now apply decode_chunks_inv in E1.
Qed.

(** * The decoder's verdict on a laid out file: only complaints about page contents *)

Import String.StringSyntax.
Open Scope string_scope.

(* the checks of [verify] that depend on the decoded bodies (levels, values, checksums) *)
Definition body_codes : list String.string :=
  ["uncompressed_page_size"; "page_crc"; "encodings_list"; "v2_num_rows"; "v2_num_nulls"; "v2_page_starts_mid_row"; "level_range";
   "column_type"; "row_group_num_rows"; "page_location_first_row_index"; "encoding_stats"; "indexed_page_starts_mid_row";
   "sorting_column_idx"; "sorting_nulls_placement"].

Lemma in_check b code name : In code (check b name) -> b = false /\ code = name.
Proof. unfold check. destruct b; cbn; intros H; [tauto|]. destruct H as [H|[]]. auto. Qed.

Ltac split_in H :=
  repeat match type of H with
         | In _ (_ ++ _) => apply in_app_or in H; destruct H as [H|H]
         end.

Lemma check_chunk_body ch code :
  (sum (map p_nvalues (data_pages ch)) =? nat_of_field 5 (c_meta ch))%nat = true ->
  (sumN (map (fun p => p_hlen p + p_comp p)%nat (c_pages ch)) =? n_of_field 7 (c_meta ch))%N = true ->
  (sumN (map (fun p => p_hlen p + p_uncomp p)%nat (c_pages ch)) =? n_of_field 6 (c_meta ch))%N = true ->
  (match data_pages ch with p :: _ => (p_offset p =? n_of_field 9 (c_meta ch))%N | [] => true end) = true ->
  (match c_pages ch with
   | p :: _ => if (p_type p =? 2)%Z then (p_offset p =? n_of_field 11 (c_meta ch))%N
               else ((n_of_field 11 (c_meta ch) =? 0) || (n_of_field 9 (c_meta ch) <=? n_of_field 11 (c_meta ch)))%N
   | [] => true end) = true ->
  In code (check_chunk ch) -> In code body_codes.
Proof.
  intros H1 H2 H3 H4 H5 H. unfold check_chunk in H. cbv zeta in H.
  rewrite H1, H2, H3, H4, H5 in H. cbn [check app] in H.
  split_in H; apply in_check in H; destruct H as [_ ->]; cbn [In body_codes]; auto 14.
Qed.

Lemma Forall2_map_eq {A B C} (R : A -> B -> Prop) (f : A -> C) (g : B -> C) l1 l2 :
  Forall2 R l1 l2 -> (forall x y, R x y -> f x = g y) -> map f l1 = map g l2.
Proof. intros H Hfg. induction H as [|a b l1 l2 Hab _ IH]; [reflexivity|]. cbn [map]. now rewrite (Hfg a b Hab), IH. Qed.

Lemma sum_nat_N (l : list nat) : N.of_nat (sum l) = fold_left N.add (map N.of_nat l) 0%N.
Proof.
  unfold sum. change 0%N with (N.of_nat 0). generalize 0%nat. induction l as [|x l IH]; intros a; [reflexivity|].
  cbn [fold_left map]. rewrite IH. f_equal. lia.
Qed.

Lemma data_pages_matches ps hs :
  Forall2 page_matches ps hs ->
  Forall2 page_matches (filter (fun p => negb (p_type p =? 2)%Z) ps) (filter is_data_page hs).
Proof.
  intros H. apply Forall2_filter; [exact H|].
  intros p hp (_ & _ & _ & _ & Ht & _). unfold is_data_page. now rewrite Ht.
Qed.

Lemma chunk_checks_pass ch hs md :
  c_meta ch = md -> Forall2 page_matches (c_pages ch) hs ->
  sumN (map (fun hp => (h_hlen hp + h_comp hp)%nat) hs) = n_of_field 7 md ->
  sumN (map (fun hp => (h_hlen hp + nat_of_field 2 (h_header hp))%nat) hs) = n_of_field 6 md ->
  fold_left N.add (map (fun hp => header_nvalues (h_header hp)) (filter is_data_page hs)) 0%N = n_of_field 5 md ->
  match filter is_data_page hs with hp :: _ => h_offset hp = n_of_field 9 md | [] => True end ->
  match hs with
  | hp :: _ => if is_data_page hp then n_of_field 11 md = 0%N else h_offset hp = n_of_field 11 md
  | [] => True
  end ->
  forall code, In code (check_chunk ch) -> In code body_codes.
Proof.
  intros Hmd Hps S7 S6 S5 O9 O11 code. subst md.
  pose proof (data_pages_matches _ _ Hps) as Hd. fold (data_pages ch) in Hd.
  apply check_chunk_body.
  - apply Nat.eqb_eq. rewrite nat_of_n_of_field, <- S5.
    rewrite <- (Forall2_map_eq _ (fun p => N.of_nat (p_nvalues p)) _ _ _ Hd) by (intros p hp (_ & _ & _ & _ & _ & Hn); exact Hn).
    rewrite <- (map_map p_nvalues N.of_nat), <- sum_nat_N. lia.
  - apply N.eqb_eq. rewrite <- S7. f_equal. apply (Forall2_map_eq _ _ _ _ _ Hps).
    intros p hp (_ & Hl & Hc & _). now rewrite Hl, Hc.
  - apply N.eqb_eq. rewrite <- S6. f_equal. apply (Forall2_map_eq _ _ _ _ _ Hps).
    intros p hp (_ & Hl & _ & Hu & _). now rewrite Hl, Hu.
  - destruct Hd as [|p hp dps hps (Ho & _) _]; [reflexivity|]. apply N.eqb_eq. now rewrite Ho, O9.
  - destruct Hps as [|p hp ps hps (Ho & _ & _ & _ & Ht & _) _]; [reflexivity|].
    unfold is_data_page in O11. rewrite <- Ht in O11.
    destruct (p_type p =? 2)%Z; cbn [negb] in O11.
    + apply N.eqb_eq. now rewrite Ho.
    + rewrite O11. reflexivity.
Qed.

Lemma Forall2_len {A B} (R : A -> B -> Prop) l1 l2 : Forall2 R l1 l2 -> length l1 = length l2.
Proof. induction 1; cbn [length]; congruence. Qed.

Lemma oindex_checks_pass ch oi locs hsd :
  get_list 1 oi = Some locs -> Forall2 loc_points_at locs hsd -> Forall2 page_matches (data_pages ch) hsd ->
  forall code, In code (check_offset_index ch oi) -> In code body_codes.
Proof.
  intros Hget Hl Hp code H. unfold check_offset_index in H. rewrite Hget in H. cbv zeta in H.
  assert (HT : Forall2 (fun loc p => n_of_field 1 loc = p_offset p /\ nat_of_field 2 loc = (p_hlen p + p_comp p)%nat)
                 locs (data_pages ch)).
  { apply (Forall2_compose _ _ _ _ _ _ Hl Hp). intros loc hp p (L1 & L2) (P1 & P2 & P3 & _). split; [congruence|lia]. }
  assert (E1 : (length locs =? length (data_pages ch))%nat = true) by (apply Nat.eqb_eq; eapply Forall2_len; eauto).
  assert (E2 : forallb (fun pl : tval * page => (n_of_field 1 (fst pl) =? p_offset (snd pl))%N) (combine locs (data_pages ch)) = true).
  { apply (Forall2_combine_forallb _ _ _ _ HT). intros loc p (T1 & _). cbn [fst snd]. now apply N.eqb_eq. }
  assert (E3 : forallb (fun pl : tval * page => (nat_of_field 2 (fst pl) =? p_hlen (snd pl) + p_comp (snd pl))%nat) (combine locs (data_pages ch)) = true).
  { apply (Forall2_combine_forallb _ _ _ _ HT). intros loc p (_ & T2). cbn [fst snd]. now apply Nat.eqb_eq. }
  rewrite E1, E2, E3 in H. cbn [check app] in H.
  split_in H; apply in_check in H; destruct H as [_ ->]; cbn [In body_codes]; auto 14.
Qed.

(* the complaints [check_indexes] raises for one chunk *)
Definition index_codes (file : fbytes) (ch : chunk) : list String.string :=
  match offset_index_of file ch with
  | Some oi => check_offset_index ch oi
  | None => if (nat_of_field 5 (c_chunk ch) =? 0)%nat then [] else ["offset_index_unreadable"]
  end.

Lemma decoded_chunk_codes fi i j g c gt cc md ch :
  file_ok fi = true ->
  nth_error (fi_groups fi) i = Some g -> nth_error (gi_chunks g) j = Some c ->
  footer_chunk (footer_tree fi) i j gt cc md ->
  chunk_decoded (mk_fbytes (layout_bytes fi)) cc ch ->
  forall code, In code (check_chunk ch ++ index_codes (mk_fbytes (layout_bytes fi)) ch) -> In code body_codes.
Proof.
  intros Hok Hg Hc Hfc (md' & data & Hget & Hmeta & Hcc & _ & Hsub & Hdec) code Hin.
  assert (E : md' = md).
  { destruct Hfc as (gts & ccs & _ & _ & _ & _ & H3). congruence. }
  rewrite E in Hget, Hmeta, Hsub, Hdec. clear E md'.
  destruct (layout_chunk_pages fi i j g c gt cc md Hok Hg Hc Hfc) as (_ & Hsub' & Hwalk).
  rewrite Hsub' in Hsub. inversion Hsub. subst data. clear Hsub.
  destruct (decode_pages_walk _ _ _ _ _ _ _ Hdec) as (hs & Hw & Hm).
  rewrite Hwalk in Hw. inversion Hw. subst hs. clear Hw.
  destruct (layout_chunk_sums fi i j g c gt cc md Hok Hg Hc Hfc) as (S7 & S6 & S5 & O9 & O11).
  apply in_app_or in Hin. destruct Hin as [Hin|Hin].
  - eapply chunk_checks_pass; eauto.
  - unfold index_codes, offset_index_of in Hin. rewrite Hcc in Hin.
    destruct (layout_offset_index fi i j g c gt cc md Hok Hg Hc Hfc) as (raw & oi & locs & Hraw & Hoi & Hlocs & Hpts & _).
    destruct (nat_of_field 5 cc =? 0)%nat; [destruct Hin|].
    rewrite Hraw, Hoi in Hin.
    eapply oindex_checks_pass; [exact Hlocs|exact Hpts| |exact Hin].
    apply data_pages_matches. exact Hm.
Qed.

Lemma in_concat_map {A} (f : A -> list String.string) l code :
  In code (concat (map f l)) -> exists i x, nth_error l i = Some x /\ In code (f x).
Proof.
  intros H. apply in_concat in H. destruct H as (y & Hy & Hc). apply in_map_iff in Hy.
  destruct Hy as (x & <- & Hx). apply In_nth_error in Hx. destruct Hx as [i Hi]. eauto.
Qed.

Lemma nth_error_some_lt {A} (l : list A) i : (i < length l)%nat -> exists x, nth_error l i = Some x.
Proof. intros H. destruct (nth_error l i) eqn:E; [eauto|]. apply nth_error_None in E. lia. Qed.

Lemma decoded_group_codes fi i g gt grp :
  file_ok fi = true -> nth_error (fi_groups fi) i = Some g ->
  (exists gts, get_list 4 (footer_tree fi) = Some gts /\ nth_error gts i = Some gt) ->
  group_decoded (mk_fbytes (layout_bytes fi)) gt grp ->
  forall code,
    In code (check_group grp ++ concat (map (index_codes (mk_fbytes (layout_bytes fi))) (g_chunks grp))) ->
    In code body_codes.
Proof.
  intros Hok Hg Hgt (Hmeta & ccs & Hccs & Hchs) code Hin.
  destruct (layout_row_group fi i g gt Hok Hg Hgt) as (ccs' & Hccs' & Hlen & _ & _ & _ & T7 & T6).
  assert (ccs' = ccs) by congruence. subst ccs'.
  (* every decoded chunk: only body codes *)
  assert (Hchunk : forall j ch, nth_error (g_chunks grp) j = Some ch ->
            forall code, In code (check_chunk ch ++ index_codes (mk_fbytes (layout_bytes fi)) ch) -> In code body_codes).
  { intros j ch Hj. destruct (Forall2_nth_r _ _ _ _ _ Hchs Hj) as (cc & Hcc & Hdec).
    assert (Hjl : (j < length (gi_chunks g))%nat) by (rewrite <- Hlen; apply nth_error_Some; congruence).
    destruct (nth_error_some_lt _ _ Hjl) as [c Hc].
    destruct Hdec as (md & data & Hget & Hrest).
    apply (decoded_chunk_codes fi i j g c gt cc md ch Hok Hg Hc).
    - destruct Hgt as (gts & Hg4 & Hgi). exists gts, ccs. repeat split; assumption.
    - exists md, data. split; assumption. }
  assert (Hmd : forall id, map (fun ch => n_of_field id (c_meta ch)) (g_chunks grp) = map (fun cc => n_of_field id (md_of cc)) ccs).
  { intros id. symmetry. apply (Forall2_map_eq _ _ _ _ _ Hchs).
    intros cc ch (md & data & Hget & Hm & _). unfold md_of. now rewrite Hget, Hm. }
  apply in_app_or in Hin. destruct Hin as [Hin|Hin].
  - unfold check_group in Hin. cbv zeta in Hin. rewrite Hmeta in Hin.
    rewrite (Hmd 7%Z), (Hmd 6%Z), T7, T6, !N.eqb_refl in Hin. cbn [check] in Hin. rewrite !app_nil_r in Hin.
    apply in_app_or in Hin. destruct Hin as [Hin|Hin].
    + apply in_concat_map in Hin. destruct Hin as (j & ch & Hj & Hc).
      apply (Hchunk j ch Hj). apply in_or_app. now left.
    + apply in_check in Hin. destruct Hin as [_ ->]. cbn [In body_codes]. auto 12.
  - apply in_concat_map in Hin. destruct Hin as (j & ch & Hj & Hc).
    apply (Hchunk j ch Hj). apply in_or_app. now right.
Qed.

(* the sorting declarations of the row groups (opaque to the layout model: gi_sorting) can
   only raise their own two complaints, which are about the decoded contents *)
Lemma check_sorting_codes (pf : pfile) code : In code (check_sorting pf) -> In code body_codes.
Proof.
  unfold check_sorting. intros H. apply in_concat in H. destruct H as (l & Hl & Hin).
  apply in_map_iff in Hl. destruct Hl as (g & <- & _). unfold check_sorting_group in Hin.
  destruct (get_list 4 (g_meta g)) as [scs|]; [|destruct Hin].
  apply in_app_or in Hin. destruct Hin as [Hin|Hin].
  - apply in_check in Hin. destruct Hin as [_ ->]. cbn [In body_codes]. auto 16.
  - destruct scs as [|sc scs']; [destruct Hin|].
    destruct (nth_error (g_chunks g) (nat_of_field 1 sc)) as [c|]; [|destruct Hin].
    destruct (l_maxr (c_leaf c) =? 0)%nat; [|destruct Hin].
    apply in_check in Hin. destruct Hin as [_ ->]. cbn [In body_codes]. auto 16.
Qed.

Theorem layout_verify_only_body_codes fi f codes :
  file_ok fi = true -> verify ext (layout_bytes fi) = Some (f, codes) ->
  forall code, In code codes -> In code body_codes.
Proof.
  intros Hok Hv code Hin. unfold verify in Hv. cbv zeta in Hv.
  set (file := mk_fbytes (layout_bytes fi)) in *.
  destruct (parse ext file) as [pf|] eqn:Ep; [|discriminate]. inversion Hv. subst f codes. clear Hv.
  unfold parse in Ep. subst file. rewrite (layout_footer_found fi Hok) in Ep.
  destruct (get_list 2 (footer_tree fi)) as [schema|]; [|discriminate].
  destruct (leaves_of schema) as [ls|]; [|discriminate].
  rewrite footer_row_groups in Ep.
  destruct (decode_groups ext _ ls _) as [groups|] eqn:Eg; [|discriminate].
  inversion Ep. subst pf. clear Ep.
  apply decode_groups_inv in Eg.
  destruct (layout_file_rows fi) as (gts & Hgts & Hlen & Hrows).
  rewrite footer_row_groups in Hgts. inversion Hgts. subst gts. clear Hgts.
  assert (Hgroup : forall i grp, nth_error groups i = Some grp ->
            forall code, In code (check_group grp ++ concat (map (index_codes (mk_fbytes (layout_bytes fi))) (g_chunks grp))) ->
                         In code body_codes).
  { intros i grp Hi. destruct (Forall2_nth_r _ _ _ _ _ Eg Hi) as (gt & Hgt & Hdec).
    assert (Hil : (i < length (fi_groups fi))%nat) by (rewrite <- Hlen; apply nth_error_Some; congruence).
    destruct (nth_error_some_lt _ _ Hil) as [g Hg].
    apply (decoded_group_codes fi i g gt grp Hok Hg); [|exact Hdec].
    exists (map fst (laid_groups fi)). split; [apply footer_row_groups|exact Hgt]. }
  apply in_app_or in Hin. destruct Hin as [Hin|Hin].
  - unfold check_file in Hin. cbn [f_groups f_meta] in Hin.
    assert (Hm : map (fun g => n_of_field 3 (g_meta g)) groups = map (fun gt => n_of_field 3 gt) (map fst (laid_groups fi))).
    { symmetry. apply (Forall2_map_eq _ _ _ _ _ Eg). intros gt grp (Hm & _). now rewrite Hm. }
    rewrite Hm, Hrows, N.eqb_refl in Hin. cbn [check] in Hin. rewrite app_nil_r in Hin.
    apply in_concat_map in Hin. destruct Hin as (i & grp & Hi & Hc).
    apply (Hgroup i grp Hi). apply in_or_app. now left.
  - apply in_app_or in Hin. destruct Hin as [Hin|Hin]; [|exact (check_sorting_codes _ _ Hin)].
    unfold check_indexes in Hin. cbn [f_groups] in Hin.
    apply in_concat_map in Hin. destruct Hin as (i & grp & Hi & Hc).
    apply (Hgroup i grp Hi). apply in_or_app. right. exact Hc.
Qed.

(** the verdict on a laid out file is empty as soon as the decoder accepts the
    page contents (decodes every body and raises none of the content complaints) *)
Definition bodies_accepted (fi : file_in) : Prop :=
  exists f codes, verify ext (layout_bytes fi) = Some (f, codes) /\ forall c, In c codes -> ~ In c body_codes.

Theorem layout_verify_modulo_bodies fi :
  file_ok fi = true -> bodies_accepted fi -> exists f, verify ext (layout_bytes fi) = Some (f, []).
Proof.
  intros Hok (f & codes & Hv & Hb). exists f. rewrite Hv. do 2 f_equal.
  destruct codes as [|c cs]; [reflexivity|]. exfalso.
  apply (Hb c (or_introl eq_refl)). apply (layout_verify_only_body_codes fi f (c :: cs) Hok Hv). now left.
Qed.

Close Scope string_scope.

End WithExt.
