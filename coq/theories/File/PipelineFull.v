(** The pipeline theorem without the column hypothesis: the shredded columns of
    well-formed rows satisfy [cols_ok] (level bounds from Dremel/Levels.v, leaf
    values accepted by the value encoding because every leaf of every row is). *)
From Coq Require Import List NArith ZArith Bool Arith Lia.
From Coq Require Import ZifyN ZifyNat ZifyBool.
From PQ Require Import Base.Bytes Dremel.Model Dremel.Proofs Dremel.Levels File.Pipeline File.PipelineProofs.
Import ListNotations.
Open Scope N_scope.

Section Full.
  Variable V : Type.
  Variable vok : V -> Prop.
  Notation value := (value V).
  Notation entry := (entry V).
  Notation column := (column V).

  (** every leaf of a value is accepted *)
  Fixpoint leaves_ok (v : value) : Prop :=
    match v with
    | VLeaf x => vok x
    | VGroup vs => (fix go (l : list value) : Prop :=
                      match l with [] => True | v' :: l' => leaves_ok v' /\ go l' end) vs
    | VOpt None => True
    | VOpt (Some v') => leaves_ok v'
    | VList l => (fix go (l : list value) : Prop :=
                    match l with [] => True | v' :: l' => leaves_ok v' /\ go l' end) l
    end.

  Lemma leaves_ok_group vs : leaves_ok (VGroup vs) <-> Forall leaves_ok vs.
  Proof.
    induction vs as [|v vs IH]; [cbn; split; auto|].
    split.
    - intros [Hv Hvs]. constructor; [exact Hv|]. apply IH. exact Hvs.
    - intros H. inversion H as [|? ? Hv Hvs]; subst. split; [exact Hv|]. apply IH. exact Hvs.
  Qed.

  Lemma leaves_ok_list l : leaves_ok (VList l) <-> Forall leaves_ok l.
  Proof.
    induction l as [|v l IH]; [cbn; split; auto|].
    split.
    - intros [Hv Hvs]. constructor; [exact Hv|]. apply IH. exact Hvs.
    - intros H. inversion H as [|? ? Hv Hvs]; subst. split; [exact Hv|]. apply IH. exact Hvs.
  Qed.

  Definition val_ok (e : entry) : Prop :=
    match fst (fst e) with Some x => vok x | None => True end.

  Notation vals_ok := (Forall (Forall val_ok)).

  Lemma vals_ok_zipapp (a b : list column) : vals_ok a -> vals_ok b -> vals_ok (zipapp a b).
  Proof.
    intros Ha. revert b. induction Ha as [|x a Hx Ha IH]; intros b Hb; [constructor|].
    destruct b as [|y b]; [constructor|]. inversion Hb; subst. cbn [zipapp]. constructor.
    - apply Forall_app; split; assumption.
    - apply IH; assumption.
  Qed.

  Lemma vals_ok_fold (ms : list (list column)) : forall a,
    vals_ok a -> Forall (fun m => vals_ok m) ms -> vals_ok (fold_left zipapp ms a).
  Proof.
    induction ms as [|m ms IH]; intros a Ha Hm; cbn [fold_left]; [exact Ha|].
    inversion Hm; subst. apply IH; [|assumption]. now apply vals_ok_zipapp.
  Qed.

  Lemma vals_ok_nulls s r d : vals_ok (@nulls V s r d).
  Proof.
    unfold nulls. induction (nleaves s) as [|n IH]; cbn [repeat]; constructor; [|exact IH].
    constructor; [exact I|constructor].
  Qed.

  Lemma shred_vals : forall s (v : value) r d k, wf s v -> leaves_ok v -> vals_ok (shred s v r d k).
  Proof.
    apply (schema_mut
      (fun s => forall (v : value) r d k, wf s v -> leaves_ok v -> vals_ok (shred s v r d k))
      (fun fs => forall (vs : list value) r d k, wf_fields fs vs -> Forall leaves_ok vs ->
                 vals_ok (shred_fields fs vs r d k))).
    - intros [x| | |] r d k H L; cbn in H; try contradiction. cbn.
      constructor; [|constructor]. constructor; [exact L|constructor].
    - intros fs IH [|vs| |] r d k H L; cbn in H; try contradiction.
      rewrite shred_group. apply IH; [exact H|]. now apply leaves_ok_group.
    - intros [|v vs] r d k H _; cbn in H; try contradiction. cbn. constructor.
    - intros rp s IHs fs IHf vs r d k H L.
      destruct rp; destruct vs as [|fv vs']; cbn in H; try contradiction;
        inversion L as [|? ? Lv Lvs]; subst.
      + destruct H as [Hv Hvs]. rewrite shred_fields_req. apply Forall_app; split; [now apply IHs|now apply IHf].
      + destruct fv as [| |[v|]|]; try contradiction.
        * destruct H as [Hv Hvs]. rewrite shred_fields_some.
          apply Forall_app; split; [now apply IHs|now apply IHf].
        * rewrite shred_fields_none. apply Forall_app; split; [apply vals_ok_nulls|now apply IHf].
      + destruct fv as [| | |l]; try contradiction. destruct H as [Hl Hvs].
        apply leaves_ok_list in Lv.
        destruct l as [|x l].
        * rewrite shred_fields_nil. apply Forall_app; split; [apply vals_ok_nulls|now apply IHf].
        * rewrite shred_fields_cons. apply Forall_app; split; [|now apply IHf].
          inversion Hl as [|? ? Hx Hl']; subst. inversion Lv as [|? ? Lx Ll]; subst.
          apply vals_ok_fold; [now apply IHs|].
          apply Forall_forall. intros m Hm. apply in_map_iff in Hm. destruct Hm as (y & <- & Hy).
          rewrite Forall_forall in Hl', Ll. apply IHs; [now apply Hl'|now apply Ll].
  Qed.

  (** one record: levels (Dremel/Levels.v) and values together give [entry_ok] *)
  Lemma row_cols_ok s (v : value) : wf s v -> leaves_ok v ->
    Forall2 (fun lv c => Forall (PipelineProofs.entry_ok V vok (fst lv) (snd lv)) c)
            (max_levels s 0 0) (shred_row s v).
  Proof.
    intros Hw Hl. unfold shred_row.
    pose proof (shred_levels V s v 0 0 0 Hw) as HL.
    pose proof (shred_vals s v 0 0 0 Hw Hl) as HV.
    revert HV. induction HL as [|col ml cols mls Hc _ IH]; intros HV; [constructor|].
    inversion HV as [|? ? Hcv HV']; subst. constructor; [|now apply IH].
    rewrite Forall_forall in Hc, Hcv. apply Forall_forall. intros e He.
    specialize (Hc e He). specialize (Hcv e He).
    destruct e as [[x r'] d']. destruct ml as [mr md].
    unfold Levels.entry_ok in Hc. unfold PipelineProofs.entry_ok, val_ok, e_r, e_d in *.
    cbn [fst snd] in *. destruct Hc as (_ & Hd & Hr & Hx).
    split; [lia|]. split; [lia|].
    destruct x as [x|].
    - split; [|exact Hcv]. destruct (Nat.eq_dec d' md) as [E|N]; [exact E|].
      assert (Hlt : (d' < md)%nat) by lia. apply Hx in Hlt. discriminate.
    - assert (Hlt : (d' < md)%nat) by (now apply Hx). lia.
  Qed.

  Lemma cols_entry_zipapp (levels : list (nat * nat)) (a b : list column) :
    Forall2 (fun lv c => Forall (PipelineProofs.entry_ok V vok (fst lv) (snd lv)) c) levels a ->
    Forall2 (fun lv c => Forall (PipelineProofs.entry_ok V vok (fst lv) (snd lv)) c) levels b ->
    Forall2 (fun lv c => Forall (PipelineProofs.entry_ok V vok (fst lv) (snd lv)) c) levels (zipapp a b).
  Proof.
    intros Ha. revert b. induction Ha as [|lv x levels a Hx Ha IH]; intros b Hb;
      inversion Hb; subst; cbn [zipapp]; constructor.
    - apply Forall_app; split; assumption.
    - apply IH; assumption.
  Qed.

  Lemma rows_entry_ok_acc s (rows : list value) :
    Forall (wf s) rows -> Forall leaves_ok rows -> forall acc : list column,
    Forall2 (fun lv c => Forall (PipelineProofs.entry_ok V vok (fst lv) (snd lv)) c) (max_levels s 0 0) acc ->
    Forall2 (fun lv c => Forall (PipelineProofs.entry_ok V vok (fst lv) (snd lv)) c)
            (max_levels s 0 0) (fold_left zipapp (map (shred_row s) rows) acc).
  Proof.
    induction rows as [|v rows IH]; intros Hw Hl acc H0; cbn [map fold_left]; [exact H0|].
    inversion Hw; subst. inversion Hl; subst.
    apply IH; [assumption|assumption|]. apply cols_entry_zipapp; [exact H0|]. now apply row_cols_ok.
  Qed.

  Lemma rows_entry_ok s (rows : list value) :
    Forall (wf s) rows -> Forall leaves_ok rows ->
    Forall2 (fun lv c => Forall (PipelineProofs.entry_ok V vok (fst lv) (snd lv)) c)
            (max_levels s 0 0) (shred_rows s rows).
  Proof.
    intros Hw Hl. unfold shred_rows. apply rows_entry_ok_acc; [exact Hw|exact Hl|].
    rewrite <- (max_levels_length s 0 0). induction (max_levels s 0 0) as [|lv l IH]; cbn; constructor; auto.
  Qed.

  (** the hypothesis of [read_write_file], from the rows alone *)
  Theorem shred_rows_cols_ok s (rows : list value) :
    Forall (wf s) rows -> Forall leaves_ok rows ->
    Forall (fun c : column => N.of_nat (length c) < 2 ^ 61) (shred_rows s rows) ->
    cols_ok V vok (max_levels s 0 0) (shred_rows s rows).
  Proof.
    intros Hw Hl Hs. unfold cols_ok. pose proof (rows_entry_ok s rows Hw Hl) as H.
    revert Hs. induction H as [|lv c levels cols Hc _ IH]; intros Hs; [constructor|].
    inversion Hs; subst. constructor; [split; assumption|now apply IH].
  Qed.

  Variable venc : list V -> bytes.
  Variable vdec : nat -> bytes -> option (list V).
  Hypothesis v_roundtrip : forall vs, Forall vok vs -> N.of_nat (length vs) < 2 ^ 61 ->
                                      vdec (length vs) (venc vs) = Some vs.

  (** Reading inverts writing: every schema, every sequence of well-formed
      records whose leaves the value encoding accepts, every page layout. *)
  Theorem read_write_file_full s (Hs : wf_schema s) n rows layouts :
    Forall (wfn V n s) rows -> Forall leaves_ok rows ->
    Forall (fun c : column => N.of_nat (length c) < 2 ^ 61) (shred_rows s rows) ->
    read_file V vdec s (length rows) (S n) (write_file V venc s layouts rows) = Some rows.
  Proof.
    intros Hrows Hl Hsz. apply (read_write_file V venc vdec vok v_roundtrip s Hs n rows layouts Hrows).
    apply shred_rows_cols_ok; [|exact Hl|exact Hsz].
    eapply Forall_impl; [|exact Hrows]. intros v. apply wfn_wf.
  Qed.
End Full.
