(** The thrift field ids used by the specification decoder (taken from
    parquet.thrift) against the field ids the Go code uses (struct tags of
    format/parquet.go, extracted by gogen into Generated/Thrift.v on every
    run).  A changed tag in the Go source makes [agreement] compute to false
    and stops the build. *)
From Coq Require Import List ZArith String Bool.
From PQ Require Import Generated.Thrift Generated.Consts.
Import ListNotations.
Open Scope string_scope.

Definition spec_ids : list (string * list (string * Z)) := [
  ("FileMetaData", [("Version", 1); ("Schema", 2); ("NumRows", 3); ("RowGroups", 4); ("KeyValueMetadata", 5);
                    ("CreatedBy", 6); ("ColumnOrders", 7)]);
  ("SchemaElement", [("Type", 1); ("TypeLength", 2); ("RepetitionType", 3); ("Name", 4); ("NumChildren", 5);
                     ("ConvertedType", 6)]);
  ("RowGroup", [("Columns", 1); ("TotalByteSize", 2); ("NumRows", 3); ("SortingColumns", 4); ("FileOffset", 5);
                ("TotalCompressedSize", 6); ("Ordinal", 7)]);
  ("ColumnChunk", [("FilePath", 1); ("FileOffset", 2); ("MetaData", 3); ("OffsetIndexOffset", 4);
                   ("OffsetIndexLength", 5); ("ColumnIndexOffset", 6); ("ColumnIndexLength", 7)]);
  ("ColumnMetaData", [("Type", 1); ("Encoding", 2); ("PathInSchema", 3); ("Codec", 4); ("NumValues", 5);
                      ("TotalUncompressedSize", 6); ("TotalCompressedSize", 7); ("DataPageOffset", 9);
                      ("IndexPageOffset", 10); ("DictionaryPageOffset", 11); ("Statistics", 12);
                      ("EncodingStats", 13); ("BloomFilterOffset", 14); ("BloomFilterLength", 15)]);
  ("PageEncodingStats", [("PageType", 1); ("Encoding", 2); ("Count", 3)]);
  ("PageHeader", [("Type", 1); ("UncompressedPageSize", 2); ("CompressedPageSize", 3); ("CRC", 4);
                  ("DataPageHeader", 5); ("IndexPageHeader", 6); ("DictionaryPageHeader", 7); ("DataPageHeaderV2", 8)]);
  ("DataPageHeader", [("NumValues", 1); ("Encoding", 2); ("DefinitionLevelEncoding", 3);
                      ("RepetitionLevelEncoding", 4); ("Statistics", 5)]);
  ("DictionaryPageHeader", [("NumValues", 1); ("Encoding", 2); ("IsSorted", 3)]);
  ("DataPageHeaderV2", [("NumValues", 1); ("NumNulls", 2); ("NumRows", 3); ("Encoding", 4);
                        ("DefinitionLevelsByteLength", 5); ("RepetitionLevelsByteLength", 6); ("IsCompressed", 7);
                        ("Statistics", 8)]);
  ("OffsetIndex", [("PageLocations", 1)]);
  ("PageLocation", [("Offset", 1); ("CompressedPageSize", 2); ("FirstRowIndex", 3)]);
  ("ColumnIndex", [("NullPages", 1); ("MinValues", 2); ("MaxValues", 3); ("BoundaryOrder", 4); ("NullCounts", 5)])
]%Z.

Fixpoint lookup_struct (name : string) (l : list (string * list thrift_field)) : option (list thrift_field) :=
  match l with
  | [] => None
  | (n, fs) :: r => if String.eqb n name then Some fs else lookup_struct name r
  end.

Fixpoint lookup_field (name : string) (fs : list thrift_field) : option Z :=
  match fs with
  | [] => None
  | (n, id, _, _, _) :: r => if String.eqb n name then Some id else lookup_field name r
  end.

Definition struct_agrees (s : string * list (string * Z)) : bool :=
  match lookup_struct (fst s) thrift_structs with
  | None => false
  | Some fs =>
      forallb (fun f => match lookup_field (fst f) fs with
                        | Some id => Z.eqb id (snd f)
                        | None => false
                        end) (snd s)
  end.

Definition agreement : bool := forallb struct_agrees spec_ids.

Lemma thrift_ids_agree_with_go : agreement = true.
Proof. vm_compute. reflexivity. Qed.

(** enum values the decoder relies on *)
Lemma enums_agree_with_go :
  (go_format_Boolean, go_format_Int32, go_format_Int64, go_format_Int96, go_format_Float, go_format_Double,
   go_format_ByteArray, go_format_FixedLenByteArray) = (0, 1, 2, 3, 4, 5, 6, 7)%Z /\
  (go_format_Plain, go_format_PlainDictionary, go_format_RLE, go_format_DeltaBinaryPacked,
   go_format_DeltaLengthByteArray, go_format_DeltaByteArray, go_format_RLEDictionary, go_format_ByteStreamSplit)
  = (0, 2, 3, 5, 6, 7, 8, 9)%Z /\
  (go_format_DataPage, go_format_DictionaryPage, go_format_DataPageV2) = (0, 2, 3)%Z /\
  (go_format_Uncompressed, go_format_Snappy) = (0, 1)%Z /\
  (go_format_Required, go_format_Optional, go_format_Repeated) = (0, 1, 2)%Z.
Proof. repeat split. Qed.
