(** The offset accounting of the file writer (/repo/writer.go) as an abstract,
    executable writer.  No proofs here.

    Input: the row groups of a file, each a list of column chunks, each an
    optional dictionary page and a list of data pages.  A page is given by the
    fields of its header and its already encoded (and compressed) body, which
    is opaque here.  Everything else the footer carries without it being an
    offset, a size or a count derived from the pages (schema, encodings,
    statistics, key/value metadata, sorting columns, ...) is passed through as
    opaque thrift subtrees.

    Output: the bytes of the file

      "PAR1"  row groups  column indexes  offset indexes  footer  len32  "PAR1"

    and the FileMetaData tree of the footer, every offset / size / count of
    which is computed the way the Go writer computes it:

    - writer.go writeFileHeader: the magic at offset 0;
    - ColumnWriter.writeDataPage / writeDictionaryPage: a page is its thrift
      header (compact protocol, [Thrift.Compact.encode] of the header tree)
      followed by its body; [compressed_page_size] is the length of the body;
    - ColumnWriter.recordPageStats: per page, [headerSize + size] is added to
      TotalCompressedSize / TotalUncompressedSize; per data page a
      PageLocation (Offset = TotalCompressedSize so far, CompressedPageSize,
      FirstRowIndex = rows so far) is appended, NumValues and the row count
      are accumulated.  The data pages are recorded while they are buffered,
      the dictionary page when the row group is written, hence the relative
      offsets count data pages only;
    - writer.writeRowGroup: FileOffset = w.writer.offset; per column
      DictionaryPageOffset = offset (when there is a dictionary), the
      dictionary page, DataPageOffset = offset, every PageLocation.Offset +=
      DataPageOffset, the buffered data pages; then the bloom filters of the
      columns, BloomFilterOffset = offset, BloomFilterLength; TotalByteSize /
      TotalCompressedSize = sums over the columns; NumRows = rows of the first
      column; Ordinal = index of the row group;
    - writer.writeFileFooter: all column indexes (ColumnIndexOffset = offset,
      ColumnIndexLength), then all offset indexes (OffsetIndexOffset,
      OffsetIndexLength), FileMetaData (NumRows = sum over the row groups),
      the 4-byte little endian length of the footer, the magic.

    [w.writer.offset] is threaded as an argument: each section starts where the
    previous one ends, each item of a section where the previous item ends.
    Optional thrift fields whose value is zero are not written
    (encoding/thrift/encode.go structEncoder.encode).  Not modelled: encryption,
    deferred bloom filters (WriterConfig.DeferredBloomFiltersBuffers). *)
From Coq Require Import List NArith ZArith Bool Arith.
From Coq Require String.
From PQ Require Import Base.Bytes Base.Varint Thrift.Compact.
Import ListNotations.
Open Scope N_scope.

(** * Field ids (format/parquet.go struct tags; checked against
      Generated/Thrift.v in LayoutProofs.layout_ids_agree_with_go) *)

Definition PH_Type : Z := 1.
Definition PH_UncompressedPageSize : Z := 2.
Definition PH_CompressedPageSize : Z := 3.
Definition PH_CRC : Z := 4.
Definition PH_DataPageHeader : Z := 5.
Definition PH_DictionaryPageHeader : Z := 7.
Definition PH_DataPageHeaderV2 : Z := 8.
Definition DPH_NumValues : Z := 1.
Definition DPH_Encoding : Z := 2.
Definition DICT_NumValues : Z := 1.
Definition DICT_Encoding : Z := 2.
Definition V2_NumValues : Z := 1.
Definition V2_NumNulls : Z := 2.
Definition V2_NumRows : Z := 3.
Definition V2_Encoding : Z := 4.
Definition PL_Offset : Z := 1.
Definition PL_CompressedPageSize : Z := 2.
Definition PL_FirstRowIndex : Z := 3.
Definition OI_PageLocations : Z := 1.
Definition CM_NumValues : Z := 5.
Definition CM_TotalUncompressedSize : Z := 6.
Definition CM_TotalCompressedSize : Z := 7.
Definition CM_DataPageOffset : Z := 9.
Definition CM_DictionaryPageOffset : Z := 11.
Definition CM_BloomFilterOffset : Z := 14.
Definition CM_BloomFilterLength : Z := 15.
Definition CC_FileOffset : Z := 2.
Definition CC_MetaData : Z := 3.
Definition CC_OffsetIndexOffset : Z := 4.
Definition CC_OffsetIndexLength : Z := 5.
Definition CC_ColumnIndexOffset : Z := 6.
Definition CC_ColumnIndexLength : Z := 7.
Definition RG_Columns : Z := 1.
Definition RG_TotalByteSize : Z := 2.
Definition RG_NumRows : Z := 3.
Definition RG_FileOffset : Z := 5.
Definition RG_TotalCompressedSize : Z := 6.
Definition RG_Ordinal : Z := 7.
Definition FMD_Version : Z := 1.
Definition FMD_Schema : Z := 2.
Definition FMD_NumRows : Z := 3.
Definition FMD_RowGroups : Z := 4.

Import String.StringSyntax.
Open Scope string_scope.
Definition layout_ids : list (String.string * list (String.string * Z)) := [
  ("PageHeader", [("Type", PH_Type); ("UncompressedPageSize", PH_UncompressedPageSize);
                  ("CompressedPageSize", PH_CompressedPageSize); ("CRC", PH_CRC);
                  ("DataPageHeader", PH_DataPageHeader); ("DictionaryPageHeader", PH_DictionaryPageHeader);
                  ("DataPageHeaderV2", PH_DataPageHeaderV2)]);
  ("DataPageHeader", [("NumValues", DPH_NumValues); ("Encoding", DPH_Encoding)]);
  ("DictionaryPageHeader", [("NumValues", DICT_NumValues); ("Encoding", DICT_Encoding)]);
  ("DataPageHeaderV2", [("NumValues", V2_NumValues); ("NumNulls", V2_NumNulls); ("NumRows", V2_NumRows);
                        ("Encoding", V2_Encoding)]);
  ("PageLocation", [("Offset", PL_Offset); ("CompressedPageSize", PL_CompressedPageSize);
                    ("FirstRowIndex", PL_FirstRowIndex)]);
  ("OffsetIndex", [("PageLocations", OI_PageLocations)]);
  ("ColumnMetaData", [("NumValues", CM_NumValues); ("TotalUncompressedSize", CM_TotalUncompressedSize);
                      ("TotalCompressedSize", CM_TotalCompressedSize); ("DataPageOffset", CM_DataPageOffset);
                      ("DictionaryPageOffset", CM_DictionaryPageOffset);
                      ("BloomFilterOffset", CM_BloomFilterOffset); ("BloomFilterLength", CM_BloomFilterLength)]);
  ("ColumnChunk", [("FileOffset", CC_FileOffset); ("MetaData", CC_MetaData);
                   ("OffsetIndexOffset", CC_OffsetIndexOffset); ("OffsetIndexLength", CC_OffsetIndexLength);
                   ("ColumnIndexOffset", CC_ColumnIndexOffset); ("ColumnIndexLength", CC_ColumnIndexLength)]);
  ("RowGroup", [("Columns", RG_Columns); ("TotalByteSize", RG_TotalByteSize); ("NumRows", RG_NumRows);
                ("FileOffset", RG_FileOffset); ("TotalCompressedSize", RG_TotalCompressedSize);
                ("Ordinal", RG_Ordinal)]);
  ("FileMetaData", [("Version", FMD_Version); ("Schema", FMD_Schema); ("NumRows", FMD_NumRows);
                    ("RowGroups", FMD_RowGroups)])
]%Z.
Close Scope string_scope.

(** * Input *)

Record page_in := {
  pg_type : Z;                     (* PageType: 0 DATA_PAGE, 2 DICTIONARY_PAGE, 3 DATA_PAGE_V2 *)
  pg_uncomp : N;                   (* uncompressed_page_size *)
  pg_crc : Z;                      (* crc as int32; optional: not written when 0 *)
  pg_nvalues : N;                  (* num_values of the page *)
  pg_nnulls : N;                   (* v2 header only *)
  pg_nrows : N;                    (* page.NumRows(): v2 header, first_row_index of the following pages *)
  pg_encoding : Z;                 (* Encoding of the values *)
  pg_tail : list (Z * tval);       (* the remaining fields of the inner header (level encodings or byte
                                      lengths, is_compressed, statistics): opaque *)
  pg_body : bytes;                 (* levels and values, encoded and compressed *)
}.

Record chunk_in := {
  ck_dict : option page_in;
  ck_pages : list page_in;
  ck_head : list (Z * tval);       (* ColumnMetaData fields 1..4: type, encodings, path_in_schema, codec *)
  ck_kv : list (Z * tval);         (* field 8 (key_value_metadata) when present *)
  ck_stats : list (Z * tval);      (* fields 12, 13: statistics, encoding_stats *)
  ck_tail : list (Z * tval);       (* fields above 15: size_statistics, geospatial_statistics *)
  ck_bloom : bytes;                (* bloom filter header and bitset; empty: no filter *)
  ck_cindex : bytes;               (* thrift encoded ColumnIndex; empty: none is written *)
}.

Record group_in := {
  gi_chunks : list chunk_in;
  gi_sorting : list (Z * tval);    (* RowGroup field 4 (sorting_columns) when present *)
}.

Record file_in := {
  fi_groups : list group_in;
  fi_schema : tval;                (* FileMetaData field 2 *)
  fi_tail : list (Z * tval);       (* fields above 4: key_value_metadata, created_by, column_orders *)
}.

(** * Thrift values *)

Definition i16 (n : N) : tval := TInt T_I16 (Z.of_N n).
Definition i32 (n : N) : tval := TInt T_I32 (Z.of_N n).
Definition i64 (n : N) : tval := TInt T_I64 (Z.of_N n).

(* optional integer fields: skipped when zero (encode.go: !Required && !WriteZero && IsZero) *)
Definition opt_i32 (id : Z) (n : N) : list (Z * tval) := if n =? 0 then [] else [(id, i32 n)].
Definition opt_i64 (id : Z) (n : N) : list (Z * tval) := if n =? 0 then [] else [(id, i64 n)].
Definition opt_z32 (id : Z) (z : Z) : list (Z * tval) := if (z =? 0)%Z then [] else [(id, TInt T_I32 z)].

Definition sizeN (b : bytes) : N := N.of_nat (length b).

(** * Pages (writeDataPage, writeDictionaryPage) *)

Definition inner_header (p : page_in) : Z * tval :=
  if (pg_type p =? 2)%Z then
    (PH_DictionaryPageHeader,
     TStruct ((DICT_NumValues, i32 (pg_nvalues p)) :: (DICT_Encoding, TInt T_I32 (pg_encoding p)) :: pg_tail p))
  else if (pg_type p =? 3)%Z then
    (PH_DataPageHeaderV2,
     TStruct ((V2_NumValues, i32 (pg_nvalues p)) :: (V2_NumNulls, i32 (pg_nnulls p)) :: (V2_NumRows, i32 (pg_nrows p))
              :: (V2_Encoding, TInt T_I32 (pg_encoding p)) :: pg_tail p))
  else
    (PH_DataPageHeader,
     TStruct ((DPH_NumValues, i32 (pg_nvalues p)) :: (DPH_Encoding, TInt T_I32 (pg_encoding p)) :: pg_tail p)).

Definition header_tree (p : page_in) : tval :=
  TStruct ((PH_Type, TInt T_I32 (pg_type p))
           :: (PH_UncompressedPageSize, i32 (pg_uncomp p))
           :: (PH_CompressedPageSize, i32 (sizeN (pg_body p)))
           :: opt_z32 PH_CRC (pg_crc p) ++ [inner_header p]).

Definition page_header_bytes (p : page_in) : bytes := encode (header_tree p).
Definition page_bytes (p : page_in) : bytes := page_header_bytes p ++ pg_body p.

(* recordPageStats: headerSize + header.CompressedPageSize, headerSize + header.UncompressedPageSize *)
Definition header_size (p : page_in) : N := sizeN (page_header_bytes p).
Definition comp_size (p : page_in) : N := header_size p + sizeN (pg_body p).
Definition uncomp_size (p : page_in) : N := header_size p + pg_uncomp p.

(** * Column chunks (recordPageStats) *)

Record ploc := { pl_offset : N; pl_size : N; pl_first_row : N }.

(* [tc] = columnChunk.MetaData.TotalCompressedSize, [nr] = c.numRows when the page is recorded *)
Fixpoint record_pages (tc nr : N) (ps : list page_in) : list ploc :=
  match ps with
  | [] => []
  | p :: r =>
      let s := comp_size p in
      {| pl_offset := tc; pl_size := s; pl_first_row := nr |} :: record_pages (tc + s) (nr + pg_nrows p) r
  end.

(* writeRowGroup: c.offsetIndex.PageLocations[j].Offset += dataPageOffset *)
Definition rebase (dpo : N) (l : list ploc) : list ploc :=
  map (fun x => {| pl_offset := pl_offset x + dpo; pl_size := pl_size x; pl_first_row := pl_first_row x |}) l.

Definition dict_pages (c : chunk_in) : list page_in :=
  match ck_dict c with Some d => [d] | None => [] end.

(* data pages are recorded first (when buffered), the dictionary page last *)
Definition chunk_total_comp (c : chunk_in) : N := fold_left N.add (map comp_size (ck_pages c ++ dict_pages c)) 0.
Definition chunk_total_uncomp (c : chunk_in) : N := fold_left N.add (map uncomp_size (ck_pages c ++ dict_pages c)) 0.
Definition chunk_num_values (c : chunk_in) : N := fold_left N.add (map pg_nvalues (ck_pages c)) 0.
Definition chunk_num_rows (c : chunk_in) : N := fold_left N.add (map pg_nrows (ck_pages c)) 0.

(* the bytes of a chunk in the file: dictionary page, then the data pages *)
Definition dict_bytes (c : chunk_in) : bytes := concat (map page_bytes (dict_pages c)).
Definition chunk_bytes (c : chunk_in) : bytes := dict_bytes c ++ concat (map page_bytes (ck_pages c)).

(* [off] = w.writer.offset when the column is reached in writeRowGroup *)
Definition dict_offset (off : N) (c : chunk_in) : N := match ck_dict c with Some _ => off | None => 0 end.
Definition data_offset (off : N) (c : chunk_in) : N := off + sizeN (dict_bytes c).

Definition chunk_locs (off : N) (c : chunk_in) : list ploc :=
  rebase (data_offset off c) (record_pages 0 0 (ck_pages c)).

Definition loc_tree (l : ploc) : tval :=
  TStruct [(PL_Offset, i64 (pl_offset l)); (PL_CompressedPageSize, i32 (pl_size l));
           (PL_FirstRowIndex, i64 (pl_first_row l))].

Definition oindex_tree (off : N) (c : chunk_in) : tval :=
  TStruct [(OI_PageLocations, TList T_STRUCT (map loc_tree (chunk_locs off c)))].

Definition oindex_bytes (off : N) (c : chunk_in) : bytes := encode (oindex_tree off c).

(* [bl] = offset at which the bloom filter of the column is written *)
Definition meta_tree (off bl : N) (c : chunk_in) : tval :=
  TStruct (ck_head c
           ++ (CM_NumValues, i64 (chunk_num_values c))
           :: (CM_TotalUncompressedSize, i64 (chunk_total_uncomp c))
           :: (CM_TotalCompressedSize, i64 (chunk_total_comp c))
           :: ck_kv c
           ++ (CM_DataPageOffset, i64 (data_offset off c))
           :: opt_i64 CM_DictionaryPageOffset (dict_offset off c)
           ++ ck_stats c
           ++ (match ck_bloom c with
               | [] => []
               | _ => opt_i64 CM_BloomFilterOffset bl ++ opt_i32 CM_BloomFilterLength (sizeN (ck_bloom c))
               end)
           ++ ck_tail c).

(* [ci], [oi] = offsets at which the column index / offset index of the column are written,
   [oilen] = length of the encoded offset index;
   ColumnChunk.FileOffset is never set by the writer: 0 (required field) *)
Definition chunk_tree (off bl ci oi oilen : N) (c : chunk_in) : tval :=
  TStruct ((CC_FileOffset, i64 0)
           :: (CC_MetaData, meta_tree off bl c)
           :: opt_i64 CC_OffsetIndexOffset oi
           ++ opt_i32 CC_OffsetIndexLength oilen
           ++ (match ck_cindex c with
               | [] => []
               | _ => opt_i64 CC_ColumnIndexOffset ci ++ opt_i32 CC_ColumnIndexLength (sizeN (ck_cindex c))
               end)).

(** the columns of one row group: ColumnChunk tree and OffsetIndex tree of each.
    [off]: pages; [bl]: bloom filters; [ci]: column indexes; [oi]: offset indexes *)
Fixpoint lay_chunks (off bl ci oi : N) (cs : list chunk_in) : list (tval * tval) :=
  match cs with
  | [] => []
  | c :: r =>
      let oit := oindex_tree off c in
      let oilen := sizeN (encode oit) in
      (chunk_tree off bl ci oi oilen c, oit)
        :: lay_chunks (off + sizeN (chunk_bytes c)) (bl + sizeN (ck_bloom c)) (ci + sizeN (ck_cindex c))
             (oi + oilen) r
  end.

(** * Row groups (writeRowGroup) *)

Definition pages_bytes (cs : list chunk_in) : bytes := concat (map chunk_bytes cs).
Definition blooms_bytes (cs : list chunk_in) : bytes := concat (map ck_bloom cs).
Definition cindex_bytes (cs : list chunk_in) : bytes := concat (map ck_cindex cs).
Definition group_bytes (g : group_in) : bytes := pages_bytes (gi_chunks g) ++ blooms_bytes (gi_chunks g).

(* numRows := rg.columns[0].totalRowCount() *)
Definition group_num_rows (g : group_in) : N :=
  match gi_chunks g with c :: _ => chunk_num_rows c | [] => 0 end.

Definition group_tree (off : N) (ordinal : N) (g : group_in) (cols : list tval) : tval :=
  TStruct ((RG_Columns, TList T_STRUCT cols)
           :: (RG_TotalByteSize, i64 (fold_left N.add (map chunk_total_uncomp (gi_chunks g)) 0))
           :: (RG_NumRows, i64 (group_num_rows g))
           :: gi_sorting g
           ++ opt_i64 RG_FileOffset off
           ++ opt_i64 RG_TotalCompressedSize (fold_left N.add (map chunk_total_comp (gi_chunks g)) 0)
           ++ [(RG_Ordinal, i16 ordinal)]).

Definition group_cols (off ci oi : N) (g : group_in) : list (tval * tval) :=
  lay_chunks off (off + sizeN (pages_bytes (gi_chunks g))) ci oi (gi_chunks g).

(* the offset index section of a list of OffsetIndex trees *)
Definition oi_bytes (ois : list tval) : bytes := concat (map encode ois).

(** RowGroup tree and OffsetIndex trees of each row group.
    [off]: where the row group starts; [ci], [oi]: where its column / offset indexes start *)
Fixpoint lay_groups (off ci oi : N) (ordinal : N) (gs : list group_in) : list (tval * list tval) :=
  match gs with
  | [] => []
  | g :: r =>
      let cols := group_cols off ci oi g in
      (group_tree off ordinal g (map fst cols), map snd cols)
        :: lay_groups (off + sizeN (group_bytes g)) (ci + sizeN (cindex_bytes (gi_chunks g)))
             (oi + sizeN (oi_bytes (map snd cols))) (ordinal + 1) r
  end.

(** * The file (writeFileHeader, writeFileFooter) *)

Definition file_magic : bytes := [80; 65; 82; 49].   (* "PAR1" *)

Definition groups_bytes (fi : file_in) : bytes := concat (map group_bytes (fi_groups fi)).
Definition cindexes_bytes (fi : file_in) : bytes := concat (map (fun g => cindex_bytes (gi_chunks g)) (fi_groups fi)).

Definition cindex_start (fi : file_in) : N := sizeN file_magic + sizeN (groups_bytes fi).
Definition oindex_start (fi : file_in) : N := cindex_start fi + sizeN (cindexes_bytes fi).

Definition laid_groups (fi : file_in) : list (tval * list tval) :=
  let cs := cindex_start fi in
  lay_groups (sizeN file_magic) cs (cs + sizeN (cindexes_bytes fi)) 0 (fi_groups fi).

Definition parquet_version : N := 2.

(* [lg]: the laid out row groups *)
Definition footer_of_groups (fi : file_in) (lg : list (tval * list tval)) : tval :=
  TStruct ((FMD_Version, i32 parquet_version)
           :: (FMD_Schema, fi_schema fi)
           :: (FMD_NumRows, i64 (fold_left N.add (map group_num_rows (fi_groups fi)) 0))
           :: (FMD_RowGroups, TList T_STRUCT (map fst lg))
           :: fi_tail fi).

Definition oindexes_of (lg : list (tval * list tval)) : bytes := concat (map (fun gl => oi_bytes (snd gl)) lg).

Definition assemble (fi : file_in) (lg : list (tval * list tval)) : bytes :=
  let fb := encode (footer_of_groups fi lg) in
  file_magic ++ groups_bytes fi ++ cindexes_bytes fi ++ oindexes_of lg
  ++ fb ++ to_le 4 (sizeN fb) ++ file_magic.

Definition footer_tree (fi : file_in) : tval := footer_of_groups fi (laid_groups fi).
Definition footer_bytes (fi : file_in) : bytes := encode (footer_tree fi).
Definition oindexes_bytes (fi : file_in) : bytes := oindexes_of (laid_groups fi).
Definition footer_start (fi : file_in) : N := oindex_start fi + sizeN (oindexes_bytes fi).

Definition layout_bytes (fi : file_in) : bytes := assemble fi (laid_groups fi).

Definition layout (fi : file_in) : bytes * tval := (layout_bytes fi, footer_tree fi).

(** * Side conditions (decidable) under which LayoutProofs shows the specification
      decoder's structural checks pass on [layout_bytes fi] *)

(* fuel the specification decoder's thrift reader needs: nesting depth, and one
   more than the number of fields of a struct at its depth *)
Fixpoint need (v : tval) : nat :=
  match v with
  | TList _ l => S (fold_right (fun x a => Nat.max (need x) a) 0%nat l)
  | TStruct fs => S (fold_right (fun p a => Nat.max (need (snd p)) a) (S (length fs)) fs)
  | _ => 1%nat
  end.

Definition in_sint64b (z : Z) : bool := ((- 2 ^ 63 <=? z) && (z <? 2 ^ 63))%Z.

Definition code_okb (ty : N) (v : tval) : bool :=
  match v with
  | TBool _ => (ty =? T_TRUE) || (ty =? T_FALSE)
  | _ => ty =? type_code v
  end.

(* an encodable tree (boolean form of CompactProofs.wf) *)
Fixpoint wfb (v : tval) : bool :=
  match v with
  | TBool _ => true
  | TI8 n => n <? 256
  | TInt c z => ((c =? T_I16) || (c =? T_I32) || (c =? T_I64)) && in_sint64b z
  | TDouble bits => bits <? 2 ^ 64
  | TBin b => N.of_nat (length b) <? 2 ^ 64
  | TList elem l =>
      (1 <=? elem) && (elem <=? 12) && negb (elem =? T_MAP) && (N.of_nat (length l) <? 2 ^ 64)
      && forallb (fun x => code_okb elem x && wfb x) l
  | TStruct fs => forallb (fun p => in_sint64b (fst p) && wfb (snd p)) fs
  end.

(* all field ids strictly between [lo] and [hi] *)
Definition ids_between (lo hi : Z) (fs : list (Z * tval)) : bool :=
  forallb (fun p => (lo <? fst p)%Z && (fst p <? hi)%Z) fs.

Definition hdr_window : N := 4096.   (* = SpecDecoder.header_window *)

Definition page_ok (dict : bool) (p : page_in) : bool :=
  (if dict then (pg_type p =? 2)%Z else (pg_type p =? 0)%Z || (pg_type p =? 3)%Z)
  && ids_between (if (pg_type p =? 3)%Z then V2_Encoding else DPH_Encoding) (2 ^ 15) (pg_tail p)
  && wfb (header_tree p) && (need (header_tree p) <=? 64)%nat
  && (header_size p <=? hdr_window).

Definition chunk_ok (c : chunk_in) : bool :=
  forallb (page_ok true) (dict_pages c) && forallb (page_ok false) (ck_pages c)
  && ids_between 0 CM_NumValues (ck_head c)
  && ids_between CM_TotalCompressedSize CM_DataPageOffset (ck_kv c)
  && ids_between CM_DictionaryPageOffset CM_BloomFilterOffset (ck_stats c)
  && ids_between CM_BloomFilterLength (2 ^ 15) (ck_tail c).

Definition group_ok (g : group_in) : bool :=
  forallb chunk_ok (gi_chunks g) && ids_between RG_NumRows RG_FileOffset (gi_sorting g).

(* the trees the accounting produced are encodable and within the decoder's
   thrift fuel; the footer length fits the 4-byte field *)
Definition file_ok_with (fi : file_in) (lg : list (tval * list tval)) : bool :=
  let ft := footer_of_groups fi lg in
  forallb group_ok (fi_groups fi)
  && ids_between FMD_RowGroups (2 ^ 15) (fi_tail fi)
  && wfb ft && (need ft <=? 64)%nat
  && forallb (fun gl => forallb (fun oi => wfb oi && (need oi <=? 64)%nat) (snd gl)) lg
  && (sizeN (encode ft) <? 2 ^ 32).

Definition file_ok (fi : file_in) : bool := file_ok_with fi (laid_groups fi).

(* bytes and side conditions in one pass (what the oracle runs) *)
Definition layout_checked (fi : file_in) : bytes * bool :=
  let lg := laid_groups fi in (assemble fi lg, file_ok_with fi lg).

(** * Recovering the input from an observed file

    The harness walks a file the library wrote (footer, page headers as raw
    thrift, page bodies, rows per data page, bloom filter and column index
    sections) and the oracle rebuilds the input of [layout] from it.  Only the
    fields that are not offsets / sizes / counts derived from the pages are
    taken from the observed metadata. *)

Definition filter_ids (lo hi : Z) (fs : list (Z * tval)) : list (Z * tval) :=
  filter (fun p => (lo <? fst p)%Z && (fst p <? hi)%Z) fs.

Definition fields_of (v : tval) : list (Z * tval) := match v with TStruct fs => fs | _ => [] end.
Definition zfield (id : Z) (v : tval) : Z := match get_int id v with Some z => z | None => 0%Z end.
Definition nfield (id : Z) (v : tval) : N := Z.to_N (zfield id v).
Definition sfield (id : Z) (v : tval) : tval := match get id v with Some t => t | None => TStruct [] end.

(* [h]: decoded page header; [nrows]: rows that start in the page *)
Definition observe_page (h : tval) (nrows : N) (body : bytes) : page_in :=
  let ty := match get_int PH_Type h with Some z => z | None => (-1)%Z end in
  let v2 := (ty =? 3)%Z in
  let inner := sfield (if (ty =? 2)%Z then PH_DictionaryPageHeader
                       else if v2 then PH_DataPageHeaderV2 else PH_DataPageHeader) h in
  {| pg_type := ty;
     pg_uncomp := nfield PH_UncompressedPageSize h;
     pg_crc := zfield PH_CRC h;
     pg_nvalues := nfield DPH_NumValues inner;
     pg_nnulls := if v2 then nfield V2_NumNulls inner else 0;
     pg_nrows := nrows;
     pg_encoding := zfield (if v2 then V2_Encoding else DPH_Encoding) inner;
     pg_tail := filter_ids (if v2 then V2_Encoding else DPH_Encoding) (2 ^ 15) (fields_of inner);
     pg_body := body |}.

(* [md]: observed ColumnMetaData; [pages]: all pages of the chunk in file order *)
Definition observe_chunk (md : tval) (pages : list page_in) (bloom cindex : bytes) : chunk_in :=
  let dd := match pages with
            | p :: r => if (pg_type p =? 2)%Z then (Some p, r) else (None, pages)
            | [] => (None, [])
            end in
  {| ck_dict := fst dd; ck_pages := snd dd;
     ck_head := filter_ids 0 CM_NumValues (fields_of md);
     ck_kv := filter_ids CM_TotalCompressedSize CM_DataPageOffset (fields_of md);
     ck_stats := filter_ids CM_DictionaryPageOffset CM_BloomFilterOffset (fields_of md);
     ck_tail := filter_ids CM_BloomFilterLength (2 ^ 15) (fields_of md);
     ck_bloom := bloom; ck_cindex := cindex |}.

Definition observe_file (footer : tval) (obs : list (list (list page_in * bytes * bytes))) : file_in :=
  let gts := match get_list FMD_RowGroups footer with Some l => l | None => [] end in
  {| fi_groups :=
       map (fun go =>
              let cols := match get_list RG_Columns (fst go) with Some l => l | None => [] end in
              {| gi_chunks := map (fun co => observe_chunk (sfield CC_MetaData (fst co))
                                               (fst (fst (snd co))) (snd (fst (snd co))) (snd (snd co)))
                                  (combine cols (snd go));
                 gi_sorting := filter_ids RG_NumRows RG_FileOffset (fields_of (fst go)) |})
           (combine gts obs);
     fi_schema := match get FMD_Schema footer with Some s => s | None => TList T_STRUCT [] end;
     fi_tail := filter_ids FMD_RowGroups (2 ^ 15) (fields_of footer) |}.
