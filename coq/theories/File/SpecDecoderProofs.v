(** Facts about the specification decoder (File/SpecDecoder.v) that are not about the layout:
    the scope of the external decompressor, and what the sorting declaration check decides. *)
From Coq Require Import List NArith ZArith Bool Arith Lia.
From PQ Require Import Base.Bytes Enc.Plain File.SpecDecoder.
Import ListNotations.
Open Scope N_scope.

Lemma drop_while_split {A} (f : A -> bool) l :
  exists a, l = a ++ drop_while f l /\ forallb f a = true.
Proof.
  induction l as [|x r IH]; [exists []; split; reflexivity|].
  cbn [drop_while]. destruct (f x) eqn:E.
  - destruct IH as (a & Hl & Ha). exists (x :: a). split; [cbn; now f_equal|cbn; now rewrite E].
  - exists []. split; reflexivity.
Qed.

Lemma drop_while_app_all {A} (f : A -> bool) a b :
  forallb f a = true -> drop_while f (a ++ b) = drop_while f b.
Proof.
  induction a as [|x a IH]; [reflexivity|]. cbn. intros H. apply andb_prop in H. destruct H as [Hx Ha].
  rewrite Hx. now apply IH.
Qed.

Lemma drop_while_none {A} (f : A -> bool) b : forallb (fun x => negb (f x)) b = true -> drop_while f b = b.
Proof. destruct b as [|x b]; [reflexivity|]. cbn. intros H. apply andb_prop in H. destruct H as [Hx _]. now destruct (f x). Qed.

(* the declaration "nulls first" (resp. last) holds of a level sequence exactly when it splits into
   nulls followed by non-nulls (resp. non-nulls followed by nulls) *)
Theorem nulls_placed_spec nf maxd defs :
  nulls_placed nf maxd defs = true <->
  exists a b, defs = a ++ b /\
    forallb (fun d => if nf then d <? maxd else negb (d <? maxd)) a = true /\
    forallb (fun d => if nf then negb (d <? maxd) else d <? maxd) b = true.
Proof.
  unfold nulls_placed. destruct nf.
  - split.
    + intros H. destruct (drop_while_split (fun d => d <? maxd) defs) as (a & Hl & Ha).
      exists a, (drop_while (fun d => d <? maxd) defs). auto.
    + intros (a & b & -> & Ha & Hb). rewrite drop_while_app_all by exact Ha.
      rewrite (drop_while_none (fun d => d <? maxd) b Hb). exact Hb.
  - split.
    + intros H. destruct (drop_while_split (fun d => negb (d <? maxd)) defs) as (a & Hl & Ha).
      exists a, (drop_while (fun d => negb (d <? maxd)) defs). auto.
    + intros (a & b & -> & Ha & Hb). rewrite drop_while_app_all by exact Ha.
      rewrite (drop_while_none (fun d => negb (d <? maxd)) b).
      * exact Hb.
      * clear Ha. induction b as [|d b IH]; [reflexivity|]. cbn in Hb |- *. apply andb_prop in Hb.
        destruct Hb as [Hd Hb]. rewrite Hd. cbn. now apply IH.
Qed.

Theorem decompress_ext_scope (e1 e2 : ext_fn) codec b :
  (codec = 0 \/ codec = 1)%Z -> decompress e1 codec b = decompress e2 codec b.
Proof. intros [->| ->]; reflexivity. Qed.

(** * Dictionary lookup by blocks = lookup by position *)

Lemma nth_error_firstn_lt {A} n : forall (l : list A) r, (r < n)%nat -> nth_error (firstn n l) r = nth_error l r.
Proof. induction n as [|n IH]; intros l r H; [lia|]. destruct l as [|x l]; [now destruct r|]. destruct r as [|r]; [reflexivity|]. cbn. apply IH. lia. Qed.

Lemma nth_error_skipn_add {A} n : forall (l : list A) r, nth_error (skipn n l) r = nth_error l (n + r).
Proof. induction n as [|n IH]; intros l r; [reflexivity|]. destruct l as [|x l]; [now destruct r|]. cbn. apply IH. Qed.

Lemma nth_split_every {A} n f : forall (l : list A) q r, (r < n)%nat -> (q < f)%nat ->
  match nth_error (Plain.split_every f n l) q with Some b => nth_error b r | None => None end = nth_error l (q * n + r).
Proof.
  induction f as [|f IH]; intros l q r Hr Hq; [lia|].
  cbn [Plain.split_every]. destruct q as [|q].
  - cbn. now apply nth_error_firstn_lt.
  - cbn [nth_error]. rewrite IH by lia. rewrite nth_error_skipn_add. f_equal. lia.
Qed.

Lemma split_every_length {A} n f : forall l : list A, length (Plain.split_every f n l) = f.
Proof. induction f as [|f IH]; intros l; [reflexivity|]. cbn. now rewrite IH. Qed.

Theorem dict_lookup_eq {A} (dict : list A) i : dict_lookup (dict_blocks dict) i = nth_error dict (N.to_nat i).
Proof.
  unfold dict_lookup, dict_blocks.
  assert (Hq : N.to_nat (i / 256) = (N.to_nat i / dict_block)%nat) by (rewrite N2Nat.inj_div; reflexivity).
  assert (Hr : N.to_nat (i mod 256) = (N.to_nat i mod dict_block)%nat) by (rewrite N2Nat.inj_mod; reflexivity).
  rewrite Hq, Hr. set (k := N.to_nat i). 
  assert (Hb : (dict_block <> 0)%nat) by (unfold dict_block; lia).
  pose proof (Nat.mod_upper_bound k dict_block Hb) as Hlt.
  pose proof (Nat.div_mod k dict_block Hb) as Hdm.
  destruct (Nat.lt_ge_cases (k / dict_block) (S (length dict / dict_block))) as [Hin|Hout].
  - rewrite nth_split_every by assumption. f_equal. lia.
  - pose proof (split_every_length dict_block (S (length dict / dict_block)) dict) as Hlen.
    replace (nth_error (Plain.split_every _ _ _) (k / dict_block)) with (@None (list A)) by (symmetry; apply nth_error_None; lia).
    symmetry. apply nth_error_None.
    pose proof (Nat.div_mod (length dict) dict_block Hb). pose proof (Nat.mod_upper_bound (length dict) dict_block Hb).
    nia.
Qed.
