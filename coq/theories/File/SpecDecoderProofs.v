(** Facts about the specification decoder (File/SpecDecoder.v) that are not about the layout:
    the scope of the external decompressor, and what the sorting declaration check decides. *)
From Coq Require Import List NArith ZArith Bool Lia.
From PQ Require Import Base.Bytes File.SpecDecoder.
Import ListNotations.
Open Scope N_scope.

Lemma drop_while_split {A} (f : A -> bool) l :
  exists a, l = a ++ drop_while f l /\ forallb f a = true.
Proof.
  induction l as [|x r IH]; [exists []; split; reflexivity|].
  cbn [drop_while]. destruct (f x) eqn:E.
  - destruct IH as (a & Hl & Ha). exists (x :: a). split; [cbn; now f_equal|cbn; now rewrite E].
  - exists []. split; reflexivity.
Qed.

Lemma drop_while_app_all {A} (f : A -> bool) a b :
  forallb f a = true -> drop_while f (a ++ b) = drop_while f b.
Proof.
  induction a as [|x a IH]; [reflexivity|]. cbn. intros H. apply andb_prop in H. destruct H as [Hx Ha].
  rewrite Hx. now apply IH.
Qed.

Lemma drop_while_none {A} (f : A -> bool) b : forallb (fun x => negb (f x)) b = true -> drop_while f b = b.
Proof. destruct b as [|x b]; [reflexivity|]. cbn. intros H. apply andb_prop in H. destruct H as [Hx _]. now destruct (f x). Qed.

(* the declaration "nulls first" (resp. last) holds of a level sequence exactly when it splits into
   nulls followed by non-nulls (resp. non-nulls followed by nulls) *)
Theorem nulls_placed_spec nf maxd defs :
  nulls_placed nf maxd defs = true <->
  exists a b, defs = a ++ b /\
    forallb (fun d => if nf then d <? maxd else negb (d <? maxd)) a = true /\
    forallb (fun d => if nf then negb (d <? maxd) else d <? maxd) b = true.
Proof.
  unfold nulls_placed. destruct nf.
  - split.
    + intros H. destruct (drop_while_split (fun d => d <? maxd) defs) as (a & Hl & Ha).
      exists a, (drop_while (fun d => d <? maxd) defs). auto.
    + intros (a & b & -> & Ha & Hb). rewrite drop_while_app_all by exact Ha.
      rewrite (drop_while_none (fun d => d <? maxd) b Hb). exact Hb.
  - split.
    + intros H. destruct (drop_while_split (fun d => negb (d <? maxd)) defs) as (a & Hl & Ha).
      exists a, (drop_while (fun d => negb (d <? maxd)) defs). auto.
    + intros (a & b & -> & Ha & Hb). rewrite drop_while_app_all by exact Ha.
      rewrite (drop_while_none (fun d => negb (d <? maxd)) b).
      * exact Hb.
      * clear Ha. induction b as [|d b IH]; [reflexivity|]. cbn in Hb |- *. apply andb_prop in Hb.
        destruct Hb as [Hd Hb]. rewrite Hd. cbn. now apply IH.
Qed.

Theorem decompress_ext_scope (e1 e2 : ext_fn) codec b :
  (codec = 0 \/ codec = 1)%Z -> decompress e1 codec b = decompress e2 codec b.
Proof. intros [->| ->]; reflexivity. Qed.
