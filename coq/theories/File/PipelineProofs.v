(** Reading inverts writing for every schema, every sequence of records, every
    page layout and every value encoding that round-trips. *)
From Coq Require Import List NArith ZArith Bool Arith Lia.
From Coq Require Import ZifyN ZifyNat ZifyBool.
From PQ Require Import Base.Bytes Base.BitPack Base.ListExtra Enc.Rle Enc.RleProofs.
From PQ Require Import Dremel.Model Dremel.Proofs File.Pipeline.
Import ListNotations.
Open Scope N_scope.

Section Proofs.
  Variable V : Type.
  Variable venc : list V -> bytes.
  Variable vdec : nat -> bytes -> option (list V).
  (* the value encoding round-trips on the values it accepts *)
  Variable vok : V -> Prop.
  Hypothesis v_roundtrip : forall vs, Forall vok vs -> N.of_nat (length vs) < 2 ^ 61 ->
                                      vdec (length vs) (venc vs) = Some vs.

  Notation entry := (entry V).
  Notation column := (column V).

  (** an entry fits a leaf with maximum levels (maxr, maxd) *)
  Definition entry_ok (maxr maxd : nat) (e : entry) : Prop :=
    (e_r V e <= maxr)%nat /\ (e_d V e <= maxd)%nat /\
    (match fst (fst e) with Some v => e_d V e = maxd /\ vok v | None => e_d V e <> maxd end).

  Lemma levels_fit maxl (ls : list nat) :
    Forall (fun l => (l <= maxl)%nat) ls -> fits (width maxl) (map N.of_nat ls).
  Proof.
    intros H. unfold fits. apply Forall_forall. intros x Hx. apply in_map_iff in Hx.
    destruct Hx as (l & <- & Hl). rewrite Forall_forall in H. specialize (H l Hl).
    unfold width. eapply N.le_lt_trans; [|apply bitlen_bound]. lia.
  Qed.

  Lemma rebuild_ok maxr maxd (es : list entry) :
    Forall (entry_ok maxr maxd) es ->
    rebuild V maxd (map (fun e => N.of_nat (e_r V e)) es) (map (fun e => N.of_nat (e_d V e)) es) (values_of V es)
    = Some es.
  Proof.
    induction 1 as [|e es He _ IH]; [reflexivity|].
    destruct e as [[o r] d]. destruct He as (_ & _ & Ho). cbn [e_r e_d fst snd] in *.
    cbn [map rebuild values_of flat_map e_r e_d fst snd]. rewrite Nat2N.id.
    fold (values_of V es).
    destruct o as [v|].
    - destruct Ho as [-> _]. rewrite Nat.eqb_refl. cbn [app]. rewrite IH, !Nat2N.id. reflexivity.
    - destruct (Nat.eqb_spec d maxd) as [E|_]; [contradiction|]. cbn [app].
      rewrite IH, !Nat2N.id. reflexivity.
  Qed.

  Lemma count_present maxr maxd (es : list entry) :
    Forall (entry_ok maxr maxd) es ->
    length (filter (fun d => (N.to_nat d =? maxd)%nat) (map (fun e => N.of_nat (e_d V e)) es))
    = length (values_of V es).
  Proof.
    induction 1 as [|e es He _ IH]; [reflexivity|].
    destruct e as [[o r] d]. destruct He as (_ & _ & Ho). cbn [e_r e_d fst snd] in *.
    cbn [map filter values_of flat_map e_d fst snd]. rewrite Nat2N.id. fold (values_of V es).
    destruct o as [v|].
    - destruct Ho as [-> _]. rewrite Nat.eqb_refl. cbn [length app]. now rewrite IH.
    - destruct (Nat.eqb_spec d maxd) as [E|_]; [contradiction|]. cbn [app]. exact IH.
  Qed.

  Theorem page_roundtrip maxr maxd (es : list entry) :
    Forall (entry_ok maxr maxd) es -> N.of_nat (length es) < 2 ^ 61 ->
    decode_page V vdec maxr maxd (encode_page V venc maxr maxd es) = Some es.
  Proof.
    intros Hok Hlen. unfold decode_page, encode_page. cbn [pg_rep pg_def pg_n pg_val].
    assert (Hr : Forall (fun l => (l <= maxr)%nat) (map (e_r V) es)).
    { apply Forall_forall. intros l Hl. apply in_map_iff in Hl. destruct Hl as (e & <- & He).
      rewrite Forall_forall in Hok. now destruct (Hok e He). }
    assert (Hd : Forall (fun l => (l <= maxd)%nat) (map (e_d V) es)).
    { apply Forall_forall. intros l Hl. apply in_map_iff in Hl. destruct Hl as (e & <- & He).
      rewrite Forall_forall in Hok. now destruct (Hok e He) as (_ & ? & _). }
    destruct (hybrid_roundtrip false (width maxr) (map N.of_nat (map (e_r V) es)) (levels_fit maxr _ Hr))
      as (rb & Erb & Drb); [now rewrite !map_length|].
    destruct (hybrid_roundtrip false (width maxd) (map N.of_nat (map (e_d V) es)) (levels_fit maxd _ Hd))
      as (db & Edb & Ddb); [now rewrite !map_length|].
    rewrite map_map in Erb, Edb, Drb, Ddb.
    unfold enc_levels. rewrite Erb, Edb, Drb, Ddb, !map_length, Nat.eqb_refl. cbn [andb].
    rewrite (count_present maxr maxd es Hok), v_roundtrip.
    - now apply (rebuild_ok maxr maxd).
    - clear -Hok. induction Hok as [|e es He _ IH]; [constructor|].
      destruct e as [[[v|] r] d]; cbn [values_of flat_map fst app]; fold (values_of V es); [|exact IH].
      constructor; [|exact IH]. destruct He as (_ & _ & _ & Hv). exact Hv.
    - assert (Hle : forall l : list entry, (length (values_of V l) <= length l)%nat).
      { induction l as [|e l IH]; [cbn; lia|].
        destruct e as [[[v|] r] d]; cbn [values_of flat_map fst app length] in *;
          fold (values_of V l) in *; lia. }
      specialize (Hle es). lia.
  Qed.

  Theorem column_roundtrip maxr maxd : forall layout (col : column),
    Forall (entry_ok maxr maxd) col -> N.of_nat (length col) < 2 ^ 61 ->
    read_column V vdec maxr maxd (write_column V venc maxr maxd layout col) = Some col.
  Proof.
    unfold write_column.
    induction layout as [|n layout IH]; intros col Hok Hlen; cbn [cut map read_column].
    - destruct col as [|e col]; [reflexivity|]. cbn [map read_column].
      rewrite page_roundtrip by assumption. now rewrite app_nil_r.
    - rewrite page_roundtrip; [|now apply Forall_firstn|rewrite firstn_length; lia].
      rewrite IH; [|now apply Forall_skipn|rewrite skipn_length; lia].
      now rewrite firstn_skipn.
  Qed.

  (** columns against the leaves' maximum levels *)
  Definition cols_ok (levels : list (nat * nat)) (cols : list column) : Prop :=
    Forall2 (fun lv c => Forall (entry_ok (fst lv) (snd lv)) c /\ N.of_nat (length c) < 2 ^ 61) levels cols.

  Theorem columns_roundtrip : forall levels layouts cols,
    cols_ok levels cols ->
    read_columns V vdec levels (write_columns V venc levels layouts cols) = Some cols.
  Proof.
    intros levels layouts cols H. revert layouts.
    induction H as [|[mr md] c levels cols [Hc Hl] _ IH]; intros layouts.
    - destruct layouts; reflexivity.
    - destruct layouts as [|lay lays]; cbn [write_columns read_columns fst snd] in *.
      + rewrite column_roundtrip by assumption. now rewrite IH.
      + rewrite column_roundtrip by assumption. now rewrite IH.
  Qed.

  (** the whole pipeline *)
  Theorem read_write_file s (Hs : wf_schema s) n rows layouts :
    Forall (wfn V n s) rows ->
    cols_ok (max_levels s 0 0) (shred_rows s rows) ->
    read_file V vdec s (length rows) (S n) (write_file V venc s layouts rows) = Some rows.
  Proof.
    intros Hrows Hcols. unfold read_file, write_file.
    rewrite columns_roundtrip by exact Hcols.
    now apply asm_rows_shred_rows.
  Qed.
End Proofs.
