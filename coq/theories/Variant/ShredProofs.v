(** C19 — reconstruction inverts shredding, for every shredding schema and
    every well-formed value: fully shredded, partially shredded (residual
    fields), not shredded, and type mismatches going to the residual value. *)
From Coq Require Import List NArith ZArith Bool Arith Lia Permutation.
From Coq Require Import ZifyN ZifyNat ZifyBool.
From PQ Require Import Base.Bytes Base.ListExtra Variant.Model Variant.Shred
  Variant.BaseLemmas Variant.EncProofs.
Import ListNotations.
Open Scope N_scope.

(** * typed leaves *)
Lemma int_kind_eqb_eq a b : int_kind_eqb a b = true -> a = b.
Proof. destruct a, b; cbn; intros H; try reflexivity; discriminate. Qed.
Lemma flt_kind_eqb_eq a b : flt_kind_eqb a b = true -> a = b.
Proof. destruct a, b; cbn; intros H; try reflexivity; discriminate. Qed.
Lemma dec_kind_eqb_eq a b : dec_kind_eqb a b = true -> a = b.
Proof. destruct a, b; cbn; intros H; try reflexivity; discriminate. Qed.

Lemma to_i32_id z : in_sint 32 z -> to_i32 z = z.
Proof. intros H. unfold to_i32. apply sintZ_wrapZ; [lia|exact H]. Qed.

Lemma in_sint_le a b z : a <= b -> 0 < a -> in_sint a z -> in_sint b z.
Proof.
  unfold in_sint. intros Hab Ha [H1 H2].
  assert (2 ^ (Z.of_N a - 1) <= 2 ^ (Z.of_N b - 1))%Z by (apply Z.pow_le_mono_r; lia).
  lia.
Qed.

Lemma be16_len x : length (rev (to_le 16 x)) = 16%nat.
Proof. now rewrite rev_length, to_le_length. Qed.

Lemma dec16_back z : in_sint 128 z ->
  sintZ 128 (of_le (be_to_le16 (rev (to_le 16 (wrapZ 128 z))))) = z.
Proof.
  intros Hz. unfold be_to_le16. cbv zeta. rewrite rev_involutive, to_le_length.
  cbn [Nat.sub repeat]. rewrite app_nil_r.
  rewrite of_le_to_le by (change (256 ^ N.of_nat 16) with (2 ^ 128); apply wrapZ_lt).
  apply sintZ_wrapZ; [lia|exact Hz].
Qed.

Opaque to_le.
Lemma of_to_parquet t v p : wf_ptype t -> wf v -> to_parquet t v = Some p -> of_parquet t p = Some v.
Proof.
  intros Ht Hw H. destruct t, v; cbn [to_parquet] in H; try discriminate.
  - inversion H; reflexivity.
  - destruct (int_kind_eqb k k0) eqn:E; [|discriminate]. apply int_kind_eqb_eq in E. subst k0.
    inversion H; subst. cbn [wf] in Hw. cbn [of_parquet].
    destruct (int_w k <=? 4)%nat eqn:Ew.
    + assert (H32 : in_sint 32 z).
      { eapply in_sint_le; [| |exact Hw]; unfold bitsN; destruct k; cbn in *; try lia; discriminate. }
      rewrite to_i32_id by exact H32.
      rewrite sintZ_wrapZ; [reflexivity| |exact Hw]. unfold bitsN. destruct k; cbn; lia.
    + reflexivity.
  - destruct (flt_kind_eqb k k0) eqn:E; [|discriminate]. apply flt_kind_eqb_eq in E. subst k0.
    inversion H; subst. destruct k; reflexivity.
  - inversion H; reflexivity.
  - inversion H; reflexivity.
  - destruct (dec_kind_eqb k k0) eqn:E; [|discriminate]. apply dec_kind_eqb_eq in E. subst k0.
    destruct (scale =? Z.of_N scale0)%Z eqn:Es; [|discriminate]. apply Z.eqb_eq in Es.
    destruct (fits_precision k z precision); [|discriminate]. cbn [andb] in H.
    cbn [wf] in Hw. destruct Hw as [Hs Hz]. subst scale.
    assert (Esc : Z.to_N (Z.of_N scale0) mod 256 = scale0) by (rewrite N2Z.id; now apply N.mod_small).
    destruct k; injection H as <-.
    + cbn [of_parquet]. rewrite Esc, to_i32_id; [reflexivity|exact Hz].
    + cbn [of_parquet]. now rewrite Esc.
    + unfold of_parquet. rewrite be16_len. cbn [Nat.ltb Nat.leb]. rewrite Esc.
      now rewrite dec16_back.
  - inversion H; subst. cbn [wf] in Hw. destruct Hw as [_ H16]. cbn [of_parquet].
    now rewrite H16.
Qed.
Transparent to_le.

(** * decimal leaves narrower than 16 bytes (the layouts of other writers:
    FIXED_LEN_BYTE_ARRAY(n), BYTE_ARRAY of minimal length): the sign extension
    of bigEndianToLittleEndian16 *)
Lemma to_le_snoc n : forall x, to_le (S n) x = to_le n x ++ [(x / 256 ^ N.of_nat n) mod 256].
Proof.
  induction n as [|n IH]; intros x.
  - cbn. now rewrite N.div_1_r.
  - change (to_le (S (S n)) x) with ((x mod 256) :: to_le (S n) (x / 256)).
    rewrite IH. cbn [to_le app]. f_equal. f_equal. f_equal. f_equal.
    rewrite N.div_div by (try lia; apply N.pow_nonzero; lia).
    f_equal. rewrite Nat2N.inj_succ, N.pow_succ_r'. reflexivity.
Qed.

Lemma of_le_repeat0 k : of_le (repeat 0 k) = 0.
Proof. induction k; cbn [repeat of_le]; lia. Qed.

Lemma of_le_repeat255 k : of_le (repeat 255 k) = 256 ^ N.of_nat k - 1.
Proof.
  induction k as [|k IH]; [reflexivity|].
  cbn [repeat of_le]. rewrite IH, Nat2N.inj_succ, N.pow_succ_r'.
  assert (0 < 256 ^ N.of_nat k) by (apply N.neq_0_lt_0, N.pow_nonzero; lia). lia.
Qed.

(* the 16-byte little-endian form of n big-endian bytes *)
Lemma be_to_le16_narrow n w : w < 256 ^ N.of_nat (S n) -> (S n <= 16)%nat ->
  of_le (be_to_le16 (rev (to_le (S n) w))) =
  w + 256 ^ N.of_nat (S n) * (if 128 * 256 ^ N.of_nat n <=? w then 256 ^ N.of_nat (16 - S n) - 1 else 0).
Proof.
  intros Hw Hn. unfold be_to_le16. cbv zeta.
  rewrite rev_involutive, to_le_length.
  rewrite of_le_app, to_le_length, of_le_to_le by exact Hw.
  f_equal. f_equal.
  rewrite to_le_snoc, rev_app_distr. cbn [rev app].
  assert (Hp : 0 < 256 ^ N.of_nat n) by (apply N.neq_0_lt_0, N.pow_nonzero; lia).
  rewrite Nat2N.inj_succ, N.pow_succ_r' in Hw.
  set (p := 256 ^ N.of_nat n) in *. clearbody p.
  assert (Hp0 : p <> 0) by lia.
  assert (Hq : w / p < 256). { apply N.div_lt_upper_bound; lia. }
  rewrite (N.mod_small _ _ Hq).
  assert (E : (128 <=? w / p) = (128 * p <=? w)).
  { destruct (N.leb_spec 128 (w / p)) as [H|H];
    destruct (N.leb_spec (128 * p) w) as [H'|H']; try reflexivity; exfalso.
    - apply (N.mul_le_mono_r _ _ p) in H.
      pose proof (N.mul_div_le w p Hp0). lia.
    - assert (128 <= w / p) by (apply N.div_le_lower_bound; lia). lia. }
  rewrite E. destruct (128 * p <=? w).
  - apply of_le_repeat255.
  - apply of_le_repeat0.
Qed.

Lemma pow256 k : 256 ^ N.of_nat k = 2 ^ (8 * N.of_nat k).
Proof. change 256 with (2 ^ 8). now rewrite <- N.pow_mul_r. Qed.

Lemma dec_narrow_back n z : (1 <= n <= 16)%nat -> in_sint (8 * N.of_nat n) z ->
  sintZ 128 (of_le (be_to_le16 (rev (to_le n (wrapZ (8 * N.of_nat n) z))))) = z.
Proof.
  intros Hn Hz. destruct n as [|m]; [lia|].
  set (k := 8 * N.of_nat (S m)) in *.
  assert (Hk : 0 < k) by (unfold k; lia).
  pose proof (wrapZ_lt k z) as Hw.
  rewrite be_to_le16_narrow; [| rewrite pow256; exact Hw | lia].
  pose proof (sintZ_wrapZ k z Hk Hz) as Hs. unfold sintZ in Hs.
  set (w := wrapZ k z) in *.
  assert (Ehalf : 128 * 256 ^ N.of_nat m = 2 ^ (k - 1)).
  { rewrite pow256. change 128 with (2 ^ 7). rewrite <- N.pow_add_r. f_equal. unfold k. lia. }
  assert (EP : 256 ^ N.of_nat (S m) = 2 ^ k) by (rewrite pow256; reflexivity).
  assert (EPQ : 2 ^ k * 256 ^ N.of_nat (16 - S m) = 2 ^ 128).
  { rewrite pow256, <- N.pow_add_r. f_equal. unfold k. lia. }
  assert (Hq : 0 < 256 ^ N.of_nat (16 - S m)) by (apply N.neq_0_lt_0, N.pow_nonzero; lia).
  assert (Hle : 2 ^ k <= 2 ^ 128) by (apply N.pow_le_mono_r; unfold k; lia).
  assert (Hhalf : 2 * 2 ^ (k - 1) = 2 ^ k).
  { rewrite <- N.pow_succ_r'. f_equal. lia. }
  rewrite Ehalf, EP.
  assert (ZP : Z.of_N (2 ^ k) = (2 ^ Z.of_N k)%Z) by (now rewrite N2Z.inj_pow).
  unfold sintZ.
  destruct (N.leb_spec (2 ^ (k - 1)) w) as [Hneg|Hpos].
  - (* negative *)
    destruct (N.ltb_spec w (2 ^ (k - 1))) as [H|_]; [lia|].
    rewrite N.mul_sub_distr_l, EPQ, N.mul_1_r.
    assert (Et : w + (2 ^ 128 - 2 ^ k) = w + 2 ^ 128 - 2 ^ k) by lia. rewrite Et.
    destruct (N.ltb_spec (w + 2 ^ 128 - 2 ^ k) (2 ^ (128 - 1))) as [H|H].
    + exfalso. change (2 ^ (128 - 1)) with (2 ^ 127) in H.
      assert (2 * 2 ^ 127 = 2 ^ 128) by reflexivity.
      assert (2 ^ (k - 1) <= 2 ^ 127) by (apply N.pow_le_mono_r; unfold k; lia). lia.
    + rewrite N2Z.inj_sub, N2Z.inj_add by lia. rewrite ZP in *.
      change (Z.of_N (2 ^ 128)) with (2 ^ Z.of_N 128)%Z. lia.
  - destruct (N.ltb_spec w (2 ^ (k - 1))) as [_|H]; [|lia].
    rewrite N.mul_0_r, N.add_0_r.
    destruct (N.ltb_spec w (2 ^ (128 - 1))) as [H|H]; [exact Hs|].
    exfalso. assert (2 ^ (k - 1) <= 2 ^ (128 - 1)) by (apply N.pow_le_mono_r; unfold k; lia). lia.
Qed.

Lemma of_parquet_narrow_decimal n precision scale z : (1 <= n <= 16)%nat -> in_sint (8 * N.of_nat n) z ->
  of_parquet (PTDec D16 precision scale) (PBytes (rev (to_le n (wrapZ (8 * N.of_nat n) z)))) =
  Some (VDec D16 (Z.to_N scale mod 256) z).
Proof.
  intros Hn Hz. unfold of_parquet. rewrite rev_length, to_le_length.
  destruct (Nat.ltb_spec 16 n) as [H|_]; [lia|].
  now rewrite dec_narrow_back.
Qed.

(** * induction over schemas *)
Section SchemaInd.
  Variable P : schema -> Prop.
  Hypothesis Hnone : P SNone.
  Hypothesis Hprim : forall t, P (SPrim t).
  Hypothesis Hlist : forall e, P e -> P (SList e).
  Hypothesis Hobj : forall fs, Forall (fun kg => P (snd kg)) fs -> P (SObj fs).
  Fixpoint schema_ind' (s : schema) : P s :=
    match s with
    | SNone => Hnone
    | SPrim t => Hprim t
    | SList e => Hlist e (schema_ind' e)
    | SObj fs =>
        Hobj fs ((fix go (fs : list (bytes * schema)) : Forall (fun kg => P (snd kg)) fs :=
                    match fs with
                    | [] => Forall_nil _
                    | kg :: r => Forall_cons kg (schema_ind' (snd kg)) (go r)
                    end) fs)
    end.
End SchemaInd.

Lemma wf_schema_obj fs : wf_schema (SObj fs) <->
  NoDup (map fst fs) /\ Forall (fun kg => wf_schema (snd kg)) fs.
Proof.
  cbn [wf_schema]. apply and_iff_compat_l.
  induction fs as [|[k g] fs IH]; [split; [constructor|exact (fun _ => I)]|].
  rewrite IH. split; [intros [H1 H2]; now constructor|intros H; inversion H; auto].
Qed.

(** * association lists *)
Lemma find_field_In k x fs : NoDup (map fst fs) -> (find_field k fs = Some x <-> In (k, x) fs).
Proof.
  induction fs as [|[k' x'] fs IH]; intros ND; cbn [find_field]; [split; [discriminate|contradiction]|].
  inversion ND as [|? ? Hn ND']; subst. destruct (beq k' k) eqn:E.
  - apply beq_eq in E. subst k'. split.
    + intros H. inversion H. now left.
    + intros [H|H]; [now inversion H|]. exfalso. apply Hn. change k with (fst (k, x)). now apply in_map.
  - rewrite (IH ND'). apply beq_false_iff in E. split; [now right|].
    intros [H|H]; [inversion H; congruence|exact H].
Qed.

Lemma find_field_Some_In k x fs : find_field k fs = Some x -> In (k, x) fs.
Proof.
  induction fs as [|[k' x'] fs IH]; cbn [find_field]; [discriminate|].
  destruct (beq k' k) eqn:E; [|intros H; right; now apply IH].
  apply beq_eq in E. subst. intros H. inversion H. now left.
Qed.

Lemma find_field_None k fs : find_field k fs = None -> ~ In k (map fst fs).
Proof.
  induction fs as [|[k' x'] fs IH]; cbn [find_field]; [tauto|].
  destruct (beq k' k) eqn:E; [discriminate|]. apply beq_false_iff in E.
  intros H [H1|H1]; [cbn in H1; congruence|now apply IH].
Qed.

Lemma find_field_cmap k fs : find_field k (cmap fs) = option_map canon (find_field k fs).
Proof.
  induction fs as [|[k' x'] fs IH]; [reflexivity|]. cbn [cmap map find_field].
  destruct (beq k' k); [reflexivity|exact IH].
Qed.

Definition keep (names : list bytes) (kv : bytes * value) : bool := negb (memb (fst kv) names).

Definition typed_part (names : list bytes) (L : list (bytes * value)) : list (bytes * value) :=
  flat_map (fun nm => match find_field nm L with Some c => [(nm, c)] | None => [] end) names.

Lemma NoDup_app_intro {A} (a b : list A) :
  NoDup a -> NoDup b -> (forall x, In x a -> ~ In x b) -> NoDup (a ++ b).
Proof.
  induction a as [|x a IH]; intros Ha Hb Hd; [exact Hb|]. inversion Ha; subst. cbn. constructor.
  - rewrite in_app_iff. intros [H|H]; [contradiction|]. apply (Hd x); [now left|exact H].
  - apply IH; auto. intros y Hy. apply Hd. now right.
Qed.

Lemma typed_part_keys names L : forall k, In k (map fst (typed_part names L)) -> In k names.
Proof.
  induction names as [|n names IH]; intros k H; [contradiction|].
  unfold typed_part in H. cbn [flat_map] in H. rewrite map_app, in_app_iff in H.
  destruct H as [H|H]; [|right; now apply IH].
  destruct (find_field n L); cbn in H; [destruct H as [<-|[]]; now left|contradiction].
Qed.

Lemma typed_part_NoDup names L : NoDup names -> NoDup (map fst (typed_part names L)).
Proof.
  induction 1 as [|n names Hn ND IH]; [constructor|].
  unfold typed_part. cbn [flat_map]. rewrite map_app. apply NoDup_app_intro.
  - destruct (find_field n L); cbn; [constructor; [tauto|constructor]|constructor].
  - exact IH.
  - intros k Hk Hk2. apply typed_part_keys in Hk2.
    destruct (find_field n L); cbn in Hk; [destruct Hk as [<-|[]]; contradiction|contradiction].
Qed.

Lemma filter_keys_NoDup (f : bytes * value -> bool) L : NoDup (map fst L) -> NoDup (map fst (filter f L)).
Proof.
  induction L as [|a L IH]; intros ND; [constructor|]. inversion ND; subst. cbn [filter].
  destruct (f a); [|now apply IH]. cbn. constructor; [|now apply IH].
  intros H. apply in_map_iff in H as (y & Ey & Hy). apply filter_In in Hy as [Hy _].
  match goal with Hn : ~ In (fst a) _ |- _ => apply Hn end. rewrite <- Ey. now apply in_map.
Qed.

Lemma partition_perm names L : NoDup names -> NoDup (map fst L) ->
  Permutation (typed_part names L ++ filter (keep names) L) L.
Proof.
  intros Hn HL. apply NoDup_Permutation.
  - apply NoDup_map_inv with (f := fst). rewrite map_app. apply NoDup_app_intro.
    + now apply typed_part_NoDup.
    + now apply filter_keys_NoDup.
    + intros k H1 H2. apply typed_part_keys in H1.
      apply in_map_iff in H2 as ([k' x] & Ek & H2). cbn in Ek. subst k'.
      apply filter_In in H2 as [_ H2]. unfold keep in H2. cbn in H2.
      apply negb_true_iff, memb_false in H2. contradiction.
  - now apply NoDup_map_inv with (f := fst).
  - intros [k x]. rewrite in_app_iff, filter_In. unfold typed_part. rewrite in_flat_map. split.
    + intros [(nm & Hnm & H)|[H _]]; [|exact H].
      destruct (find_field nm L) as [c|] eqn:E; [|contradiction].
      destruct H as [H|[]]. inversion H; subst. now apply find_field_Some_In.
    + intros H. destruct (memb k names) eqn:E.
      * left. exists k. split; [now apply memb_In|].
        apply (find_field_In k x L HL) in H. rewrite H. now left.
      * right. split; [exact H|]. unfold keep. cbn. now rewrite E.
Qed.

Lemma cmap_app a b : cmap (a ++ b) = cmap a ++ cmap b.
Proof. unfold cmap. apply map_app. Qed.

Lemma cmap_filter names L : cmap (filter (keep names) L) = filter (keep names) (cmap L).
Proof.
  induction L as [|[k x] L IH]; [reflexivity|].
  change (cmap ((k, x) :: L)) with ((k, canon x) :: cmap L). cbn [filter].
  change (keep names (k, canon x)) with (keep names (k, x)).
  destruct (keep names (k, x)); [|exact IH].
  change (cmap ((k, x) :: filter (keep names) L)) with ((k, canon x) :: cmap (filter (keep names) L)).
  now rewrite IH.
Qed.

Lemma filter_all {A} (f : A -> bool) l : Forall (fun x => f x = true) l -> filter f l = l.
Proof. induction 1 as [|x l Hx H IH]; [reflexivity|]. cbn. now rewrite Hx, IH. Qed.

Lemma wf_filter (f : bytes * value -> bool) ofs : wf (VObject ofs) -> wf (VObject (filter f ofs)).
Proof.
  rewrite !wf_object. intros [ND H]. split; [now apply filter_keys_NoDup|].
  apply Forall_forall. intros x Hx. apply filter_In in Hx as [Hx _].
  rewrite Forall_forall in H. now apply H.
Qed.

(** * reconstruct after shred, residual values passed through [n] *)
Section Reconstruct.
  (* [n] stands for what happens to a residual value between the writer and
     the reader: nothing, or encoding followed by decoding *)
  Variable n : value -> value.
  Hypothesis n_canon : forall x, wf x -> canon (n x) = canon x.
  Hypothesis n_object : forall l, exists l', n (VObject l) = VObject l'.

  Definition rs_good (s : schema) : Prop :=
    wf_schema s -> forall v, wf v ->
    exists v', reconstruct s (frag_map n (shred s v)) = Some (Some v') /\ canon v' = canon v.

  Lemma fallback_good s v : wf v ->
    exists v', reconstruct s (frag_map n (FNone (Some v))) = Some (Some v') /\ canon v' = canon v.
  Proof. intros Hw. exists (n v). split; [destruct s; reflexivity|now apply n_canon]. Qed.

  Lemma rec_fields_ok fs ofs :
    Forall (fun kg => rs_good (snd kg)) fs -> Forall (fun kg => wf_schema (snd kg)) fs ->
    Forall (fun kv : bytes * value => wf (snd kv)) ofs ->
    exists typed,
      rec_fields reconstruct fs (map (frag_map n) (shred_fields shred ofs fs)) = Some typed /\
      cmap typed = flat_map (fun kg : bytes * schema =>
                     match find_field (fst kg) ofs with
                     | Some fv => [(fst kg, canon fv)]
                     | None => []
                     end) fs.
  Proof.
    intros HG HS HW. induction fs as [|[name g] fs IH]; [exists []; split; reflexivity|].
    inversion HG as [|? ? Hg HG']; inversion HS as [|? ? Hs HS']; subst. cbn [fst snd] in *.
    destruct (IH HG' HS') as (rest & Er & Ec).
    cbn [shred_fields map rec_fields flat_map fst].
    destruct (find_field name ofs) as [fv|] eqn:Ef.
    - assert (Hwf : wf fv).
      { apply find_field_Some_In in Ef. rewrite Forall_forall in HW. exact (HW _ Ef). }
      destruct (Hg Hs fv Hwf) as (v' & Ev & Ecv). rewrite Ev, Er.
      exists ((name, v') :: rest). split; [reflexivity|]. cbn [cmap map app]. fold (cmap rest).
      now rewrite Ecv, Ec.
    - assert (E0 : reconstruct g (frag_map n (FNone None)) = Some None) by (destruct g; reflexivity).
      rewrite E0, Er. exists rest. split; [reflexivity|exact Ec].
  Qed.

  Lemma flat_map_names (L : list (bytes * value)) (fs : list (bytes * schema)) :
    flat_map (fun kg : bytes * schema =>
                match find_field (fst kg) L with Some c => [(fst kg, c)] | None => [] end) fs
    = typed_part (map fst fs) L.
  Proof. unfold typed_part. induction fs as [|kg fs IH]; [reflexivity|]. cbn. now rewrite IH. Qed.

  Lemma typed_cmap ofs (fs : list (bytes * schema)) :
    flat_map (fun kg : bytes * schema =>
                match find_field (fst kg) ofs with Some fv => [(fst kg, canon fv)] | None => [] end) fs
    = typed_part (map fst fs) (cmap ofs).
  Proof.
    rewrite <- flat_map_names. apply flat_map_ext. intros kg. rewrite find_field_cmap.
    now destruct (find_field (fst kg) ofs).
  Qed.

  Lemma object_good fs : Forall (fun kg => rs_good (snd kg)) fs -> rs_good (SObj fs).
  Proof.
    intros HG Hws v Hw. apply wf_schema_obj in Hws as [Hnd Hws].
    destruct v; try (apply fallback_good; exact Hw).
    rename fs0 into ofs. pose proof Hw as Hw0. apply wf_object in Hw as [Hond Hwo].
    assert (HW : Forall (fun kv : bytes * value => wf (snd kv)) ofs)
      by (eapply Forall_impl; [|exact Hwo]; cbn; tauto).
    destruct (rec_fields_ok fs ofs HG Hws HW) as (typed & Er & Ec).
    rewrite typed_cmap in Ec.
    set (resid := filter (keep (map fst fs)) ofs).
    assert (Hshred : shred (SObj fs) (VObject ofs) =
              FObj (match resid with [] => None | _ => Some (VObject resid) end)
                   (shred_fields shred ofs fs)) by reflexivity.
    rewrite Hshred. cbn [frag_map reconstruct]. rewrite Er.
    assert (HL : NoDup (map fst (cmap ofs))) by now rewrite cmap_keys.
    pose proof (partition_perm (map fst fs) (cmap ofs) Hnd HL) as Hperm.
    assert (Goal : forall X, Permutation (cmap X) (filter (keep (map fst fs)) (cmap ofs)) ->
              canon (VObject (typed ++ X)) = canon (VObject ofs)).
    { intros X HX. rewrite !canon_object. f_equal. symmetry. apply isort_perm_eq; [exact HL|].
      rewrite cmap_app, Ec. symmetry. rewrite HX. exact Hperm. }
    destruct resid as [|r0 resid'] eqn:Eres.
    - cbn [option_map]. exists (VObject typed). split; [reflexivity|].
      rewrite <- (app_nil_r typed). apply Goal. cbn [cmap map]. rewrite <- cmap_filter.
      fold resid. rewrite Eres. reflexivity.
    - cbn [option_map]. rewrite <- Eres.
      assert (Hwr : wf (VObject resid)) by (apply wf_filter; exact Hw0).
      destruct (n_object resid) as (l' & El). pose proof (n_canon _ Hwr) as Hc.
      rewrite El in Hc |- *. rewrite !canon_object in Hc. injection Hc as Hc.
      assert (Hpl : Permutation (cmap l') (cmap resid)).
      { rewrite <- (isort_perm (cmap l')), Hc. apply isort_perm. }
      assert (Hall : Forall (fun kv => keep (map fst fs) kv = true) l').
      { apply Forall_forall. intros [k x] Hin.
        assert (Hk : In k (map fst (cmap resid))).
        { eapply Permutation_in; [apply Permutation_map; exact Hpl|].
          rewrite cmap_keys. change k with (fst (k, x)). now apply in_map. }
        rewrite cmap_keys in Hk. apply in_map_iff in Hk as ([k' x'] & Ek & Hk). cbn in Ek. subst k'.
        apply filter_In in Hk as [_ Hk]. exact Hk. }
      change (fun kv : bytes * value => negb (memb (fst kv) (schema_names fs))) with (keep (map fst fs)).
      rewrite (filter_all _ _ Hall).
      exists (VObject (typed ++ l')). split; [reflexivity|]. apply Goal.
      rewrite Hpl. unfold resid. now rewrite cmap_filter.
  Qed.

  Lemma list_good e : rs_good e -> rs_good (SList e).
  Proof.
    intros He Hws v Hw. cbn [wf_schema] in Hws.
    destruct v; try (apply fallback_good; exact Hw).
    apply wf_array in Hw.
    assert (Hshred : shred (SList e) (VArray l) = FList None (map (shred e) l)) by reflexivity.
    rewrite Hshred. clear Hshred. cbn [frag_map option_map reconstruct].
    assert (H : exists os, map_opt (reconstruct e) (map (frag_map n) (map (shred e) l)) = Some os /\
                           map canon (map or_null os) = map canon l).
    { induction l as [|x l IH]; [exists []; split; reflexivity|].
      inversion Hw as [|? ? Hx Hl]; subst. destruct (IH Hl) as (os & Eo & Ec).
      destruct (He Hws x Hx) as (v' & Ev & Ecv). cbn [map map_opt]. rewrite Ev, Eo.
      exists (Some v' :: os). split; [reflexivity|]. cbn [map or_null]. now rewrite Ecv, Ec. }
    destruct H as (os & Eo & Ec). rewrite Eo.
    exists (VArray (map or_null os)). split; [reflexivity|]. rewrite !canon_array. now rewrite Ec.
  Qed.

  Lemma prim_good t : rs_good (SPrim t).
  Proof.
    intros Hws v Hw. cbn [wf_schema] in Hws. cbn [shred].
    destruct (to_parquet t v) as [p|] eqn:E; [|apply fallback_good; exact Hw].
    cbn [frag_map option_map reconstruct]. rewrite (of_to_parquet t v p Hws Hw E).
    exists v. split; reflexivity.
  Qed.

  Theorem reconstruct_shred_gen s : rs_good s.
  Proof.
    induction s using schema_ind'.
    - intros _ v Hw. apply fallback_good; exact Hw.
    - apply prim_good.
    - now apply list_good.
    - now apply object_good.
  Qed.
End Reconstruct.

(** value-tree level: residual values are kept as trees *)
Theorem reconstruct_shred s v : wf_schema s -> wf v ->
  exists v', reconstruct s (shred s v) = Some (Some v') /\ canon v' = canon v.
Proof.
  intros Hs Hw.
  destruct (reconstruct_shred_gen (fun x => x) (fun _ _ => eq_refl) (fun l => ex_intro _ l eq_refl) s Hs v Hw)
    as (v' & E & Ec).
  exists v'. split; [|exact Ec]. rewrite <- E. f_equal.
  clear. generalize (shred s v). fix IH 1. intros [r|r p|r es|r fs]; cbn [frag_map].
  - now destruct r.
  - now destruct r.
  - f_equal; [now destruct r|]. induction es as [|x es IHes]; [reflexivity|]. cbn. now rewrite <- IH, <- IHes.
  - f_equal; [now destruct r|]. induction fs as [|x fs IHfs]; [reflexivity|]. cbn. now rewrite <- IH, <- IHfs.
Qed.

(** * canonical form: idempotent, and equal to the value up to field order *)
Lemma cmap_isort fs : cmap (isort fs) = isort (cmap fs).
Proof. unfold cmap. symmetry. apply isort_map_values. now intros [k x]. Qed.

Lemma canon_idem v : canon (canon v) = canon v.
Proof.
  induction v using value_ind'; try reflexivity.
  - rewrite !canon_array. f_equal. rewrite map_map.
    induction l as [|x l IHl]; [reflexivity|]. inversion H; subst. cbn. f_equal; auto.
  - rewrite !canon_object. f_equal. rewrite cmap_isort.
    assert (E : cmap (cmap fs) = cmap fs).
    { induction fs as [|[k x] fs IHf]; [reflexivity|]. inversion H; subst. cbn in *. f_equal; [f_equal; auto|auto]. }
    rewrite E. apply isort_id, isort_sorted.
Qed.

(* equality of variant values: objects are unordered sets of named fields *)
Inductive veq : value -> value -> Prop :=
| veq_refl v : veq v v
| veq_array l l' : Forall2 veq l l' -> veq (VArray l) (VArray l')
| veq_object fs fs' fs'' :
    Permutation fs fs' ->
    Forall2 (fun a b : bytes * value => fst a = fst b /\ veq (snd a) (snd b)) fs' fs'' ->
    veq (VObject fs) (VObject fs'').

Lemma veq_canon v : veq v (canon v).
Proof.
  induction v using value_ind'; try apply veq_refl.
  - rewrite canon_array. apply veq_array.
    induction H as [|x l Hx H IH]; [constructor|]. cbn. now constructor.
  - rewrite canon_object, <- cmap_isort. apply veq_object with (fs' := isort fs).
    + symmetry. apply isort_perm.
    + assert (HF : Forall (fun kv : bytes * value => veq (snd kv) (canon (snd kv))) (isort fs)).
      { eapply Permutation_Forall; [symmetry; apply isort_perm|exact H]. }
      induction HF as [|[k x] l Hx HF IH]; [constructor|]. cbn [cmap map]. constructor; [|exact IH].
      split; [reflexivity|exact Hx].
Qed.

(** * residual values as variant binary: the writer encodes them against the
    row dictionary (all names pre-registered), the reader decodes them *)
Section FragInd.
  Context {R : Type}.
  Variable P : frag R -> Prop.
  Hypothesis Hn : forall r, P (FNone r).
  Hypothesis Hp : forall r p, P (FPrim r p).
  Hypothesis Hl : forall r es, Forall P es -> P (FList r es).
  Hypothesis Ho : forall r fs, Forall P fs -> P (FObj r fs).
  Fixpoint frag_ind' (f : frag R) : P f :=
    match f with
    | FNone r => Hn r
    | FPrim r p => Hp r p
    | FList r es => Hl r es ((fix go (l : list (frag R)) : Forall P l :=
                                match l with [] => Forall_nil _ | x :: t => Forall_cons x (frag_ind' x) (go t) end) es)
    | FObj r fs => Ho r fs ((fix go (l : list (frag R)) : Forall P l :=
                                match l with [] => Forall_nil _ | x :: t => Forall_cons x (frag_ind' x) (go t) end) fs)
    end.
End FragInd.

Definition optP {A} (Q : A -> Prop) (o : option A) : Prop := match o with Some x => Q x | None => True end.

(* [Q] holds of every residual value of the fragment *)
Inductive all_resid (Q : value -> Prop) : frag value -> Prop :=
| ar_none r : optP Q r -> all_resid Q (FNone r)
| ar_prim r p : optP Q r -> all_resid Q (FPrim r p)
| ar_list r es : optP Q r -> Forall (all_resid Q) es -> all_resid Q (FList r es)
| ar_obj r fs : optP Q r -> Forall (all_resid Q) fs -> all_resid Q (FObj r fs).

Lemma all_resid_and Q1 Q2 f : all_resid Q1 f -> all_resid Q2 f -> all_resid (fun x => Q1 x /\ Q2 x) f.
Proof.
  induction f using frag_ind'; intros A B; inversion A; inversion B; subst; constructor;
    try (destruct r; cbn in *; tauto).
  - rewrite Forall_forall in *. intros x Hx. apply H; auto.
  - rewrite Forall_forall in *. intros x Hx. apply H; auto.
Qed.

Lemma all_resid_impl (Q1 Q2 : value -> Prop) f : (forall x, Q1 x -> Q2 x) -> all_resid Q1 f -> all_resid Q2 f.
Proof.
  intros HQ. induction f using frag_ind'; intros A; inversion A; subst; constructor;
    try (destruct r; cbn in *; now auto).
  - rewrite Forall_forall in *. intros x Hx. apply H; auto.
  - rewrite Forall_forall in *. intros x Hx. apply H; auto.
Qed.

(* properties inherited by the parts of a value that shredding can put in a value column *)
Definition closed (Q : value -> Prop) : Prop :=
  (forall l, Q (VArray l) -> Forall Q l) /\
  (forall fs, Q (VObject fs) -> Forall (fun kv => Q (snd kv)) fs) /\
  (forall f fs, Q (VObject fs) -> Q (VObject (filter f fs))).

Lemma shred_resid Q s : closed Q -> forall v, Q v -> all_resid Q (shred s v).
Proof.
  intros (Ca & Co & Cf). induction s using schema_ind'; intros v Hv.
  - constructor. exact Hv.
  - cbn [shred]. destruct (to_parquet t v); constructor; cbn; auto.
  - destruct v; try (constructor; exact Hv).
    change (shred (SList s) (VArray l)) with (FList (@None value) (map (shred s) l)).
    constructor; [exact I|]. apply Ca in Hv. rewrite Forall_map.
    eapply Forall_impl; [|exact Hv]. intros x Hx. now apply IHs.
  - destruct v; try (constructor; exact Hv). rename fs0 into ofs.
    change (shred (SObj fs) (VObject ofs)) with
      (FObj (match filter (keep (map fst fs)) ofs with [] => None | _ => Some (VObject (filter (keep (map fst fs)) ofs)) end)
            (shred_fields shred ofs fs)).
    constructor.
    + pose proof (Cf (keep (map fst fs)) ofs Hv) as Hr.
      destruct (filter (keep (map fst fs)) ofs); [exact I|exact Hr].
    + apply Co in Hv. induction H as [|[name g] fs Hg H IH]; [constructor|].
      cbn [shred_fields]. constructor; [|exact IH].
      destruct (find_field name ofs) as [fv|] eqn:E; [|constructor; exact I].
      apply Hg. apply find_field_Some_In in E. rewrite Forall_forall in Hv. exact (Hv _ E).
Qed.

Lemma frag_mapM_ok (enc : value -> bytes) (dcd : bytes -> option value) f :
  all_resid (fun x => dcd (enc x) = Some (canon x)) f ->
  frag_mapM dcd (frag_map enc f) = Some (frag_map canon f).
Proof.
  assert (Hopt : forall r, optP (fun x => dcd (enc x) = Some (canon x)) r ->
                 opt_mapM dcd (option_map enc r) = Some (option_map canon r)).
  { intros [x|] Hr; cbn in *; [now rewrite Hr|reflexivity]. }
  assert (Hlist : forall es, Forall (fun f => all_resid (fun x => dcd (enc x) = Some (canon x)) f ->
                     frag_mapM dcd (frag_map enc f) = Some (frag_map canon f)) es ->
                   Forall (all_resid (fun x => dcd (enc x) = Some (canon x))) es ->
                   map_opt (frag_mapM dcd) (map (frag_map enc) es) = Some (map (frag_map canon) es)).
  { induction 1 as [|x es Hx H IH]; intros A; [reflexivity|]. inversion A; subst.
    cbn [map map_opt]. now rewrite Hx, IH. }
  induction f using frag_ind'; intros A; inversion A; subst; cbn [frag_map frag_mapM].
  - now rewrite Hopt.
  - now rewrite Hopt.
  - now rewrite Hopt, Hlist.
  - now rewrite Hopt, Hlist.
Qed.

(* every field name of the value is in the dictionary *)
Inductive names_in (d : dict) : value -> Prop :=
| ni_prim v : is_prim v -> names_in d v
| ni_array l : Forall (names_in d) l -> names_in d (VArray l)
| ni_object fs : Forall (fun kv => In (fst kv) d /\ names_in d (snd kv)) fs -> names_in d (VObject fs).

Lemma names_in_array d l : names_in d (VArray l) -> Forall (names_in d) l.
Proof. intros H. inversion H as [? Hp|? HF|]; subst; [contradiction|exact HF]. Qed.
Lemma names_in_object d fs : names_in d (VObject fs) ->
  Forall (fun kv => In (fst kv) d /\ names_in d (snd kv)) fs.
Proof. intros H. inversion H as [? Hp| |? HF]; subst; [contradiction|exact HF]. Qed.

Lemma names_in_ext d d' v : ext d d' -> names_in d v -> names_in d' v.
Proof.
  intros [e ->]. induction v using value_ind'; intros Hn; try (constructor; exact I).
  - apply names_in_array in Hn. apply ni_array. rewrite Forall_forall in *. auto.
  - apply names_in_object in Hn. apply ni_object.
    rewrite Forall_forall in *. intros kv Hkv. destruct (Hn _ Hkv) as [Hk Hx].
    split; [apply in_or_app; now left|auto].
Qed.

Lemma index_of_In k d : In k d -> exists i, index_of k d = Some i.
Proof.
  induction d as [|x d IH]; intros H; [contradiction|]. cbn [index_of].
  destruct (beq k x) eqn:E; [now exists O|]. apply beq_false_iff in E.
  destruct H as [H|H]; [congruence|]. destruct (IH H) as (i & ->). now exists (S i).
Qed.

Lemma enc_elems_stable l d : Forall (fun x => fst (enc_st d x) = d) l -> fst (enc_elems enc_st d l) = d.
Proof.
  induction 1 as [|x l Hx H IH]; [reflexivity|]. cbn [enc_elems].
  destruct (enc_st d x) as [d1 b]. cbn in Hx. subst d1.
  destruct (enc_elems enc_st d l) as [d2 bs]. exact IH.
Qed.

Lemma enc_fields_stable fs d :
  Forall (fun kv : bytes * value => In (fst kv) d /\ fst (enc_st d (snd kv)) = d) fs ->
  fst (enc_fields enc_st d fs) = d.
Proof.
  induction 1 as [|[k x] fs [Hk Hx] H IH]; [reflexivity|]. cbn [enc_fields]. cbn [fst snd] in *.
  destruct (index_of_In k d Hk) as (i & Ei). unfold dict_add. rewrite Ei.
  destruct (enc_st d x) as [d1 b]. cbn in Hx. subst d1.
  destruct (enc_fields enc_st d fs) as [d2 es]. exact IH.
Qed.

Lemma enc_st_stable v : forall d, names_in d v -> fst (enc_st d v) = d.
Proof.
  induction v using value_ind'; intros d Hn; try reflexivity.
  - apply names_in_array in Hn. rewrite enc_st_array.
    assert (E : fst (enc_elems enc_st d l) = d).
    { apply enc_elems_stable. rewrite Forall_forall in *. auto. }
    destruct (enc_elems enc_st d l). exact E.
  - apply names_in_object in Hn. rewrite enc_st_object.
    assert (E : fst (enc_fields enc_st d fs) = d).
    { apply enc_fields_stable. rewrite Forall_forall in *. intros kv Hkv.
      destruct (Hn _ Hkv) as [Hk Hx]. split; [exact Hk|]. now apply H. }
    destruct (enc_fields enc_st d fs). exact E.
Qed.

Lemma ext_In d d' (k : bytes) : ext d d' -> In k d -> In k d'.
Proof. intros [e ->] H. apply in_or_app. now left. Qed.

Lemma all_dict_good {A} (f : A -> value) (l : list A) : Forall (fun a => dict_good (f a)) l.
Proof. apply Forall_forall. intros. apply enc_st_dict. Qed.

Lemma enc_elems_names l :
  Forall (fun x => forall d, NoDup d -> names_in (fst (enc_st d x)) x) l ->
  forall d, NoDup d -> Forall (names_in (fst (enc_elems enc_st d l))) l.
Proof.
  induction 1 as [|x l Hx H IH]; intros d ND; [constructor|]. cbn [enc_elems].
  destruct (enc_st d x) as [d1 b] eqn:E1. destruct (enc_elems enc_st d1 l) as [d2 bs] eqn:E2.
  destruct (enc_st_dict x _ _ _ ND E1) as [_ N1].
  destruct (enc_elems_dict l (all_dict_good (fun x => x) l) _ _ _ N1 E2) as [X2 _].
  cbn [fst]. constructor.
  - eapply names_in_ext; [exact X2|]. specialize (Hx d ND). now rewrite E1 in Hx.
  - specialize (IH d1 N1). now rewrite E2 in IH.
Qed.

Lemma enc_fields_names fs :
  Forall (fun kv : bytes * value => forall d, NoDup d -> names_in (fst (enc_st d (snd kv))) (snd kv)) fs ->
  forall d, NoDup d ->
  Forall (fun kv => In (fst kv) (fst (enc_fields enc_st d fs)) /\
                    names_in (fst (enc_fields enc_st d fs)) (snd kv)) fs.
Proof.
  induction 1 as [|[k x] fs Hx H IH]; intros d ND; [constructor|]. cbn [enc_fields]. cbn [fst snd] in *.
  destruct (dict_add d k) as [d0 id] eqn:E0.
  destruct (enc_st d0 x) as [d1 b] eqn:E1. destruct (enc_fields enc_st d1 fs) as [d2 es] eqn:E2.
  destruct (dict_add_ok _ _ _ _ ND E0) as (_ & N0 & Hid).
  destruct (enc_st_dict x _ _ _ N0 E1) as [X1 N1].
  destruct (enc_fields_dict fs (all_dict_good snd fs) _ _ _ N1 E2) as [X2 _].
  cbn [fst]. constructor.
  - split.
    + eapply ext_In; [eapply ext_trans; [exact X1|exact X2]|]. eapply nth_error_In; exact Hid.
    + eapply names_in_ext; [exact X2|]. specialize (Hx d0 N0). now rewrite E1 in Hx.
  - specialize (IH d1 N1). now rewrite E2 in IH.
Qed.

Lemma enc_st_names v : forall d, NoDup d -> names_in (fst (enc_st d v)) v.
Proof.
  induction v using value_ind'; intros d ND; try (constructor; exact I).
  - rewrite enc_st_array. pose proof (enc_elems_names l H d ND) as HF.
    destruct (enc_elems enc_st d l). now apply ni_array.
  - rewrite enc_st_object. pose proof (enc_fields_names fs H d ND) as HF.
    destruct (enc_fields enc_st d fs). now apply ni_object.
Qed.

(* addVariantFieldNames registers the names exactly as Encode does *)
Lemma names_st_enc v : forall d, names_st d v = fst (enc_st d v).
Proof.
  induction v using value_ind'; intros d; try reflexivity.
  - rewrite enc_st_array. change (names_st d (VArray l)) with (names_elems names_st d l).
    assert (E : names_elems names_st d l = fst (enc_elems enc_st d l)).
    { revert d. induction H as [|x l Hx H IH]; intros d; [reflexivity|]. cbn [names_elems enc_elems].
      rewrite Hx. destruct (enc_st d x) as [d1 b]. cbn [fst]. rewrite IH.
      now destruct (enc_elems enc_st d1 l). }
    rewrite E. now destruct (enc_elems enc_st d l).
  - rewrite enc_st_object. change (names_st d (VObject fs)) with (names_fields names_st d fs).
    assert (E : names_fields names_st d fs = fst (enc_fields enc_st d fs)).
    { revert d. induction H as [|[k x] fs Hx H IH]; intros d; [reflexivity|]. cbn [names_fields enc_fields].
      cbn [snd] in Hx. destruct (dict_add d k) as [d0 id]. cbn [fst]. rewrite Hx.
      destruct (enc_st d0 x) as [d1 b]. cbn [fst]. rewrite IH.
      now destruct (enc_fields enc_st d1 fs). }
    rewrite E. now destruct (enc_fields enc_st d fs).
Qed.

Lemma closed_wf_names d : closed (fun x => wf x /\ names_in d x).
Proof.
  split; [|split].
  - intros l [Hw Hn]. apply wf_array in Hw. apply names_in_array in Hn.
    rewrite Forall_forall in *. auto.
  - intros fs [Hw Hn]. apply wf_object in Hw as [_ Hw]. apply names_in_object in Hn.
    rewrite Forall_forall in *. intros kv Hkv. split; [apply Hw|apply Hn]; exact Hkv.
  - intros f fs [Hw Hn]. split; [now apply wf_filter|]. apply names_in_object in Hn. apply ni_object.
    rewrite Forall_forall in *. intros kv Hkv. apply filter_In in Hkv as [Hkv _]. auto.
Qed.

(** the shredded write and read of one row, residuals as variant binary *)
Theorem reconstruct_shred_bytes s v : wf_schema s -> wf v ->
  lenN (names_st [] v) < 2 ^ 32 -> lenN (concat (names_st [] v)) < 2 ^ 32 ->
  all_resid (fun x => lenN (snd (enc_st (names_st [] v) x)) < 2 ^ 32) (shred s v) ->
  exists v', reconstruct_bytes s (fst (shred_bytes s v)) (snd (shred_bytes s v)) = Some (Some v') /\
             canon v' = canon v.
Proof.
  intros Hs Hw Hn Ht Hfit. unfold shred_bytes, shred_row. cbn [fst snd].
  set (d := names_st [] v) in *.
  unfold reconstruct_bytes. rewrite decode_encode_metadata by assumption.
  assert (ND : NoDup d).
  { unfold d. rewrite names_st_enc. destruct (enc_st [] v) as [d0 b0] eqn:E0.
    exact (proj2 (enc_st_dict v _ _ _ (NoDup_nil _) E0)). }
  assert (Hnames : names_in d v).
  { unfold d. rewrite names_st_enc. apply enc_st_names. constructor. }
  pose proof (shred_resid _ s (closed_wf_names d) v (conj Hw Hnames)) as Hres.
  pose proof (all_resid_and _ _ _ Hres Hfit) as Hall.
  unfold reconstruct_row.
  rewrite (frag_mapM_ok (fun x => snd (enc_st d x)) (decode_value d)).
  - apply (reconstruct_shred_gen canon (fun x _ => canon_idem x)
             (fun l => ex_intro _ _ (canon_object l)) s Hs v Hw).
  - eapply all_resid_impl; [|exact Hall]. intros x [[Hwx Hnx] Hfx]. cbv beta in *.
    pose proof (enc_st_stable x d Hnx) as Est. destruct (enc_st d x) as [d' b] eqn:E. cbn in Est, Hfx. subst d'.
    destruct (enc_st_good x Hwx d d b ND E Hfx Hn) as (_ & _ & _ & Hok).
    cbn [snd]. unfold decode_value.
    replace (dec (S (length b)) d b) with (dec (S (length b)) d (b ++ [])) by now rewrite app_nil_r.
    apply Hok; [apply ext_refl|lia].
Qed.
