(** C19 — basic lemmas: byte-string equality and order, insertion sort,
    take / read_uints parsing, offset sizes, prefix sums. *)
From Coq Require Import List NArith ZArith Bool Arith Lia Permutation.
From Coq Require Import ZifyN ZifyNat ZifyBool.
From PQ Require Import Base.Bytes Variant.Model.
Import ListNotations.
Open Scope N_scope.

(** * beq *)
Lemma beq_refl a : beq a a = true.
Proof. induction a as [|x a IH]; cbn; [reflexivity|]. now rewrite N.eqb_refl, IH. Qed.

Lemma beq_eq a : forall b, beq a b = true -> a = b.
Proof.
  induction a as [|x a IH]; intros [|y b] H; cbn in H; try discriminate; [reflexivity|].
  apply andb_true_iff in H as [H1 H2]. apply N.eqb_eq in H1. f_equal; auto.
Qed.

Lemma beq_true_iff a b : beq a b = true <-> a = b.
Proof. split; [apply beq_eq|intros ->; apply beq_refl]. Qed.

Lemma beq_false_iff a b : beq a b = false <-> a <> b.
Proof.
  split.
  - intros H E. subst. rewrite beq_refl in H. discriminate.
  - intros H. destruct (beq a b) eqn:E; [|reflexivity]. apply beq_eq in E. contradiction.
Qed.

Lemma beq_sym a b : beq a b = beq b a.
Proof.
  destruct (beq a b) eqn:E.
  - apply beq_eq in E. subst. now rewrite beq_refl.
  - symmetry. apply beq_false_iff. apply beq_false_iff in E. congruence.
Qed.

Lemma memb_In k l : memb k l = true <-> In k l.
Proof.
  induction l as [|x l IH]; cbn; [split; [discriminate|tauto]|].
  rewrite orb_true_iff, IH, beq_true_iff. split; intros [H|H]; auto.
Qed.

Lemma memb_false k l : memb k l = false <-> ~ In k l.
Proof.
  rewrite <- memb_In. destruct (memb k l); split; intros H; try congruence; try discriminate; auto.
Qed.

Lemma nodupb_NoDup l : nodupb l = true <-> NoDup l.
Proof.
  induction l as [|x l IH]; cbn.
  - split; [constructor|reflexivity].
  - rewrite andb_true_iff, negb_true_iff, memb_false, IH. split.
    + intros [H1 H2]. now constructor.
    + intros H. inversion H. auto.
Qed.

(** * ble: Go's string order is a total order *)
Lemma ble_refl a : ble a a = true.
Proof. induction a as [|x a IH]; cbn; [reflexivity|]. rewrite N.ltb_irrefl. exact IH. Qed.

Lemma ble_total a : forall b, ble a b = true \/ ble b a = true.
Proof.
  induction a as [|x a IH]; intros [|y b]; cbn; auto.
  destruct (N.ltb_spec x y), (N.ltb_spec y x); auto; try lia.
Qed.

Lemma ble_antisym a : forall b, ble a b = true -> ble b a = true -> a = b.
Proof.
  induction a as [|x a IH]; intros [|y b]; cbn; intros H1 H2; try discriminate; [reflexivity|].
  destruct (N.ltb_spec x y), (N.ltb_spec y x); try discriminate; try lia.
  assert (x = y) by lia. subst. f_equal. auto.
Qed.

Lemma ble_trans a : forall b c, ble a b = true -> ble b c = true -> ble a c = true.
Proof.
  induction a as [|x a IH]; intros [|y b] [|z c]; cbn; intros H1 H2; try discriminate; auto.
  destruct (N.ltb_spec x y), (N.ltb_spec y x), (N.ltb_spec y z), (N.ltb_spec z y),
    (N.ltb_spec x z), (N.ltb_spec z x); try discriminate; try lia; auto.
  eapply IH; eauto.
Qed.

(** * insertion sort on keyed lists *)
Section Sorting.
  Context {A : Type}.
  Notation kl := (list (bytes * A)).

  Fixpoint ksorted (l : kl) : Prop :=
    match l with
    | a :: ((b :: _) as r) => ble (fst a) (fst b) = true /\ ksorted r
    | _ => True
    end.

  Lemma ksorted_cons a l : ksorted (a :: l) <->
    (match l with [] => True | b :: _ => ble (fst a) (fst b) = true end) /\ ksorted l.
  Proof. destruct l; cbn; tauto. Qed.

  Lemma ins_perm e (l : kl) : Permutation (ins e l) (e :: l).
  Proof.
    induction l as [|h t IH]; cbn; [reflexivity|].
    destruct (ble (fst e) (fst h)); [reflexivity|].
    rewrite IH. apply perm_swap.
  Qed.

  Lemma isort_perm (l : kl) : Permutation (isort l) l.
  Proof.
    induction l as [|e l IH]; cbn; [reflexivity|].
    rewrite ins_perm. now constructor.
  Qed.

  Lemma ins_sorted e (l : kl) : ksorted l -> ksorted (ins e l).
  Proof.
    induction l as [|h t IH]; intros Hs; cbn; [exact I|].
    destruct (ble (fst e) (fst h)) eqn:E.
    - apply ksorted_cons. split; [exact E|exact Hs].
    - apply ksorted_cons in Hs as [Hh Ht]. specialize (IH Ht).
      assert (Hhe : ble (fst h) (fst e) = true) by (destruct (ble_total (fst e) (fst h)); congruence).
      apply ksorted_cons. split; [|exact IH].
      destruct t as [|h' t']; cbn; [exact Hhe|].
      destruct (ble (fst e) (fst h')); [exact Hhe|exact Hh].
  Qed.

  Lemma isort_sorted (l : kl) : ksorted (isort l).
  Proof. induction l as [|e l IH]; cbn; [exact I|]. now apply ins_sorted. Qed.

  Lemma ins_sorted_head e (l : kl) :
    (match l with [] => True | b :: _ => ble (fst e) (fst b) = true end) -> ins e l = e :: l.
  Proof. destruct l as [|h t]; cbn; [reflexivity|]. now intros ->. Qed.

  Lemma isort_id (l : kl) : ksorted l -> isort l = l.
  Proof.
    induction l as [|e l IH]; intros Hs; [reflexivity|].
    change (isort (e :: l)) with (ins e (isort l)).
    apply ksorted_cons in Hs as [Hh Ht]. rewrite (IH Ht). now apply ins_sorted_head.
  Qed.

  (* the head of a sorted list is below every element *)
  Lemma ksorted_head_le a (l : kl) : ksorted (a :: l) -> forall x, In x l -> ble (fst a) (fst x) = true.
  Proof.
    revert a. induction l as [|b l IH]; intros a Hs x Hx; [contradiction|].
    apply ksorted_cons in Hs as [Hab Hs].
    destruct Hx as [->|Hx]; [exact Hab|].
    eapply ble_trans; [exact Hab|]. now apply IH.
  Qed.

  (* sorted lists with distinct keys that are permutations of each other are equal *)
  Lemma sorted_perm_eq (l1 : kl) : forall l2,
    ksorted l1 -> ksorted l2 -> NoDup (map fst l1) -> Permutation l1 l2 -> l1 = l2.
  Proof.
    induction l1 as [|a l1 IH]; intros l2 S1 S2 ND P.
    - apply Permutation_nil in P. now subst.
    - destruct l2 as [|b l2]; [apply Permutation_sym, Permutation_nil in P; discriminate|].
      assert (Hab : a = b).
      { assert (Ha : In a (b :: l2)) by (eapply Permutation_in; [exact P|now left]).
        assert (Hb : In b (a :: l1)) by (eapply Permutation_in; [exact (Permutation_sym P)|now left]).
        destruct Ha as [->|Ha]; [reflexivity|]. destruct Hb as [<-|Hb]; [reflexivity|].
        pose proof (ksorted_head_le _ _ S1 _ Hb) as L1.
        pose proof (ksorted_head_le _ _ S2 _ Ha) as L2.
        pose proof (ble_antisym _ _ L1 L2) as Ek.
        exfalso. inversion ND as [|? ? Hn _]; subst. apply Hn. rewrite Ek. now apply in_map. }
      subst b. f_equal. apply IH.
      + now apply ksorted_cons in S1.
      + now apply ksorted_cons in S2.
      + now inversion ND.
      + eapply Permutation_cons_inv; exact P.
  Qed.

  Lemma isort_perm_eq (l1 l2 : kl) :
    NoDup (map fst l1) -> Permutation l1 l2 -> isort l1 = isort l2.
  Proof.
    intros ND P. apply sorted_perm_eq; try apply isort_sorted.
    - eapply Permutation_NoDup; [|exact ND]. apply Permutation_map, Permutation_sym, isort_perm.
    - rewrite isort_perm, P. symmetry. apply isort_perm.
  Qed.

  Lemma isort_keys_NoDup (l : kl) : NoDup (map fst l) -> NoDup (map fst (isort l)).
  Proof.
    intros ND. eapply Permutation_NoDup; [|exact ND]. apply Permutation_map, Permutation_sym, isort_perm.
  Qed.

  Lemma isort_length (l : kl) : length (isort l) = length l.
  Proof. apply Permutation_length, isort_perm. Qed.
End Sorting.

(* a relation that forces equal keys is preserved by sorting both sides *)
Section SortRel.
  Context {A B : Type}.
  Variable R : bytes * A -> bytes * B -> Prop.
  Hypothesis Rkey : forall a b, R a b -> fst a = fst b.

  Lemma ins_Forall2 a b l1 l2 : R a b -> Forall2 R l1 l2 -> Forall2 R (ins a l1) (ins b l2).
  Proof.
    intros Hab H. induction H as [|x y l1 l2 Hxy H IH]; cbn; [constructor; [exact Hab|constructor]|].
    rewrite <- (Rkey _ _ Hab), <- (Rkey _ _ Hxy).
    destruct (ble (fst a) (fst x)); repeat constructor; auto.
  Qed.

  Lemma isort_Forall2 l1 l2 : Forall2 R l1 l2 -> Forall2 R (isort l1) (isort l2).
  Proof. induction 1; cbn; [constructor|]. now apply ins_Forall2. Qed.
End SortRel.

Lemma isort_map_values {A B} (g : bytes * A -> bytes * B) (l : list (bytes * A)) :
  (forall e, fst (g e) = fst e) -> isort (map g l) = map g (isort l).
Proof.
  intros Hg. induction l as [|e l IH]; [reflexivity|].
  change (isort (map g (e :: l))) with (ins (g e) (isort (map g l))).
  change (isort (e :: l)) with (ins e (isort l)). rewrite IH.
  generalize (isort l). intros s. induction s as [|h t IHs]; cbn; [reflexivity|].
  rewrite !Hg. destruct (ble (fst e) (fst h)); cbn; [reflexivity|]. now rewrite IHs.
Qed.

(** * lenN *)
Lemma lenN_app {A} (a b : list A) : lenN (a ++ b) = lenN a + lenN b.
Proof. unfold lenN. rewrite app_length. lia. Qed.
Lemma lenN_cons {A} (x : A) l : lenN (x :: l) = 1 + lenN l.
Proof. unfold lenN. cbn [length]. lia. Qed.
Lemma lenN_nil {A} : lenN (@nil A) = 0.
Proof. reflexivity. Qed.
Lemma to_nat_lenN {A} (l : list A) : N.to_nat (lenN l) = length l.
Proof. unfold lenN. lia. Qed.

(** * take *)
Lemma take_app a : forall b, take (length a) (a ++ b) = Some (a, b).
Proof. induction a as [|x a IH]; intros b; cbn; [reflexivity|]. now rewrite IH. Qed.

Lemma take_app_n n a b : length a = n -> take n (a ++ b) = Some (a, b).
Proof. intros <-. apply take_app. Qed.

Lemma takeN_app a b : takeN (lenN a) (a ++ b) = Some (a, b).
Proof.
  unfold takeN. rewrite lenN_app.
  destruct (N.ltb_spec (lenN a + lenN b) (lenN a)); [lia|].
  rewrite to_nat_lenN. apply take_app.
Qed.

Lemma takeN_app_n n a b : lenN a = n -> takeN n (a ++ b) = Some (a, b).
Proof. intros <-. apply takeN_app. Qed.

(** * fixed-width integers *)
Lemma read_uint_to_le sz x rest : x < 256 ^ N.of_nat sz ->
  read_uint sz (to_le sz x ++ rest) = Some (x, rest).
Proof.
  intros H. unfold read_uint. rewrite take_app_n by apply to_le_length.
  now rewrite of_le_to_le.
Qed.

Lemma read_uints_write sz xs : forall rest,
  Forall (fun x => x < 256 ^ N.of_nat sz) xs ->
  read_uints (length xs) sz (write_uints sz xs ++ rest) = Some (xs, rest).
Proof.
  induction xs as [|x xs IH]; intros rest H; cbn; [reflexivity|].
  inversion H as [|? ? Hx Hxs]; subst.
  unfold write_uints in *. cbn [map concat]. rewrite <- app_assoc.
  rewrite take_app_n by apply to_le_length. rewrite IH by exact Hxs.
  now rewrite of_le_to_le.
Qed.

Lemma write_uints_length sz xs : length (write_uints sz xs) = (sz * length xs)%nat.
Proof.
  unfold write_uints. induction xs as [|x xs IH]; cbn; [lia|].
  rewrite app_length, to_le_length, IH. lia.
Qed.

(** * offset sizes *)
Lemma offset_size_code_bound m x : m < 2 ^ 32 -> x <= m ->
  x < 256 ^ N.of_nat (osz_of (offset_size_code m)).
Proof.
  intros Hm Hx. unfold offset_size_code, osz_of.
  destruct (N.leb_spec m 255); [cbn; lia|].
  destruct (N.leb_spec m 65535); [cbn; lia|].
  destruct (N.leb_spec m 16777215); cbn; lia.
Qed.

Lemma offset_size_code_lt4 m : offset_size_code m < 4.
Proof.
  unfold offset_size_code.
  destruct (m <=? 255); [lia|]. destruct (m <=? 65535); [lia|]. destruct (m <=? 16777215); lia.
Qed.

(** * prefix sums *)
Lemma psums_length acc l : length (psums acc l) = S (length l).
Proof. revert acc. induction l as [|x l IH]; intros acc; cbn; [reflexivity|]. now rewrite IH. Qed.

