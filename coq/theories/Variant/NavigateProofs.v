(** C19 — navigation (Variant/Navigate.v) does not see the order of object
    fields, hence does not see shredding: navigating the value the reader
    reconstructs from what the writer shredded gives, entry by entry, the
    values navigation gives on the value that was written. *)
From Coq Require Import List NArith ZArith Bool Arith Lia Permutation.
From PQ Require Import Base.Bytes Variant.Model Variant.Shred Variant.Navigate
  Variant.BaseLemmas Variant.EncProofs Variant.ShredProofs.
Import ListNotations.
Open Scope N_scope.

Definition wf_entry (e : nentry) : Prop :=
  match snd e with Some v => wf v | None => True end.

Lemma find_field_perm k (l1 l2 : list (bytes * value)) :
  NoDup (map fst l1) -> Permutation l1 l2 -> find_field k l1 = find_field k l2.
Proof.
  intros ND P.
  assert (ND2 : NoDup (map fst l2)) by (eapply Permutation_NoDup; [apply Permutation_map; exact P|exact ND]).
  destruct (find_field k l1) as [x|] eqn:E1.
  - symmetry. apply (find_field_In k x l2 ND2). eapply Permutation_in; [exact P|].
    now apply find_field_Some_In.
  - destruct (find_field k l2) as [y|] eqn:E2; [|reflexivity].
    exfalso. apply (find_field_None _ _ E1).
    apply find_field_Some_In in E2. apply Permutation_sym in P.
    change k with (fst (k, y)). apply in_map. eapply Permutation_in; [exact P|exact E2].
Qed.

Lemma field_of_canon name o :
  wf_entry (0, o) ->
  field_of name (option_map canon o) = option_map canon (field_of name o).
Proof.
  destruct o as [v|]; [|reflexivity]. unfold wf_entry. cbn [snd option_map].
  destruct v; try reflexivity. intros Hw. rewrite canon_object. cbn [field_of].
  apply wf_object in Hw. destruct Hw as [ND _].
  rewrite <- find_field_cmap. apply find_field_perm.
  - apply isort_keys_NoDup. now rewrite cmap_keys.
  - apply isort_perm.
Qed.

Lemma elems_of_canon o : elems_of (option_map canon o) = map canon (elems_of o).
Proof. destruct o as [v|]; [|reflexivity]. destruct v; reflexivity. Qed.

Lemma field_of_wf name o : wf_entry (0, o) -> wf_entry (0, field_of name o).
Proof.
  destruct o as [v|]; [|exact (fun _ => I)]. unfold wf_entry. cbn [snd].
  destruct v; try exact (fun _ => I). intros Hw. cbn [field_of].
  destruct (find_field name fs) as [x|] eqn:E; [|exact I].
  apply wf_object in Hw. destruct Hw as [_ Hall].
  apply find_field_Some_In in E. rewrite Forall_forall in Hall.
  exact (proj2 (Hall _ E)).
Qed.

Lemma elems_of_wf o : wf_entry (0, o) -> Forall wf (elems_of o).
Proof.
  destruct o as [v|]; [|constructor]. unfold wf_entry. cbn [snd].
  destruct v; try (intros; constructor). intros Hw. now apply wf_array.
Qed.

Lemma nav_step_wf st es : Forall wf_entry es -> Forall wf_entry (nav_step st es).
Proof.
  intros H. destruct st as [name|]; cbn [nav_step].
  - induction H as [|[r o] es Ho _ IH]; [constructor|]. cbn [map]. constructor; [|exact IH].
    exact (field_of_wf name o Ho).
  - induction H as [|[r o] es Ho _ IH]; [constructor|]. cbn [flat_map fst snd].
    apply Forall_app. split; [|exact IH].
    apply elems_of_wf in Ho. rewrite Forall_forall in Ho. apply Forall_forall.
    intros e He. apply in_map_iff in He. destruct He as (x & <- & Hx). exact (Ho x Hx).
Qed.

Lemma nav_step_canon st es : Forall wf_entry es ->
  nav_step st (map canon_entry es) = map canon_entry (nav_step st es).
Proof.
  intros H. destruct st as [name|]; cbn [nav_step].
  - induction H as [|[r o] es Ho _ IH]; [reflexivity|]. cbn [map]. rewrite IH. f_equal.
    unfold canon_entry. cbn [fst snd]. f_equal. exact (field_of_canon name o Ho).
  - induction H as [|[r o] es Ho _ IH]; [reflexivity|]. cbn [map flat_map]. rewrite IH, map_app. f_equal.
    unfold canon_entry at 1 2. cbn [fst snd]. rewrite elems_of_canon, !map_map. reflexivity.
Qed.

(** navigation commutes with putting every object's fields in name order *)
Lemma navigate_canon p : forall es, Forall wf_entry es ->
  navigate p (map canon_entry es) = map canon_entry (navigate p es).
Proof.
  induction p as [|st p IH]; intros es H; [reflexivity|]. cbn [navigate].
  rewrite nav_step_canon by exact H. apply IH. now apply nav_step_wf.
Qed.

(** the entries reached by any path in the reconstruction of the shredded value
    are those reached in the written value (object fields in name order) *)
Lemma navigate_shredded s v p r : wf_schema s -> wf v ->
  exists v', reconstruct s (shred s v) = Some (Some v') /\
             navigate p [(r, Some (canon v'))] = map canon_entry (navigate p [(r, Some v)]).
Proof.
  intros Hs Hv. destruct (reconstruct_shred s v Hs Hv) as (v' & Hr & Hc).
  exists v'. split; [exact Hr|]. rewrite Hc.
  change [(r, Some (canon v))] with (map canon_entry [(r, Some v)]).
  apply navigate_canon. constructor; [exact Hv|constructor].
Qed.

(** ListOffsets do not see the order of object fields either *)
Lemma offsets_canon es : offsets (map canon_entry es) = offsets es.
Proof.
  unfold offsets. generalize 0. induction es as [|[r o] es IH]; intros acc; [reflexivity|].
  cbn [map offsets_from]. unfold canon_entry at 1. cbn [fst snd].
  rewrite elems_of_canon, map_length, IH. reflexivity.
Qed.
