(** C19 — typed navigation of a variant column (the cursor API of
    /repo/variant_column_reader.go: VariantReader.Path / VariantCursor.Field /
    VariantCursor.Elements), as a function of the LOGICAL (unshredded) value of
    every row.  This is the specification the cursors are compared with: the
    entries of the cursor reached by a path, whatever the shredding schema
    (the path inside it, outside it, partly inside), must be the entries this
    function returns on the values that were written.

      - the root cursor has one entry per row of the window: the row's value,
        or nothing for a null row (variant.LocMissing);
      - Field name keeps the entry space of its parent: an entry whose parent
        value is an object holding the name is that field's value (first field
        with the name: findVariantField / navigateField), every other entry is
        missing;
      - Elements concatenates, in entry order, the elements of the parent
        values that are arrays (processElements: the typed lists and the
        residual arrays alike); each element entry keeps the row of its parent;
        the parent's ListOffsets are the running totals [offsets].

    No proofs here. *)
From Coq Require Import List NArith ZArith Bool Arith Lia.
From PQ Require Import Base.Bytes Variant.Model Variant.Shred.
Import ListNotations.
Open Scope N_scope.

Inductive step :=
| StField (name : bytes)
| StElems.

(* an entry: the window row it belongs to, and its value (None = missing) *)
Definition nentry := (N * option value)%type.

Definition field_of (name : bytes) (o : option value) : option value :=
  match o with
  | Some (VObject fs) => find_field name fs
  | _ => None
  end.

Definition elems_of (o : option value) : list value :=
  match o with
  | Some (VArray l) => l
  | _ => []
  end.

Definition nav_step (st : step) (es : list nentry) : list nentry :=
  match st with
  | StField name => map (fun e : nentry => (fst e, field_of name (snd e))) es
  | StElems => flat_map (fun e : nentry => map (fun x => (fst e, Some x)) (elems_of (snd e))) es
  end.

Fixpoint navigate (p : list step) (es : list nentry) : list nentry :=
  match p with
  | [] => es
  | st :: r => navigate r (nav_step st es)
  end.

(* ListOffsets of a cursor whose Elements cursor is read: len(entries)+1 running totals *)
Fixpoint offsets_from (acc : N) (es : list nentry) : list N :=
  match es with
  | [] => [acc]
  | e :: r => acc :: offsets_from (acc + N.of_nat (length (elems_of (snd e)))) r
  end.
Definition offsets (es : list nentry) : list N := offsets_from 0 es.

(* the window of a reader: row i holds rows[i] *)
Fixpoint root_from (i : N) (rows : list (option value)) : list nentry :=
  match rows with
  | [] => []
  | o :: r => (i, o) :: root_from (i + 1) r
  end.
Definition root_entries (rows : list (option value)) : list nentry := root_from 0 rows.

Definition canon_entry (e : nentry) : nentry := (fst e, option_map canon (snd e)).

(* what the harness compares: the entries of the cursor at path [p] over the
   window [rows], values in canonical field order *)
Definition navigate_rows (p : list step) (rows : list (option value)) : list nentry :=
  map canon_entry (navigate p (root_entries rows)).
