(** C19 — the parts of the model encoder that come before the payload, as
    functions of the SIZES of the encoded children only.  The harness uses
    them for containers and dictionaries too large to send through the line
    protocol (16 MiB payloads around the 3-byte / 4-byte offset threshold,
    dictionaries of 65 536 names): Go's header bytes are compared with these
    functions, Go's payload with the concatenation of the children.
    [Variant/HeaderProofs.v] proves that they are literally the prefix the
    model encoder ([build_array], [build_object], [encode_metadata]) emits.
    No proofs here. *)
From Coq Require Import List NArith ZArith Bool Arith Lia.
From PQ Require Import Base.Bytes Variant.Model.
Import ListNotations.
Open Scope N_scope.

Definition sumN (l : list N) : N := fold_right N.add 0 l.

(* buildArrayBytes / Builder.EndArray: header | num_elements | offsets *)
Definition array_header (sizes : list N) : bytes :=
  let n := lenN sizes in
  let osc := offset_size_code (sumN sizes) in
  (3 + 4 * osc + 16 * (if 255 <? n then 1 else 0))
    :: num_elems n ++ write_uints (osz_of osc) (psums 0 sizes).

(* buildObjectBytes: header | num_elements | field ids | offsets; fields in
   name order, [ids] their dictionary ids, [sizes] the sizes of their values *)
Definition object_header (ids sizes : list N) : bytes :=
  let n := lenN sizes in
  let fsc := offset_size_code (fold_right N.max 0 ids) in
  let osc := offset_size_code (sumN sizes) in
  (2 + 4 * osc + 16 * fsc + 64 * (if 255 <? n then 1 else 0))
    :: num_elems n ++ write_uints (osz_of fsc) ids ++ write_uints (osz_of osc) (psums 0 sizes).

(* MetadataBuilder.AppendTo: header | dictionary_size | offsets; [sizes] the
   lengths of the names in dictionary order *)
Definition metadata_header (sorted : bool) (sizes : list N) : bytes :=
  let n := lenN sizes in
  let osc := offset_size_code (N.max (sumN sizes) n) in
  let osz := osz_of osc in
  (1 + 16 * (if sorted then 1 else 0) + 64 * osc)
    :: to_le osz n ++ write_uints osz (psums 0 sizes).
