(** C19 — executable model of the Variant binary encoding of parquet-go
    (/repo/variant): value trees, the metadata dictionary, the encoder
    (mirrors variant/encoding.go + variant/metadata.go) and a decoder written
    from the Variant encoding specification (VariantEncoding.md), accepting
    every conforming form (any offset sizes, is_large either way, values of
    objects/arrays stored in any order).  No proofs here. *)
From Coq Require Import List NArith ZArith Bool Arith Lia.
From PQ Require Import Base.Bytes.
Import ListNotations.
Open Scope N_scope.

(** * Value trees (variant/value.go: type Value) *)

(* integer-like primitives: payload is a signed two's complement integer *)
Inductive int_kind := I8 | I16 | I32 | I64 | IDate | ITs | ITsNtz | ITime | ITsNs | ITsNtzNs.
Inductive flt_kind := F32 | F64.
Inductive dec_kind := D4 | D8 | D16.

Inductive value :=
| VNull
| VBool (b : bool)
| VInt (k : int_kind) (z : Z)              (* int8/16/32/64, date, timestamps, time *)
| VFlt (k : flt_kind) (bits : N)           (* float/double as IEEE bit patterns *)
| VDec (k : dec_kind) (scale : N) (z : Z)  (* decimal4/8/16: scale byte + unscaled value *)
| VBinary (b : bytes)
| VString (b : bytes)                      (* short-string and long form are one value *)
| VUuid (b : bytes)                        (* 16 bytes *)
| VArray (l : list value)
| VObject (fs : list (bytes * value)).     (* field name, value; construction order *)

(* variant/types.go: PrimitiveType ids *)
Definition int_id (k : int_kind) : N :=
  match k with
  | I8 => 3 | I16 => 4 | I32 => 5 | I64 => 6 | IDate => 11 | ITs => 12 | ITsNtz => 13
  | ITime => 17 | ITsNs => 18 | ITsNtzNs => 19
  end.
(* variant/types.go: primitiveSize *)
Definition int_w (k : int_kind) : nat :=
  match k with
  | I8 => 1 | I16 => 2 | I32 => 4 | IDate => 4
  | I64 | ITs | ITsNtz | ITime | ITsNs | ITsNtzNs => 8
  end%nat.
Definition flt_id (k : flt_kind) : N := match k with F32 => 14 | F64 => 7 end.
Definition flt_w (k : flt_kind) : nat := match k with F32 => 4 | F64 => 8 end%nat.
Definition dec_id (k : dec_kind) : N := match k with D4 => 8 | D8 => 9 | D16 => 10 end.
Definition dec_w (k : dec_kind) : nat := match k with D4 => 4 | D8 => 8 | D16 => 16 end%nat.
Definition id_binary : N := 15.
Definition id_string : N := 16.
Definition id_uuid : N := 20.

Definition bitsN (w : nat) : N := 8 * N.of_nat w.

Definition int_kind_of_id (t : N) : option int_kind :=
  match t with
  | 3 => Some I8 | 4 => Some I16 | 5 => Some I32 | 6 => Some I64 | 11 => Some IDate
  | 12 => Some ITs | 13 => Some ITsNtz | 17 => Some ITime | 18 => Some ITsNs | 19 => Some ITsNtzNs
  | _ => None
  end.
Definition flt_kind_of_id (t : N) : option flt_kind :=
  match t with 14 => Some F32 | 7 => Some F64 | _ => None end.
Definition dec_kind_of_id (t : N) : option dec_kind :=
  match t with 8 => Some D4 | 9 => Some D8 | 10 => Some D16 | _ => None end.

(** * Byte strings: length, equality, Go string order *)

Definition lenN {A} (l : list A) : N := N.of_nat (length l).

Fixpoint beq (a b : bytes) : bool :=
  match a, b with
  | [], [] => true
  | x :: a', y :: b' => (x =? y) && beq a' b'
  | _, _ => false
  end.

(* Go's [a <= b] on strings: bytewise lexicographic, a proper prefix is smaller *)
Fixpoint ble (a b : bytes) : bool :=
  match a, b with
  | [], _ => true
  | _ :: _, [] => false
  | x :: a', y :: b' => if x <? y then true else if y <? x then false else ble a' b'
  end.

(** * Metadata dictionary (variant/metadata.go: MetadataBuilder) *)

Definition dict := list bytes.

Fixpoint index_of (k : bytes) (d : dict) : option nat :=
  match d with
  | [] => None
  | x :: r => if beq k x then Some O else
              match index_of k r with Some i => Some (S i) | None => None end
  end.

(* MetadataBuilder.Add: intern, return the stable index *)
Definition dict_add (d : dict) (k : bytes) : dict * nat :=
  match index_of k d with
  | Some i => (d, i)
  | None => (d ++ [k], length d)
  end.

(* [unsorted] is raised by Add when the new entry compares below its
   predecessor; entries are distinct, so at Build time the flag is the
   negation of "every adjacent pair is in order" *)
Fixpoint sortedb (d : dict) : bool :=
  match d with
  | a :: ((b :: _) as r) => ble a b && sortedb r
  | _ => true
  end.

(* variant/types.go: offsetSizeCode *)
Definition offset_size_code (m : N) : N :=
  if m <=? 255 then 0 else if m <=? 65535 then 1 else if m <=? 16777215 then 2 else 3.
Definition osz_of (code : N) : nat := S (N.to_nat code).

(* [acc; acc+x1; acc+x1+x2; ...]: n+1 offsets for n sizes *)
Fixpoint psums (acc : N) (sizes : list N) : list N :=
  match sizes with
  | [] => [acc]
  | x :: r => acc :: psums (acc + x) r
  end.

Definition write_uints (sz : nat) (xs : list N) : bytes := concat (map (to_le sz) xs).

(* MetadataBuilder.AppendTo *)
Definition encode_metadata (d : dict) : bytes :=
  let n := lenN d in
  let total := lenN (concat d) in
  let osc := offset_size_code (N.max total n) in
  let osz := osz_of osc in
  (1 + 16 * (if sortedb d then 1 else 0) + 64 * osc)
    :: to_le osz n ++ write_uints osz (psums 0 (map lenN d)) ++ concat d.

(** * Value encoder (variant/encoding.go) *)

(* makeHeader: basic | valueHeader << 2 *)
Definition hdr (basic vh : N) : N := basic + 4 * vh.

(* encodePrimitive / encodeValuePrimitive *)
Definition enc_prim (v : value) : bytes :=
  match v with
  | VNull => [hdr 0 0]
  | VBool true => [hdr 0 1]
  | VBool false => [hdr 0 2]
  | VInt k z => hdr 0 (int_id k) :: to_le (int_w k) (wrapZ (bitsN (int_w k)) z)
  | VFlt k bits => hdr 0 (flt_id k) :: to_le (flt_w k) bits
  | VDec k scale z => hdr 0 (dec_id k) :: (scale mod 256) :: to_le (dec_w k) (wrapZ (bitsN (dec_w k)) z)
  | VBinary b => hdr 0 id_binary :: to_le 4 (lenN b) ++ b
  | VString s =>
      if lenN s <=? 63 then hdr 1 (lenN s) :: s
      else hdr 0 id_string :: to_le 4 (lenN s) ++ s
  | VUuid b => hdr 0 id_uuid :: b
  | _ => [hdr 0 0]
  end.

Definition num_elems (n : N) : bytes := if 255 <? n then to_le 4 n else to_le 1 n.

(* buildArrayBytes: header | num_elements | offsets | values *)
Definition build_array (encs : list bytes) : bytes :=
  let n := lenN encs in
  let total := lenN (concat encs) in
  let osc := offset_size_code total in
  (3 + 4 * osc + 16 * (if 255 <? n then 1 else 0))
    :: num_elems n ++ write_uints (osz_of osc) (psums 0 (map lenN encs)) ++ concat encs.

(* an object field after its value has been encoded: name, (dictionary id, bytes) *)
Definition entry := (bytes * (nat * bytes))%type.

Section Sort.
  Variable A : Type.
  (* sort.Slice(entries, name <): keys are distinct, so every sort gives this list *)
  Fixpoint ins (e : bytes * A) (l : list (bytes * A)) : list (bytes * A) :=
    match l with
    | [] => [e]
    | h :: t => if ble (fst e) (fst h) then e :: l else h :: ins e t
    end.
  Definition isort (l : list (bytes * A)) : list (bytes * A) := fold_right ins [] l.
End Sort.
Arguments ins {A}. Arguments isort {A}.

Definition max_id (es : list entry) : N :=
  fold_right (fun e m => N.max (N.of_nat (fst (snd e))) m) 0 es.

(* buildObjectBytes: header | num_elements | field ids | offsets | values;
   [es] already sorted by name *)
Definition build_object (es : list entry) : bytes :=
  let n := lenN es in
  let encs := map (fun e : entry => snd (snd e)) es in
  let total := lenN (concat encs) in
  let fsc := offset_size_code (max_id es) in
  let osc := offset_size_code total in
  (2 + 4 * osc + 16 * fsc + 64 * (if 255 <? n then 1 else 0))
    :: num_elems n
    ++ write_uints (osz_of fsc) (map (fun e : entry => N.of_nat (fst (snd e))) es)
    ++ write_uints (osz_of osc) (psums 0 (map lenN encs))
    ++ concat encs.

Section EncLists.
  Variable enc : dict -> value -> dict * bytes.
  (* encodeValueArray: elements in order, dictionary threaded *)
  Fixpoint enc_elems (d : dict) (l : list value) : dict * list bytes :=
    match l with
    | [] => (d, [])
    | x :: r =>
        let '(d1, b) := enc d x in
        let '(d2, bs) := enc_elems d1 r in (d2, b :: bs)
    end.
  (* encodeValueObject: for each field in construction order: Add(name), then encode the value *)
  Fixpoint enc_fields (d : dict) (fs : list (bytes * value)) : dict * list entry :=
    match fs with
    | [] => (d, [])
    | (k, x) :: r =>
        let '(d0, id) := dict_add d k in
        let '(d1, b) := enc d0 x in
        let '(d2, es) := enc_fields d1 r in (d2, (k, (id, b)) :: es)
    end.
End EncLists.

(* encoder.encodeValue with the MetadataBuilder as state *)
Fixpoint enc_st (d : dict) (v : value) {struct v} : dict * bytes :=
  match v with
  | VArray l => let '(d', encs) := enc_elems enc_st d l in (d', build_array encs)
  | VObject fs => let '(d', es) := enc_fields enc_st d fs in (d', build_object (isort es))
  | _ => (d, enc_prim v)
  end.

(* variant.Encode on a fresh builder followed by Build: (dictionary, metadata bytes, value bytes) *)
Definition encode (v : value) : bytes * bytes :=
  let '(d, b) := enc_st [] v in (encode_metadata d, b).
Definition dict_of (v : value) : dict := fst (enc_st [] v).

(** * Canonical field order: what any decoder returns for an encoded object *)

Fixpoint canon (v : value) : value :=
  match v with
  | VArray l => VArray (map canon l)
  | VObject fs => VObject (isort (map (fun kv => let '(k, x) := kv in (k, canon x)) fs))
  | _ => v
  end.

(** * Decoder, from the specification *)

(* the first [n] bytes and the rest; None when fewer are available *)
Fixpoint take (n : nat) (l : bytes) : option (bytes * bytes) :=
  match n with
  | O => Some ([], l)
  | S m =>
      match l with
      | [] => None
      | x :: r => match take m r with Some (a, b) => Some (x :: a, b) | None => None end
      end
  end.

(* size-checked before converting to unary *)
Definition takeN (n : N) (l : bytes) : option (bytes * bytes) :=
  if lenN l <? n then None else take (N.to_nat n) l.

(* [cnt] little-endian unsigned integers of [sz] bytes each *)
Fixpoint read_uints (cnt sz : nat) (data : bytes) : option (list N * bytes) :=
  match cnt with
  | O => Some ([], data)
  | S c =>
      match take sz data with
      | Some (a, r) =>
          match read_uints c sz r with
          | Some (xs, r') => Some (of_le a :: xs, r')
          | None => None
          end
      | None => None
      end
  end.

Definition read_uint (sz : nat) (data : bytes) : option (N * bytes) :=
  match take sz data with Some (a, r) => Some (of_le a, r) | None => None end.

Section MapOpt.
  Context {A B : Type}.
  Variable f : A -> option B.
  Fixpoint map_opt (l : list A) : option (list B) :=
    match l with
    | [] => Some []
    | x :: r =>
        match f x with
        | Some y => match map_opt r with Some ys => Some (y :: ys) | None => None end
        | None => None
        end
    end.
End MapOpt.

Fixpoint memb (k : bytes) (l : list bytes) : bool :=
  match l with [] => false | x :: r => beq k x || memb k r end.
Fixpoint nodupb (l : list bytes) : bool :=
  match l with [] => true | x :: r => negb (memb x r) && nodupb r end.

(* byte range [a, b) of [data] *)
Definition slice (data : bytes) (ab : N * N) : option bytes :=
  let '(a, b) := ab in
  if (b <? a) || (lenN data <? b) then None
  else Some (firstn (N.to_nat (b - a)) (skipn (N.to_nat a) data)).

(* metadata: header (version | sorted << 4 | (offset_size-1) << 6), dictionary_size,
   dictionary_size+1 offsets, string bytes *)
Definition decode_metadata (data : bytes) : option (dict * bool) :=
  match data with
  | [] => None
  | h :: r0 =>
      if negb (h mod 16 =? 1) then None else
      let sorted := (h / 16) mod 2 =? 1 in
      let osz := osz_of ((h / 64) mod 4) in
      match read_uint osz r0 with
      | Some (n, r1) =>
          if lenN r1 <? n then None else
          match read_uints (S (N.to_nat n)) osz r1 with
          | Some (offs, strs) =>
              match map_opt (slice strs) (combine offs (tl offs)) with
              | Some d => Some (d, sorted)
              | None => None
              end
          | None => None
          end
      | None => None
      end
  end.

Definition dec_prim (t : N) (rest : bytes) : option value :=
  match t with
  | 0 => Some VNull
  | 1 => Some (VBool true)
  | 2 => Some (VBool false)
  | 15 =>
      match read_uint 4 rest with
      | Some (n, r) => match takeN n r with Some (b, _) => Some (VBinary b) | None => None end
      | None => None
      end
  | 16 =>
      match read_uint 4 rest with
      | Some (n, r) => match takeN n r with Some (b, _) => Some (VString b) | None => None end
      | None => None
      end
  | 20 => match take 16 rest with Some (b, _) => Some (VUuid b) | None => None end
  | _ =>
      match int_kind_of_id t with
      | Some k =>
          match take (int_w k) rest with
          | Some (a, _) => Some (VInt k (sintZ (bitsN (int_w k)) (of_le a)))
          | None => None
          end
      | None =>
      match flt_kind_of_id t with
      | Some k =>
          match take (flt_w k) rest with
          | Some (a, _) => Some (VFlt k (of_le a))
          | None => None
          end
      | None =>
      match dec_kind_of_id t with
      | Some k =>
          match rest with
          | s :: r =>
              match take (dec_w k) r with
              | Some (a, _) => Some (VDec k s (sintZ (bitsN (dec_w k)) (of_le a)))
              | None => None
              end
          | [] => None
          end
      | None => None
      end end end
  end.

(* num_elements: 4 bytes when is_large, else 1 *)
Definition read_num (large : bool) (data : bytes) : option (N * bytes) :=
  read_uint (if large then 4 else 1)%nat data.

(* the value stored at [off] in the value area *)
Definition at_off (vals : bytes) (off : N) : option bytes :=
  if lenN vals <? off then None else Some (skipn (N.to_nat off) vals).

(* object: value_header = is_large << 4 | (field_id_size-1) << 2 | (offset_size-1);
   [rec] decodes a nested value *)
Definition dec_object (rec : bytes -> option value) (d : dict) (vh : N) (rest : bytes) : option value :=
  let osz := osz_of (vh mod 4) in
  let fsz := osz_of ((vh / 4) mod 4) in
  let large := (vh / 16) mod 2 =? 1 in
  match read_num large rest with
  | Some (n, r1) =>
      if lenN r1 <? n then None else
      match read_uints (N.to_nat n) fsz r1 with
      | Some (ids, r2) =>
          match read_uints (S (N.to_nat n)) osz r2 with
          | Some (offs, r3) =>
              match takeN (last offs 0) r3 with
              | Some (vals, _) =>
                  match map_opt (fun io : N * N =>
                           match nth_error d (N.to_nat (fst io)) with
                           | Some name =>
                               match at_off vals (snd io) with
                               | Some sub =>
                                   match rec sub with
                                   | Some x => Some (name, x)
                                   | None => None
                                   end
                               | None => None
                               end
                           | None => None
                           end) (combine ids offs) with
                  | Some fields =>
                      if nodupb (map fst fields) then Some (VObject fields) else None
                  | None => None
                  end
              | None => None
              end
          | None => None
          end
      | None => None
      end
  | None => None
  end.

(* array: value_header = is_large << 2 | (offset_size-1) *)
Definition dec_array (rec : bytes -> option value) (vh : N) (rest : bytes) : option value :=
  let osz := osz_of (vh mod 4) in
  let large := (vh / 4) mod 2 =? 1 in
  match read_num large rest with
  | Some (n, r1) =>
      if lenN r1 <? n then None else
      match read_uints (S (N.to_nat n)) osz r1 with
      | Some (offs, r3) =>
          match takeN (last offs 0) r3 with
          | Some (vals, _) =>
              match map_opt (fun off : N =>
                       match at_off vals off with
                       | Some sub => rec sub
                       | None => None
                       end) (removelast offs) with
              | Some elems => Some (VArray elems)
              | None => None
              end
          | None => None
          end
      | None => None
      end
  | None => None
  end.

Definition dec_short (vh : N) (rest : bytes) : option value :=
  match takeN vh rest with Some (s, _) => Some (VString s) | None => None end.

(* value_metadata byte: basic_type in the low 2 bits, value_header above *)
Fixpoint dec (fuel : nat) (d : dict) (data : bytes) {struct fuel} : option value :=
  match fuel with
  | O => None
  | S f =>
      match data with
      | [] => None
      | h :: rest =>
          match h mod 4 with
          | 0 => dec_prim (h / 4) rest
          | 1 => dec_short (h / 4) rest
          | 2 => dec_object (dec f d) d (h / 4) rest
          | _ => dec_array (dec f d) (h / 4) rest
          end
      end
  end.

Definition decode_value (d : dict) (data : bytes) : option value :=
  dec (S (length data)) d data.

(* variant.DecodeMetadata + variant.Decode *)
Definition decode (meta data : bytes) : option value :=
  match decode_metadata meta with
  | Some (d, _) => decode_value d data
  | None => None
  end.

(** * Well-formed trees *)

Definition wf_int (k : int_kind) (z : Z) : Prop := in_sint (bitsN (int_w k)) z.
Definition wf_key (k : bytes) : Prop := wf_bytes k.

Fixpoint wf (v : value) : Prop :=
  match v with
  | VNull | VBool _ => True
  | VInt k z => in_sint (bitsN (int_w k)) z
  | VFlt k bits => bits < 2 ^ bitsN (flt_w k)
  | VDec k scale z => scale < 256 /\ in_sint (bitsN (dec_w k)) z
  | VBinary b => wf_bytes b
  | VString s => wf_bytes s
  | VUuid b => wf_bytes b /\ length b = 16%nat
  | VArray l => (fix all (l : list value) : Prop :=
                   match l with [] => True | x :: r => wf x /\ all r end) l
  | VObject fs =>
      NoDup (map fst fs) /\
      (fix all (fs : list (bytes * value)) : Prop :=
         match fs with [] => True | (k, x) :: r => wf_bytes k /\ wf x /\ all r end) fs
  end.

(* every object lists its fields in increasing name order: [canon] is the identity *)
Fixpoint key_sorted (v : value) : Prop :=
  match v with
  | VArray l => (fix all (l : list value) : Prop :=
                   match l with [] => True | x :: r => key_sorted x /\ all r end) l
  | VObject fs =>
      sortedb (map fst fs) = true /\
      (fix all (fs : list (bytes * value)) : Prop :=
         match fs with [] => True | (k, x) :: r => key_sorted x /\ all r end) fs
  | _ => True
  end.

(* the encoding fits the format: 4-byte offsets, 4-byte dictionary offsets *)
Definition encodable (v : value) : Prop :=
  let '(d, b) := enc_st [] v in
  lenN b < 2 ^ 32 /\ lenN d < 2 ^ 32 /\ lenN (concat d) < 2 ^ 32.
