(** C19 — executable model of variant shredding and reconstruction
    (/repo/variant_shredded_write.go, /repo/variant_shredded_read.go).
    A shredding schema is a tree of (value, typed_value) groups; [shred] maps a
    variant value to the nested row fragment the writer stores (which of
    value / typed_value is non-null at each group, the typed leaf values, the
    residual values); [reconstruct] is the reader's construct_variant.  The
    Dremel level arithmetic that flattens the fragment into leaf columns is not
    modelled here (property C03); [frag_columns] lists the non-null values per
    leaf column for comparison with real files.  No proofs here. *)
From Coq Require Import List NArith ZArith Bool Arith Lia.
From PQ Require Import Base.Bytes Variant.Model.
Import ListNotations.
Open Scope N_scope.

(** * Typed leaves *)

(* the types variantTypedValueNode / validateShreddedPrimitiveType accept *)
Inductive ptype :=
| PTBool
| PTInt (k : int_kind)      (* INT(8/16/32/64), plain INT32/INT64, DATE, TIME(micros), TIMESTAMP(micros|nanos, utc?) *)
| PTFlt (k : flt_kind)
| PTString
| PTBinary
| PTDec (k : dec_kind) (precision scale : Z)  (* DECIMAL over INT32 / INT64 / 16-byte (FLBA(16) or BYTE_ARRAY) *)
| PTUuid.

(* a parquet leaf value *)
Inductive pval :=
| PBool (b : bool)
| PI32 (z : Z)
| PI64 (z : Z)
| PF32 (bits : N)
| PF64 (bits : N)
| PBytes (b : bytes).

Definition int_kind_eqb (a b : int_kind) : bool := int_id a =? int_id b.
Definition flt_kind_eqb (a b : flt_kind) : bool := flt_id a =? flt_id b.
Definition dec_kind_eqb (a b : dec_kind) : bool := dec_id a =? dec_id b.

Definition to_i32 (z : Z) : Z := sintZ 32 (wrapZ 32 z).   (* int32(x) *)

(* decimal64FitsPrecision / decimal128FitsPrecision: |unscaled| < 10^precision *)
Definition fits_precision (k : dec_kind) (z : Z) (precision : Z) : bool :=
  match k with
  | D16 => if (39 <=? precision)%Z then true else (Z.abs z <? 10 ^ precision)%Z
  | _ => if (19 <=? precision)%Z then true else ((- 10 ^ precision <? z) && (z <? 10 ^ precision))%Z
  end.

(* variantToParquetValue: exact type match only *)
Definition to_parquet (t : ptype) (v : value) : option pval :=
  match t, v with
  | PTBool, VBool b => Some (PBool b)
  | PTInt k, VInt k' z =>
      if int_kind_eqb k k' then
        Some (if (int_w k <=? 4)%nat then PI32 (to_i32 z) else PI64 z)
      else None
  | PTFlt k, VFlt k' bits =>
      if flt_kind_eqb k k' then Some (match k with F32 => PF32 bits | F64 => PF64 bits end) else None
  | PTString, VString s => Some (PBytes s)
  | PTBinary, VBinary b => Some (PBytes b)
  | PTDec k precision scale, VDec k' s z =>
      if dec_kind_eqb k k' && (scale =? Z.of_N s)%Z && fits_precision k z precision then
        Some (match k with
              | D4 => PI32 (to_i32 z)
              | D8 => PI64 z
              | D16 => PBytes (rev (to_le 16 (wrapZ 128 z)))   (* littleEndianToBigEndian16 *)
              end)
      else None
  | PTUuid, VUuid b => Some (PBytes b)
  | _, _ => None
  end.

(* bigEndianToLittleEndian16: sign-extend up to 16 bytes *)
Definition be_to_le16 (b : bytes) : bytes :=
  let l := rev b in
  let neg := match b with x :: _ => 128 <=? x | [] => false end in
  l ++ repeat (if neg then 255 else 0) (16 - length l).

(* parquetToVariantValue *)
Definition of_parquet (t : ptype) (p : pval) : option value :=
  match t, p with
  | PTBool, PBool b => Some (VBool b)
  | PTInt k, PI32 z =>
      if (int_w k <=? 4)%nat then Some (VInt k (sintZ (bitsN (int_w k)) (wrapZ (bitsN (int_w k)) z))) else None
  | PTInt k, PI64 z => if (int_w k <=? 4)%nat then None else Some (VInt k z)
  | PTFlt F32, PF32 bits => Some (VFlt F32 bits)
  | PTFlt F64, PF64 bits => Some (VFlt F64 bits)
  | PTString, PBytes s => Some (VString s)
  | PTBinary, PBytes b => Some (VBinary b)
  | PTDec D4 _ scale, PI32 z => Some (VDec D4 (Z.to_N scale mod 256) z)
  | PTDec D8 _ scale, PI64 z => Some (VDec D8 (Z.to_N scale mod 256) z)
  | PTDec D16 _ scale, PBytes b =>
      if (16 <? length b)%nat then None
      else Some (VDec D16 (Z.to_N scale mod 256) (sintZ 128 (of_le (be_to_le16 b))))
  | PTUuid, PBytes b => if (length b =? 16)%nat then Some (VUuid b) else None
  | _, _ => None
  end.

(** * Shredding schemas: one node per (value, typed_value) group *)

Inductive schema :=
| SNone                               (* no typed_value: everything goes to value *)
| SPrim (t : ptype)                   (* typed_value is a leaf *)
| SList (e : schema)                  (* typed_value is a LIST of element groups *)
| SObj (fs : list (bytes * schema)).  (* typed_value is a group of field groups *)

(** * Row fragments: the content of one occurrence of a group.
    [r] is the value column (None = null); the constructor tells what
    typed_value holds.  [R] is the representation of residual values: value
    trees, or their variant encoding. *)
Inductive frag (R : Type) :=
| FNone (r : option R)                       (* typed_value null; both null = missing *)
| FPrim (r : option R) (p : pval)
| FList (r : option R) (es : list (frag R))
| FObj (r : option R) (fs : list (frag R)).  (* one fragment per schema field, schema order *)
Arguments FNone {R}. Arguments FPrim {R}. Arguments FList {R}. Arguments FObj {R}.

(* findVariantField: first field with that name *)
Fixpoint find_field (name : bytes) (fs : list (bytes * value)) : option value :=
  match fs with
  | [] => None
  | (k, x) :: r => if beq k name then Some x else find_field name r
  end.

Definition schema_names (fs : list (bytes * schema)) : list bytes := map fst fs.

Section ShredFields.
  Variable shred : schema -> value -> frag value.
  Variable ofs : list (bytes * value).
  (* writeObject, first loop: every schema field, present or missing *)
  Fixpoint shred_fields (fs : list (bytes * schema)) : list (frag value) :=
    match fs with
    | [] => []
    | (name, g) :: r =>
        (match find_field name ofs with
         | Some fv => shred g fv
         | None => FNone None
         end) :: shred_fields r
    end.
End ShredFields.

(* shreddedVariantGroup.write with present = true *)
Fixpoint shred (s : schema) (v : value) {struct s} : frag value :=
  match s with
  | SNone => FNone (Some v)                                   (* writeValueFallback *)
  | SPrim t =>
      match to_parquet t v with
      | Some p => FPrim None p
      | None => FNone (Some v)
      end
  | SList e =>
      match v with
      | VArray l => FList None (map (shred e) l)             (* writeList *)
      | _ => FNone (Some v)
      end
  | SObj fs =>
      match v with
      | VObject ofs =>                                        (* writeObject *)
          let residual := filter (fun kv : bytes * value => negb (memb (fst kv) (schema_names fs))) ofs in
          FObj (match residual with [] => None | _ => Some (VObject residual) end)
               (shred_fields shred ofs fs)
      | _ => FNone (Some v)
      end
  end.

(** reconstruction result: None = error, Some None = missing (value and
    typed_value both null), Some (Some v) = present *)
Section RecFields.
  Variable reconstruct : schema -> frag value -> option (option value).
  (* readObject: missing fields are omitted *)
  Fixpoint rec_fields (fs : list (bytes * schema)) (ffs : list (frag value)) : option (list (bytes * value)) :=
    match fs, ffs with
    | [], [] => Some []
    | (name, g) :: r, f :: fr =>
        match reconstruct g f with
        | Some o =>
            match rec_fields r fr with
            | Some rest => Some (match o with Some x => (name, x) :: rest | None => rest end)
            | None => None
            end
        | None => None
        end
    | _, _ => None
    end.
End RecFields.

Definition or_null (o : option value) : value := match o with Some v => v | None => VNull end.

(* shreddedVariantGroup.read *)
Fixpoint reconstruct (s : schema) (f : frag value) {struct s} : option (option value) :=
  match s, f with
  | _, FNone r => Some r                                     (* typed_value null: the value column *)
  | SPrim t, FPrim r p =>
      match r with
      | Some _ => None                                       (* both non-null *)
      | None => match of_parquet t p with Some v => Some (Some v) | None => None end
      end
  | SList e, FList r es =>
      match r with
      | Some _ => None
      | None =>
          match map_opt (reconstruct e) es with              (* readList: missing elements read as null *)
          | Some os => Some (Some (VArray (map or_null os)))
          | None => None
          end
      end
  | SObj fs, FObj r ffs =>
      match rec_fields reconstruct fs ffs with
      | Some fields =>
          match r with
          | None => Some (Some (VObject fields))
          | Some (VObject rfs) =>                            (* partially shredded: append residual fields *)
              Some (Some (VObject (fields ++
                 filter (fun kv : bytes * value => negb (memb (fst kv) (schema_names fs))) rfs)))
          | Some _ => None
          end
      | None => None
      end
  | _, _ => None
  end.

(** * Residual values as variant binary sharing the row dictionary *)

Fixpoint frag_map {A B} (g : A -> B) (f : frag A) : frag B :=
  match f with
  | FNone r => FNone (option_map g r)
  | FPrim r p => FPrim (option_map g r) p
  | FList r es => FList (option_map g r) (map (frag_map g) es)
  | FObj r fs => FObj (option_map g r) (map (frag_map g) fs)
  end.

Definition opt_mapM {A B} (g : A -> option B) (o : option A) : option (option B) :=
  match o with
  | None => Some None
  | Some a => match g a with Some b => Some (Some b) | None => None end
  end.

Fixpoint frag_mapM {A B} (g : A -> option B) (f : frag A) : option (frag B) :=
  match f with
  | FNone r => match opt_mapM g r with Some r' => Some (FNone r') | None => None end
  | FPrim r p => match opt_mapM g r with Some r' => Some (FPrim r' p) | None => None end
  | FList r es =>
      match opt_mapM g r, map_opt (frag_mapM g) es with
      | Some r', Some es' => Some (FList r' es')
      | _, _ => None
      end
  | FObj r fs =>
      match opt_mapM g r, map_opt (frag_mapM g) fs with
      | Some r', Some fs' => Some (FObj r' fs')
      | _, _ => None
      end
  end.

(* addVariantFieldNames: every field name of the value, pre-order, into the builder *)
Section NamesLists.
  Variable names : dict -> value -> dict.
  Fixpoint names_elems (d : dict) (l : list value) : dict :=
    match l with [] => d | x :: r => names_elems (names d x) r end.
  Fixpoint names_fields (d : dict) (fs : list (bytes * value)) : dict :=
    match fs with [] => d | (k, x) :: r => names_fields (names (fst (dict_add d k)) x) r end.
End NamesLists.
Fixpoint names_st (d : dict) (v : value) {struct v} : dict :=
  match v with
  | VArray l => names_elems names_st d l
  | VObject fs => names_fields names_st d fs
  | _ => d
  end.

(* the shredded write of one row: row dictionary (metadata column) and the
   fragment with residuals encoded by variant.Encode against that dictionary *)
Definition shred_row (s : schema) (v : value) : dict * frag bytes :=
  let d := names_st [] v in
  (d, frag_map (fun x => snd (enc_st d x)) (shred s v)).

(* the shredded read of one row *)
Definition reconstruct_row (s : schema) (d : dict) (f : frag bytes) : option (option value) :=
  match frag_mapM (decode_value d) f with
  | Some f' => reconstruct s f'
  | None => None
  end.

(* bytes level: metadata column content + fragment *)
Definition shred_bytes (s : schema) (v : value) : bytes * frag bytes :=
  let '(d, f) := shred_row s v in (encode_metadata d, f).
Definition reconstruct_bytes (s : schema) (meta : bytes) (f : frag bytes) : option (option value) :=
  match decode_metadata meta with
  | Some (d, _) => reconstruct_row s d f
  | None => None
  end.

(** * Leaf columns (for comparison with files): the non-null values of every
    leaf column of the group, in schema order: value, then typed_value's leaves *)

Inductive leafval := LBytes (b : bytes) | LVal (p : pval).

Fixpoint ncols (s : schema) : nat :=
  S (match s with
     | SNone => 0
     | SPrim _ => 1
     | SList e => ncols e
     | SObj fs => (fix go (fs : list (bytes * schema)) : nat :=
                     match fs with [] => 0 | (_, g) :: r => ncols g + go r end) fs
     end)%nat.

Fixpoint zip_app {A} (a b : list (list A)) : list (list A) :=
  match a, b with
  | x :: a', y :: b' => (x ++ y) :: zip_app a' b'
  | [], _ => b
  | _, [] => a
  end.

Definition rcol (r : option bytes) : list leafval :=
  match r with Some b => [LBytes b] | None => [] end.

Fixpoint frag_columns (s : schema) (f : frag bytes) {struct s} : list (list leafval) :=
  match s, f with
  | SNone, FNone r => [rcol r]
  | SPrim _, FNone r => [rcol r; []]
  | SPrim _, FPrim r p => [rcol r; [LVal p]]
  | SList e, FNone r => rcol r :: repeat [] (ncols e)
  | SList e, FList r es =>
      rcol r :: fold_left (fun acc x => zip_app acc (frag_columns e x)) es (repeat [] (ncols e))
  | SObj fs, FNone r => rcol r :: repeat [] (pred (ncols s))
  | SObj fs, FObj r ffs =>
      rcol r :: (fix go (fs : list (bytes * schema)) (ffs : list (frag bytes)) : list (list leafval) :=
                   match fs, ffs with
                   | (_, g) :: fr, x :: xr => frag_columns g x ++ go fr xr
                   | (_, g) :: fr, [] => repeat [] (ncols g) ++ go fr []
                   | [], _ => []
                   end) fs ffs
  | _, _ => repeat [] (ncols s)
  end.

(** * Well-formed schemas: field names of a group are distinct (a parquet
    group), and typed decimals have a sensible scale *)
Definition wf_ptype (t : ptype) : Prop :=
  match t with PTDec _ _ scale => (0 <= scale < 256)%Z | _ => True end.

Fixpoint wf_schema (s : schema) : Prop :=
  match s with
  | SNone => True
  | SPrim t => wf_ptype t
  | SList e => wf_schema e
  | SObj fs =>
      NoDup (map fst fs) /\
      (fix all (fs : list (bytes * schema)) : Prop :=
         match fs with [] => True | (_, g) :: r => wf_schema g /\ all r end) fs
  end.
