(** C19 — [Variant/Header.v] is the prefix of the model encoder. *)
From Coq Require Import List NArith ZArith Bool Arith Lia.
From PQ Require Import Base.Bytes Variant.Model Variant.BaseLemmas Variant.Header.
Import ListNotations.
Open Scope N_scope.

Lemma lenN_map {A B} (f : A -> B) (l : list A) : lenN (map f l) = lenN l.
Proof. unfold lenN. now rewrite map_length. Qed.

Lemma lenN_concat (l : list bytes) : lenN (concat l) = sumN (map lenN l).
Proof.
  induction l as [|a l IH]; [reflexivity|].
  cbn [concat map sumN fold_right]. rewrite lenN_app. fold (sumN (map lenN l)). now rewrite IH.
Qed.

Lemma max_id_map (es : list entry) :
  max_id es = fold_right N.max 0 (map (fun e : entry => N.of_nat (fst (snd e))) es).
Proof. induction es as [|e es IH]; [reflexivity|]. cbn [max_id map fold_right]. fold (max_id es). now rewrite IH. Qed.

Lemma build_array_header encs :
  build_array encs = array_header (map lenN encs) ++ concat encs.
Proof.
  unfold build_array, array_header. rewrite lenN_map, lenN_concat.
  cbn [app]. now rewrite <- app_assoc.
Qed.

Lemma build_object_header (es : list entry) :
  build_object es =
  object_header (map (fun e : entry => N.of_nat (fst (snd e))) es)
                (map (fun e : entry => lenN (snd (snd e))) es)
  ++ concat (map (fun e : entry => snd (snd e)) es).
Proof.
  unfold build_object, object_header.
  rewrite !lenN_map, lenN_concat, map_map, <- max_id_map.
  cbn [app]. now rewrite <- !app_assoc.
Qed.

Lemma encode_metadata_header d :
  encode_metadata d = metadata_header (sortedb d) (map lenN d) ++ concat d.
Proof.
  unfold encode_metadata, metadata_header. rewrite lenN_map, lenN_concat.
  cbn [app]. now rewrite <- !app_assoc.
Qed.
