(** C19 — decode inverts encode: for every well-formed value tree whose
    encoding fits the format, the specification decoder applied to the bytes
    of the Go-mirroring encoder returns the tree with its object fields in
    name order ([canon]). *)
From Coq Require Import List NArith ZArith Bool Arith Lia Permutation.
From Coq Require Import ZifyN ZifyNat ZifyBool.
From PQ Require Import Base.Bytes Base.ListExtra Variant.Model Variant.BaseLemmas.
Import ListNotations.
Open Scope N_scope.

(** * induction over value trees *)
Section ValueInd.
  Variable P : value -> Prop.
  Hypothesis Hnull : P VNull.
  Hypothesis Hbool : forall b, P (VBool b).
  Hypothesis Hint : forall k z, P (VInt k z).
  Hypothesis Hflt : forall k b, P (VFlt k b).
  Hypothesis Hdec : forall k s z, P (VDec k s z).
  Hypothesis Hbin : forall b, P (VBinary b).
  Hypothesis Hstr : forall b, P (VString b).
  Hypothesis Huuid : forall b, P (VUuid b).
  Hypothesis Harr : forall l, Forall P l -> P (VArray l).
  Hypothesis Hobj : forall fs, Forall (fun kv => P (snd kv)) fs -> P (VObject fs).

  Fixpoint value_ind' (v : value) : P v :=
    match v with
    | VNull => Hnull
    | VBool b => Hbool b
    | VInt k z => Hint k z
    | VFlt k b => Hflt k b
    | VDec k s z => Hdec k s z
    | VBinary b => Hbin b
    | VString b => Hstr b
    | VUuid b => Huuid b
    | VArray l =>
        Harr l ((fix go (l : list value) : Forall P l :=
                   match l with
                   | [] => Forall_nil _
                   | x :: r => Forall_cons x (value_ind' x) (go r)
                   end) l)
    | VObject fs =>
        Hobj fs ((fix go (fs : list (bytes * value)) : Forall (fun kv => P (snd kv)) fs :=
                    match fs with
                    | [] => Forall_nil _
                    | kv :: r => Forall_cons kv (value_ind' (snd kv)) (go r)
                    end) fs)
    end.
End ValueInd.

Lemma wf_array l : wf (VArray l) <-> Forall wf l.
Proof.
  cbn [wf]. induction l as [|x l IH]; [split; [constructor|exact (fun _ => I)]|].
  rewrite IH. split; [intros [H1 H2]; now constructor|intros H; inversion H; auto].
Qed.

Lemma wf_object fs : wf (VObject fs) <->
  NoDup (map fst fs) /\ Forall (fun kv => wf_bytes (fst kv) /\ wf (snd kv)) fs.
Proof.
  cbn [wf]. apply and_iff_compat_l.
  induction fs as [|[k x] fs IH]; [split; [constructor|exact (fun _ => I)]|].
  rewrite IH. split.
  - intros (H1 & H2 & H3). constructor; auto.
  - intros H. inversion H as [|? ? [Ha Hb] Hc]; subst. auto.
Qed.

(** * value_metadata byte *)
Lemma hdr_mod b v : b < 4 -> (b + 4 * v) mod 4 = b.
Proof.
  intros H. rewrite (N.mul_comm 4 v), N.mod_add by discriminate. now apply N.mod_small.
Qed.
Lemma hdr_div b v : b < 4 -> (b + 4 * v) / 4 = v.
Proof.
  intros H. rewrite (N.mul_comm 4 v), N.div_add by discriminate.
  rewrite (N.div_small b 4) by exact H. lia.
Qed.

Lemma dec_S f d h rest : dec (S f) d (h :: rest) =
  match h mod 4 with
  | 0 => dec_prim (h / 4) rest
  | 1 => dec_short (h / 4) rest
  | 2 => dec_object (dec f d) d (h / 4) rest
  | _ => dec_array (dec f d) (h / 4) rest
  end.
Proof. reflexivity. Qed.

Lemma pow256 w : 256 ^ N.of_nat w = 2 ^ bitsN w.
Proof. unfold bitsN. rewrite N.pow_mul_r. reflexivity. Qed.

Lemma bitsN_pos w : (0 < w)%nat -> 0 < bitsN w.
Proof. unfold bitsN. lia. Qed.

(** * primitives *)
Lemma dec_int k z rest : in_sint (bitsN (int_w k)) z ->
  dec_prim (int_id k) (to_le (int_w k) (wrapZ (bitsN (int_w k)) z) ++ rest) = Some (VInt k z).
Proof.
  intros Hz.
  assert (E : dec_prim (int_id k) (to_le (int_w k) (wrapZ (bitsN (int_w k)) z) ++ rest) =
              match take (int_w k) (to_le (int_w k) (wrapZ (bitsN (int_w k)) z) ++ rest) with
              | Some (a, _) => Some (VInt k (sintZ (bitsN (int_w k)) (of_le a)))
              | None => None
              end) by (destruct k; reflexivity).
  rewrite E, take_app_n by apply to_le_length.
  rewrite of_le_to_le by (rewrite pow256; apply wrapZ_lt).
  rewrite sintZ_wrapZ; [reflexivity| |exact Hz]. apply bitsN_pos. destruct k; cbn; lia.
Qed.

Lemma dec_flt k bits rest : bits < 2 ^ bitsN (flt_w k) ->
  dec_prim (flt_id k) (to_le (flt_w k) bits ++ rest) = Some (VFlt k bits).
Proof.
  intros Hb.
  assert (E : dec_prim (flt_id k) (to_le (flt_w k) bits ++ rest) =
              match take (flt_w k) (to_le (flt_w k) bits ++ rest) with
              | Some (a, _) => Some (VFlt k (of_le a))
              | None => None
              end) by (destruct k; reflexivity).
  rewrite E, take_app_n by apply to_le_length.
  now rewrite of_le_to_le by (rewrite pow256; exact Hb).
Qed.

Lemma dec_dec k s z rest : s < 256 -> in_sint (bitsN (dec_w k)) z ->
  dec_prim (dec_id k) ((s mod 256) :: to_le (dec_w k) (wrapZ (bitsN (dec_w k)) z) ++ rest) = Some (VDec k s z).
Proof.
  intros Hs Hz. rewrite (N.mod_small s 256) by exact Hs.
  assert (E : dec_prim (dec_id k) (s :: to_le (dec_w k) (wrapZ (bitsN (dec_w k)) z) ++ rest) =
              match take (dec_w k) (to_le (dec_w k) (wrapZ (bitsN (dec_w k)) z) ++ rest) with
              | Some (a, _) => Some (VDec k s (sintZ (bitsN (dec_w k)) (of_le a)))
              | None => None
              end) by (destruct k; reflexivity).
  rewrite E, take_app_n by apply to_le_length.
  rewrite of_le_to_le by (rewrite pow256; apply wrapZ_lt).
  rewrite sintZ_wrapZ; [reflexivity| |exact Hz]. apply bitsN_pos. destruct k; cbn; lia.
Qed.

Definition is_prim (v : value) : Prop :=
  match v with VArray _ | VObject _ => False | _ => True end.

Lemma enc_prim_nonempty v : (1 <= length (enc_prim v))%nat.
Proof.
  destruct v; cbn; try lia.
  - destruct b; cbn; lia.
  - destruct (lenN b <=? 63); cbn; lia.
Qed.

Lemma dec_enc_prim v f d rest : is_prim v -> wf v -> lenN (enc_prim v) < 2 ^ 32 ->
  dec (S f) d (enc_prim v ++ rest) = Some v.
Proof.
  intros Hp Hw Hl. destruct v; try contradiction; cbn [enc_prim app] in *.
  - reflexivity.
  - destruct b; reflexivity.
  - rewrite dec_S. unfold hdr. rewrite hdr_mod, hdr_div by lia. now apply dec_int.
  - rewrite dec_S. unfold hdr. rewrite hdr_mod, hdr_div by lia. now apply dec_flt.
  - destruct Hw as [Hs Hz]. rewrite dec_S. unfold hdr. rewrite hdr_mod, hdr_div by lia.
    now apply dec_dec.
  - (* binary *)
    rewrite dec_S. unfold hdr, id_binary. rewrite hdr_mod, hdr_div by lia.
    rewrite lenN_cons, lenN_app in Hl. unfold lenN at 1 in Hl. rewrite to_le_length in Hl.
    unfold dec_prim. rewrite <- app_assoc, read_uint_to_le by (change (256 ^ N.of_nat 4) with (2 ^ 32); lia).
    now rewrite takeN_app.
  - (* string *)
    destruct (N.leb_spec (lenN b) 63) as [Hs|Hs]; cbn [app].
    + rewrite dec_S. unfold hdr. rewrite hdr_mod, hdr_div by lia.
      unfold dec_short. now rewrite takeN_app.
    + rewrite dec_S. unfold hdr, id_string. rewrite hdr_mod, hdr_div by lia.
      rewrite lenN_cons, lenN_app in Hl. unfold lenN at 1 in Hl. rewrite to_le_length in Hl.
      unfold dec_prim. rewrite <- app_assoc, read_uint_to_le by (change (256 ^ N.of_nat 4) with (2 ^ 32); lia).
      now rewrite takeN_app.
  - (* uuid *)
    destruct Hw as [Hb H16]. rewrite dec_S. unfold hdr, id_uuid. rewrite hdr_mod, hdr_div by lia.
    unfold dec_prim. now rewrite take_app_n by exact H16.
Qed.

(** * offsets and value areas *)
Definition sumN (l : list N) : N := fold_right N.add 0 l.

Lemma sum_lens (encs : list bytes) : sumN (map lenN encs) = lenN (concat encs).
Proof. induction encs as [|b r IH]; cbn; [reflexivity|]. unfold sumN in IH. rewrite IH, lenN_app. lia. Qed.

Lemma psums_nonnil acc l : psums acc l <> [].
Proof. destruct l; discriminate. Qed.

Lemma psums_last acc l : last (psums acc l) 0 = acc + sumN l.
Proof.
  revert acc. induction l as [|x l IH]; intros acc; [cbn; lia|].
  cbn [psums]. rewrite last_cons, (last_nonempty_default _ acc 0) by apply psums_nonnil.
  rewrite IH. cbn. lia.
Qed.

Lemma psums_bound acc l : Forall (fun x => x <= acc + sumN l) (psums acc l).
Proof.
  revert acc. induction l as [|x l IH]; intros acc; cbn [psums sumN fold_right].
  - constructor; [lia|constructor].
  - constructor; [lia|]. eapply Forall_impl; [|apply IH]. cbn. intros a Ha. fold (sumN l). lia.
Qed.

Lemma psums_removelast acc x l : removelast (psums acc (x :: l)) = acc :: removelast (psums (acc + x) l).
Proof. cbn [psums removelast]. destruct (psums (acc + x) l) eqn:E; [now apply psums_nonnil in E|reflexivity]. Qed.

Lemma at_off_app p s : at_off (p ++ s) (lenN p) = Some s.
Proof.
  unfold at_off. rewrite lenN_app. destruct (N.ltb_spec (lenN p + lenN s) (lenN p)); [lia|].
  rewrite to_nat_lenN. now rewrite skipn_app_exact.
Qed.

Lemma in_concat_le {A} (x : list A) l : In x l -> (length x <= length (concat l))%nat.
Proof.
  induction l as [|y l IH]; intros H; [contradiction|]. cbn. rewrite app_length.
  destruct H as [->|H]; [lia|]. specialize (IH H). lia.
Qed.

(* elements of an array: the value at each offset decodes to the element *)
Lemma dec_elems_region (rec : bytes -> option value) encs xs :
  Forall2 (fun b x => forall rest, rec (b ++ rest) = Some x) encs xs ->
  forall p,
  map_opt (fun off : N => match at_off (p ++ concat encs) off with Some sub => rec sub | None => None end)
          (removelast (psums (lenN p) (map lenN encs))) = Some xs.
Proof.
  induction 1 as [|b x encs xs Hb H IH]; intros p; [reflexivity|].
  cbn [map]. rewrite psums_removelast. cbn [map_opt concat].
  rewrite at_off_app, Hb.
  specialize (IH (p ++ b)). rewrite lenN_app, <- app_assoc in IH. now rewrite IH.
Qed.

Definition entry_id (e : entry) : N := N.of_nat (fst (snd e)).
Definition entry_enc (e : entry) : bytes := snd (snd e).

(* fields of an object: the id names the field, the value at its offset decodes *)
Definition field_ok (rec : bytes -> option value) (d : dict) (cf : bytes * value) (e : entry) : Prop :=
  fst cf = fst e /\ nth_error d (fst (snd e)) = Some (fst e) /\
  forall rest, rec (entry_enc e ++ rest) = Some (snd cf).

Lemma dec_fields_region rec d cfs es :
  Forall2 (field_ok rec d) cfs es ->
  forall p,
  map_opt (fun io : N * N =>
     match nth_error d (N.to_nat (fst io)) with
     | Some name =>
         match at_off (p ++ concat (map entry_enc es)) (snd io) with
         | Some sub => match rec sub with Some x => Some (name, x) | None => None end
         | None => None
         end
     | None => None
     end) (combine (map entry_id es) (psums (lenN p) (map lenN (map entry_enc es)))) = Some cfs.
Proof.
  induction 1 as [|cf e cfs es (Hk & Hid & Hb) H IH]; intros p; [reflexivity|].
  cbn [map psums combine map_opt concat fst snd].
  unfold entry_id at 1. rewrite Nat2N.id, Hid, at_off_app, Hb.
  specialize (IH (p ++ entry_enc e)). rewrite lenN_app, <- app_assoc in IH. rewrite IH.
  destruct cf as [k x]. cbn in *. now subst.
Qed.

Lemma lenN_write_uints sz xs : lenN (write_uints sz xs) = N.of_nat sz * lenN xs.
Proof. unfold lenN. rewrite write_uints_length. lia. Qed.

Lemma osz_ge1 c : 1 <= N.of_nat (osz_of c).
Proof. unfold osz_of. lia. Qed.

Lemma read_num_elems n rest : n < 2 ^ 32 ->
  read_num (255 <? n) (num_elems n ++ rest) = Some (n, rest).
Proof.
  intros H. unfold read_num, num_elems. destruct (N.ltb_spec 255 n).
  - apply read_uint_to_le. change (256 ^ N.of_nat 4) with (2 ^ 32). exact H.
  - apply read_uint_to_le. cbn. lia.
Qed.

Lemma num_elems_len n : 1 <= lenN (num_elems n).
Proof. unfold num_elems, lenN. destruct (255 <? n); rewrite to_le_length; lia. Qed.

Lemma large_flag (b : bool) : ((if b then 1 else 0) mod 2 =? 1) = b.
Proof. destruct b; reflexivity. Qed.

(** * arrays *)
Lemma array_header encs :
  exists body, build_array encs =
    (3 + 4 * (offset_size_code (lenN (concat encs)) + 4 * (if 255 <? lenN encs then 1 else 0))) :: body /\
    body = num_elems (lenN encs)
             ++ write_uints (osz_of (offset_size_code (lenN (concat encs)))) (psums 0 (map lenN encs))
             ++ concat encs.
Proof. eexists. split; [|reflexivity]. unfold build_array. f_equal. lia. Qed.

Lemma dec_build_array rec encs xs rest :
  Forall2 (fun b x => forall rest, rec (b ++ rest) = Some x) encs xs ->
  lenN (build_array encs) < 2 ^ 32 ->
  exists h body, build_array encs = h :: body /\ h mod 4 = 3 /\
    dec_array rec (h / 4) (body ++ rest) = Some (VArray xs).
Proof.
  intros HF Hl. destruct (array_header encs) as (body & E & Eb).
  rewrite E in Hl |- *. eexists _, body. split; [reflexivity|].
  set (osc := offset_size_code (lenN (concat encs))) in *.
  set (lg := 255 <? lenN encs) in *.
  assert (Hosc : osc < 4) by apply offset_size_code_lt4.
  split; [apply hdr_mod; lia|]. rewrite hdr_div by lia.
  assert (Hlen : lenN body = lenN (num_elems (lenN encs)) + N.of_nat (osz_of osc) * (1 + lenN encs) + lenN (concat encs)).
  { rewrite Eb, !lenN_app, lenN_write_uints. unfold lenN at 3. rewrite psums_length, map_length. unfold lenN. lia. }
  rewrite lenN_cons in Hl.
  pose proof (num_elems_len (lenN encs)) as Hn1. pose proof (osz_ge1 osc) as Ho1.
  assert (Hn : lenN encs < 2 ^ 32) by nia.
  assert (Htot : lenN (concat encs) < 2 ^ 32) by lia.
  unfold dec_array.
  rewrite (hdr_mod osc) by exact Hosc. rewrite (hdr_div osc) by exact Hosc.
  rewrite large_flag. fold lg.
  rewrite Eb, <- !app_assoc. unfold lg. rewrite read_num_elems by exact Hn.
  match goal with |- context [lenN ?r <? lenN encs] => destruct (N.ltb_spec (lenN r) (lenN encs)) as [Hc|Hc] end.
  { exfalso. rewrite lenN_app, lenN_write_uints in Hc. unfold lenN at 2 in Hc.
    rewrite psums_length, map_length in Hc. unfold lenN in *. nia. }
  replace (S (N.to_nat (lenN encs))) with (length (psums 0 (map lenN encs)))
    by (rewrite psums_length, map_length, to_nat_lenN; reflexivity).
  rewrite read_uints_write.
  2:{ eapply Forall_impl; [|apply psums_bound]. cbn. intros a Ha. rewrite sum_lens in Ha.
      apply offset_size_code_bound; [exact Htot|]. fold osc. lia. }
  rewrite psums_last, sum_lens, N.add_0_l, takeN_app.
  pose proof (dec_elems_region rec encs xs HF []) as Hr. cbn [app] in Hr.
  change (lenN (@nil N)) with 0 in Hr. now rewrite Hr.
Qed.
