(** C19 — decode inverts encode: for every well-formed value tree whose
    encoding fits the format, the specification decoder applied to the bytes
    of the Go-mirroring encoder returns the tree with its object fields in
    name order ([canon]). *)
From Coq Require Import List NArith ZArith Bool Arith Lia Permutation.
From Coq Require Import ZifyN ZifyNat ZifyBool.
From PQ Require Import Base.Bytes Base.ListExtra Variant.Model Variant.BaseLemmas.
Import ListNotations.
Open Scope N_scope.

(** * induction over value trees *)
Section ValueInd.
  Variable P : value -> Prop.
  Hypothesis Hnull : P VNull.
  Hypothesis Hbool : forall b, P (VBool b).
  Hypothesis Hint : forall k z, P (VInt k z).
  Hypothesis Hflt : forall k b, P (VFlt k b).
  Hypothesis Hdec : forall k s z, P (VDec k s z).
  Hypothesis Hbin : forall b, P (VBinary b).
  Hypothesis Hstr : forall b, P (VString b).
  Hypothesis Huuid : forall b, P (VUuid b).
  Hypothesis Harr : forall l, Forall P l -> P (VArray l).
  Hypothesis Hobj : forall fs, Forall (fun kv => P (snd kv)) fs -> P (VObject fs).

  Fixpoint value_ind' (v : value) : P v :=
    match v with
    | VNull => Hnull
    | VBool b => Hbool b
    | VInt k z => Hint k z
    | VFlt k b => Hflt k b
    | VDec k s z => Hdec k s z
    | VBinary b => Hbin b
    | VString b => Hstr b
    | VUuid b => Huuid b
    | VArray l =>
        Harr l ((fix go (l : list value) : Forall P l :=
                   match l with
                   | [] => Forall_nil _
                   | x :: r => Forall_cons x (value_ind' x) (go r)
                   end) l)
    | VObject fs =>
        Hobj fs ((fix go (fs : list (bytes * value)) : Forall (fun kv => P (snd kv)) fs :=
                    match fs with
                    | [] => Forall_nil _
                    | kv :: r => Forall_cons kv (value_ind' (snd kv)) (go r)
                    end) fs)
    end.
End ValueInd.

Lemma wf_array l : wf (VArray l) <-> Forall wf l.
Proof.
  cbn [wf]. induction l as [|x l IH]; [split; [constructor|exact (fun _ => I)]|].
  rewrite IH. split; [intros [H1 H2]; now constructor|intros H; inversion H; auto].
Qed.

Lemma wf_object fs : wf (VObject fs) <->
  NoDup (map fst fs) /\ Forall (fun kv => wf_bytes (fst kv) /\ wf (snd kv)) fs.
Proof.
  cbn [wf]. apply and_iff_compat_l.
  induction fs as [|[k x] fs IH]; [split; [constructor|exact (fun _ => I)]|].
  rewrite IH. split.
  - intros (H1 & H2 & H3). constructor; auto.
  - intros H. inversion H as [|? ? [Ha Hb] Hc]; subst. auto.
Qed.

(** * value_metadata byte *)
Lemma hdr_mod b v : b < 4 -> (b + 4 * v) mod 4 = b.
Proof.
  intros H. rewrite (N.mul_comm 4 v), N.mod_add by discriminate. now apply N.mod_small.
Qed.
Lemma hdr_div b v : b < 4 -> (b + 4 * v) / 4 = v.
Proof.
  intros H. rewrite (N.mul_comm 4 v), N.div_add by discriminate.
  rewrite (N.div_small b 4) by exact H. lia.
Qed.

Lemma dec_S f d h rest : dec (S f) d (h :: rest) =
  match h mod 4 with
  | 0 => dec_prim (h / 4) rest
  | 1 => dec_short (h / 4) rest
  | 2 => dec_object (dec f d) d (h / 4) rest
  | _ => dec_array (dec f d) (h / 4) rest
  end.
Proof. reflexivity. Qed.

Lemma pow256 w : 256 ^ N.of_nat w = 2 ^ bitsN w.
Proof. unfold bitsN. rewrite N.pow_mul_r. reflexivity. Qed.

Lemma bitsN_pos w : (0 < w)%nat -> 0 < bitsN w.
Proof. unfold bitsN. lia. Qed.

(** * primitives *)
Lemma dec_int k z rest : in_sint (bitsN (int_w k)) z ->
  dec_prim (int_id k) (to_le (int_w k) (wrapZ (bitsN (int_w k)) z) ++ rest) = Some (VInt k z).
Proof.
  intros Hz.
  assert (E : dec_prim (int_id k) (to_le (int_w k) (wrapZ (bitsN (int_w k)) z) ++ rest) =
              match take (int_w k) (to_le (int_w k) (wrapZ (bitsN (int_w k)) z) ++ rest) with
              | Some (a, _) => Some (VInt k (sintZ (bitsN (int_w k)) (of_le a)))
              | None => None
              end) by (destruct k; reflexivity).
  rewrite E, take_app_n by apply to_le_length.
  rewrite of_le_to_le by (rewrite pow256; apply wrapZ_lt).
  rewrite sintZ_wrapZ; [reflexivity| |exact Hz]. apply bitsN_pos. destruct k; cbn; lia.
Qed.

Lemma dec_flt k bits rest : bits < 2 ^ bitsN (flt_w k) ->
  dec_prim (flt_id k) (to_le (flt_w k) bits ++ rest) = Some (VFlt k bits).
Proof.
  intros Hb.
  assert (E : dec_prim (flt_id k) (to_le (flt_w k) bits ++ rest) =
              match take (flt_w k) (to_le (flt_w k) bits ++ rest) with
              | Some (a, _) => Some (VFlt k (of_le a))
              | None => None
              end) by (destruct k; reflexivity).
  rewrite E, take_app_n by apply to_le_length.
  now rewrite of_le_to_le by (rewrite pow256; exact Hb).
Qed.

Lemma dec_dec k s z rest : s < 256 -> in_sint (bitsN (dec_w k)) z ->
  dec_prim (dec_id k) ((s mod 256) :: to_le (dec_w k) (wrapZ (bitsN (dec_w k)) z) ++ rest) = Some (VDec k s z).
Proof.
  intros Hs Hz. rewrite (N.mod_small s 256) by exact Hs.
  assert (E : dec_prim (dec_id k) (s :: to_le (dec_w k) (wrapZ (bitsN (dec_w k)) z) ++ rest) =
              match take (dec_w k) (to_le (dec_w k) (wrapZ (bitsN (dec_w k)) z) ++ rest) with
              | Some (a, _) => Some (VDec k s (sintZ (bitsN (dec_w k)) (of_le a)))
              | None => None
              end) by (destruct k; reflexivity).
  rewrite E, take_app_n by apply to_le_length.
  rewrite of_le_to_le by (rewrite pow256; apply wrapZ_lt).
  rewrite sintZ_wrapZ; [reflexivity| |exact Hz]. apply bitsN_pos. destruct k; cbn; lia.
Qed.

Definition is_prim (v : value) : Prop :=
  match v with VArray _ | VObject _ => False | _ => True end.

Lemma enc_prim_nonempty v : (1 <= length (enc_prim v))%nat.
Proof.
  destruct v; cbn; try lia.
  - destruct b; cbn; lia.
  - destruct (lenN b <=? 63); cbn; lia.
Qed.

Lemma dec_enc_prim v f d rest : is_prim v -> wf v -> lenN (enc_prim v) < 2 ^ 32 ->
  dec (S f) d (enc_prim v ++ rest) = Some v.
Proof.
  intros Hp Hw Hl. destruct v; try contradiction; cbn [enc_prim app] in *.
  - reflexivity.
  - destruct b; reflexivity.
  - rewrite dec_S. unfold hdr. rewrite hdr_mod, hdr_div by lia. now apply dec_int.
  - rewrite dec_S. unfold hdr. rewrite hdr_mod, hdr_div by lia. now apply dec_flt.
  - destruct Hw as [Hs Hz]. rewrite dec_S. unfold hdr. rewrite hdr_mod, hdr_div by lia.
    now apply dec_dec.
  - (* binary *)
    rewrite dec_S. unfold hdr, id_binary. rewrite hdr_mod, hdr_div by lia.
    rewrite lenN_cons, lenN_app in Hl. unfold lenN at 1 in Hl. rewrite to_le_length in Hl.
    unfold dec_prim. rewrite <- app_assoc, read_uint_to_le by (change (256 ^ N.of_nat 4) with (2 ^ 32); lia).
    now rewrite takeN_app.
  - (* string *)
    destruct (N.leb_spec (lenN b) 63) as [Hs|Hs]; cbn [app].
    + rewrite dec_S. unfold hdr. rewrite hdr_mod, hdr_div by lia.
      unfold dec_short. now rewrite takeN_app.
    + rewrite dec_S. unfold hdr, id_string. rewrite hdr_mod, hdr_div by lia.
      rewrite lenN_cons, lenN_app in Hl. unfold lenN at 1 in Hl. rewrite to_le_length in Hl.
      unfold dec_prim. rewrite <- app_assoc, read_uint_to_le by (change (256 ^ N.of_nat 4) with (2 ^ 32); lia).
      now rewrite takeN_app.
  - (* uuid *)
    destruct Hw as [Hb H16]. rewrite dec_S. unfold hdr, id_uuid. rewrite hdr_mod, hdr_div by lia.
    unfold dec_prim. now rewrite take_app_n by exact H16.
Qed.

(** * offsets and value areas *)
Definition sumN (l : list N) : N := fold_right N.add 0 l.

Lemma sum_lens (encs : list bytes) : sumN (map lenN encs) = lenN (concat encs).
Proof. induction encs as [|b r IH]; cbn; [reflexivity|]. unfold sumN in IH. rewrite IH, lenN_app. lia. Qed.

Lemma psums_nonnil acc l : psums acc l <> [].
Proof. destruct l; discriminate. Qed.

Lemma psums_last acc l : last (psums acc l) 0 = acc + sumN l.
Proof.
  revert acc. induction l as [|x l IH]; intros acc; [cbn; lia|].
  cbn [psums]. rewrite last_cons, (last_nonempty_default _ acc 0) by apply psums_nonnil.
  rewrite IH. unfold sumN. cbn [fold_right]. lia.
Qed.

Lemma psums_bound acc l : Forall (fun x => x <= acc + sumN l) (psums acc l).
Proof.
  revert acc. induction l as [|x l IH]; intros acc; cbn [psums sumN fold_right].
  - constructor; [lia|constructor].
  - constructor; [lia|]. eapply Forall_impl; [|apply IH]. cbn. intros a Ha. fold (sumN l). lia.
Qed.

Lemma psums_removelast acc x l : removelast (psums acc (x :: l)) = acc :: removelast (psums (acc + x) l).
Proof. cbn [psums removelast]. destruct (psums (acc + x) l) eqn:E; [now apply psums_nonnil in E|reflexivity]. Qed.

Lemma at_off_app p s : at_off (p ++ s) (lenN p) = Some s.
Proof.
  unfold at_off. rewrite lenN_app. destruct (N.ltb_spec (lenN p + lenN s) (lenN p)); [lia|].
  rewrite to_nat_lenN. now rewrite skipn_app_exact.
Qed.

Lemma in_concat_le {A} (x : list A) l : In x l -> (length x <= length (concat l))%nat.
Proof.
  induction l as [|y l IH]; intros H; [contradiction|]. cbn. rewrite app_length.
  destruct H as [->|H]; [lia|]. specialize (IH H). lia.
Qed.

(* elements of an array: the value at each offset decodes to the element *)
Lemma dec_elems_region (rec : bytes -> option value) encs xs :
  Forall2 (fun b x => forall rest, rec (b ++ rest) = Some x) encs xs ->
  forall p,
  map_opt (fun off : N => match at_off (p ++ concat encs) off with Some sub => rec sub | None => None end)
          (removelast (psums (lenN p) (map lenN encs))) = Some xs.
Proof.
  induction 1 as [|b x encs xs Hb H IH]; intros p; [reflexivity|].
  cbn [map]. rewrite psums_removelast. cbn [map_opt concat].
  rewrite at_off_app, Hb.
  specialize (IH (p ++ b)). rewrite lenN_app, <- app_assoc in IH. now rewrite IH.
Qed.

Definition entry_id (e : entry) : N := N.of_nat (fst (snd e)).
Definition entry_enc (e : entry) : bytes := snd (snd e).

(* fields of an object: the id names the field, the value at its offset decodes *)
Definition field_ok (rec : bytes -> option value) (d : dict) (cf : bytes * value) (e : entry) : Prop :=
  fst cf = fst e /\ nth_error d (fst (snd e)) = Some (fst e) /\
  forall rest, rec (entry_enc e ++ rest) = Some (snd cf).

Lemma dec_fields_region rec d cfs es :
  Forall2 (field_ok rec d) cfs es ->
  forall p,
  map_opt (fun io : N * N =>
     match nth_error d (N.to_nat (fst io)) with
     | Some name =>
         match at_off (p ++ concat (map entry_enc es)) (snd io) with
         | Some sub => match rec sub with Some x => Some (name, x) | None => None end
         | None => None
         end
     | None => None
     end) (combine (map entry_id es) (psums (lenN p) (map lenN (map entry_enc es)))) = Some cfs.
Proof.
  induction 1 as [|cf e cfs es (Hk & Hid & Hb) H IH]; intros p; [reflexivity|].
  cbn [map psums combine map_opt concat fst snd].
  unfold entry_id at 1. rewrite Nat2N.id, Hid, at_off_app, Hb.
  specialize (IH (p ++ entry_enc e)). rewrite lenN_app, <- app_assoc in IH. rewrite IH.
  destruct cf as [k x]. cbn in *. now subst.
Qed.

Lemma lenN_write_uints sz xs : lenN (write_uints sz xs) = N.of_nat sz * lenN xs.
Proof. unfold lenN. rewrite write_uints_length. lia. Qed.

Lemma osz_ge1 c : 1 <= N.of_nat (osz_of c).
Proof. unfold osz_of. lia. Qed.

Lemma read_num_elems n rest : n < 2 ^ 32 ->
  read_num (255 <? n) (num_elems n ++ rest) = Some (n, rest).
Proof.
  intros H. unfold read_num, num_elems. destruct (N.ltb_spec 255 n).
  - apply read_uint_to_le. change (256 ^ N.of_nat 4) with (2 ^ 32). exact H.
  - apply read_uint_to_le. cbn. lia.
Qed.

Lemma num_elems_len n : 1 <= lenN (num_elems n).
Proof. unfold num_elems, lenN. destruct (255 <? n); rewrite to_le_length; lia. Qed.

Lemma large_flag (b : bool) : ((if b then 1 else 0) mod 2 =? 1) = b.
Proof. destruct b; reflexivity. Qed.

Lemma lenN_psums acc l : lenN (psums acc l) = 1 + lenN l.
Proof. unfold lenN. rewrite psums_length. lia. Qed.
Lemma lenN_map {A B} (f : A -> B) l : lenN (map f l) = lenN l.
Proof. unfold lenN. now rewrite map_length. Qed.

(** * arrays *)
Lemma array_header (encs : list bytes) :
  exists body, build_array encs =
    (3 + 4 * (offset_size_code (lenN (concat encs)) + 4 * (if 255 <? lenN encs then 1 else 0))) :: body /\
    body = num_elems (lenN encs)
             ++ write_uints (osz_of (offset_size_code (lenN (concat encs)))) (psums 0 (map lenN encs))
             ++ concat encs.
Proof. eexists. split; [|reflexivity]. unfold build_array. f_equal. lia. Qed.

Lemma dec_build_array (rec : bytes -> option value) (encs : list bytes) xs (rest : bytes) :
  Forall2 (fun b x => forall rest, rec (b ++ rest) = Some x) encs xs ->
  lenN (build_array encs) < 2 ^ 32 ->
  exists h body, build_array encs = h :: body /\ h mod 4 = 3 /\
    dec_array rec (h / 4) (body ++ rest) = Some (VArray xs).
Proof.
  intros HF Hl. destruct (array_header encs) as (body & E & Eb).
  rewrite E in Hl |- *. eexists _, body. split; [reflexivity|].
  remember (offset_size_code (lenN (concat encs))) as osc eqn:Eosc.
  assert (Hosc : osc < 4) by (subst osc; apply offset_size_code_lt4).
  split; [apply hdr_mod; lia|]. rewrite hdr_div by lia.
  assert (Hlen : lenN body = lenN (num_elems (lenN encs)) + N.of_nat (osz_of osc) * (1 + lenN encs) + lenN (concat encs)).
  { rewrite Eb, !lenN_app, lenN_write_uints, lenN_psums, lenN_map. apply N.add_assoc. }
  rewrite lenN_cons in Hl.
  pose proof (num_elems_len (lenN encs)) as Hn1. pose proof (osz_ge1 osc) as Ho1.
  assert (Hn : lenN encs < 2 ^ 32) by nia.
  assert (Htot : lenN (concat encs) < 2 ^ 32) by lia.
  unfold dec_array.
  rewrite (hdr_mod osc) by exact Hosc. rewrite (hdr_div osc) by exact Hosc.
  rewrite large_flag.
  rewrite Eb, <- !app_assoc. rewrite read_num_elems by exact Hn.
  match goal with |- context [if ?c then None else _] => assert (Hc : c = false) end.
  { apply N.ltb_ge. rewrite lenN_app, lenN_write_uints, lenN_psums, lenN_map.
    unfold bytes in *. nia. }
  rewrite Hc.
  replace (S (N.to_nat (lenN encs))) with (length (psums 0 (map lenN encs)))
    by (rewrite psums_length, map_length, to_nat_lenN; reflexivity).
  rewrite read_uints_write.
  2:{ eapply Forall_impl; [|apply psums_bound]. cbn. intros a Ha. rewrite sum_lens in Ha.
      subst osc. apply offset_size_code_bound; [exact Htot|]. lia. }
  rewrite psums_last, sum_lens, N.add_0_l, takeN_app.
  pose proof (dec_elems_region rec encs xs HF []) as Hr. cbn [app] in Hr.
  change (lenN (@nil N)) with 0 in Hr. now rewrite Hr.
Qed.

(** * objects *)
Lemma max_id_bound (es : list entry) : Forall (fun e => entry_id e <= max_id es) es.
Proof.
  induction es as [|e es IH]; [constructor|]. cbn [max_id fold_right]. fold (max_id es).
  constructor; [unfold entry_id; lia|]. eapply Forall_impl; [|exact IH]. cbn. intros a Ha. lia.
Qed.

Lemma object_header (es : list entry) :
  exists body, build_object es =
    (2 + 4 * (offset_size_code (lenN (concat (map entry_enc es)))
              + 4 * (offset_size_code (max_id es) + 4 * (if 255 <? lenN es then 1 else 0)))) :: body /\
    body = num_elems (lenN es)
             ++ write_uints (osz_of (offset_size_code (max_id es))) (map entry_id es)
             ++ write_uints (osz_of (offset_size_code (lenN (concat (map entry_enc es)))))
                            (psums 0 (map lenN (map entry_enc es)))
             ++ concat (map entry_enc es).
Proof. eexists. split; [|reflexivity]. unfold build_object. f_equal. fold entry_enc. lia. Qed.

Lemma dec_build_object (rec : bytes -> option value) d (es : list entry) cfs (rest : bytes) :
  Forall2 (field_ok rec d) cfs es -> NoDup (map fst cfs) ->
  lenN (build_object es) < 2 ^ 32 -> max_id es < 2 ^ 32 ->
  exists h body, build_object es = h :: body /\ h mod 4 = 2 /\
    dec_object rec d (h / 4) (body ++ rest) = Some (VObject cfs).
Proof.
  intros HF ND Hl Hmax. destruct (object_header es) as (body & E & Eb).
  rewrite E in Hl |- *. eexists _, body. split; [reflexivity|].
  remember (offset_size_code (lenN (concat (map entry_enc es)))) as osc eqn:Eosc.
  remember (offset_size_code (max_id es)) as fsc eqn:Efsc.
  assert (Hosc : osc < 4) by (subst osc; apply offset_size_code_lt4).
  assert (Hfsc : fsc < 4) by (subst fsc; apply offset_size_code_lt4).
  split; [apply hdr_mod; lia|]. rewrite hdr_div by lia.
  assert (Hlen : lenN body = lenN (num_elems (lenN es)) + N.of_nat (osz_of fsc) * lenN es
                 + N.of_nat (osz_of osc) * (1 + lenN es) + lenN (concat (map entry_enc es))).
  { rewrite Eb, !lenN_app, !lenN_write_uints, lenN_psums, !lenN_map. unfold bytes. lia. }
  rewrite lenN_cons in Hl.
  pose proof (num_elems_len (lenN es)) as Hn1. pose proof (osz_ge1 osc) as Ho1.
  pose proof (osz_ge1 fsc) as Hf1.
  assert (Hn : lenN es < 2 ^ 32) by (unfold bytes in *; nia).
  assert (Htot : lenN (concat (map entry_enc es)) < 2 ^ 32) by (unfold bytes in *; lia).
  unfold dec_object.
  rewrite (hdr_mod osc) by exact Hosc. rewrite (hdr_div osc) by exact Hosc.
  rewrite (hdr_mod fsc) by exact Hfsc.
  change 16 with (4 * 4). rewrite <- N.div_div by discriminate.
  rewrite (hdr_div osc) by exact Hosc. rewrite (hdr_div fsc) by exact Hfsc.
  rewrite large_flag.
  rewrite Eb, <- !app_assoc. rewrite read_num_elems by exact Hn.
  match goal with |- context [if ?c then None else _] => assert (Hc : c = false) end.
  { apply N.ltb_ge. rewrite lenN_app, lenN_write_uints, lenN_map. unfold bytes in *. nia. }
  rewrite Hc.
  replace (N.to_nat (lenN es)) with (length (map entry_id es))
    by (rewrite map_length, to_nat_lenN; reflexivity).
  rewrite read_uints_write.
  2:{ rewrite Forall_map. eapply Forall_impl; [|apply max_id_bound]. cbn. intros a Ha.
      subst fsc. apply offset_size_code_bound; [exact Hmax|exact Ha]. }
  rewrite map_length.
  replace (S (length es)) with (length (psums 0 (map lenN (map entry_enc es))))
    by (rewrite psums_length, !map_length; reflexivity).
  rewrite read_uints_write.
  2:{ eapply Forall_impl; [|apply psums_bound]. cbn. intros a Ha. rewrite sum_lens in Ha.
      subst osc. apply offset_size_code_bound; [exact Htot|]. lia. }
  rewrite psums_last, sum_lens, N.add_0_l, takeN_app.
  pose proof (dec_fields_region rec d cfs es HF []) as Hr. cbn [app] in Hr.
  change (lenN (@nil N)) with 0 in Hr. rewrite Hr.
  apply nodupb_NoDup in ND. now rewrite ND.
Qed.

(** * the dictionary as encoder state *)
Definition ext (d d' : dict) : Prop := exists e, d' = d ++ e.

Lemma ext_refl d : ext d d.
Proof. exists []. now rewrite app_nil_r. Qed.
Lemma ext_trans a b c : ext a b -> ext b c -> ext a c.
Proof. intros [e ->] [e' ->]. exists (e ++ e'). now rewrite app_assoc. Qed.
Lemma ext_len d d' : ext d d' -> lenN d <= lenN d'.
Proof. intros [e ->]. rewrite lenN_app. lia. Qed.
Lemma ext_nth d d' i (x : bytes) : ext d d' -> nth_error d i = Some x -> nth_error d' i = Some x.
Proof.
  intros [e ->] H. rewrite nth_error_app1; [exact H|]. apply nth_error_Some. congruence.
Qed.

Lemma index_of_Some k d : forall i, index_of k d = Some i -> nth_error d i = Some k.
Proof.
  induction d as [|x d IH]; intros i H; cbn in H; [discriminate|].
  destruct (beq k x) eqn:E.
  - inversion H; subst. apply beq_eq in E. now subst.
  - destruct (index_of k d) as [j|]; [|discriminate]. inversion H; subst. cbn. now apply IH.
Qed.

Lemma index_of_None k d : index_of k d = None -> ~ In k d.
Proof.
  induction d as [|x d IH]; intros H; cbn in H; [tauto|].
  destruct (beq k x) eqn:E; [discriminate|].
  destruct (index_of k d); [discriminate|].
  apply beq_false_iff in E. intros [->|Hin]; [congruence|]. now apply IH.
Qed.

Lemma dict_add_ok d k d' i : NoDup d -> dict_add d k = (d', i) ->
  ext d d' /\ NoDup d' /\ nth_error d' i = Some k.
Proof.
  intros ND H. unfold dict_add in H. destruct (index_of k d) as [j|] eqn:E; inversion H; subst.
  - split; [apply ext_refl|]. split; [exact ND|]. now apply index_of_Some.
  - split; [now exists [k]|]. split.
    + eapply Permutation_NoDup; [apply Permutation_cons_append|].
      constructor; [now apply index_of_None|exact ND].
    + rewrite nth_error_app2 by lia. now rewrite Nat.sub_diag.
Qed.

(* the dictionary only grows and stays duplicate-free *)
Definition dict_good (v : value) : Prop :=
  forall d d' b, NoDup d -> enc_st d v = (d', b) -> ext d d' /\ NoDup d'.

Lemma enc_elems_dict l : Forall dict_good l ->
  forall d d' encs, NoDup d -> enc_elems enc_st d l = (d', encs) -> ext d d' /\ NoDup d'.
Proof.
  induction 1 as [|x l Hx Hl IH]; intros d d' encs ND E; cbn [enc_elems] in E.
  - inversion E; subst. split; [apply ext_refl|exact ND].
  - destruct (enc_st d x) as [d1 b] eqn:E1. destruct (enc_elems enc_st d1 l) as [d2 bs] eqn:E2.
    inversion E; subst. destruct (Hx _ _ _ ND E1) as [X1 N1].
    destruct (IH _ _ _ N1 E2) as [X2 N2]. split; [eapply ext_trans; eauto|exact N2].
Qed.

Lemma enc_fields_dict fs : Forall (fun kv => dict_good (snd kv)) fs ->
  forall d d' es, NoDup d -> enc_fields enc_st d fs = (d', es) -> ext d d' /\ NoDup d'.
Proof.
  induction 1 as [|[k x] fs Hx Hl IH]; intros d d' es ND E; cbn [enc_fields] in E.
  - inversion E; subst. split; [apply ext_refl|exact ND].
  - destruct (dict_add d k) as [d0 id] eqn:E0. destruct (enc_st d0 x) as [d1 b] eqn:E1.
    destruct (enc_fields enc_st d1 fs) as [d2 r] eqn:E2. inversion E; subst.
    destruct (dict_add_ok _ _ _ _ ND E0) as (X0 & N0 & _).
    destruct (Hx _ _ _ N0 E1) as [X1 N1]. destruct (IH _ _ _ N1 E2) as [X2 N2].
    split; [eapply ext_trans; [exact X0|eapply ext_trans; eauto]|exact N2].
Qed.

Lemma enc_st_array d l : enc_st d (VArray l) =
  let '(d', encs) := enc_elems enc_st d l in (d', build_array encs).
Proof. reflexivity. Qed.
Lemma enc_st_object d fs : enc_st d (VObject fs) =
  let '(d', es) := enc_fields enc_st d fs in (d', build_object (isort es)).
Proof. reflexivity. Qed.

Lemma enc_st_dict v : dict_good v.
Proof.
  induction v using value_ind'; unfold dict_good; intros d d' bb ND E;
    try (cbn in E; inversion E; subst; split; [apply ext_refl|exact ND]).
  - rewrite enc_st_array in E. destruct (enc_elems enc_st d l) as [d1 encs] eqn:E1.
    inversion E; subst. eapply enc_elems_dict; eauto.
  - rewrite enc_st_object in E. destruct (enc_fields enc_st d fs) as [d1 es] eqn:E1.
    inversion E; subst. eapply enc_fields_dict; eauto.
Qed.

Definition dec_ok (d' : dict) (b : bytes) (cv : value) : Prop :=
  forall d'' fuel (rest : bytes), ext d' d'' -> (length b <= fuel)%nat ->
    dec fuel d'' (b ++ rest) = Some cv.

Lemma dec_ok_ext d1 d2 b cv : ext d1 d2 -> dec_ok d1 b cv -> dec_ok d2 b cv.
Proof. intros He H d'' fuel rest He' Hf. apply H; [eapply ext_trans; eauto|exact Hf]. Qed.

Definition enc_good (v : value) : Prop :=
  wf v -> forall d d' b, NoDup d -> enc_st d v = (d', b) -> lenN b < 2 ^ 32 -> lenN d' < 2 ^ 32 ->
  ext d d' /\ NoDup d' /\ (1 <= length b)%nat /\ dec_ok d' b (canon v).

Lemma lenN_le_concat (b : bytes) (l : list bytes) : In b l -> lenN b <= lenN (concat l).
Proof. intros H. apply in_concat_le in H. unfold lenN. lia. Qed.

Lemma enc_elems_ok l : Forall enc_good l -> Forall wf l ->
  forall d d' encs, NoDup d -> enc_elems enc_st d l = (d', encs) ->
  lenN (concat encs) < 2 ^ 32 -> lenN d' < 2 ^ 32 ->
  Forall2 (fun b x => (1 <= length b)%nat /\ dec_ok d' b x) encs (map canon l).
Proof.
  induction 1 as [|x l Hx Hl IH]; intros Hw d d' encs ND E Hlen Hd; cbn [enc_elems] in E.
  - inversion E; subst. constructor.
  - inversion Hw as [|? ? Hwx Hwl]; subst.
    destruct (enc_st d x) as [d1 b] eqn:E1. destruct (enc_elems enc_st d1 l) as [d2 bs] eqn:E2.
    inversion E; subst. cbn [concat] in Hlen. rewrite lenN_app in Hlen.
    destruct (enc_st_dict x _ _ _ ND E1) as [X1 N1].
    assert (DG : Forall dict_good l) by (apply Forall_forall; intros; apply enc_st_dict).
    destruct (enc_elems_dict l DG _ _ _ N1 E2) as [X2 _].
    pose proof (ext_len _ _ X2) as L2.
    destruct (Hx Hwx _ _ _ ND E1) as (_ & _ & Hb1 & Hok); [lia|lia|].
    cbn [map]. constructor.
    + split; [exact Hb1|]. eapply dec_ok_ext; eauto.
    + eapply IH; eauto. lia.
Qed.

Definition cmap (fs : list (bytes * value)) : list (bytes * value) :=
  map (fun kv => let '(k, x) := kv in (k, canon x)) fs.

Lemma canon_object fs : canon (VObject fs) = VObject (isort (cmap fs)).
Proof. reflexivity. Qed.
Lemma canon_array l : canon (VArray l) = VArray (map canon l).
Proof. reflexivity. Qed.

Lemma cmap_keys fs : map fst (cmap fs) = map fst fs.
Proof. unfold cmap. rewrite map_map. apply map_ext. now intros [k x]. Qed.

(* what is known of an encoded field relative to the final dictionary *)
Definition entry_ok (d' : dict) (cf : bytes * value) (e : entry) : Prop :=
  fst cf = fst e /\ nth_error d' (fst (snd e)) = Some (fst e) /\
  (1 <= length (entry_enc e))%nat /\ dec_ok d' (entry_enc e) (snd cf).

Lemma enc_fields_ok fs : Forall (fun kv => enc_good (snd kv)) fs ->
  Forall (fun kv => wf_bytes (fst kv) /\ wf (snd kv)) fs ->
  forall d d' es, NoDup d -> enc_fields enc_st d fs = (d', es) ->
  lenN (concat (map entry_enc es)) < 2 ^ 32 -> lenN d' < 2 ^ 32 ->
  Forall2 (entry_ok d') (cmap fs) es.
Proof.
  induction 1 as [|[k x] fs Hx Hl IH]; intros Hw d d' es ND E Hlen Hd; cbn [enc_fields] in E.
  - inversion E; subst. constructor.
  - inversion Hw as [|? ? [Hwk Hwx] Hwl]; subst. cbn [fst snd] in *.
    destruct (dict_add d k) as [d0 id] eqn:E0. destruct (enc_st d0 x) as [d1 b] eqn:E1.
    destruct (enc_fields enc_st d1 fs) as [d2 r] eqn:E2. inversion E; subst.
    cbn [map concat entry_enc snd] in Hlen. rewrite lenN_app in Hlen. fold entry_enc in Hlen.
    destruct (dict_add_ok _ _ _ _ ND E0) as (X0 & N0 & Hid).
    destruct (enc_st_dict x _ _ _ N0 E1) as [X1 N1].
    assert (DG : Forall (fun kv : bytes * value => dict_good (snd kv)) fs)
      by (apply Forall_forall; intros; apply enc_st_dict).
    destruct (enc_fields_dict fs DG _ _ _ N1 E2) as [X2 _].
    pose proof (ext_len _ _ X2) as L2.
    destruct (Hx Hwx _ _ _ N0 E1) as (_ & _ & Hb1 & Hok); [lia|lia|].
    cbn [cmap map]. constructor.
    + repeat split; cbn [fst snd entry_enc].
      * apply (ext_nth d0 d'); [eapply ext_trans; [exact X1|exact X2]|exact Hid].
      * exact Hb1.
      * eapply dec_ok_ext; eauto.
    + eapply IH; eauto. lia.
Qed.

Lemma build_array_len (encs : list bytes) : lenN (concat encs) < lenN (build_array encs).
Proof.
  destruct (array_header encs) as (body & E & Eb). rewrite E, lenN_cons, Eb, !lenN_app. lia.
Qed.

Lemma build_object_len (es : list entry) :
  lenN (concat (map entry_enc es)) < lenN (build_object es).
Proof.
  destruct (object_header es) as (body & E & Eb). rewrite E, lenN_cons, Eb, !lenN_app. lia.
Qed.

Lemma perm_concat_len {A} (l l' : list (list A)) : Permutation l l' -> lenN (concat l) = lenN (concat l').
Proof.
  induction 1; cbn; rewrite ?lenN_app; try lia.
Qed.

Lemma Forall2_impl_in {A B} (P Q : A -> B -> Prop) l1 l2 :
  (forall a b, In a l1 -> In b l2 -> P a b -> Q a b) -> Forall2 P l1 l2 -> Forall2 Q l1 l2.
Proof.
  intros H F. induction F as [|a b l1 l2 Hab F IH]; constructor.
  - apply H; [now left|now left|exact Hab].
  - apply IH. intros a' b' Ha Hb. apply H; now right.
Qed.

Lemma Forall2_in_r {A B} (P : A -> B -> Prop) l1 l2 b :
  Forall2 P l1 l2 -> In b l2 -> exists a, In a l1 /\ P a b.
Proof.
  induction 1 as [|a b' l1 l2 Hab F IH]; intros Hin; [contradiction|].
  destruct Hin as [->|Hin]; [exists a; split; [now left|exact Hab]|].
  destruct (IH Hin) as (a' & Ha & Hp). exists a'. split; [now right|exact Hp].
Qed.

Lemma max_id_lt (es : list entry) M : 0 < M -> Forall (fun e => entry_id e < M) es -> max_id es < M.
Proof.
  intros HM. induction 1 as [|e es He H IH]; cbn [max_id fold_right]; [exact HM|].
  fold (max_id es). unfold entry_id in He. lia.
Qed.

(** * the round trip, dictionary threaded *)
Lemma enc_good_prim v : is_prim v -> enc_good v.
Proof.
  intros Hp Hw d d' bb ND E Hl Hd.
  assert (E' : enc_st d v = (d, enc_prim v)) by (destruct v; try contradiction; reflexivity).
  rewrite E' in E. inversion E; subst.
  split; [apply ext_refl|]. split; [exact ND|]. split; [apply enc_prim_nonempty|].
  intros d'' fuel rest _ Hf. pose proof (enc_prim_nonempty v) as Hne.
  destruct fuel as [|f]; [lia|].
  replace (canon v) with v by (destruct v; try contradiction; reflexivity). now apply dec_enc_prim.
Qed.

Lemma match3 {A} (a b c e : A) : match 3 with 0 => a | 1 => b | 2 => c | _ => e end = e.
Proof. reflexivity. Qed.
Lemma match2 {A} (a b c e : A) : match 2 with 0 => a | 1 => b | 2 => c | _ => e end = c.
Proof. reflexivity. Qed.

Lemma enc_st_good v : enc_good v.
Proof.
  induction v using value_ind'; try (apply enc_good_prim; exact I).
  - (* array *)
    intros Hw d d' bb ND E Hl Hd. rewrite enc_st_array in E.
    destruct (enc_elems enc_st d l) as [d1 encs] eqn:E1. inversion E; subst.
    apply wf_array in Hw.
    assert (DG : Forall dict_good l) by (apply Forall_forall; intros; apply enc_st_dict).
    destruct (enc_elems_dict l DG _ _ _ ND E1) as [X1 N1].
    pose proof (build_array_len encs) as Hbl.
    assert (HF : Forall2 (fun b x => (1 <= length b)%nat /\ dec_ok d' b x) encs (map canon l))
      by (apply (enc_elems_ok l H Hw d d' encs ND E1); [unfold bytes in *; lia|exact Hd]).
    split; [exact X1|]. split; [exact N1|].
    destruct (array_header encs) as (body0 & E0 & _).
    split; [rewrite E0; cbn; lia|].
    intros d'' fuel rest Hext Hf. destruct fuel as [|f]; [rewrite E0 in Hf; cbn in Hf; lia|].
    destruct (dec_build_array (dec f d'') encs (map canon l) rest) as (h & body & Eh & Hm & Hdec).
    + eapply Forall2_impl_in; [|exact HF]. intros b x Hb _ [_ Hok] r.
      apply Hok; [exact Hext|]. apply lenN_le_concat in Hb. unfold lenN in *. lia.
    + exact Hl.
    + rewrite Eh. cbn [app]. rewrite dec_S, Hm.
      change (dec_array (dec f d'') (h / 4) (body ++ rest) = Some (canon (VArray l))).
      rewrite canon_array. exact Hdec.
  - (* object *)
    intros Hw d d' bb ND E Hl Hd. rewrite enc_st_object in E.
    destruct (enc_fields enc_st d fs) as [d1 es] eqn:E1. inversion E; subst.
    apply wf_object in Hw as [Hnd Hw].
    assert (DG : Forall (fun kv : bytes * value => dict_good (snd kv)) fs)
      by (apply Forall_forall; intros; apply enc_st_dict).
    destruct (enc_fields_dict fs DG _ _ _ ND E1) as [X1 N1].
    pose proof (build_object_len (isort es)) as Hbl.
    assert (Hpl : lenN (concat (map entry_enc (isort es))) = lenN (concat (map entry_enc es)))
      by (apply perm_concat_len, Permutation_map, isort_perm).
    assert (HF : Forall2 (entry_ok d') (cmap fs) es)
      by (apply (enc_fields_ok fs H Hw d d' es ND E1); [unfold bytes in *; lia|exact Hd]).
    assert (HS : Forall2 (entry_ok d') (isort (cmap fs)) (isort es)).
    { apply isort_Forall2; [|exact HF]. intros a b0 (Hk & _). exact Hk. }
    split; [exact X1|]. split; [exact N1|].
    destruct (object_header (isort es)) as (body0 & E0 & _).
    split; [rewrite E0; cbn; lia|].
    intros d'' fuel rest Hext Hf. destruct fuel as [|f]; [rewrite E0 in Hf; cbn in Hf; lia|].
    destruct (dec_build_object (dec f d'') d'' (isort es) (isort (cmap fs)) rest) as (h & body & Eh & Hm & Hdec).
    + eapply Forall2_impl_in; [|exact HS]. intros cf e _ He (Hk & Hid & _ & Hok).
      split; [exact Hk|]. split; [eapply ext_nth; eauto|]. intros r.
      apply Hok; [exact Hext|].
      assert (Hin : In (entry_enc e) (map entry_enc (isort es))) by now apply in_map.
      apply lenN_le_concat in Hin. unfold lenN in *. lia.
    + apply isort_keys_NoDup. now rewrite cmap_keys.
    + exact Hl.
    + apply max_id_lt; [lia|]. apply Forall_forall. intros e He.
      destruct (Forall2_in_r _ _ _ _ HS He) as (cf & _ & (_ & Hid & _)).
      assert (Hlt : (fst (snd e) < length d')%nat) by (apply nth_error_Some; congruence).
      unfold entry_id, lenN in *. lia.
    + rewrite Eh. cbn [app]. rewrite dec_S, Hm.
      change (dec_object (dec f d'') d'' (h / 4) (body ++ rest) = Some (canon (VObject fs))).
      rewrite canon_object. exact Hdec.
Qed.

(** * metadata *)
Lemma psums_head acc l : exists t, psums acc l = acc :: t.
Proof. destruct l; eexists; reflexivity. Qed.

Lemma slice_mid (p x r : bytes) : slice (p ++ x ++ r) (lenN p, lenN p + lenN x) = Some x.
Proof.
  unfold slice. rewrite !lenN_app.
  destruct (N.ltb_spec (lenN p + lenN x) (lenN p)); [lia|].
  destruct (N.ltb_spec (lenN p + (lenN x + lenN r)) (lenN p + lenN x)); [lia|]. cbn [orb].
  replace (lenN p + lenN x - lenN p) with (lenN x) by lia.
  rewrite !to_nat_lenN, skipn_app_exact, firstn_app_exact. reflexivity.
Qed.

Lemma slices_ok (d : dict) : forall p : bytes,
  map_opt (slice (p ++ concat d))
    (combine (psums (lenN p) (map lenN d)) (tl (psums (lenN p) (map lenN d)))) = Some d.
Proof.
  induction d as [|x d IH]; intros p; [reflexivity|].
  cbn [map psums tl concat].
  destruct (psums_head (lenN p + lenN x) (map lenN d)) as (t & Et).
  rewrite Et. cbn [combine map_opt]. rewrite slice_mid.
  specialize (IH (p ++ x)). rewrite lenN_app, Et, <- app_assoc in IH. cbn [tl combine] in IH.
  now rewrite IH.
Qed.

Lemma b16_mod b v : b < 16 -> (b + 16 * v) mod 16 = b.
Proof. intros H. rewrite (N.mul_comm 16 v), N.mod_add by discriminate. now apply N.mod_small. Qed.
Lemma b16_div b v : b < 16 -> (b + 16 * v) / 16 = v.
Proof.
  intros H. rewrite (N.mul_comm 16 v), N.div_add by discriminate.
  rewrite (N.div_small b 16) by exact H. lia.
Qed.

Lemma decode_encode_metadata (d : dict) : lenN d < 2 ^ 32 -> lenN (concat d) < 2 ^ 32 ->
  decode_metadata (encode_metadata d) = Some (d, sortedb d).
Proof.
  intros Hn Ht. unfold encode_metadata.
  remember (offset_size_code (N.max (lenN (concat d)) (lenN d))) as osc eqn:Eosc.
  assert (Hosc : osc < 4) by (subst osc; apply offset_size_code_lt4).
  assert (Hmax : N.max (lenN (concat d)) (lenN d) < 2 ^ 32) by lia.
  set (s := if sortedb d then 1 else 0).
  assert (Hs : s < 2) by (unfold s; destruct (sortedb d); lia).
  replace (1 + 16 * s + 64 * osc) with (1 + 16 * (s + 4 * osc)) by lia.
  unfold decode_metadata.
  rewrite b16_mod by lia. rewrite N.eqb_refl. cbn [negb].
  change 64 with (16 * 4). rewrite <- N.div_div by discriminate.
  rewrite b16_div by lia.
  assert (E2 : (s + 4 * osc) mod 2 = s).
  { replace (4 * osc) with (2 * osc * 2) by lia. rewrite N.mod_add by discriminate. now apply N.mod_small. }
  rewrite E2, hdr_div by lia. rewrite (N.mod_small osc 4) by exact Hosc.
  rewrite read_uint_to_le by (subst osc; apply offset_size_code_bound; [exact Hmax|lia]).
  match goal with |- context [if ?c then None else _] => assert (Hc : c = false) end.
  { apply N.ltb_ge. rewrite lenN_app, lenN_write_uints, lenN_psums, lenN_map.
    pose proof (osz_ge1 osc). unfold bytes in *. nia. }
  rewrite Hc.
  replace (S (N.to_nat (lenN d))) with (length (psums 0 (map lenN d)))
    by (rewrite psums_length, map_length, to_nat_lenN; reflexivity).
  rewrite read_uints_write.
  2:{ eapply Forall_impl; [|apply psums_bound]. cbn. intros a Ha. rewrite sum_lens in Ha.
      subst osc. apply offset_size_code_bound; [exact Hmax|lia]. }
  pose proof (slices_ok d []) as Hsl. cbn [app] in Hsl. change (lenN (@nil N)) with 0 in Hsl.
  rewrite Hsl. f_equal. f_equal. unfold s. now destruct (sortedb d).
Qed.

(** * the theorem *)
Theorem decode_encode v meta val :
  wf v -> encodable v -> encode v = (meta, val) -> decode meta val = Some (canon v).
Proof.
  unfold encodable, encode. destruct (enc_st [] v) as [d b] eqn:E.
  intros Hw (Hb & Hn & Ht) Hm. inversion Hm; subst.
  unfold decode. rewrite decode_encode_metadata by assumption.
  destruct (enc_st_good v Hw [] d val (NoDup_nil _) E Hb Hn) as (_ & _ & _ & Hok).
  unfold decode_value. rewrite <- (app_nil_r val) at 2. apply Hok; [apply ext_refl|lia].
Qed.

(* a value whose objects list their fields in name order is returned unchanged *)
Lemma sortedb_ksorted {A} (l : list (bytes * A)) : sortedb (map fst l) = true -> ksorted l.
Proof.
  induction l as [|a l IH]; [exact (fun _ => I)|]. destruct l as [|b l]; [exact (fun _ => I)|].
  cbn [map sortedb]. intros H. apply andb_true_iff in H as [H1 H2]. split; [exact H1|]. apply IH. exact H2.
Qed.

Lemma key_sorted_array l : key_sorted (VArray l) <-> Forall key_sorted l.
Proof.
  cbn [key_sorted]. induction l as [|x l IH]; [split; [constructor|exact (fun _ => I)]|].
  rewrite IH. split; [intros [H1 H2]; now constructor|intros H; inversion H; auto].
Qed.

Lemma key_sorted_object fs : key_sorted (VObject fs) <->
  sortedb (map fst fs) = true /\ Forall (fun kv => key_sorted (snd kv)) fs.
Proof.
  cbn [key_sorted]. apply and_iff_compat_l.
  induction fs as [|[k x] fs IH]; [split; [constructor|exact (fun _ => I)]|].
  rewrite IH. split; [intros [H1 H2]; now constructor|intros H; inversion H; auto].
Qed.

Lemma canon_key_sorted v : key_sorted v -> canon v = v.
Proof.
  induction v using value_ind'; intros Hk; try reflexivity.
  - apply key_sorted_array in Hk. rewrite canon_array. f_equal.
    induction l as [|x l IHl]; [reflexivity|]. inversion H; inversion Hk; subst. cbn. f_equal; auto.
  - apply key_sorted_object in Hk as [Hs Hk]. rewrite canon_object.
    assert (Ec : cmap fs = fs).
    { clear Hs. induction fs as [|[k x] fs IHf]; [reflexivity|].
      inversion H; inversion Hk; subst. cbn in *. f_equal; [f_equal; auto|auto]. }
    rewrite Ec. f_equal. apply isort_id. now apply sortedb_ksorted.
Qed.

Corollary decode_encode_sorted v meta val :
  wf v -> key_sorted v -> encodable v -> encode v = (meta, val) -> decode meta val = Some v.
Proof. intros Hw Hk He E. rewrite <- (canon_key_sorted v Hk). now apply decode_encode. Qed.
