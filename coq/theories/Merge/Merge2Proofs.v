(** mergedRowReader2 refines the abstract scheduler: for every source
    chunking and every sequence of ReadRows slice lengths, the rows it emits
    are a run of the scheduler on the two inputs. *)
From Coq Require Import List ZArith Bool Arith Lia Sorting.Sorted Sorting.Permutation.
From PQ Require Import Generated.Consts Merge.Model Merge.AbstractProofs Merge.RunLengthProofs.
Import ListNotations.
Open Scope Z_scope.

Section Merge2.
  Variable K : Type.
  Variable cmp : K -> K -> Z.
  Hypothesis cmp_opp : forall a b, cmp a b < 0 <-> cmp b a > 0.
  Hypothesis cmp_trans : forall a b d, cmp a b <= 0 -> cmp b d <= 0 -> cmp a d <= 0.

  Notation row := (row K).
  Notation buf := (buf K).
  Notation rcmp := (rcmp cmp).
  Notation sorted := (sorted K cmp).
  Notation rle := (rle K cmp).
  Notation sched := (sched cmp).

  (** ** buffers *)
  Lemma min_buf_pos : (1 <= min_buf)%nat.
  Proof. vm_compute. lia. Qed.
  Lemma max_buf_pos : (1 <= max_buf)%nat.
  Proof. vm_compute. lia. Qed.

  Lemma buf_read_some (b b' : buf) : buf_read b = Some b' -> b_win b = [] ->
    remaining b' = remaining b /\ b_win b' <> [].
  Proof.
    unfold buf_read. intros H Hw.
    destruct (match b_chunks b with [] => _ | c :: t => _ end) as [c chunks'].
    destruct (Nat.min (Nat.min c _) (length (b_src b))) as [|n] eqn:En; [discriminate|].
    remember (S n) as N eqn:EN. injection H as <-. unfold remaining. cbn [b_win b_src]. rewrite Hw. cbn [app]. split.
    - apply firstn_skipn.
    - subst N. destruct (b_src b); [cbn in En; lia|discriminate].
  Qed.

  Lemma buf_read_none (b : buf) : buf_read b = None -> b_src b = [].
  Proof.
    unfold buf_read. intros H.
    set (cap := if (b_cap b =? 0)%nat then min_buf
                else if b_full b && (b_cap b <? max_buf)%nat then Nat.min (2 * b_cap b) max_buf
                     else b_cap b) in *.
    assert (Hcap : (1 <= cap)%nat).
    { unfold cap. pose proof min_buf_pos. pose proof max_buf_pos.
      destruct (Nat.eqb_spec (b_cap b) 0); [assumption|].
      destruct (b_full b && (b_cap b <? max_buf)%nat); lia. }
    destruct (b_chunks b) as [|c t].
    - destruct (Nat.min (Nat.min cap cap) (length (b_src b))) eqn:En; [|discriminate].
      destruct (b_src b) as [|x l]; [reflexivity|]. cbn [length] in En. lia.
    - destruct (Nat.min (Nat.min (Nat.max 1 c) cap) (length (b_src b))) eqn:En; [|discriminate].
      destruct (b_src b) as [|x l]; [reflexivity|]. cbn [length] in En. lia.
  Qed.

  Lemma remaining_advance (b : buf) n :
    remaining b = firstn n (b_win b) ++ remaining (advance b n).
  Proof. unfold remaining, advance. cbn. now rewrite app_assoc, firstn_skipn. Qed.

  Lemma has_next_true (b : buf) : has_next b = true -> b_win b <> [].
  Proof. unfold has_next. destruct (b_win b); [discriminate|discriminate]. Qed.

  Lemma remaining_head (b : buf) h t : b_win b = h :: t -> remaining b = h :: (t ++ b_src b).
  Proof. unfold remaining. now intros ->. Qed.

  (** ** refill *)
  Definition opt_sorted (r : option buf) : Prop := sorted (remaining_opt r).

  Lemma refill_spec (r : option buf) :
    remaining_opt (refill K r) = remaining_opt r /\
    (forall b, refill K r = Some b -> b_win b <> []).
  Proof.
    destruct r as [b|]; cbn; [|split; [reflexivity|discriminate]].
    destruct (b_win b) eqn:Ew.
    - destruct (buf_read b) as [b'|] eqn:Er.
      + destruct (buf_read_some _ _ Er Ew) as [H1 H2]. split; [exact H1|].
        intros ? E; inversion E; subst; assumption.
      + split; [|discriminate]. cbn. unfold remaining. rewrite Ew, (buf_read_none _ Er). reflexivity.
    - split; [reflexivity|]. intros ? E; inversion E; subst. congruence.
  Qed.

  (** ** emitRun and single emission *)
  Lemma run_length_nil bound mx : run_length cmp [] bound mx = 0%nat.
  Proof. reflexivity. Qed.

  Lemma emit_run_spec room (b : buf) bound h t :
    b_win b = h :: t -> (1 <= room)%nat -> sorted (remaining b) -> rcmp h bound < 0 ->
    let '(em, b') := emit_run K cmp room b bound in
    remaining b = em ++ remaining b' /\ (forall r, In r em -> rcmp r bound < 0) /\
    (1 <= length em <= room)%nat.
  Proof.
    intros Hw Hroom Hs Hh. unfold emit_run. rewrite Hw.
    destruct room as [|r']; [lia|]. cbn [firstn].
    set (wt := firstn r' t).
    assert (Hrun : match h :: wt with _ :: ((_ :: _) as t') => run_length cmp t' bound (-1) | _ => 0%nat end
                   = run_length cmp wt bound (-1)) by (destruct wt; reflexivity).
    rewrite Hrun. set (rl := run_length cmp wt bound (-1)).
    assert (Hst : sorted t).
    { rewrite (remaining_head _ _ _ Hw) in Hs. inversion Hs as [|? ? Hs' _]; subst.
      now apply sorted_app_inv in Hs'. }
    assert (Hswt : sorted wt) by (apply sorted_firstn; exact Hst).
    assert (Hrl : (rl <= length wt)%nat) by (apply run_length_le; auto).
    assert (Hwt : (length wt <= r')%nat) by (unfold wt; rewrite firstn_length; lia).
    change (1 + rl)%nat with (S rl). cbn [firstn].
    assert (Hf : firstn rl wt = firstn rl t).
    { unfold wt. rewrite firstn_firstn. f_equal. lia. }
    repeat split.
    - rewrite (remaining_advance b (S rl)), Hw. cbn [firstn]. now rewrite Hf.
    - intros r [<-|Hr]; [exact Hh|].
      assert (rcmp r bound <= -1); [|lia].
      eapply (run_length_prefix_qual K cmp cmp_opp cmp_trans wt bound (-1)); eauto.
    - cbn. lia.
    - cbn. rewrite firstn_length. lia.
  Qed.

  Lemma emit_one_spec (b : buf) h t :
    b_win b = h :: t -> remaining b = [h] ++ remaining (advance b 1).
  Proof. intros Hw. rewrite (remaining_advance b 1), Hw. reflexivity. Qed.

  (* the state of the scheduler for two inputs *)
  Definition st2 (x0 x1 : list row) : list (list row) := [x0; x1].

  Lemma sched_emit0 em x0' x1 h1 t1 :
    sorted (em ++ x0') -> (forall r, In r em -> rle r h1) -> x1 = h1 :: t1 ->
    sched (st2 (em ++ x0') x1) em (st2 x0' x1).
  Proof.
    intros Hs Hle ->. change (st2 x0' (h1 :: t1)) with (upd (st2 (em ++ x0') (h1 :: t1)) 0 x0').
    apply (sched_prefix K cmp cmp_opp); [reflexivity|exact Hs|].
    intros r [|[|j]] r' t Hr Hj E; cbn in E; try congruence; [|destruct j; discriminate].
    inversion E; subst. auto.
  Qed.

  Lemma sched_emit1 em x1' x0 h0 t0 :
    sorted (em ++ x1') -> (forall r, In r em -> rle r h0) -> x0 = h0 :: t0 ->
    sched (st2 x0 (em ++ x1')) em (st2 x0 x1').
  Proof.
    intros Hs Hle ->. change (st2 (h0 :: t0) x1') with (upd (st2 (h0 :: t0) (em ++ x1')) 1 x1').
    apply (sched_prefix K cmp cmp_opp); [reflexivity|exact Hs|].
    intros r [|[|j]] r' t Hr Hj E; cbn in E; try congruence; [|destruct j; discriminate].
    inversion E; subst. auto.
  Qed.

  Lemma sched_drain0 em x0' : sorted (em ++ x0') -> sched (st2 (em ++ x0') []) em (st2 x0' []).
  Proof.
    intros Hs. change (st2 x0' []) with (upd (st2 (em ++ x0') []) 0 x0').
    apply (sched_prefix K cmp cmp_opp); [reflexivity|exact Hs|].
    intros r [|[|j]] r' t Hr Hj E; cbn in E; try congruence; destruct j; discriminate.
  Qed.

  Lemma sched_drain1 em x1' : sorted (em ++ x1') -> sched (st2 [] (em ++ x1')) em (st2 [] x1').
  Proof.
    intros Hs. change (st2 [] x1') with (upd (st2 [] (em ++ x1')) 1 x1').
    apply (sched_prefix K cmp cmp_opp); [reflexivity|exact Hs|].
    intros r [|[|j]] r' t Hr Hj E; cbn in E; try congruence; destruct j; discriminate.
  Qed.

  Lemma lt_rle a b : rcmp a b < 0 -> rle a b.
  Proof. unfold AbstractProofs.rle. lia. Qed.

  (** ** the comparison loop *)
  Lemma loop2_refines fuel : forall room (b0 b1 : buf) prev streak out b0' b1' p s,
    loop2 K cmp fuel room b0 b1 prev streak = (out, b0', b1', p, s) ->
    sorted (remaining b0) -> sorted (remaining b1) ->
    sched (st2 (remaining b0) (remaining b1)) out (st2 (remaining b0') (remaining b1')) /\
    (length out <= room)%nat.
  Proof.
    induction fuel as [|f IH]; intros room b0 b1 prev streak out b0' b1' p s H Hs0 Hs1.
    { cbn in H. inversion H; subst. split; [constructor|cbn; lia]. }
    cbn [loop2] in H.
    destruct (Nat.eqb_spec room 0) as [Hr|Hr].
    { inversion H; subst. split; [constructor|cbn; lia]. }
    destruct (b_win b0) as [|h0 t0] eqn:Ew0.
    { inversion H; subst. split; [constructor|cbn; lia]. }
    destruct (b_win b1) as [|h1 t1] eqn:Ew1.
    { inversion H; subst. split; [constructor|cbn; lia]. }
    pose proof (remaining_head _ _ _ Ew0) as Hr0. pose proof (remaining_head _ _ _ Ew1) as Hr1.
    destruct (Z.ltb_spec (rcmp h0 h1) 0) as [Hlt|Hge].
    - (* r0 wins *)
      set (streak' := if prev <? 0 then streak + 1 else 0) in *.
      assert (Hem : exists em bx, (if streak' >=? run_streak then emit_run K cmp room b0 h1 else ([h0], advance b0 1)) = (em, bx) /\
                     remaining b0 = em ++ remaining bx /\ (forall r, In r em -> rcmp r h1 < 0) /\
                     (1 <= length em <= room)%nat).
      { destruct (streak' >=? run_streak).
        - pose proof (emit_run_spec room b0 h1 h0 t0 Ew0 ltac:(lia) Hs0 Hlt) as E.
          destruct (emit_run K cmp room b0 h1) as [em bx]. exists em, bx. tauto.
        - exists [h0], (advance b0 1). repeat split; [exact (emit_one_spec _ _ _ Ew0)| |cbn; lia|cbn; lia].
          intros r [<-|[]]. exact Hlt. }
      destruct Hem as [em [bx [Eem [Hrem [Hlt_em Hlen]]]]]. rewrite Eem in H.
      assert (Hstep : sched (st2 (remaining b0) (remaining b1)) em (st2 (remaining bx) (remaining b1))).
      { rewrite Hrem. eapply sched_emit0; [rewrite <- Hrem; exact Hs0| |exact Hr1].
        intros r Hr'. apply lt_rle. auto. }
      assert (Hsx : sorted (remaining bx)).
      { rewrite Hrem in Hs0. now apply sorted_app_inv in Hs0. }
      destruct (has_next bx).
      + destruct (loop2 K cmp f (room - length em) bx b1 (-1) streak') as [[[[o x0] x1] pp] ss] eqn:El.
        inversion H; subst. destruct (IH _ _ _ _ _ _ _ _ _ _ El Hsx Hs1) as [I1 I2].
        split; [eapply sched_app; eauto|]. rewrite app_length. lia.
      + inversion H; subst. split; [exact Hstep|lia].
    - destruct (Z.gtb_spec (rcmp h0 h1) 0) as [Hgt|Hle].
      + (* r1 wins *)
        assert (Hlt : rcmp h1 h0 < 0).
        { unfold Model.rcmp in *. apply cmp_opp. lia. }
        set (streak' := if prev >? 0 then streak + 1 else 0) in *.
        assert (Hem : exists em bx, (if streak' >=? run_streak then emit_run K cmp room b1 h0 else ([h1], advance b1 1)) = (em, bx) /\
                       remaining b1 = em ++ remaining bx /\ (forall r, In r em -> rcmp r h0 < 0) /\
                       (1 <= length em <= room)%nat).
        { destruct (streak' >=? run_streak).
          - pose proof (emit_run_spec room b1 h0 h1 t1 Ew1 ltac:(lia) Hs1 Hlt) as E.
            destruct (emit_run K cmp room b1 h0) as [em bx]. exists em, bx. tauto.
          - exists [h1], (advance b1 1). repeat split; [exact (emit_one_spec _ _ _ Ew1)| |cbn; lia|cbn; lia].
            intros r [<-|[]]. exact Hlt. }
        destruct Hem as [em [bx [Eem [Hrem [Hlt_em Hlen]]]]]. rewrite Eem in H.
        assert (Hstep : sched (st2 (remaining b0) (remaining b1)) em (st2 (remaining b0) (remaining bx))).
        { rewrite Hrem. eapply sched_emit1; [rewrite <- Hrem; exact Hs1| |exact Hr0].
          intros r Hr'. apply lt_rle. auto. }
        assert (Hsx : sorted (remaining bx)).
        { rewrite Hrem in Hs1. now apply sorted_app_inv in Hs1. }
        destruct (has_next bx).
        * destruct (loop2 K cmp f (room - length em) b0 bx 1 streak') as [[[[o x0] x1] pp] ss] eqn:El.
          inversion H; subst. destruct (IH _ _ _ _ _ _ _ _ _ _ El Hs0 Hsx) as [I1 I2].
          split; [eapply sched_app; eauto|]. rewrite app_length. lia.
        * inversion H; subst. split; [exact Hstep|lia].
      + (* tie: r0's row, then r1's *)
        assert (Heq : rcmp h0 h1 = 0) by lia.
        assert (Hs0' : sorted (remaining (advance b0 1))).
        { rewrite (emit_one_spec _ _ _ Ew0) in Hs0. now apply sorted_app_inv in Hs0. }
        assert (Hstep0 : sched (st2 (remaining b0) (remaining b1)) [h0] (st2 (remaining (advance b0 1)) (remaining b1))).
        { rewrite (emit_one_spec _ _ _ Ew0). eapply sched_emit0; [rewrite <- (emit_one_spec _ _ _ Ew0); exact Hs0| |exact Hr1].
          intros r [<-|[]]. unfold AbstractProofs.rle. lia. }
        destruct (Nat.ltb_spec 1 room) as [Hroom|Hroom].
        * assert (Hs1' : sorted (remaining (advance b1 1))).
          { rewrite (emit_one_spec _ _ _ Ew1) in Hs1. now apply sorted_app_inv in Hs1. }
          assert (Hstep1 : sched (st2 (remaining (advance b0 1)) (remaining b1)) [h1]
                                 (st2 (remaining (advance b0 1)) (remaining (advance b1 1)))).
          { rewrite (emit_one_spec _ _ _ Ew1).
            destruct (remaining (advance b0 1)) as [|h0' t0'] eqn:E0.
            - apply sched_drain1. rewrite <- (emit_one_spec _ _ _ Ew1); exact Hs1.
            - eapply sched_emit1; [rewrite <- (emit_one_spec _ _ _ Ew1); exact Hs1| |reflexivity].
              intros r [<-|[]].
              (* h1 <= h0 <= the next row of r0 *)
              apply (rle_trans K cmp cmp_trans) with h0.
              + unfold AbstractProofs.rle, Model.rcmp in *. rewrite (cmp_eq_sym K cmp cmp_opp _ _ Heq). lia.
              + rewrite (emit_one_spec _ _ _ Ew0), E0 in Hs0. cbn in Hs0.
                eapply (sorted_head_le K cmp cmp_opp); [exact Hs0|]. right. now left. }
          assert (Hboth : sched (st2 (remaining b0) (remaining b1)) [h0; h1]
                                (st2 (remaining (advance b0 1)) (remaining (advance b1 1)))).
          { change [h0; h1] with ([h0] ++ [h1]). eapply sched_app; eauto. }
          destruct (has_next (advance b0 1) && has_next (advance b1 1)).
          -- destruct (loop2 K cmp f (room - 2) (advance b0 1) (advance b1 1) 0 0) as [[[[o x0] x1] pp] ss] eqn:El.
             inversion H; subst. destruct (IH _ _ _ _ _ _ _ _ _ _ El Hs0' Hs1') as [I1 I2].
             split.
             ++ change (h0 :: h1 :: o) with ([h0; h1] ++ o). eapply sched_app; eauto.
             ++ cbn. lia.
          -- inversion H; subst. split; [exact Hboth|cbn; lia].
        * inversion H; subst. split; [exact Hstep0|cbn; lia].
  Qed.

  (** ties: the row of input 0 goes first *)
  Lemma loop2_tie_first f room (b0 b1 : buf) prev streak h0 t0 h1 t1 :
    b_win b0 = h0 :: t0 -> b_win b1 = h1 :: t1 -> rcmp h0 h1 = 0 -> (1 <= room)%nat ->
    exists rest, fst (fst (fst (fst (loop2 K cmp (S f) room b0 b1 prev streak)))) = h0 :: rest.
  Proof.
    intros E0 E1 Heq Hroom. cbn [loop2]. rewrite E0, E1.
    destruct (Nat.eqb_spec room 0); [lia|].
    destruct (Z.ltb_spec (rcmp h0 h1) 0); [lia|]. destruct (Z.gtb_spec (rcmp h0 h1) 0); [lia|].
    destruct (1 <? room)%nat; [|eexists; reflexivity].
    destruct (has_next (advance b0 1) && has_next (advance b1 1)); [|eexists; reflexivity].
    destruct (loop2 K cmp f (room - 2) (advance b0 1) (advance b1 1) 0 0) as [[[[o x0] x1] pp] ss].
    eexists; reflexivity.
  Qed.

  (** ** ReadRows *)
  Definition abs2 (m : m2 K) : list (list row) := st2 (remaining_opt (m_r0 m)) (remaining_opt (m_r1 m)).
  Definition m2_ok (m : m2 K) : Prop := opt_sorted (m_r0 m) /\ opt_sorted (m_r1 m).

  Lemma drain_spec room (b : buf) : let '(out, b') := drain K room b in
    remaining b = out ++ remaining b' /\ (length out <= room)%nat.
  Proof.
    unfold drain. split; [apply remaining_advance|]. rewrite firstn_length. lia.
  Qed.

  Lemma read_rows2_refines (m : m2 K) n out eof m' :
    read_rows2 K cmp m n = (out, eof, m') -> m2_ok m ->
    sched (abs2 m) out (abs2 m') /\ m2_ok m' /\ (length out <= n)%nat /\
    (eof = true -> abs2 m' = st2 [] [] /\ out = []).
  Proof.
    unfold read_rows2, m2_ok, abs2, opt_sorted. intros H [Hs0 Hs1].
    destruct (refill_spec (m_r0 m)) as [R0 _]. destruct (refill_spec (m_r1 m)) as [R1 _].
    rewrite <- R0, <- R1 in *.
    destruct (refill K (m_r0 m)) as [b0|]; destruct (refill K (m_r1 m)) as [b1|]; cbn [remaining_opt] in *.
    - destruct (loop2 K cmp n n b0 b1 (m_prev m) (m_streak m)) as [[[[o x0] x1] pp] ss] eqn:El.
      inversion H; subst. cbn. destruct (loop2_refines _ _ _ _ _ _ _ _ _ _ _ El Hs0 Hs1) as [I1 I2].
      assert (Hc : Forall sorted (st2 (remaining x0) (remaining x1))).
      { eapply (sched_preserves_sorted K cmp); [exact I1|]. repeat constructor; assumption. }
      inversion Hc as [|? ? Hc0 Hc']; subst. inversion Hc' as [|? ? Hc1 _]; subst.
      repeat split; auto; discriminate.
    - pose proof (drain_spec n b0) as D. destruct (drain K n b0) as [o b0'].
      inversion H; subst. cbn. destruct D as [D1 D2]. rewrite D1 in *.
      repeat split; auto; try discriminate.
      + now apply sched_drain0.
      + now apply sorted_app_inv in Hs0.
    - pose proof (drain_spec n b1) as D. destruct (drain K n b1) as [o b1'].
      inversion H; subst. cbn. destruct D as [D1 D2]. rewrite D1 in *.
      repeat split; auto; try discriminate.
      + now apply sched_drain1.
      + now apply sorted_app_inv in Hs1.
    - inversion H; subst. cbn. repeat split; auto; try constructor; cbn; lia.
  Qed.
  Lemma run2_refines batches : forall (m : m2 K) outs eof m',
    run2 K cmp m batches = (outs, eof, m') -> m2_ok m ->
    sched (abs2 m) (concat outs) (abs2 m') /\ m2_ok m' /\ (eof = true -> abs2 m' = st2 [] []).
  Proof.
    induction batches as [|n t IH]; intros m outs eof m' H Hok; cbn [run2] in H.
    - inversion H; subst. repeat split; try apply Hok; [constructor|discriminate].
    - destruct (read_rows2 K cmp m n) as [[out e] m1] eqn:Er.
      destruct (read_rows2_refines _ _ _ _ _ Er Hok) as [R1 [R2 [_ R4]]].
      destruct e.
      + inversion H; subst. destruct (R4 eq_refl) as [E1 E2]. subst out. cbn.
        repeat split; try apply R2; auto.
      + destruct (run2 K cmp m1 t) as [[outs' e'] m2'] eqn:Et. inversion H; subst.
        destruct (IH _ _ _ _ Et R2) as [I1 [I2 I3]]. cbn [concat].
        repeat split; try apply I2; auto. eapply sched_app; eauto.
  Qed.

  Lemma remaining_first_read (rows : list row) chunks :
    remaining_opt (buf_read (source rows chunks)) = rows.
  Proof.
    pose proof (refill_spec (Some (source rows chunks))) as [R _]. cbn in R. exact R.
  Qed.

  (** for every chunking of the two sources and every sequence of slice
      lengths, the rows emitted so far are a run of the scheduler; when io.EOF
      is reported nothing is left *)
  Theorem merge2_refines in0 in1 ch0 ch1 batches outs eof m' :
    sorted in0 -> sorted in1 ->
    merge2 cmp in0 in1 ch0 ch1 batches = (outs, eof, m') ->
    sched (st2 in0 in1) (concat outs) (abs2 m') /\ (eof = true -> abs2 m' = st2 [] []).
  Proof.
    intros Hs0 Hs1 H. unfold merge2 in H.
    assert (Habs : abs2 (m2_init K (source in0 ch0) (source in1 ch1)) = st2 in0 in1).
    { unfold abs2, m2_init. cbn [m_r0 m_r1]. now rewrite !remaining_first_read. }
    assert (Hok : m2_ok (m2_init K (source in0 ch0) (source in1 ch1))).
    { unfold m2_ok, opt_sorted, m2_init. cbn [m_r0 m_r1]. now rewrite !remaining_first_read. }
    destruct (run2_refines _ _ _ _ _ H Hok) as [R1 [_ R3]]. rewrite Habs in R1. auto.
  Qed.

  Theorem merge2_correct in0 in1 ch0 ch1 batches outs m' :
    sorted in0 -> sorted in1 ->
    (forall r, In r in0 -> input r = 0%nat) -> (forall r, In r in1 -> input r = 1%nat) ->
    merge2 cmp in0 in1 ch0 ch1 batches = (outs, true, m') ->
    sorted (concat outs) /\ Permutation (in0 ++ in1) (concat outs) /\
    of_input K 0 (concat outs) = in0 /\ of_input K 1 (concat outs) = in1.
  Proof.
    intros Hs0 Hs1 Ht0 Ht1 H. destruct (merge2_refines _ _ _ _ _ _ _ _ Hs0 Hs1 H) as [R1 R2].
    rewrite (R2 eq_refl) in R1.
    assert (He : all_empty K (st2 [] [])) by (repeat constructor).
    assert (Hs : Forall sorted (st2 in0 in1)) by (repeat constructor; assumption).
    assert (Ht : tagged K (st2 in0 in1)).
    { intros [|[|i]] l r E Hr; cbn in E; try (destruct i; discriminate); inversion E; subst; auto. }
    destruct (sched_complete_correct K cmp cmp_opp cmp_trans _ _ _ R1 He Hs Ht) as [C1 [C2 C3]].
    repeat split; auto.
    - cbn in C2. now rewrite app_nil_r in C2.
    - exact (C3 0%nat).
    - exact (C3 1%nat).
  Qed.
End Merge2.
