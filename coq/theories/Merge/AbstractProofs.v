(** The abstract merge scheduler is correct: any procedure that repeatedly
    emits a head that compares <= every head produces, from sorted inputs, a
    sorted sequence that is a permutation of the inputs and keeps every input
    in its original order. *)
From Coq Require Import List ZArith Bool Arith Lia Sorting.Sorted Sorting.Permutation.
From PQ Require Import Merge.Model.
Import ListNotations.
Open Scope Z_scope.

(** * lists: [upd] *)
Lemma upd_length {A} (l : list A) i x : length (upd l i x) = length l.
Proof. revert i; induction l; intros [|i]; cbn; auto. Qed.

Lemma nth_error_upd_same {A} (l : list A) i x :
  (i < length l)%nat -> nth_error (upd l i x) i = Some x.
Proof. revert i; induction l; intros [|i] H; cbn in *; try lia; auto. apply IHl; lia. Qed.

Lemma nth_error_upd_other {A} (l : list A) i j x :
  i <> j -> nth_error (upd l i x) j = nth_error l j.
Proof. revert i j; induction l; intros [|i] [|j] H; cbn; auto; try congruence. Qed.

Lemma nth_upd_same {A} (l : list A) i x d : (i < length l)%nat -> nth i (upd l i x) d = x.
Proof. revert i; induction l; intros [|i] H; cbn in *; try lia; auto. apply IHl; lia. Qed.

Lemma nth_upd_other {A} (l : list A) i j x d : i <> j -> nth j (upd l i x) d = nth j l d.
Proof. revert i j; induction l; intros [|i] [|j] H; cbn; auto; try congruence. Qed.

Lemma upd_upd {A} (l : list A) i x y : upd (upd l i x) i y = upd l i y.
Proof. revert i; induction l; intros [|i]; cbn; auto. now rewrite IHl. Qed.

Lemma upd_id {A} (l : list A) i x : nth_error l i = Some x -> upd l i x = l.
Proof.
  revert i; induction l; intros [|i] H; cbn in *; try discriminate.
  - now inversion H.
  - now rewrite IHl.
Qed.

Lemma nth_error_nth' {A} (l : list A) i x d : nth_error l i = Some x -> nth i l d = x.
Proof. revert i; induction l; intros [|i] H; cbn in *; try discriminate; [now inversion H|auto]. Qed.

Lemma nth_error_lt {A} (l : list A) i x : nth_error l i = Some x -> (i < length l)%nat.
Proof. intros H. apply nth_error_Some. congruence. Qed.

Lemma concat_upd_perm {A} (st : list (list A)) i r t :
  nth_error st i = Some (r :: t) -> Permutation (concat st) (r :: concat (upd st i t)).
Proof.
  revert i; induction st as [|x st IH]; intros [|i] H; cbn in *; try discriminate.
  - inversion H; subst. reflexivity.
  - rewrite (IH _ H). rewrite <- Permutation_middle. reflexivity.
Qed.

Lemma in_concat_nth {A} (st : list (list A)) x :
  In x (concat st) <-> exists j l, nth_error st j = Some l /\ In x l.
Proof.
  split.
  - intros H. apply in_concat in H. destruct H as [l [Hl Hx]].
    apply In_nth_error in Hl. destruct Hl as [j Hj]. eauto.
  - intros [j [l [Hj Hx]]]. apply in_concat. exists l. split; [|exact Hx].
    eapply nth_error_In; eauto.
Qed.

Section Abstract.
  Variable K : Type.
  Variable cmp : K -> K -> Z.
  Hypothesis cmp_opp : forall a b, cmp a b < 0 <-> cmp b a > 0.
  Hypothesis cmp_trans : forall a b d, cmp a b <= 0 -> cmp b d <= 0 -> cmp a d <= 0.

  Notation row := (row K).
  Notation rcmp := (rcmp cmp).

  Definition rle (a b : row) : Prop := rcmp a b <= 0.
  Definition sorted (l : list row) : Prop := StronglySorted rle l.

  (** ** the comparison is a total preorder *)
  Lemma cmp_refl a : cmp a a = 0.
  Proof. pose proof (cmp_opp a a). lia. Qed.

  Lemma cmp_eq_sym a b : cmp a b = 0 -> cmp b a = 0.
  Proof. pose proof (cmp_opp a b); pose proof (cmp_opp b a). lia. Qed.

  Lemma cmp_ge_le a b : cmp a b >= 0 -> cmp b a <= 0.
  Proof. pose proof (cmp_opp a b); pose proof (cmp_opp b a). lia. Qed.

  Lemma cmp_total a b : cmp a b <= 0 \/ cmp b a < 0.
  Proof. pose proof (cmp_opp a b); pose proof (cmp_opp b a). lia. Qed.

  Lemma cmp_le_lt_trans a b d : cmp a b <= 0 -> cmp b d < 0 -> cmp a d < 0.
  Proof.
    intros H1 H2. destruct (Z_lt_le_dec (cmp a d) 0) as [|H]; [assumption|].
    exfalso. assert (cmp d a <= 0) by (apply cmp_ge_le; lia).
    assert (cmp d b <= 0) by (eapply cmp_trans; eauto).
    pose proof (cmp_opp b d). lia.
  Qed.

  Lemma cmp_lt_le_trans a b d : cmp a b < 0 -> cmp b d <= 0 -> cmp a d < 0.
  Proof.
    intros H1 H2. destruct (Z_lt_le_dec (cmp a d) 0) as [|H]; [assumption|].
    exfalso. assert (cmp d a <= 0) by (apply cmp_ge_le; lia).
    assert (cmp b a <= 0) by (eapply cmp_trans; eauto).
    pose proof (cmp_opp a b). lia.
  Qed.

  Lemma cmp_eq_trans a b d : cmp a b = 0 -> cmp b d = 0 -> cmp a d = 0.
  Proof.
    intros H1 H2.
    assert (cmp a d <= 0) by (eapply cmp_trans with b; lia).
    assert (cmp d a <= 0).
    { eapply cmp_trans with b; [rewrite (cmp_eq_sym _ _ H2)|rewrite (cmp_eq_sym _ _ H1)]; lia. }
    pose proof (cmp_opp a d). lia.
  Qed.

  Lemma rle_refl a : rle a a.
  Proof. unfold rle, Model.rcmp. rewrite cmp_refl. lia. Qed.

  Lemma rle_trans a b d : rle a b -> rle b d -> rle a d.
  Proof. unfold rle, Model.rcmp. apply cmp_trans. Qed.

  (** ** sorted lists *)
  Lemma sorted_app_inv l1 l2 : sorted (l1 ++ l2) ->
    sorted l1 /\ sorted l2 /\ forall a b, In a l1 -> In b l2 -> rle a b.
  Proof.
    induction l1 as [|x l1 IH]; cbn; intros H.
    - repeat split; [constructor|exact H|contradiction].
    - inversion H as [|? ? Hs Hf]; subst. destruct (IH Hs) as [H1 [H2 H3]].
      rewrite Forall_app in Hf. destruct Hf as [Hf1 Hf2].
      repeat split; [constructor; assumption|assumption|].
      intros a b [->|Ha] Hb; [|auto]. rewrite Forall_forall in Hf2. auto.
  Qed.

  Lemma sorted_app l1 l2 : sorted l1 -> sorted l2 ->
    (forall a b, In a l1 -> In b l2 -> rle a b) -> sorted (l1 ++ l2).
  Proof.
    induction l1 as [|x l1 IH]; cbn; intros H1 H2 H; [exact H2|].
    inversion H1 as [|? ? Hs Hf]; subst. constructor.
    - apply IH; auto.
    - rewrite Forall_app. split; [exact Hf|]. rewrite Forall_forall. intros b Hb. apply H; auto.
  Qed.

  Lemma sorted_skipn n l : sorted l -> sorted (skipn n l).
  Proof.
    intros H. rewrite <- (firstn_skipn n l) in H. now apply sorted_app_inv in H.
  Qed.

  Lemma sorted_firstn n l : sorted l -> sorted (firstn n l).
  Proof.
    intros H. rewrite <- (firstn_skipn n l) in H. now apply sorted_app_inv in H.
  Qed.

  Lemma sorted_tl l : sorted l -> sorted (tl l).
  Proof. destruct l; cbn; [auto|]. intros H. now inversion H. Qed.

  Lemma sorted_head_le r t x : sorted (r :: t) -> In x (r :: t) -> rle r x.
  Proof.
    intros H [->|Hx]; [apply rle_refl|]. inversion H as [|? ? _ Hf]; subst.
    rewrite Forall_forall in Hf. auto.
  Qed.

  Lemma sorted_nth_le l i j a b : sorted l -> (i <= j)%nat ->
    nth_error l i = Some a -> nth_error l j = Some b -> rle a b.
  Proof.
    revert i j; induction l as [|x l IH]; intros [|i] [|j] Hs Hij Ha Hb; cbn in *; try discriminate; try lia.
    - inversion Ha; inversion Hb; subst. apply rle_refl.
    - inversion Ha; subst. eapply sorted_head_le; eauto. right. eapply nth_error_In; eauto.
    - inversion Hs; subst. apply (IH i j); auto. lia.
  Qed.

  Lemma StronglySorted_Sorted_rle l : sorted l -> Sorted rle l.
  Proof. apply StronglySorted_Sorted. Qed.

  (** ** the scheduler *)
  Definition tagged (st : list (list row)) : Prop :=
    forall i l r, nth_error st i = Some l -> In r l -> input r = i.

  Definition of_input (i : nat) (l : list row) : list row := filter (fun r => Nat.eqb (input r) i) l.

  Lemma heads_ge_all st r : Forall sorted st -> heads_ge cmp st r ->
    forall x, In x (concat st) -> rle r x.
  Proof.
    intros Hs Hh x Hx. apply in_concat_nth in Hx. destruct Hx as [j [l [Hj Hx]]].
    destruct l as [|h t]; [contradiction|].
    apply rle_trans with h; [exact (Hh j h t Hj)|].
    rewrite Forall_forall in Hs. eapply sorted_head_le; eauto. apply Hs. eapply nth_error_In; eauto.
  Qed.

  Lemma Forall_sorted_upd st i t r :
    Forall sorted st -> nth_error st i = Some (r :: t) -> Forall sorted (upd st i t).
  Proof.
    intros Hs Hi. rewrite Forall_forall in *. intros l Hl.
    apply In_nth_error in Hl. destruct Hl as [j Hj].
    destruct (Nat.eq_dec i j) as [->|Hne].
    - rewrite nth_error_upd_same in Hj by (eapply nth_error_lt; eauto). inversion Hj; subst.
      assert (sorted (r :: l)) by (apply Hs; eapply nth_error_In; eauto). now inversion H.
    - rewrite nth_error_upd_other in Hj by assumption. apply Hs. eapply nth_error_In; eauto.
  Qed.

  Lemma tagged_upd st i t r : tagged st -> nth_error st i = Some (r :: t) -> tagged (upd st i t).
  Proof.
    intros Ht Hi j l x Hj Hx. destruct (Nat.eq_dec i j) as [->|Hne].
    - rewrite nth_error_upd_same in Hj by (eapply nth_error_lt; eauto). inversion Hj; subst.
      eapply Ht; eauto. now right.
    - rewrite nth_error_upd_other in Hj by assumption. eapply Ht; eauto.
  Qed.

  Lemma of_input_notin i l : (forall r, In r l -> input r <> i) -> of_input i l = [].
  Proof.
    induction l as [|x l IH]; cbn; intros H; [reflexivity|].
    destruct (Nat.eqb_spec (input x) i) as [E|E]; [exfalso; eapply H; eauto|].
    apply IH. intros r Hr. apply H. now right.
  Qed.

  Lemma of_input_all i l : (forall r, In r l -> input r = i) -> of_input i l = l.
  Proof.
    induction l as [|x l IH]; cbn; intros H; [reflexivity|].
    destruct (Nat.eqb_spec (input x) i) as [E|E]; [|exfalso; apply E; auto].
    f_equal. apply IH. auto.
  Qed.

  Lemma sched_preserves_sorted st out st' :
    sched cmp st out st' -> Forall sorted st -> Forall sorted st'.
  Proof. induction 1; intros Hs; [exact Hs|]. apply IHsched. eapply Forall_sorted_upd; eauto. Qed.

  (** every prefix of a run of the scheduler is sorted, below what is left,
      a permutation, and keeps each input's order *)
  Theorem sched_correct st out st' :
    sched cmp st out st' -> Forall sorted st -> tagged st ->
    sorted out /\
    (forall a b, In a out -> In b (concat st') -> rle a b) /\
    Permutation (concat st) (out ++ concat st') /\
    (forall i, nth i st [] = of_input i out ++ nth i st' []) /\
    Forall sorted st' /\ tagged st' /\ length st' = length st.
  Proof.
    induction 1 as [st|st i r t out st' Hi Hh Hrun IH]; intros Hs Ht.
    - repeat split; auto; try constructor; try contradiction.
    - destruct (IH (Forall_sorted_upd _ _ _ _ Hs Hi) (tagged_upd _ _ _ _ Ht Hi))
        as [I1 [I2 [I3 [I4 [I5 [I6 I7]]]]]].
      pose proof (heads_ge_all _ _ Hs Hh) as Hmin.
      pose proof (concat_upd_perm _ _ _ _ Hi) as Hp.
      assert (Hr_le : forall x, In x (out ++ concat st') -> rle r x).
      { intros x Hx. apply Hmin. rewrite Hp. right. rewrite I3. exact Hx. }
      repeat split; auto.
      + constructor; [exact I1|]. rewrite Forall_forall. intros x Hx. apply Hr_le. apply in_or_app; auto.
      + intros a b [->|Ha] Hb; [|auto]. apply Hr_le. apply in_or_app; auto.
      + rewrite Hp. cbn. now rewrite I3.
      + intros j. pose proof (I4 j) as Hj. unfold of_input. cbn [filter].
        assert (Hin : input r = i) by (eapply Ht; eauto; now left).
        destruct (Nat.eq_dec i j) as [->|Hne].
        * rewrite nth_upd_same in Hj by (eapply nth_error_lt; eauto).
          rewrite (nth_error_nth' _ _ _ [] Hi). rewrite Hin, Nat.eqb_refl. cbn. f_equal. exact Hj.
        * rewrite nth_upd_other in Hj by assumption.
          destruct (Nat.eqb_spec (input r) j); [congruence|]. exact Hj.
      + rewrite I7. apply upd_length.
  Qed.

  Definition all_empty (st : list (list row)) : Prop := Forall (fun l => l = []) st.

  Lemma all_empty_concat st : all_empty st -> concat st = [].
  Proof. induction 1; cbn; subst; auto. Qed.

  Lemma all_empty_nth st i : all_empty st -> nth i st [] = [].
  Proof.
    intros H. destruct (nth_error st i) eqn:E.
    - rewrite (nth_error_nth' _ _ _ [] E). unfold all_empty in H. rewrite Forall_forall in H. apply H. eapply nth_error_In; eauto.
    - apply nth_overflow. now apply nth_error_None.
  Qed.

  (** a complete run *)
  Theorem sched_complete_correct st out st' :
    sched cmp st out st' -> all_empty st' -> Forall sorted st -> tagged st ->
    sorted out /\ Permutation (concat st) out /\ forall i, of_input i out = nth i st [].
  Proof.
    intros Hrun He Hs Ht. destruct (sched_correct _ _ _ Hrun Hs Ht) as [I1 [_ [I3 [I4 _]]]].
    rewrite (all_empty_concat _ He), app_nil_r in I3.
    repeat split; auto. intros i. rewrite (I4 i), (all_empty_nth _ i He), app_nil_r. reflexivity.
  Qed.

  (** ** composing runs *)
  Lemma sched_app st out1 st1 out2 st2 :
    sched cmp st out1 st1 -> sched cmp st1 out2 st2 -> sched cmp st (out1 ++ out2) st2.
  Proof. induction 1; cbn; intros; [assumption|]. econstructor; eauto. Qed.

  (** a prefix of one input all of whose rows are <= the heads of the other
      inputs can be emitted in one go (bulk run emission) *)
  Lemma sched_prefix pre : forall st i post,
    nth_error st i = Some (pre ++ post) -> sorted (pre ++ post) ->
    (forall r j r' t, In r pre -> j <> i -> nth_error st j = Some (r' :: t) -> rle r r') ->
    sched cmp st pre (upd st i post).
  Proof.
    induction pre as [|r pre IH]; intros st i post Hi Hs Hle; cbn in *.
    - rewrite upd_id by assumption. constructor.
    - pose proof (nth_error_lt _ _ _ Hi) as Hlt.
      apply sched_cons with (i := i) (t := pre ++ post); [exact Hi| |].
      + intros j r' t Hj. destruct (Nat.eq_dec j i) as [->|Hne].
        * rewrite Hi in Hj. inversion Hj; subst. apply rle_refl.
        * eapply Hle; eauto.
      + rewrite <- (upd_upd st i (pre ++ post) post). apply IH.
        * now apply nth_error_upd_same.
        * now inversion Hs.
        * intros x j r' t Hx Hne Hj. rewrite nth_error_upd_other in Hj by auto. eapply Hle; eauto.
  Qed.

  (** ** the reference scheduler (first minimal head) is an instance *)
  Lemma min_head_spec st : forall i best,
    (forall bi br, best = Some (bi, br) -> (bi < i)%nat) ->
    match min_head K cmp st i best with
    | None => best = None /\ Forall (fun l => l = []) st
    | Some (mi, mr) =>
        (best = Some (mi, mr) \/ exists t, nth_error st (mi - i) = Some (mr :: t) /\ (i <= mi)%nat) /\
        (forall bi br, best = Some (bi, br) -> rle mr br) /\
        (forall j r' t, nth_error st j = Some (r' :: t) -> rle mr r')
    end.
  Proof.
    induction st as [|l st IH]; intros i best Hb; cbn [min_head].
    - destruct best as [[bi br]|]; [|auto].
      split; [now left|]. split; [intros ? ? E; inversion E; subst; apply rle_refl|].
      intros [|j] ? ? Hj; discriminate.
    - destruct l as [|r l].
      + specialize (IH (S i) best). destruct (min_head K cmp st (S i) best) as [[mi mr]|].
        * destruct IH as [I1 [I2 I3]]. { intros ? ? E. specialize (Hb _ _ E). lia. }
          split; [|split; [exact I2|]].
          -- destruct I1 as [I1|[t [I1 I1']]]; [now left|right]. exists t.
             replace (mi - i)%nat with (S (mi - S i)) by lia. cbn. split; [exact I1|lia].
          -- intros [|j] r' t Hj; cbn in Hj; [discriminate|eauto].
        * destruct IH as [I1 I2]. { intros ? ? E. specialize (Hb _ _ E). lia. }
          split; [exact I1|]. constructor; auto.
      + set (best' := match best with
                      | None => Some (i, r)
                      | Some (_, b) => if rcmp r b <? 0 then Some (i, r) else best
                      end).
        assert (Hsel : min_head K cmp st (S i) best' =
                       match best with
                       | None => min_head K cmp st (S i) (Some (i, r))
                       | Some (_, b) => if rcmp r b <? 0 then min_head K cmp st (S i) (Some (i, r))
                                        else min_head K cmp st (S i) best
                       end).
        { unfold best'. destruct best as [[? b]|]; [destruct (rcmp r b <? 0)|]; reflexivity. }
        rewrite <- Hsel. clear Hsel.
        assert (Hb' : forall bi br, best' = Some (bi, br) -> (bi < S i)%nat).
        { unfold best'. intros bi br E. destruct best as [[bi0 b]|].
          - destruct (rcmp r b <? 0); inversion E; subst; [lia|]. specialize (Hb _ _ eq_refl). lia.
          - inversion E; lia. }
        assert (Hr : exists bi br, best' = Some (bi, br) /\ rle br r /\
                       (forall ci cr, best = Some (ci, cr) -> rle br cr) /\
                       (best' = best \/ (bi = i /\ br = r))).
        { unfold best'. destruct best as [[bi0 b]|].
          - destruct (Z.ltb_spec (rcmp r b) 0).
            + exists i, r. repeat split; auto using rle_refl.
              intros ? ? E; inversion E; subst. unfold rle. lia.
            + exists bi0, b. repeat split; auto.
              * unfold rle. unfold Model.rcmp in *. apply cmp_ge_le. lia.
              * intros ? ? E; inversion E; subst. apply rle_refl.
          - exists i, r. repeat split; auto using rle_refl. intros ? ? E; discriminate. }
        destruct Hr as [bi [br [Hbest' [Hbr [Hold Hwhich]]]]].
        specialize (IH (S i) best' Hb'). rewrite Hbest' in *.
        destruct (min_head K cmp st (S i) (Some (bi, br))) as [[mi mr]|].
        * destruct IH as [I1 [I2 I3]]. specialize (I2 _ _ eq_refl).
          split; [|split].
          -- destruct I1 as [I1|[t [I1 I1']]].
             ++ inversion I1; subst mi mr. destruct Hwhich as [E|[-> ->]].
                ** left. now rewrite <- E.
                ** right. exists l. rewrite Nat.sub_diag. cbn. split; [reflexivity|lia].
             ++ right. exists t. replace (mi - i)%nat with (S (mi - S i)) by lia. cbn. split; [exact I1|lia].
          -- intros ci cr E. apply rle_trans with br; auto. eapply Hold; eauto.
          -- intros [|j] r' t Hj; cbn in Hj.
             ++ inversion Hj; subst. apply rle_trans with br; auto.
             ++ eauto.
        * destruct IH as [I1 _]. discriminate.
  Qed.

  Lemma ref_merge_sched fuel : forall st,
    (length (concat st) <= fuel)%nat ->
    exists st', sched cmp st (ref_merge K cmp fuel st) st' /\ all_empty st'.
  Proof.
    induction fuel as [|f IH]; intros st Hlen.
    - exists st. split; [constructor|].
      assert (E : concat st = []) by (destruct (concat st); cbn in *; [auto|lia]).
      clear Hlen. induction st as [|l st IHst]; [constructor|].
      cbn in E. apply app_eq_nil in E. destruct E. constructor; auto. apply IHst; auto.
    - cbn [ref_merge]. pose proof (min_head_spec st 0%nat None) as Hm.
      destruct (min_head K cmp st 0 None) as [[mi mr]|].
      + destruct Hm as [I1 [_ I3]]; [intros; discriminate|].
        destruct I1 as [I1|[t [I1 _]]]; [discriminate|]. rewrite Nat.sub_0_r in I1.
        rewrite (nth_error_nth' _ _ _ [] I1). cbn [tl].
        destruct (IH (upd st mi t)) as [st' [Hrun He]].
        { pose proof (concat_upd_perm _ _ _ _ I1) as Hp. apply Permutation_length in Hp. cbn in Hp. lia. }
        exists st'. split; [|exact He]. econstructor; eauto.
      + destruct Hm as [_ He]; [intros; discriminate|]. exists st. split; [constructor|exact He].
  Qed.

  Theorem ref_merge_all_correct st : Forall sorted st -> tagged st ->
    sorted (ref_merge_all cmp st) /\ Permutation (concat st) (ref_merge_all cmp st) /\
    forall i, of_input i (ref_merge_all cmp st) = nth i st [].
  Proof.
    intros Hs Ht. destruct (ref_merge_sched (length (concat st)) st (le_n _)) as [st' [Hrun He]].
    eapply sched_complete_correct; eauto.
  Qed.
End Abstract.
