(** The tournament tree of losers of mergedRowReader (merge.go:740).

    Positions 0..k-1 are the internal nodes, k+i is the leaf of buffer i, 2k a
    missing leaf; the children of p are 2p+1 and 2p+2.  [W] assigns to every
    position the winner of its subtree; the loser of the game played at p is
    stored in losers[p].  The invariant [Shape] says that [W] is consistent
    with the leaves, with the stored losers and with the comparison of the
    heads; it is established by playInitialGames and restored by replayGames
    after the head of the overall winner changed. *)
From Coq Require Import List ZArith Bool Arith Lia Sorting.Sorted Sorting.Permutation.
From PQ Require Import Generated.Consts Merge.Model Merge.AbstractProofs Merge.RunLengthProofs Merge.Merge2Proofs.
Import ListNotations.
Open Scope Z_scope.

(** * positions *)
Definition parent (p : nat) : nat := ((p - 1) / 2)%nat.

(* [up x q]: q is x or an ancestor of x *)
Inductive up (x : nat) : nat -> Prop :=
| up_refl : up x x
| up_step : forall q, (0 < q)%nat -> up x q -> up x (parent q).

Lemma parent_lt q : (0 < q)%nat -> (parent q < q)%nat.
Proof. intros H. unfold parent. apply Nat.div_lt_upper_bound; lia. Qed.

Lemma parent_child1 p : parent (2 * p + 1) = p.
Proof. unfold parent. replace (2 * p + 1 - 1)%nat with (p * 2)%nat by lia. now rewrite Nat.div_mul. Qed.

Lemma parent_child2 p : parent (2 * p + 2) = p.
Proof.
  unfold parent. replace (2 * p + 2 - 1)%nat with (1 + p * 2)%nat by lia.
  rewrite Nat.div_add by lia. cbn. lia.
Qed.

Lemma child_of_parent q : (0 < q)%nat -> q = (2 * parent q + 1)%nat \/ q = (2 * parent q + 2)%nat.
Proof.
  intros H. unfold parent.
  pose proof (Nat.div_mod (q - 1) 2 ltac:(lia)) as E.
  pose proof (Nat.mod_upper_bound (q - 1) 2 ltac:(lia)). lia.
Qed.

Lemma up_le x q : up x q -> (q <= x)%nat.
Proof. induction 1; [lia|]. pose proof (parent_lt q H). lia. Qed.

Lemma up_trans x q r : up x q -> up q r -> up x r.
Proof. intros H1 H2. induction H2; [exact H1|]. now apply up_step. Qed.

Lemma up_root x : up x 0.
Proof.
  induction x as [x IH] using lt_wf_ind. destruct x as [|x]; [constructor|].
  apply up_trans with (parent (S x)).
  - apply up_step; [lia|constructor].
  - apply IH. apply parent_lt. lia.
Qed.

(* an ancestor other than x itself is above the parent of x *)
Lemma up_strict x q : up x q -> q <> x -> up (parent x) q.
Proof.
  induction 1 as [|q Hq Hup IH]; intros Hne; [congruence|].
  destruct (Nat.eq_dec q x) as [->|Hqx]; [constructor|].
  apply up_step; auto.
Qed.

Lemma up_linear x a b : up x a -> up x b -> up a b \/ up b a.
Proof.
  intros Ha. revert b. induction Ha as [|a Ha0 Ha IH]; intros b Hb.
  - now left.
  - destruct (IH b Hb) as [H|H].
    + destruct (Nat.eq_dec b a) as [->|Hne].
      * right. apply up_step; [exact Ha0|constructor].
      * left. apply up_strict; auto.
    + right. now apply up_step.
Qed.

(* two siblings are not both on the path of x *)
Lemma up_siblings x a : up x (2 * a + 1) -> up x (2 * a + 2) -> False.
Proof.
  intros H1 H2. destruct (up_linear _ _ _ H1 H2) as [H|H].
  - apply up_le in H. lia.
  - assert (Hs : up (parent (2 * a + 2)) (2 * a + 1)) by (apply up_strict; [exact H|lia]).
    rewrite parent_child2 in Hs. apply up_le in Hs. lia.
Qed.

Lemma up_leaf k x q : (k <= q)%nat -> (x < 2 * k)%nat -> up x q -> q = x.
Proof.
  intros Hq Hx H. destruct (Nat.eq_dec q x) as [|Hne]; [assumption|].
  apply up_strict in H; [|exact Hne]. apply up_le in H. unfold parent in H.
  assert ((x - 1) / 2 < k)%nat by (apply Nat.div_lt_upper_bound; lia). lia.
Qed.

Lemma leaf_parent_eq (x : nat) : (1 <= x)%nat -> leaf_parent (Z.of_nat x) = parent x.
Proof.
  intros H. unfold leaf_parent, parent.
  replace (Z.of_nat x - 1) with (Z.of_nat (x - 1)) by lia.
  change 2 with (Z.of_nat 2). rewrite <- Nat2Z.inj_div. apply Nat2Z.id.
Qed.

Section Tree.
  Variable K : Type.
  Variable cmp : K -> K -> Z.
  Hypothesis cmp_opp : forall a b, cmp a b < 0 <-> cmp b a > 0.
  Hypothesis cmp_trans : forall a b d, cmp a b <= 0 -> cmp b d <= 0 -> cmp a d <= 0.

  Notation row := (row K).
  Notation buf := (buf K).
  Notation rcmp := (rcmp cmp).
  Notation sorted := (sorted K cmp).
  Notation rle := (rle K cmp).
  Notation sched := (sched cmp).

  (** ** heads: [None] is an exhausted reader, which loses every game *)
  Definition ole (x y : option row) : Prop :=
    match y with
    | None => True
    | Some b => match x with Some a => rle a b | None => False end
    end.

  Lemma ole_refl x : ole x x.
  Proof. destruct x; cbn; auto. apply (rle_refl K cmp cmp_opp). Qed.

  Lemma ole_trans x y z : ole x y -> ole y z -> ole x z.
  Proof.
    destruct z as [c|]; cbn; auto. destruct y as [b|]; cbn; [|contradiction].
    destruct x as [a|]; cbn; [|contradiction]. apply (rle_trans K cmp cmp_trans).
  Qed.

  Definition lv (hd : nat -> option row) (i : nat) : Z :=
    match hd i with Some _ => Z.of_nat i | None => -1 end.

  (* the head of a player *)
  Definition ph (hd : nat -> option row) (a : Z) : option row :=
    if a <? 0 then None else hd (Z.to_nat a).

  Definition loser (L : list Z) (p : nat) : Z := nth p L (-1).

  Record Shape (k : nat) (L : list Z) (w : Z) (hd : nat -> option row) (W : nat -> Z) : Prop := {
    sh_len : length L = k;
    sh_leaf : forall i, (i < k)%nat -> W (k + i)%nat = lv hd i;
    sh_phantom : W (2 * k)%nat = -1;
    sh_node : forall p, (p < k)%nat ->
      (W p = W (2 * p + 1)%nat /\ loser L p = W (2 * p + 2)%nat) \/
      (W p = W (2 * p + 2)%nat /\ loser L p = W (2 * p + 1)%nat);
    sh_game : forall p, (p < k)%nat -> ole (ph hd (W p)) (ph hd (loser L p));
    sh_root : W 0%nat = w;
    sh_hd : forall i, (k <= i)%nat -> hd i = None }.

  Definition TreeInv (k : nat) (L : list Z) (w : Z) (hd : nat -> option row) : Prop :=
    exists W, Shape k L w hd W.

  Section Facts.
    Variables (k : nat) (L : list Z) (w : Z) (hd : nat -> option row) (W : nat -> Z).
    Hypothesis SH : Shape k L w hd W.

    (* the winner of a subtree is one of its live leaves (or negative) *)
    Lemma provenance : forall q, (q <= 2 * k)%nat -> 0 <= W q ->
      exists i, (i < k)%nat /\ W q = Z.of_nat i /\ up (k + i) q /\ hd i <> None.
    Proof.
      intros q. induction q as [q IH] using (well_founded_induction (well_founded_ltof _ (fun q => 2 * k - q)%nat)).
      unfold ltof in IH. intros Hq Hw.
      destruct (Nat.lt_ge_cases q k) as [Hlt|Hge].
      - destruct (sh_node _ _ _ _ _ SH q Hlt) as [[E _]|[E _]]; rewrite E in Hw.
        + destruct (IH (2 * q + 1)%nat ltac:(lia) ltac:(lia) Hw) as [i [Hi [Ei [Hu Hh]]]].
          exists i. repeat split; auto; [congruence|]. rewrite <- (parent_child1 q). apply up_step; [lia|exact Hu].
        + destruct (IH (2 * q + 2)%nat ltac:(lia) ltac:(lia) Hw) as [i [Hi [Ei [Hu Hh]]]].
          exists i. repeat split; auto; [congruence|]. rewrite <- (parent_child2 q). apply up_step; [lia|exact Hu].
      - destruct (Nat.eq_dec q (2 * k)) as [->|Hne].
        + rewrite (sh_phantom _ _ _ _ _ SH) in Hw. lia.
        + replace q with (k + (q - k))%nat in * by lia. set (i := (q - k)%nat) in *.
          rewrite (sh_leaf _ _ _ _ _ SH i ltac:(lia)) in *. unfold lv in *.
          destruct (hd i) eqn:Eh; [|lia]. exists i. repeat split; auto; try lia; [constructor|congruence].
    Qed.

    Lemma player_range q : (q <= 2 * k)%nat -> -1 <= W q < Z.of_nat k.
    Proof.
      intros Hq. destruct (Z_lt_le_dec (W q) 0) as [Hn|Hp].
      - split; [|lia].
        (* negative winners are -1 *)
        revert Hq Hn. induction q as [q IH] using (well_founded_induction (well_founded_ltof _ (fun q => 2 * k - q)%nat)).
        unfold ltof in IH. intros Hq Hn.
        destruct (Nat.lt_ge_cases q k) as [Hlt|Hge].
        + destruct (sh_node _ _ _ _ _ SH q Hlt) as [[E _]|[E _]]; rewrite E in *; apply IH; lia.
        + destruct (Nat.eq_dec q (2 * k)) as [->|Hne]; [rewrite (sh_phantom _ _ _ _ _ SH); lia|].
          replace q with (k + (q - k))%nat in * by lia.
          rewrite (sh_leaf _ _ _ _ _ SH (q - k)%nat ltac:(lia)) in *. unfold lv in *. destruct (hd (q - k)%nat); lia.
      - destruct (provenance q Hq Hp) as [i [Hi [Ei _]]]. lia.
    Qed.

    Lemma loser_is_child p : (p < k)%nat -> exists c, (c = 2 * p + 1 \/ c = 2 * p + 2)%nat /\ loser L p = W c.
    Proof.
      intros Hp. destruct (sh_node _ _ _ _ _ SH p Hp) as [[_ E]|[_ E]];
        [exists (2 * p + 2)%nat|exists (2 * p + 1)%nat]; split; auto.
    Qed.

    (* the winner of a subtree beats every leaf below it *)
    Lemma subtree_min i : (i < k)%nat -> forall q, up (k + i) q -> ole (ph hd (W q)) (hd i).
    Proof.
      intros Hi q Hu. induction Hu as [|q Hq Hu IH].
      - rewrite (sh_leaf _ _ _ _ _ SH i Hi). unfold lv. destruct (hd i) eqn:E; [|exact I].
        unfold ph. destruct (Z.ltb_spec (Z.of_nat i) 0); [lia|]. rewrite Nat2Z.id, E. apply ole_refl.
      - pose proof (up_le _ _ Hu) as Hle.
        assert (Hpk : (parent q < k)%nat).
        { unfold parent. apply Nat.div_lt_upper_bound; lia. }
        pose proof (sh_game _ _ _ _ _ SH _ Hpk) as Hg.
        destruct (child_of_parent q Hq) as [Ec|Ec];
          destruct (sh_node _ _ _ _ _ SH _ Hpk) as [[E1 E2]|[E1 E2]]; rewrite <- Ec in *.
        + rewrite E1. exact IH.
        + rewrite E2 in Hg. eapply ole_trans; eauto.
        + rewrite E2 in Hg. eapply ole_trans; eauto.
        + rewrite E1. exact IH.
    Qed.

    (** the overall winner is a minimal head *)
    Lemma winner_minimal i : (i < k)%nat -> ole (ph hd w) (hd i).
    Proof. intros Hi. rewrite <- (sh_root _ _ _ _ _ SH). apply subtree_min; auto. apply up_root. Qed.

    (** on the path of the overall winner every subtree is won by it *)
    Variable wn : nat.
    Hypothesis Hw : w = Z.of_nat wn.

    Lemma wn_lt : (wn < k)%nat.
    Proof.
      pose proof (player_range 0%nat ltac:(lia)) as H. rewrite (sh_root _ _ _ _ _ SH), Hw in H. lia.
    Qed.

    Lemma not_winner_above q : up (k + wn) q -> W q <> w -> forall r, up q r -> W r <> w.
    Proof.
      intros Hx Hq r Hr. induction Hr as [|r Hr0 Hr IH]; [exact Hq|].
      pose proof (up_trans _ _ _ Hx Hr) as Hxr. pose proof (up_le _ _ Hxr) as Hle. pose proof wn_lt.
      assert (Hpk : (parent r < k)%nat) by (unfold parent; apply Nat.div_lt_upper_bound; lia).
      intros Heq.
      assert (Hsib : forall s, (s <= 2 * k)%nat -> W s = w -> up (k + wn) s).
      { intros s Hs Es. destruct (provenance s Hs ltac:(lia)) as [i [Hi [Ei [Hu _]]]].
        assert (i = wn) by lia. now subst i. }
      destruct (child_of_parent r Hr0) as [Ec|Ec];
        destruct (sh_node _ _ _ _ _ SH _ Hpk) as [[E1 _]|[E1 _]]; try rewrite <- Ec in *.
      + apply IH. congruence.
      + apply (up_siblings (k + wn) (parent r)); [rewrite <- Ec; exact Hxr|]. apply Hsib; [lia|congruence].
      + apply (up_siblings (k + wn) (parent r)); [|rewrite <- Ec; exact Hxr]. apply Hsib; [lia|congruence].
      + apply IH. congruence.
    Qed.

    Lemma winner_path q : up (k + wn) q -> W q = w.
    Proof.
      intros Hx. destruct (Z.eq_dec (W q) w) as [|Hne]; [assumption|exfalso].
      apply (not_winner_above q Hx Hne 0%nat (up_root q)). apply (sh_root _ _ _ _ _ SH).
    Qed.

    Lemma winner_only_on_path q : (q <= 2 * k)%nat -> W q = w -> up (k + wn) q.
    Proof.
      intros Hq Es. destruct (provenance q Hq ltac:(lia)) as [i [Hi [Ei [Hu _]]]].
      assert (i = wn) by lia. now subst i.
    Qed.

    (* at a node of the path the stored loser is the winner of the other subtree *)
    Lemma path_loser c s : (0 < c)%nat -> up (k + wn) c ->
      ((c = 2 * parent c + 1 /\ s = 2 * parent c + 2) \/ (c = 2 * parent c + 2 /\ s = 2 * parent c + 1))%nat ->
      loser L (parent c) = W s /\ ~ up (k + wn) s.
    Proof.
      intros Hc Hu Hs. pose proof (up_le _ _ Hu) as Hle. pose proof wn_lt.
      assert (Hpk : (parent c < k)%nat) by (unfold parent; apply Nat.div_lt_upper_bound; lia).
      pose proof (winner_path c Hu) as Ec. pose proof (winner_path _ (up_step _ _ Hc Hu)) as Ep.
      assert (Hns : ~ up (k + wn) s).
      { intros Hus. destruct Hs as [[E1 E2]|[E1 E2]].
        - apply (up_siblings (k + wn) (parent c)); congruence.
        - apply (up_siblings (k + wn) (parent c)); congruence. }
      split; [|exact Hns].
      destruct Hs as [[E1 E2]|[E1 E2]];
        destruct (sh_node _ _ _ _ _ SH _ Hpk) as [[F1 F2]|[F1 F2]]; rewrite <- ?E1, <- ?E2 in *; congruence.
    Qed.

    (* players stored off the winner's path are not the winner *)
    Lemma off_path_players q : (q < k)%nat -> ~ up (k + wn) q -> W q <> w /\ loser L q <> w.
    Proof.
      intros Hq Hn. split.
      - intros E. apply Hn. apply winner_only_on_path; [lia|exact E].
      - intros E. destruct (loser_is_child q Hq) as [c [Hc Ec]]. apply Hn.
        assert (Hu : up (k + wn) c) by (apply winner_only_on_path; [lia|congruence]).
        destruct Hc as [-> | ->]; [rewrite <- (parent_child1 q)|rewrite <- (parent_child2 q)]; apply up_step; auto; lia.
    Qed.
  End Facts.

  (** ** replayGames restores the invariant *)
  Definition heads (bufs : list buf) (i : nat) : option row := head_of K bufs (Z.of_nat i).

  Lemma heads_overflow bufs i : (length bufs <= i)%nat -> heads bufs i = None.
  Proof. intros H. unfold heads, head_of. rewrite Nat2Z.id, nth_overflow by exact H. reflexivity. Qed.

  Lemma ph_heads bufs a : 0 <= a -> ph (heads bufs) a = head_of K bufs a.
  Proof. intros H. unfold ph, heads. destruct (Z.ltb_spec a 0); [lia|]. now rewrite Z2Nat.id. Qed.

  Lemma cmp_heads_some bufs a b x y : 0 <= a -> 0 <= b ->
    ph (heads bufs) a = Some x -> ph (heads bufs) b = Some y -> cmp_heads K cmp bufs a b = rcmp x y.
  Proof. intros Ha Hb. rewrite !ph_heads by assumption. unfold cmp_heads. now intros -> ->. Qed.

  Lemma nth_upd_eq (l : list Z) i x d : (i < length l)%nat -> nth i (upd l i x) d = x.
  Proof. apply nth_upd_same. Qed.

  Section Replay.
    Variables (k : nat) (L : list Z) (hd : nat -> option row) (W : nat -> Z) (wn : nat).
    Hypothesis SH : Shape k L (Z.of_nat wn) hd W.
    Variable bufs : list buf.
    Hypothesis Hlen : length bufs = k.
    Hypothesis Hagree : forall i, i <> wn -> heads bufs i = hd i.

    Let hd' := heads bufs.
    Let x := (k + wn)%nat.

    Definition node_ok (Lc : list Z) (Wc : nat -> Z) (q : nat) : Prop :=
      ((Wc q = Wc (2 * q + 1)%nat /\ loser Lc q = Wc (2 * q + 2)%nat) \/
       (Wc q = Wc (2 * q + 2)%nat /\ loser Lc q = Wc (2 * q + 1)%nat)) /\
      ole (ph hd' (Wc q)) (ph hd' (loser Lc q)).

    Record WI (c : nat) (cand : Z) (Lc : list Z) (Wc : nat -> Z) : Prop := {
      wi_up : up x c;
      wi_pos : (0 < c)%nat;
      wi_len : length Lc = k;
      wi_cand : Wc c = cand;
      wi_cand_hd : 0 <= cand -> ph hd' cand <> None;
      wi_leaf : forall i, (i < k)%nat -> Wc (k + i)%nat = lv hd' i;
      wi_phantom : Wc (2 * k)%nat = -1;
      wi_done : forall q, (q < k)%nat -> ~ up (parent c) q -> node_ok Lc Wc q;
      wi_todo : forall q, up (parent c) q -> loser Lc q = loser L q;
      wi_off : forall q, ~ up x q -> Wc q = W q }.

    Lemma wn_lt' : (wn < k)%nat.
    Proof. exact (wn_lt k L _ hd W SH wn eq_refl). Qed.

    Lemma parent_lt_k c : up x c -> (0 < c)%nat -> (parent c < k)%nat.
    Proof.
      intros Hu Hc. pose proof (up_le _ _ Hu). pose proof wn_lt'. unfold parent.
      apply Nat.div_lt_upper_bound; unfold x in *; lia.
    Qed.

    (* one game of the replay *)
    Definition game (Lc : list Z) (cand : Z) (p : nat) : list Z * Z :=
      let player := nth p Lc (-1) in
      if (0 <=? player) && ((cand <? 0) || (cmp_heads K cmp bufs player cand <? 0))
      then (upd Lc p cand, player) else (Lc, cand).

    Lemma game_step c cand Lc Wc : WI c cand Lc Wc ->
      let p := parent c in
      let Lc' := fst (game Lc cand p) in
      let cand' := snd (game Lc cand p) in
      let Wc' := fun q => if (q =? p)%nat then cand' else Wc q in
      length Lc' = k /\ Wc' p = cand' /\ (0 <= cand' -> ph hd' cand' <> None) /\
      (forall i, (i < k)%nat -> Wc' (k + i)%nat = lv hd' i) /\ Wc' (2 * k)%nat = -1 /\
      node_ok Lc' Wc' p /\
      (forall q, (q < k)%nat -> ~ up p q -> node_ok Lc' Wc' q) /\
      (forall q, up p q -> q <> p -> loser Lc' q = loser L q) /\
      (forall q, ~ up x q -> Wc' q = W q).
    Proof.
      intros I p Lc' cand' Wc'. destruct I as [Iup Ipos Ilen Icand Ihd Ileaf Iph Idone Itodo Ioff].
      assert (Hp : (p < k)%nat) by (apply parent_lt_k; assumption).
      assert (Hpc : (p < c)%nat) by (apply parent_lt; assumption).
      assert (Hupp : up x p) by (apply up_step; assumption).
      assert (Hs : exists s, ((c = 2 * p + 1 /\ s = 2 * p + 2) \/ (c = 2 * p + 2 /\ s = 2 * p + 1))%nat).
      { destruct (child_of_parent c Ipos) as [Ec|Ec]; fold p in Ec; eexists; [left|right]; split; eauto. }
      destruct Hs as [s Hch].
      destruct (path_loser k L _ hd W SH wn eq_refl c s Ipos Iup Hch) as [Hl Hns]. fold p in Hl.
      assert (Hsp : (p < s <= 2 * k)%nat) by lia.
      assert (Hplayer : nth p Lc (-1) = Wc s).
      { change (nth p Lc (-1)) with (loser Lc p). rewrite (Itodo p (up_refl _)), Hl. symmetry. apply Ioff. exact Hns. }
      assert (Hphd : 0 <= Wc s -> ph hd' (Wc s) <> None).
      { rewrite (Ioff s Hns). intros H0.
        destruct (provenance k L _ hd W SH s ltac:(lia) H0) as [i [Hi [Ei [Hu Hh]]]].
        assert (i <> wn) by (intros ->; apply Hns; exact Hu).
        rewrite Ei. unfold ph. destruct (Z.ltb_spec (Z.of_nat i) 0); [lia|].
        rewrite Nat2Z.id. unfold hd'. rewrite Hagree by assumption. exact Hh. }
      assert (Hother : forall q, (q < k)%nat -> ~ up p q ->
                (q =? p)%nat = false /\ (2 * q + 1 =? p)%nat = false /\ (2 * q + 2 =? p)%nat = false).
      { intros q Hq Hn. repeat split; apply Nat.eqb_neq; intros E.
        - apply Hn. rewrite E. constructor.
        - apply Hn. rewrite <- (parent_child1 q), E. apply up_step; [lia|constructor].
        - apply Hn. rewrite <- (parent_child2 q), E. apply up_step; [lia|constructor]. }
      assert (Ec' : (c =? p)%nat = false) by (apply Nat.eqb_neq; lia).
      assert (Es' : (s =? p)%nat = false) by (apply Nat.eqb_neq; lia).
      assert (Epp : (p =? p)%nat = true) by apply Nat.eqb_refl.
      assert (Hnodes : forall (Lx : list Z) (cx : Z),
                 (forall q, q <> p -> loser Lx q = loser Lc q) ->
                 forall q, (q < k)%nat -> ~ up p q ->
                 node_ok Lx (fun q0 => if (q0 =? p)%nat then cx else Wc q0) q).
      { intros Lx cx HLx q Hq Hn. destruct (Hother q Hq Hn) as [E1 [E2 E3]].
        assert (Hn' : ~ up (parent c) q) by exact Hn.
        destruct (Idone q Hq Hn') as [N G]. unfold node_ok. rewrite E1, E2, E3.
        rewrite HLx by (apply Nat.eqb_neq; exact E1). split; assumption. }
      unfold Lc', cand', Wc', game. rewrite Hplayer.
      destruct ((0 <=? Wc s) && ((cand <? 0) || (cmp_heads K cmp bufs (Wc s) cand <? 0))) eqn:Econd; cbn [fst snd].
      - (* the stored player wins and moves up; the candidate is stored as the loser *)
        apply andb_true_iff in Econd. destruct Econd as [Hp0 Hc]. apply Z.leb_le in Hp0.
        assert (Hlp : loser (upd Lc p cand) p = cand) by (unfold loser; apply nth_upd_same; lia).
        repeat split.
        + rewrite upd_length. exact Ilen.
        + now rewrite Epp.
        + intros _. auto.
        + intros i Hi. replace (k + i =? p)%nat with false by (symmetry; apply Nat.eqb_neq; lia). auto.
        + replace (2 * k =? p)%nat with false by (symmetry; apply Nat.eqb_neq; lia). exact Iph.
        + rewrite Epp, Hlp. destruct Hch as [[-> ->]|[-> ->]];
            (replace (2 * p + 1 =? p)%nat with false by (symmetry; apply Nat.eqb_neq; lia));
            (replace (2 * p + 2 =? p)%nat with false by (symmetry; apply Nat.eqb_neq; lia)); [right|left]; auto.
        + rewrite Epp, Hlp. apply orb_true_iff in Hc. destruct Hc as [Hc|Hc].
          * apply Z.ltb_lt in Hc. unfold ph at 2. destruct (Z.ltb_spec cand 0); [exact I|lia].
          * apply Z.ltb_lt in Hc. destruct (Z_lt_le_dec cand 0) as [Hn|Hn].
            { unfold ph at 2. destruct (Z.ltb_spec cand 0); [exact I|lia]. }
            destruct (ph hd' (Wc s)) as [a|] eqn:Ea; [|exfalso; now apply (Hphd Hp0)].
            destruct (ph hd' cand) as [b|] eqn:Eb; [|exfalso; now apply (Ihd Hn)].
            rewrite (cmp_heads_some bufs _ _ a b Hp0 Hn Ea Eb) in Hc. cbn. unfold AbstractProofs.rle. lia.
        + apply Hnodes. intros q Hq. unfold loser. now rewrite nth_upd_other by auto.
        + intros q Hq Hne. unfold loser. rewrite nth_upd_other by auto. apply Itodo. exact Hq.
        + intros q Hq. replace (q =? p)%nat with false; [apply Ioff; exact Hq|].
          symmetry. apply Nat.eqb_neq. intros ->. auto.
      - (* the candidate keeps winning *)
        apply andb_false_iff in Econd.
        repeat split.
        + exact Ilen.
        + now rewrite Epp.
        + exact Ihd.
        + intros i Hi. replace (k + i =? p)%nat with false by (symmetry; apply Nat.eqb_neq; lia). auto.
        + replace (2 * k =? p)%nat with false by (symmetry; apply Nat.eqb_neq; lia). exact Iph.
        + rewrite Epp. change (loser Lc p) with (nth p Lc (-1)). rewrite Hplayer.
          destruct Hch as [[-> ->]|[-> ->]];
            (replace (2 * p + 1 =? p)%nat with false by (symmetry; apply Nat.eqb_neq; lia));
            (replace (2 * p + 2 =? p)%nat with false by (symmetry; apply Nat.eqb_neq; lia)); [left|right]; auto.
        + rewrite Epp. change (loser Lc p) with (nth p Lc (-1)). rewrite Hplayer.
          destruct (Z_lt_le_dec (Wc s) 0) as [Hn|Hp0].
          { unfold ph at 2. destruct (Z.ltb_spec (Wc s) 0); [exact I|lia]. }
          destruct Econd as [Hc|Hc]; [apply Z.leb_gt in Hc; lia|].
          apply orb_false_iff in Hc. destruct Hc as [Hc1 Hc2]. apply Z.ltb_ge in Hc1, Hc2.
          destruct (ph hd' (Wc s)) as [a|] eqn:Ea; [|exfalso; now apply (Hphd Hp0)].
          destruct (ph hd' cand) as [b|] eqn:Eb; [|exfalso; now apply (Ihd Hc1)].
          rewrite (cmp_heads_some bufs _ _ a b Hp0 Hc1 Ea Eb) in Hc2. cbn.
          unfold AbstractProofs.rle, Model.rcmp in *. apply (cmp_ge_le K cmp cmp_opp). lia.
        + apply Hnodes. auto.
        + intros q Hq Hne. apply Itodo. exact Hq.
        + intros q Hq. replace (q =? p)%nat with false; [apply Ioff; exact Hq|].
          symmetry. apply Nat.eqb_neq. intros ->. auto.
    Qed.
  End Replay.
End Tree.
