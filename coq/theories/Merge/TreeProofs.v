(** The tournament tree of losers of mergedRowReader (merge.go:740).

    Positions 0..k-1 are the internal nodes, k+i is the leaf of buffer i, 2k a
    missing leaf; the children of p are 2p+1 and 2p+2.  [W] assigns to every
    position the winner of its subtree; the loser of the game played at p is
    stored in losers[p].  The invariant [Shape] says that [W] is consistent
    with the leaves, with the stored losers and with the comparison of the
    heads; it is established by playInitialGames and restored by replayGames
    after the head of the overall winner changed. *)
From Coq Require Import List ZArith Bool Arith Lia Sorting.Sorted Sorting.Permutation.
From PQ Require Import Generated.Consts Merge.Model Merge.AbstractProofs Merge.RunLengthProofs Merge.Merge2Proofs.
Import ListNotations.
Open Scope Z_scope.

(** * positions *)
Definition parent (p : nat) : nat := ((p - 1) / 2)%nat.

(* [up x q]: q is x or an ancestor of x *)
Inductive up (x : nat) : nat -> Prop :=
| up_refl : up x x
| up_step : forall q, (0 < q)%nat -> up x q -> up x (parent q).

Lemma parent_lt q : (0 < q)%nat -> (parent q < q)%nat.
Proof. intros H. unfold parent. apply Nat.div_lt_upper_bound; lia. Qed.

Lemma parent_child1 p : parent (2 * p + 1) = p.
Proof. unfold parent. replace (2 * p + 1 - 1)%nat with (p * 2)%nat by lia. now rewrite Nat.div_mul. Qed.

Lemma parent_child2 p : parent (2 * p + 2) = p.
Proof.
  unfold parent. replace (2 * p + 2 - 1)%nat with (1 + p * 2)%nat by lia.
  rewrite Nat.div_add by lia. cbn. lia.
Qed.

Lemma child_of_parent q : (0 < q)%nat -> q = (2 * parent q + 1)%nat \/ q = (2 * parent q + 2)%nat.
Proof.
  intros H. unfold parent.
  pose proof (Nat.div_mod (q - 1) 2 ltac:(lia)) as E.
  pose proof (Nat.mod_upper_bound (q - 1) 2 ltac:(lia)). lia.
Qed.

Lemma up_le x q : up x q -> (q <= x)%nat.
Proof. induction 1; [lia|]. pose proof (parent_lt q H). lia. Qed.

Lemma up_trans x q r : up x q -> up q r -> up x r.
Proof. intros H1 H2. induction H2; [exact H1|]. now apply up_step. Qed.

Lemma up_root x : up x 0.
Proof.
  induction x as [x IH] using lt_wf_ind. destruct x as [|x]; [constructor|].
  apply up_trans with (parent (S x)).
  - apply up_step; [lia|constructor].
  - apply IH. apply parent_lt. lia.
Qed.

(* an ancestor other than x itself is above the parent of x *)
Lemma up_strict x q : up x q -> q <> x -> up (parent x) q.
Proof.
  induction 1 as [|q Hq Hup IH]; intros Hne; [congruence|].
  destruct (Nat.eq_dec q x) as [->|Hqx]; [constructor|].
  apply up_step; auto.
Qed.

Lemma up_linear x a b : up x a -> up x b -> up a b \/ up b a.
Proof.
  intros Ha. revert b. induction Ha as [|a Ha0 Ha IH]; intros b Hb.
  - now left.
  - destruct (IH b Hb) as [H|H].
    + destruct (Nat.eq_dec b a) as [->|Hne].
      * right. apply up_step; [exact Ha0|constructor].
      * left. apply up_strict; auto.
    + right. now apply up_step.
Qed.

(* two siblings are not both on the path of x *)
Lemma up_siblings x a : up x (2 * a + 1) -> up x (2 * a + 2) -> False.
Proof.
  intros H1 H2. destruct (up_linear _ _ _ H1 H2) as [H|H].
  - apply up_le in H. lia.
  - assert (Hs : up (parent (2 * a + 2)) (2 * a + 1)) by (apply up_strict; [exact H|lia]).
    rewrite parent_child2 in Hs. apply up_le in Hs. lia.
Qed.

Lemma up_leaf k x q : (k <= q)%nat -> (x < 2 * k)%nat -> up x q -> q = x.
Proof.
  intros Hq Hx H. destruct (Nat.eq_dec q x) as [|Hne]; [assumption|].
  apply up_strict in H; [|exact Hne]. apply up_le in H. unfold parent in H.
  assert ((x - 1) / 2 < k)%nat by (apply Nat.div_lt_upper_bound; lia). lia.
Qed.

Lemma up_dec x : forall q, {up x q} + {~ up x q}.
Proof.
  induction x as [x IH] using (well_founded_induction lt_wf). intros q.
  destruct (Nat.eq_dec q x) as [->|Hne]; [left; constructor|].
  destruct x as [|x'].
  - right. intros H. apply up_le in H. lia.
  - destruct (IH (parent (S x')) (parent_lt (S x') ltac:(lia)) q) as [H|H].
    + left. eapply up_trans; [|exact H]. apply up_step; [lia|constructor].
    + right. intros Hu. apply H. apply up_strict; auto.
Qed.

Lemma leaf_parent_eq (x : nat) : (1 <= x)%nat -> leaf_parent (Z.of_nat x) = parent x.
Proof.
  intros H. unfold leaf_parent, parent.
  replace (Z.of_nat x - 1) with (Z.of_nat (x - 1)) by lia.
  change 2 with (Z.of_nat 2). rewrite <- Nat2Z.inj_div. apply Nat2Z.id.
Qed.

Section Tree.
  Variable K : Type.
  Variable cmp : K -> K -> Z.
  Hypothesis cmp_opp : forall a b, cmp a b < 0 <-> cmp b a > 0.
  Hypothesis cmp_trans : forall a b d, cmp a b <= 0 -> cmp b d <= 0 -> cmp a d <= 0.

  Notation row := (row K).
  Notation buf := (buf K).
  Notation rcmp := (rcmp cmp).
  Notation sorted := (sorted K cmp).
  Notation rle := (rle K cmp).
  Notation sched := (sched cmp).

  (** ** heads: [None] is an exhausted reader, which loses every game *)
  Definition ole (x y : option row) : Prop :=
    match y with
    | None => True
    | Some b => match x with Some a => rle a b | None => False end
    end.

  Lemma ole_refl x : ole x x.
  Proof. destruct x; cbn; auto. apply (rle_refl K cmp cmp_opp). Qed.

  Lemma ole_trans x y z : ole x y -> ole y z -> ole x z.
  Proof.
    destruct z as [c|]; cbn; auto. destruct y as [b|]; cbn; [|contradiction].
    destruct x as [a|]; cbn; [|contradiction]. apply (rle_trans K cmp cmp_trans).
  Qed.

  Definition lv (hd : nat -> option row) (i : nat) : Z :=
    match hd i with Some _ => Z.of_nat i | None => -1 end.

  (* the head of a player *)
  Definition ph (hd : nat -> option row) (a : Z) : option row :=
    if a <? 0 then None else hd (Z.to_nat a).

  Definition loser (L : list Z) (p : nat) : Z := nth p L (-1).

  Record Shape (k : nat) (L : list Z) (w : Z) (hd : nat -> option row) (W : nat -> Z) : Prop := {
    sh_len : length L = k;
    sh_leaf : forall i, (i < k)%nat -> W (k + i)%nat = lv hd i;
    sh_phantom : W (2 * k)%nat = -1;
    sh_node : forall p, (p < k)%nat ->
      (W p = W (2 * p + 1)%nat /\ loser L p = W (2 * p + 2)%nat) \/
      (W p = W (2 * p + 2)%nat /\ loser L p = W (2 * p + 1)%nat);
    sh_game : forall p, (p < k)%nat -> ole (ph hd (W p)) (ph hd (loser L p));
    sh_root : W 0%nat = w;
    sh_hd : forall i, (k <= i)%nat -> hd i = None }.

  Definition TreeInv (k : nat) (L : list Z) (w : Z) (hd : nat -> option row) : Prop :=
    exists W, Shape k L w hd W.

  Section Facts.
    Variables (k : nat) (L : list Z) (w : Z) (hd : nat -> option row) (W : nat -> Z).
    Hypothesis SH : Shape k L w hd W.

    (* the winner of a subtree is one of its live leaves (or negative) *)
    Lemma provenance : forall q, (q <= 2 * k)%nat -> 0 <= W q ->
      exists i, (i < k)%nat /\ W q = Z.of_nat i /\ up (k + i) q /\ hd i <> None.
    Proof.
      intros q. induction q as [q IH] using (well_founded_induction (well_founded_ltof _ (fun q => 2 * k - q)%nat)).
      unfold ltof in IH. intros Hq Hw.
      destruct (Nat.lt_ge_cases q k) as [Hlt|Hge].
      - destruct (sh_node _ _ _ _ _ SH q Hlt) as [[E _]|[E _]]; rewrite E in Hw.
        + destruct (IH (2 * q + 1)%nat ltac:(lia) ltac:(lia) Hw) as [i [Hi [Ei [Hu Hh]]]].
          exists i. repeat split; auto; [congruence|]. rewrite <- (parent_child1 q). apply up_step; [lia|exact Hu].
        + destruct (IH (2 * q + 2)%nat ltac:(lia) ltac:(lia) Hw) as [i [Hi [Ei [Hu Hh]]]].
          exists i. repeat split; auto; [congruence|]. rewrite <- (parent_child2 q). apply up_step; [lia|exact Hu].
      - destruct (Nat.eq_dec q (2 * k)) as [->|Hne].
        + rewrite (sh_phantom _ _ _ _ _ SH) in Hw. lia.
        + replace q with (k + (q - k))%nat in * by lia. set (i := (q - k)%nat) in *.
          rewrite (sh_leaf _ _ _ _ _ SH i ltac:(lia)) in *. unfold lv in *.
          destruct (hd i) eqn:Eh; [|lia]. exists i. repeat split; auto; try lia; [constructor|congruence].
    Qed.

    Lemma player_range q : (q <= 2 * k)%nat -> -1 <= W q < Z.of_nat k.
    Proof.
      intros Hq. destruct (Z_lt_le_dec (W q) 0) as [Hn|Hp].
      - split; [|lia].
        (* negative winners are -1 *)
        revert Hq Hn. induction q as [q IH] using (well_founded_induction (well_founded_ltof _ (fun q => 2 * k - q)%nat)).
        unfold ltof in IH. intros Hq Hn.
        destruct (Nat.lt_ge_cases q k) as [Hlt|Hge].
        + destruct (sh_node _ _ _ _ _ SH q Hlt) as [[E _]|[E _]]; rewrite E in *; apply IH; lia.
        + destruct (Nat.eq_dec q (2 * k)) as [->|Hne]; [rewrite (sh_phantom _ _ _ _ _ SH); lia|].
          replace q with (k + (q - k))%nat in * by lia.
          rewrite (sh_leaf _ _ _ _ _ SH (q - k)%nat ltac:(lia)) in *. unfold lv in *. destruct (hd (q - k)%nat); lia.
      - destruct (provenance q Hq Hp) as [i [Hi [Ei _]]]. lia.
    Qed.

    Lemma loser_is_child p : (p < k)%nat -> exists c, (c = 2 * p + 1 \/ c = 2 * p + 2)%nat /\ loser L p = W c.
    Proof.
      intros Hp. destruct (sh_node _ _ _ _ _ SH p Hp) as [[_ E]|[_ E]];
        [exists (2 * p + 2)%nat|exists (2 * p + 1)%nat]; split; auto.
    Qed.

    (* the winner of a subtree beats every leaf below it *)
    Lemma subtree_min i : (i < k)%nat -> forall q, up (k + i) q -> ole (ph hd (W q)) (hd i).
    Proof.
      intros Hi q Hu. induction Hu as [|q Hq Hu IH].
      - rewrite (sh_leaf _ _ _ _ _ SH i Hi). unfold lv. destruct (hd i) eqn:E; [|exact I].
        unfold ph. destruct (Z.ltb_spec (Z.of_nat i) 0); [lia|]. rewrite Nat2Z.id, E. apply ole_refl.
      - pose proof (up_le _ _ Hu) as Hle.
        assert (Hpk : (parent q < k)%nat).
        { unfold parent. apply Nat.div_lt_upper_bound; lia. }
        pose proof (sh_game _ _ _ _ _ SH _ Hpk) as Hg.
        destruct (child_of_parent q Hq) as [Ec|Ec];
          destruct (sh_node _ _ _ _ _ SH _ Hpk) as [[E1 E2]|[E1 E2]]; rewrite <- Ec in *.
        + rewrite E1. exact IH.
        + rewrite E2 in Hg. eapply ole_trans; eauto.
        + rewrite E2 in Hg. eapply ole_trans; eauto.
        + rewrite E1. exact IH.
    Qed.

    (** the overall winner is a minimal head *)
    Lemma winner_minimal i : (i < k)%nat -> ole (ph hd w) (hd i).
    Proof. intros Hi. rewrite <- (sh_root _ _ _ _ _ SH). apply subtree_min; auto. apply up_root. Qed.

    (** on the path of the overall winner every subtree is won by it *)
    Variable wn : nat.
    Hypothesis Hw : w = Z.of_nat wn.

    Lemma wn_lt : (wn < k)%nat.
    Proof.
      pose proof (player_range 0%nat ltac:(lia)) as H. rewrite (sh_root _ _ _ _ _ SH), Hw in H. lia.
    Qed.

    Lemma not_winner_above q : up (k + wn) q -> W q <> w -> forall r, up q r -> W r <> w.
    Proof.
      intros Hx Hq r Hr. induction Hr as [|r Hr0 Hr IH]; [exact Hq|].
      pose proof (up_trans _ _ _ Hx Hr) as Hxr. pose proof (up_le _ _ Hxr) as Hle. pose proof wn_lt.
      assert (Hpk : (parent r < k)%nat) by (unfold parent; apply Nat.div_lt_upper_bound; lia).
      intros Heq.
      assert (Hsib : forall s, (s <= 2 * k)%nat -> W s = w -> up (k + wn) s).
      { intros s Hs Es. destruct (provenance s Hs ltac:(lia)) as [i [Hi [Ei [Hu _]]]].
        assert (i = wn) by lia. now subst i. }
      destruct (child_of_parent r Hr0) as [Ec|Ec];
        destruct (sh_node _ _ _ _ _ SH _ Hpk) as [[E1 _]|[E1 _]]; try rewrite <- Ec in *.
      + apply IH. congruence.
      + apply (up_siblings (k + wn) (parent r)); [rewrite <- Ec; exact Hxr|]. apply Hsib; [lia|congruence].
      + apply (up_siblings (k + wn) (parent r)); [|rewrite <- Ec; exact Hxr]. apply Hsib; [lia|congruence].
      + apply IH. congruence.
    Qed.

    Lemma winner_path q : up (k + wn) q -> W q = w.
    Proof.
      intros Hx. destruct (Z.eq_dec (W q) w) as [|Hne]; [assumption|exfalso].
      apply (not_winner_above q Hx Hne 0%nat (up_root q)). apply (sh_root _ _ _ _ _ SH).
    Qed.

    Lemma winner_only_on_path q : (q <= 2 * k)%nat -> W q = w -> up (k + wn) q.
    Proof.
      intros Hq Es. destruct (provenance q Hq ltac:(lia)) as [i [Hi [Ei [Hu _]]]].
      assert (i = wn) by lia. now subst i.
    Qed.

    (* at a node of the path the stored loser is the winner of the other subtree *)
    Lemma path_loser c s : (0 < c)%nat -> up (k + wn) c ->
      ((c = 2 * parent c + 1 /\ s = 2 * parent c + 2) \/ (c = 2 * parent c + 2 /\ s = 2 * parent c + 1))%nat ->
      loser L (parent c) = W s /\ ~ up (k + wn) s.
    Proof.
      intros Hc Hu Hs. pose proof (up_le _ _ Hu) as Hle. pose proof wn_lt.
      assert (Hpk : (parent c < k)%nat) by (unfold parent; apply Nat.div_lt_upper_bound; lia).
      pose proof (winner_path c Hu) as Ec. pose proof (winner_path _ (up_step _ _ Hc Hu)) as Ep.
      assert (Hns : ~ up (k + wn) s).
      { intros Hus. destruct Hs as [[E1 E2]|[E1 E2]].
        - apply (up_siblings (k + wn) (parent c)); congruence.
        - apply (up_siblings (k + wn) (parent c)); congruence. }
      split; [|exact Hns].
      destruct Hs as [[E1 E2]|[E1 E2]];
        destruct (sh_node _ _ _ _ _ SH _ Hpk) as [[F1 F2]|[F1 F2]]; rewrite <- ?E1, <- ?E2 in *; congruence.
    Qed.

    (* players stored off the winner's path are not the winner *)
    Lemma off_path_players q : (q < k)%nat -> ~ up (k + wn) q -> W q <> w /\ loser L q <> w.
    Proof.
      intros Hq Hn. split.
      - intros E. apply Hn. apply winner_only_on_path; [lia|exact E].
      - intros E. destruct (loser_is_child q Hq) as [c [Hc Ec]]. apply Hn.
        assert (Hu : up (k + wn) c) by (apply winner_only_on_path; [lia|congruence]).
        destruct Hc as [-> | ->]; [rewrite <- (parent_child1 q)|rewrite <- (parent_child2 q)]; apply up_step; auto; lia.
    Qed.
  End Facts.

  (** ** replayGames restores the invariant *)
  Definition heads (bufs : list buf) (i : nat) : option row := head_of K bufs (Z.of_nat i).

  Lemma heads_overflow bufs i : (length bufs <= i)%nat -> heads bufs i = None.
  Proof. intros H. unfold heads, head_of. rewrite Nat2Z.id, nth_overflow by exact H. reflexivity. Qed.

  Lemma ph_heads bufs a : 0 <= a -> ph (heads bufs) a = head_of K bufs a.
  Proof. intros H. unfold ph, heads. destruct (Z.ltb_spec a 0); [lia|]. now rewrite Z2Nat.id. Qed.

  Lemma cmp_heads_some bufs a b x y : 0 <= a -> 0 <= b ->
    ph (heads bufs) a = Some x -> ph (heads bufs) b = Some y -> cmp_heads K cmp bufs a b = rcmp x y.
  Proof. intros Ha Hb. rewrite !ph_heads by assumption. unfold cmp_heads. now intros -> ->. Qed.

  Lemma nth_upd_eq (l : list Z) i x d : (i < length l)%nat -> nth i (upd l i x) d = x.
  Proof. apply nth_upd_same. Qed.

  Section Replay.
    Variables (k : nat) (L : list Z) (hd : nat -> option row) (W : nat -> Z) (wn : nat).
    Hypothesis SH : Shape k L (Z.of_nat wn) hd W.
    Variable bufs : list buf.
    Hypothesis Hlen : length bufs = k.
    Hypothesis Hagree : forall i, i <> wn -> heads bufs i = hd i.

    Let hd' := heads bufs.
    Let x := (k + wn)%nat.

    Definition node_ok (Lc : list Z) (Wc : nat -> Z) (q : nat) : Prop :=
      ((Wc q = Wc (2 * q + 1)%nat /\ loser Lc q = Wc (2 * q + 2)%nat) \/
       (Wc q = Wc (2 * q + 2)%nat /\ loser Lc q = Wc (2 * q + 1)%nat)) /\
      ole (ph hd' (Wc q)) (ph hd' (loser Lc q)).

    Record WI (c : nat) (cand : Z) (Lc : list Z) (Wc : nat -> Z) : Prop := {
      wi_up : up x c;
      wi_pos : (0 < c)%nat;
      wi_len : length Lc = k;
      wi_cand : Wc c = cand;
      wi_cand_hd : 0 <= cand -> ph hd' cand <> None;
      wi_leaf : forall i, (i < k)%nat -> Wc (k + i)%nat = lv hd' i;
      wi_phantom : Wc (2 * k)%nat = -1;
      wi_done : forall q, (q < k)%nat -> ~ up (parent c) q -> node_ok Lc Wc q;
      wi_todo : forall q, up (parent c) q -> loser Lc q = loser L q;
      wi_off : forall q, ~ up x q -> Wc q = W q }.

    Lemma wn_lt' : (wn < k)%nat.
    Proof. exact (wn_lt k L _ hd W SH wn eq_refl). Qed.

    Lemma parent_lt_k c : up x c -> (0 < c)%nat -> (parent c < k)%nat.
    Proof.
      intros Hu Hc. pose proof (up_le _ _ Hu). pose proof wn_lt'. unfold parent.
      apply Nat.div_lt_upper_bound; unfold x in *; lia.
    Qed.

    (* one game of the replay *)
    Definition game (Lc : list Z) (cand : Z) (p : nat) : list Z * Z :=
      let player := nth p Lc (-1) in
      if (0 <=? player) && ((cand <? 0) || (cmp_heads K cmp bufs player cand <? 0))
      then (upd Lc p cand, player) else (Lc, cand).

    Lemma game_step c cand Lc Wc : WI c cand Lc Wc ->
      let p := parent c in
      let Lc' := fst (game Lc cand p) in
      let cand' := snd (game Lc cand p) in
      let Wc' := fun q => if (q =? p)%nat then cand' else Wc q in
      length Lc' = k /\ Wc' p = cand' /\ (0 <= cand' -> ph hd' cand' <> None) /\
      (forall i, (i < k)%nat -> Wc' (k + i)%nat = lv hd' i) /\ Wc' (2 * k)%nat = -1 /\
      node_ok Lc' Wc' p /\
      (forall q, (q < k)%nat -> ~ up p q -> node_ok Lc' Wc' q) /\
      (forall q, up p q -> q <> p -> loser Lc' q = loser L q) /\
      (forall q, ~ up x q -> Wc' q = W q).
    Proof.
      intros I p Lc' cand' Wc'. destruct I as [Iup Ipos Ilen Icand Ihd Ileaf Iph Idone Itodo Ioff].
      assert (Hp : (p < k)%nat) by (apply parent_lt_k; assumption).
      assert (Hpc : (p < c)%nat) by (apply parent_lt; assumption).
      assert (Hupp : up x p) by (apply up_step; assumption).
      assert (Hs : exists s, ((c = 2 * p + 1 /\ s = 2 * p + 2) \/ (c = 2 * p + 2 /\ s = 2 * p + 1))%nat).
      { destruct (child_of_parent c Ipos) as [Ec|Ec]; fold p in Ec; eexists; [left|right]; split; eauto. }
      destruct Hs as [s Hch].
      destruct (path_loser k L _ hd W SH wn eq_refl c s Ipos Iup Hch) as [Hl Hns]. fold p in Hl.
      assert (Hsp : (p < s <= 2 * k)%nat) by lia.
      assert (Hplayer : nth p Lc (-1) = Wc s).
      { change (nth p Lc (-1)) with (loser Lc p). rewrite (Itodo p (up_refl _)), Hl. symmetry. apply Ioff. exact Hns. }
      assert (Hphd : 0 <= Wc s -> ph hd' (Wc s) <> None).
      { rewrite (Ioff s Hns). intros H0.
        destruct (provenance k L _ hd W SH s ltac:(lia) H0) as [i [Hi [Ei [Hu Hh]]]].
        assert (i <> wn) by (intros ->; apply Hns; exact Hu).
        rewrite Ei. unfold ph. destruct (Z.ltb_spec (Z.of_nat i) 0); [lia|].
        rewrite Nat2Z.id. unfold hd'. rewrite Hagree by assumption. exact Hh. }
      assert (Hother : forall q, (q < k)%nat -> ~ up p q ->
                (q =? p)%nat = false /\ (2 * q + 1 =? p)%nat = false /\ (2 * q + 2 =? p)%nat = false).
      { intros q Hq Hn. repeat split; apply Nat.eqb_neq; intros E.
        - apply Hn. rewrite E. constructor.
        - apply Hn. rewrite <- (parent_child1 q), E. apply up_step; [lia|constructor].
        - apply Hn. rewrite <- (parent_child2 q), E. apply up_step; [lia|constructor]. }
      assert (Ec' : (c =? p)%nat = false) by (apply Nat.eqb_neq; lia).
      assert (Es' : (s =? p)%nat = false) by (apply Nat.eqb_neq; lia).
      assert (Epp : (p =? p)%nat = true) by apply Nat.eqb_refl.
      assert (Hnodes : forall (Lx : list Z) (cx : Z),
                 (forall q, q <> p -> loser Lx q = loser Lc q) ->
                 forall q, (q < k)%nat -> ~ up p q ->
                 node_ok Lx (fun q0 => if (q0 =? p)%nat then cx else Wc q0) q).
      { intros Lx cx HLx q Hq Hn. destruct (Hother q Hq Hn) as [E1 [E2 E3]].
        assert (Hn' : ~ up (parent c) q) by exact Hn.
        destruct (Idone q Hq Hn') as [N G]. unfold node_ok. rewrite E1, E2, E3.
        rewrite HLx by (apply Nat.eqb_neq; exact E1). split; assumption. }
      unfold Wc', Lc', cand', game. rewrite Hplayer.
      destruct ((0 <=? Wc s) && ((cand <? 0) || (cmp_heads K cmp bufs (Wc s) cand <? 0))) eqn:Econd; cbn [fst snd].
      - (* the stored player wins and moves up; the candidate is stored as the loser *)
        apply andb_true_iff in Econd. destruct Econd as [Hp0 Hc]. apply Z.leb_le in Hp0.
        assert (Hlp : loser (upd Lc p cand) p = cand) by (unfold loser; apply nth_upd_same; lia).
        split; [|split; [|split; [|split; [|split; [|split; [|split; [|split]]]]]]].
        + rewrite upd_length. exact Ilen.
        + now rewrite Epp.
        + intros _. auto.
        + intros i Hi. replace (k + i =? p)%nat with false by (symmetry; apply Nat.eqb_neq; lia). auto.
        + replace (2 * k =? p)%nat with false by (symmetry; apply Nat.eqb_neq; lia). exact Iph.
        + unfold node_ok. rewrite Epp, Hlp. split.
          { (replace (2 * p + 1 =? p)%nat with false by (symmetry; apply Nat.eqb_neq; lia));
            (replace (2 * p + 2 =? p)%nat with false by (symmetry; apply Nat.eqb_neq; lia)).
            destruct Hch as [[Ec Es]|[Ec Es]]; rewrite <- ?Ec, <- ?Es;
              first [left; split; congruence | right; split; congruence]. }
          apply orb_true_iff in Hc. destruct Hc as [Hc|Hc].
          * apply Z.ltb_lt in Hc. unfold ph at 2. destruct (Z.ltb_spec cand 0); [exact I|lia].
          * apply Z.ltb_lt in Hc. destruct (Z_lt_le_dec cand 0) as [Hn|Hn].
            { unfold ph at 2. destruct (Z.ltb_spec cand 0); [exact I|lia]. }
            destruct (ph hd' (Wc s)) as [a|] eqn:Ea; [|exfalso; now apply (Hphd Hp0)].
            destruct (ph hd' cand) as [b|] eqn:Eb; [|exfalso; now apply (Ihd Hn)].
            rewrite (cmp_heads_some bufs _ _ a b Hp0 Hn Ea Eb) in Hc. cbn. unfold AbstractProofs.rle. lia.
        + apply Hnodes. intros q Hq. unfold loser. now rewrite nth_upd_other by auto.
        + intros q Hq Hne. unfold loser. rewrite nth_upd_other by auto. apply Itodo. exact Hq.
        + intros q Hq. replace (q =? p)%nat with false; [apply Ioff; exact Hq|].
          symmetry. apply Nat.eqb_neq. intros ->. auto.
      - (* the candidate keeps winning *)
        apply andb_false_iff in Econd.
        split; [|split; [|split; [|split; [|split; [|split; [|split; [|split]]]]]]].
        + exact Ilen.
        + now rewrite Epp.
        + exact Ihd.
        + intros i Hi. replace (k + i =? p)%nat with false by (symmetry; apply Nat.eqb_neq; lia). auto.
        + replace (2 * k =? p)%nat with false by (symmetry; apply Nat.eqb_neq; lia). exact Iph.
        + unfold node_ok. rewrite Epp. change (loser Lc p) with (nth p Lc (-1)). rewrite Hplayer. split.
          { (replace (2 * p + 1 =? p)%nat with false by (symmetry; apply Nat.eqb_neq; lia));
            (replace (2 * p + 2 =? p)%nat with false by (symmetry; apply Nat.eqb_neq; lia)).
            destruct Hch as [[Ec Es]|[Ec Es]]; rewrite <- ?Ec, <- ?Es;
              first [left; split; congruence | right; split; congruence]. }
          destruct (Z_lt_le_dec (Wc s) 0) as [Hn|Hp0].
          { unfold ph at 2. destruct (Z.ltb_spec (Wc s) 0); [exact I|lia]. }
          destruct Econd as [Hc|Hc]; [apply Z.leb_gt in Hc; lia|].
          apply orb_false_iff in Hc. destruct Hc as [Hc1 Hc2]. apply Z.ltb_ge in Hc1, Hc2.
          destruct (ph hd' (Wc s)) as [a|] eqn:Ea; [|exfalso; now apply (Hphd Hp0)].
          destruct (ph hd' cand) as [b|] eqn:Eb; [|exfalso; now apply (Ihd Hc1)].
          rewrite (cmp_heads_some bufs _ _ a b Hp0 Hc1 Ea Eb) in Hc2. cbn.
          unfold AbstractProofs.rle, Model.rcmp in *. apply (cmp_ge_le K cmp cmp_opp). lia.
        + apply Hnodes. auto.
        + intros q Hq Hne. apply Itodo. exact Hq.
        + intros q Hq. replace (q =? p)%nat with false; [apply Ioff; exact Hq|].
          symmetry. apply Nat.eqb_neq. intros ->. auto.
    Qed.
    Lemma replay_walk_unfold fuel Lc cand p :
      replay_walk K cmp fuel bufs Lc cand p =
      match p, fuel with
      | O, _ => game Lc cand p
      | _, O => game Lc cand p
      | _, S f => replay_walk K cmp f bufs (fst (game Lc cand p)) (snd (game Lc cand p)) (parent p)
      end.
    Proof.
      unfold game. destruct fuel; cbn [replay_walk];
        destruct ((0 <=? nth p Lc (-1)) && ((cand <? 0) || (cmp_heads K cmp bufs (nth p Lc (-1)) cand <? 0)));
        destruct p; reflexivity.
    Qed.

    Lemma ph_agree a : a <> Z.of_nat wn -> ph hd' a = ph hd a.
    Proof.
      intros H. unfold ph. destruct (Z.ltb_spec a 0); [reflexivity|].
      unfold hd'. apply Hagree. lia.
    Qed.

    Lemma replay_walk_shape fuel : forall c cand Lc Wc,
      WI c cand Lc Wc -> (parent c <= fuel)%nat ->
      exists W', Shape k (fst (replay_walk K cmp fuel bufs Lc cand (parent c)))
                         (snd (replay_walk K cmp fuel bufs Lc cand (parent c))) hd' W'.
    Proof.
      induction fuel as [|f IH]; intros c cand Lc Wc I Hf;
        pose proof (game_step c cand Lc Wc I) as G; cbv zeta in G;
        destruct G as [G1 [G2 [G3 [G4 [G5 [G6 [G7 [G8 G9]]]]]]]];
        rewrite replay_walk_unfold.
      - assert (E : parent c = 0%nat) by lia. rewrite E in *. cbn [fst snd].
        exists (fun q : nat => if (q =? 0)%nat then snd (game Lc cand 0%nat) else Wc q). split; [exact G1|exact G4|exact G5| | |exact G2|].
        + intros q Hq. destruct (Nat.eq_dec q 0) as [->|Hne]; [apply G6|].
          apply G7; auto. intros Hu. apply up_le in Hu. lia.
        + intros q Hq. destruct (Nat.eq_dec q 0) as [->|Hne]; [apply G6|].
          apply G7; auto. intros Hu. apply up_le in Hu. lia.
        + intros i Hi. apply heads_overflow. lia.
      - destruct (parent c) as [|p'] eqn:E.
        + cbn [fst snd]. exists (fun q : nat => if (q =? 0)%nat then snd (game Lc cand 0%nat) else Wc q). split; [exact G1|exact G4|exact G5| | |exact G2|].
          * intros q Hq. destruct (Nat.eq_dec q 0) as [->|Hne]; [apply G6|].
            apply G7; auto. intros Hu. apply up_le in Hu. lia.
          * intros q Hq. destruct (Nat.eq_dec q 0) as [->|Hne]; [apply G6|].
            apply G7; auto. intros Hu. apply up_le in Hu. lia.
          * intros i Hi. apply heads_overflow. lia.
        + rewrite <- E in *. destruct I as [Iup Ipos Ilen Icand Ihd Ileaf Iph Idone Itodo Ioff].
          assert (Hpp : (0 < parent c)%nat) by lia.
          eapply (IH (parent c) _ _ (fun q : nat => if (q =? parent c)%nat then snd (game Lc cand (parent c)) else Wc q));
            [|pose proof (parent_lt _ Hpp); lia].
          split; auto.
          * now apply up_step.
          * intros q Hq Hn. destruct (Nat.eq_dec q (parent c)) as [->|Hne]; [exact G6|].
            apply G7; auto. intros Hu. apply Hn. apply up_strict; auto.
          * intros q Hu. apply G8.
            -- eapply up_trans; [|exact Hu]. apply up_step; [exact Hpp|constructor].
            -- apply up_le in Hu. pose proof (parent_lt _ Hpp). lia.
    Qed.

    Lemma wi_init :
      WI x (lv hd' wn) L (fun q => if (q =? x)%nat then lv hd' wn else W q).
    Proof.
      pose proof wn_lt' as Hwn.
      assert (Hx : forall q, (q < k)%nat -> (q =? x)%nat = false) by (intros; apply Nat.eqb_neq; unfold x; lia).
      split.
      - constructor.
      - unfold x. lia.
      - exact (sh_len _ _ _ _ _ SH).
      - now rewrite Nat.eqb_refl.
      - unfold lv. destruct (hd' wn) eqn:E; [|lia]. intros _. unfold ph.
        destruct (Z.ltb_spec (Z.of_nat wn) 0); [lia|]. rewrite Nat2Z.id. congruence.
      - intros i Hi. destruct (Nat.eq_dec i wn) as [->|Hne].
        + fold x. now rewrite Nat.eqb_refl.
        + replace (k + i =? x)%nat with false by (symmetry; apply Nat.eqb_neq; unfold x; lia).
          rewrite (sh_leaf _ _ _ _ _ SH i Hi). unfold lv, hd'. now rewrite Hagree.
      - replace (2 * k =? x)%nat with false by (symmetry; apply Nat.eqb_neq; unfold x; lia).
        exact (sh_phantom _ _ _ _ _ SH).
      - intros q Hq Hn.
        assert (Hnx : ~ up x q).
        { intros Hu. apply Hn. apply up_strict; [exact Hu|unfold x; lia]. }
        destruct (off_path_players k L _ hd W SH wn eq_refl q Hq Hnx) as [O1 O2].
        assert (E1 : (2 * q + 1 =? x)%nat = false).
        { apply Nat.eqb_neq. intros E. apply Hn. rewrite <- E, parent_child1. constructor. }
        assert (E2 : (2 * q + 2 =? x)%nat = false).
        { apply Nat.eqb_neq. intros E. apply Hn. rewrite <- E, parent_child2. constructor. }
        unfold node_ok. rewrite (Hx q Hq), E1, E2. split.
        + exact (sh_node _ _ _ _ _ SH q Hq).
        + rewrite !ph_agree by assumption. exact (sh_game _ _ _ _ _ SH q Hq).
      - reflexivity.
      - intros q Hn. replace (q =? x)%nat with false; [reflexivity|].
        symmetry. apply Nat.eqb_neq. intros ->. apply Hn. constructor.
    Qed.

    (** replayGames: from the leaf of the previous winner, whose head changed
        (or which is exhausted: candidate -1), the walk to the root restores
        the invariant for the current heads *)
    Theorem replay_walk_inv :
      TreeInv k (fst (replay_walk K cmp k bufs L (lv hd' wn) (parent x)))
                (snd (replay_walk K cmp k bufs L (lv hd' wn) (parent x))) hd'.
    Proof.
      eapply replay_walk_shape; [exact wi_init|].
      pose proof (parent_lt_k x (up_refl _)) as H. pose proof wn_lt'. unfold x in *. lia.
    Qed.
  End Replay.

  (** ** playInitialGames establishes the invariant *)
  Lemma up_child q i : up q i -> q <> i -> up q (2 * i + 1) \/ up q (2 * i + 2).
  Proof.
    intros H Hne. inversion H as [|r Hr Hu E]; [congruence|]. subst.
    destruct (child_of_parent r Hr) as [Ec|Ec]; [left|right]; rewrite <- Ec; exact Hu.
  Qed.

  Section Initial.
    Variable bufs : list buf.
    Variable leaves : list Z.
    Let k := length bufs.
    Let hd := heads bufs.
    Hypothesis Hleaves_len : length leaves = k.
    Hypothesis Hleaves : forall i, (i < k)%nat -> nth i leaves (-1) = lv hd i.

    Fixpoint Wf (d q : nat) : Z :=
      if (k <=? q)%nat then nth (q - k) leaves (-1)
      else match d with
           | O => -1
           | S d' => snd (play_game K cmp bufs (Wf d' (2 * q + 1)) (Wf d' (2 * q + 2)))
           end.

    Lemma Wf_leaf d q : (k <= q)%nat -> Wf d q = nth (q - k) leaves (-1).
    Proof. intros H. destruct d; cbn [Wf]; destruct (Nat.leb_spec k q); auto; lia. Qed.

    Lemma Wf_node d q : (q < k)%nat ->
      Wf (S d) q = snd (play_game K cmp bufs (Wf d (2 * q + 1)) (Wf d (2 * q + 2))).
    Proof. intros H. cbn [Wf]. destruct (Nat.leb_spec k q); [lia|reflexivity]. Qed.

    Lemma Wf_fuel d : forall q, ((q + 1) * 2 ^ d > k)%nat -> Wf (S d) q = Wf d q.
    Proof.
      induction d as [|d IH]; intros q Hq.
      - cbn in Hq. rewrite !Wf_leaf by lia. reflexivity.
      - destruct (Nat.lt_ge_cases q k) as [Hlt|Hge]; [|now rewrite !Wf_leaf by lia].
        rewrite (Wf_node (S d) q Hlt), (Wf_node d q Hlt).
        rewrite !IH; [reflexivity| |]; rewrite Nat.pow_succ_r' in Hq; nia.
    Qed.

    Definition W0 : nat -> Z := Wf (S k).

    Lemma pow_gt k' : (2 ^ k' > k')%nat.
    Proof. apply Nat.pow_gt_lin_r. lia. Qed.

    Lemma W0_node q : (q < k)%nat ->
      W0 q = snd (play_game K cmp bufs (W0 (2 * q + 1)) (W0 (2 * q + 2))).
    Proof.
      intros H. unfold W0. rewrite (Wf_node k q H).
      pose proof (pow_gt k). rewrite !(Wf_fuel k); [reflexivity| |]; nia.
    Qed.

    Lemma W0_fuel d q : ((q + 1) * 2 ^ d > k)%nat -> Wf d q = W0 q.
    Proof.
      intros H. unfold W0.
      (* both have enough fuel: compare through the larger *)
      assert (G : forall e, Wf (d + e) q = Wf d q).
      { induction e as [|e IHe]; [now rewrite Nat.add_0_r|].
        replace (d + S e)%nat with (S (d + e)) by lia. rewrite Wf_fuel; [exact IHe|].
        rewrite Nat.pow_add_r. pose proof (pow_gt e). nia. }
      assert (G' : forall e, Wf (S k + e) q = Wf (S k) q).
      { induction e as [|e IHe]; [now rewrite Nat.add_0_r|].
        replace (S k + S e)%nat with (S (S k + e)) by lia. rewrite Wf_fuel; [exact IHe|].
        rewrite Nat.pow_add_r. pose proof (pow_gt (S k)). pose proof (pow_gt e). nia. }
      rewrite <- (G (S k)), <- (G' d). f_equal. lia.
    Qed.

    Lemma play_initial_winner d : forall Lin q, snd (play_initial K cmp d bufs leaves Lin q) = Wf d q.
    Proof.
      induction d as [|d IH]; intros Lin q; cbn [play_initial Wf]; fold k;
        destruct (k <=? q)%nat; try reflexivity.
      pose proof (IH Lin (2 * q + 1)%nat) as H1.
      destruct (play_initial K cmp d bufs leaves Lin (2 * q + 1)) as [l1 n1]. cbn [snd] in H1.
      pose proof (IH l1 (2 * q + 2)%nat) as H2.
      destruct (play_initial K cmp d bufs leaves l1 (2 * q + 2)) as [l2 n2]. cbn [snd] in H2.
      subst. destruct (play_game K cmp bufs _ _); reflexivity.
    Qed.

    Lemma play_initial_losers d : forall Lin i, ((i + 1) * 2 ^ d > k)%nat -> length Lin = k ->
      let L' := fst (play_initial K cmp d bufs leaves Lin i) in
      length L' = k /\
      (forall q, ~ (up q i /\ (q < k)%nat) -> nth q L' (-1) = nth q Lin (-1)) /\
      (forall q, (q < k)%nat -> up q i ->
         nth q L' (-1) = fst (play_game K cmp bufs (W0 (2 * q + 1)) (W0 (2 * q + 2)))).
    Proof.
      induction d as [|d IH]; intros Lin i Hf Hlen; cbn [play_initial]; fold k.
      - cbn in Hf. destruct (Nat.leb_spec k i); [|lia]. cbn [fst].
        repeat split; auto. intros q Hq Hu. apply up_le in Hu. lia.
      - destruct (Nat.leb_spec k i) as [Hge|Hlt]; cbn [fst].
        { repeat split; auto. intros q Hq Hu. apply up_le in Hu. lia. }
        rewrite Nat.pow_succ_r' in Hf.
        pose proof (IH Lin (2 * i + 1)%nat ltac:(nia) Hlen) as I1.
        pose proof (play_initial_winner d Lin (2 * i + 1)%nat) as V1.
        destruct (play_initial K cmp d bufs leaves Lin (2 * i + 1)) as [l1 n1]. cbn [fst snd] in I1, V1.
        destruct I1 as [I1a [I1b I1c]].
        pose proof (IH l1 (2 * i + 2)%nat ltac:(nia) I1a) as I2.
        pose proof (play_initial_winner d l1 (2 * i + 2)%nat) as V2.
        destruct (play_initial K cmp d bufs leaves l1 (2 * i + 2)) as [l2 n2]. cbn [fst snd] in I2, V2.
        destruct I2 as [I2a [I2b I2c]].
        rewrite (W0_fuel d) in V1, V2 by nia. subst n1 n2.
        destruct (play_game K cmp bufs (W0 (2 * i + 1)) (W0 (2 * i + 2))) as [lo wi] eqn:Eg. cbn [fst].
        split; [rewrite upd_length; exact I2a|]. split.
        + intros q Hq.
          assert (q <> i) by (intros ->; apply Hq; split; [constructor|lia]).
          rewrite nth_upd_other by auto.
          rewrite I2b.
          * apply I1b. intros [Hu Hk]. apply Hq. split; [|exact Hk].
            rewrite <- (parent_child1 i). apply up_step; [lia|exact Hu].
          * intros [Hu Hk]. apply Hq. split; [|exact Hk].
            rewrite <- (parent_child2 i). apply up_step; [lia|exact Hu].
        + intros q Hq Hu. destruct (Nat.eq_dec q i) as [->|Hne].
          * rewrite nth_upd_same by lia. now rewrite Eg.
          * rewrite nth_upd_other by auto. destruct (up_child q i Hu Hne) as [Hc|Hc].
            -- rewrite I2b; [apply I1c; assumption|].
               intros [Hu2 _]. exact (up_siblings q i Hc Hu2).
            -- apply I2c; assumption.
    Qed.

    (* players that are not negative have a head *)
    Lemma Wf_alive d : forall q, 0 <= Wf d q -> ph hd (Wf d q) <> None.
    Proof.
      induction d as [|d IH]; intros q; cbn [Wf]; destruct (Nat.leb_spec k q) as [Hge|Hlt]; try lia.
      - intros H. destruct (Nat.lt_ge_cases (q - k) k) as [Hi|Hi].
        + rewrite Hleaves in * by assumption. unfold lv in *. destruct (hd (q - k)%nat) eqn:E; [|lia].
          unfold ph. destruct (Z.ltb_spec (Z.of_nat (q - k)) 0); [lia|]. rewrite Nat2Z.id. congruence.
        + rewrite nth_overflow in H by lia. lia.
      - intros H. destruct (Nat.lt_ge_cases (q - k) k) as [Hi|Hi].
        + rewrite Hleaves in * by assumption. unfold lv in *. destruct (hd (q - k)%nat) eqn:E; [|lia].
          unfold ph. destruct (Z.ltb_spec (Z.of_nat (q - k)) 0); [lia|]. rewrite Nat2Z.id. congruence.
        + rewrite nth_overflow in H by lia. lia.
      - unfold play_game.
        destruct (Wf d (2 * q + 1) <? 0); [apply IH|]. destruct (Wf d (2 * q + 2) <? 0); [apply IH|].
        destruct (cmp_heads K cmp bufs _ _ <? 0); apply IH.
    Qed.

    Lemma play_game_spec a b : (0 <= a -> ph hd a <> None) -> (0 <= b -> ph hd b <> None) ->
      let '(lo, wi) := play_game K cmp bufs a b in
      ((wi = a /\ lo = b) \/ (wi = b /\ lo = a)) /\ ole (ph hd wi) (ph hd lo).
    Proof.
      intros Ha Hb. unfold play_game.
      destruct (Z.ltb_spec a 0) as [Ha0|Ha0].
      { split; [now right|]. unfold ph at 2. destruct (Z.ltb_spec a 0); [exact I|lia]. }
      destruct (Z.ltb_spec b 0) as [Hb0|Hb0].
      { split; [now left|]. unfold ph at 2. destruct (Z.ltb_spec b 0); [exact I|lia]. }
      destruct (ph hd a) as [x|] eqn:Ea; [|exfalso; now apply Ha].
      destruct (ph hd b) as [y|] eqn:Eb; [|exfalso; now apply Hb].
      rewrite (cmp_heads_some bufs a b x y Ha0 Hb0 Ea Eb).
      destruct (Z.ltb_spec (rcmp x y) 0) as [Hc|Hc].
      - split; [now left|]. rewrite Ea, Eb. cbn. unfold AbstractProofs.rle. lia.
      - split; [now right|]. rewrite Ea, Eb. cbn. unfold AbstractProofs.rle, Model.rcmp in *.
        apply (cmp_ge_le K cmp cmp_opp). lia.
    Qed.

    Theorem play_initial_inv :
      let r := play_initial K cmp (S k) bufs leaves (repeat 0 k) 0 in
      TreeInv k (fst r) (snd r) hd.
    Proof.
      intros r. exists W0.
      pose proof (pow_gt (S k)) as Hp.
      destruct (play_initial_losers (S k) (repeat 0 k) 0%nat ltac:(lia) (repeat_length _ _)) as [P1 [_ P3]].
      fold r in P1, P3.
      assert (Hnode : forall p, (p < k)%nat ->
                ((W0 p = W0 (2 * p + 1)%nat /\ loser (fst r) p = W0 (2 * p + 2)%nat) \/
                 (W0 p = W0 (2 * p + 2)%nat /\ loser (fst r) p = W0 (2 * p + 1)%nat)) /\
                ole (ph hd (W0 p)) (ph hd (loser (fst r) p))).
      { intros p Hpk. unfold loser. rewrite (P3 p Hpk (up_root p)), (W0_node p Hpk).
        pose proof (play_game_spec (W0 (2 * p + 1)) (W0 (2 * p + 2)) (Wf_alive _ _) (Wf_alive _ _)) as G.
        destruct (play_game K cmp bufs (W0 (2 * p + 1)) (W0 (2 * p + 2))) as [lo wi]. cbn [fst snd].
        destruct G as [[[-> ->]|[-> ->]] G2]; auto. }
      split.
      - exact P1.
      - intros i Hi. unfold W0. rewrite Wf_leaf by lia. replace (k + i - k)%nat with i by lia. now apply Hleaves.
      - unfold W0. rewrite Wf_leaf by lia. apply nth_overflow. lia.
      - intros p Hpk. apply Hnode; assumption.
      - intros p Hpk. apply Hnode; assumption.
      - unfold r. rewrite play_initial_winner. reflexivity.
      - intros i Hi. apply heads_overflow. exact Hi.
    Qed.
  End Initial.

  (** ** runBound is the smallest head among the other readers *)
  Lemma bound_walk_spec bufs L fuel : forall p acc, (p <= fuel)%nat ->
    let r := bound_walk K cmp fuel bufs L p acc in
    ole r acc /\ forall q, up p q -> ole r (ph (heads bufs) (loser L q)).
  Proof.
    assert (Hstep : forall p acc,
      let player := nth p L (-1) in
      let b' := if 0 <=? player then
                  match head_of K bufs player with
                  | Some h => match acc with
                              | None => Some h
                              | Some b => if rcmp h b <? 0 then Some h else acc
                              end
                  | None => acc
                  end
                else acc in
      ole b' acc /\ ole b' (ph (heads bufs) (loser L p))).
    { intros p acc player b'. unfold loser. fold player. subst b'.
      destruct (Z.leb_spec 0 player) as [Hp|Hp].
      - rewrite ph_heads by assumption. destruct (head_of K bufs player) as [h|]; [|split; [apply ole_refl|exact I]].
        destruct acc as [b|]; [|split; [exact I|apply ole_refl]].
        destruct (Z.ltb_spec (rcmp h b) 0).
        + split; [|apply ole_refl]. cbn. unfold AbstractProofs.rle. lia.
        + split; [apply ole_refl|]. cbn. unfold AbstractProofs.rle, Model.rcmp in *.
          apply (cmp_ge_le K cmp cmp_opp). lia.
      - split; [apply ole_refl|]. unfold ph. destruct (Z.ltb_spec player 0); [exact I|lia]. }
    induction fuel as [|f IH]; intros p acc Hf r; subst r; cbn [bound_walk];
      destruct (Hstep p acc) as [S1 S2]; cbv zeta in S1, S2.
    - assert (p = 0%nat) by lia. subst p. split; [exact S1|].
      intros q Hq. apply up_le in Hq. assert (q = 0%nat) by lia. subst q. exact S2.
    - destruct p as [|p'].
      + split; [exact S1|]. intros q Hq. apply up_le in Hq. assert (q = 0%nat) by lia. subst q. exact S2.
      + change ((S p' - 1) / 2)%nat with (parent (S p')).
        match goal with |- context [bound_walk K cmp f bufs L _ ?b] => set (b' := b) in * end.
        destruct (IH (parent (S p')) b' ltac:(pose proof (parent_lt (S p') ltac:(lia)); lia)) as [I1 I2].
        split; [eapply ole_trans; eauto|].
        intros q Hq. destruct (Nat.eq_dec q (S p')) as [->|Hne].
        * eapply ole_trans; eauto.
        * apply I2. apply up_strict; auto.
  Qed.

  Section Bound.
    Variables (k : nat) (L : list Z) (hd : nat -> option row) (W : nat -> Z) (wn : nat).
    Hypothesis SH : Shape k L (Z.of_nat wn) hd W.
    Let x := (k + wn)%nat.

    (* every other reader is dominated by a loser stored on the winner's path *)
    Lemma path_covers i : (i < k)%nat -> i <> wn ->
      exists a, up (parent x) a /\ ole (ph hd (loser L a)) (hd i) /\ loser L a <> Z.of_nat wn.
    Proof.
      intros Hi Hne. pose proof (wn_lt k L _ hd W SH wn eq_refl) as Hwn.
      assert (P : forall q, up (k + i) q ->
                (~ up x q /\ ole (ph hd (W q)) (hd i)) \/
                (exists a, up (parent x) a /\ ole (ph hd (loser L a)) (hd i) /\ loser L a <> Z.of_nat wn)).
      { intros q Hu. induction Hu as [|q Hq Hu IH].
        - left. split.
          + intros Hx. apply (up_leaf k) in Hx; unfold x in *; lia.
          + apply (subtree_min k L _ hd W SH i Hi). constructor.
        - destruct IH as [[Hoff Hle]|IH]; [|now right].
          pose proof (up_le _ _ Hu) as Hqle.
          assert (Hpk : (parent q < k)%nat) by (unfold parent; apply Nat.div_lt_upper_bound; lia).
          destruct (up_dec x (parent q)) as [Hon|Hoff'].
          + (* the parent is on the path: q is the sibling of the path child *)
            right. exists (parent q).
            assert (Hc : up x (2 * parent q + 1) \/ up x (2 * parent q + 2)) by (apply up_child; [exact Hon|unfold x; lia]).
            assert (Hl : loser L (parent q) = W q /\ W q <> Z.of_nat wn).
            { split.
              - destruct (child_of_parent q Hq) as [Eq|Eq]; destruct Hc as [Hc|Hc]; try (rewrite <- Eq in Hc; contradiction).
                + pose proof (path_loser k L _ hd W SH wn eq_refl (2 * parent q + 2)%nat q ltac:(lia) Hc) as PL.
                  rewrite parent_child2 in PL. apply PL. right. split; [reflexivity|exact Eq].
                + pose proof (path_loser k L _ hd W SH wn eq_refl (2 * parent q + 1)%nat q ltac:(lia) Hc) as PL.
                  rewrite parent_child1 in PL. apply PL. left. split; [reflexivity|exact Eq].
              - intros E. apply Hoff. apply (winner_only_on_path k L _ hd W SH wn eq_refl); [lia|exact E]. }
            destruct Hl as [Hl Hnw]. rewrite Hl. repeat split; auto.
            apply up_strict; [exact Hon|unfold x; lia].
          + left. split; [exact Hoff'|].
            pose proof (sh_game _ _ _ _ _ SH _ Hpk) as Hg.
            destruct (child_of_parent q Hq) as [Ec|Ec];
              destruct (sh_node _ _ _ _ _ SH _ Hpk) as [[E1 E2]|[E1 E2]]; rewrite <- Ec in *.
            * now rewrite E1.
            * rewrite E2 in Hg. eapply ole_trans; eauto.
            * rewrite E2 in Hg. eapply ole_trans; eauto.
            * now rewrite E1. }
      destruct (P 0%nat (up_root _)) as [[Hoff _]|H]; [|exact H].
      exfalso. apply Hoff. apply up_root.
    Qed.
  End Bound.
End Tree.
